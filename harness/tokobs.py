"""Observation of kernpy token objects as plain JSON (class name, category index, encoding, sub-tokens)."""
from __future__ import annotations


def sub(s):
    return {'e': s.encoding, 'c': s.category.value - 1}


def note(t):
    return {'enc': t.encoding, 'pd': [sub(s) for s in t.pitch_duration_subtokens], 'dec': [sub(s) for s in t.decoration_subtokens]}


def obs(t):
    """model-comparable observation of a token (what the Lean `Tok` carries)"""
    from kernpy.core import tokens as T
    cls = type(t).__name__
    if isinstance(t, T.NoteRestToken):
        return {'cls': cls, 'cat': t.category.value - 1, **note(t)}
    if isinstance(t, T.ChordToken):
        return {'cls': cls, 'cat': t.category.value - 1, 'enc': t.encoding, 'notes': [note(n) for n in t.notes_tokens]}
    if isinstance(t, T.HeaderToken):
        return {'cls': cls, 'cat': t.category.value - 1, 'enc': t.encoding, 'spine': t.spine_id}
    return {'cls': cls, 'cat': t.category.value - 1, 'enc': t.encoding, 'hidden': bool(t.hidden)}


def fresh_kern(cell):
    """what a *fresh* KernSpineImporter does with the cell: observation, or None when it raises"""
    from kernpy.core.kern_spine_importer import KernSpineImporter
    try:
        t = KernSpineImporter().import_token(cell)
    except Exception:  # noqa
        return None, None
    if t is None:
        return None, None
    return t, obs(t)
