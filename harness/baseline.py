"""Runs the repository's pinned baseline (hooks guard OFF) and checks that every test of
/root/.vp/BASELINE.json's stable_pass list still passes.  Exit 0 iff all of them pass."""
import json, os, subprocess, sys, tempfile, xml.etree.ElementTree as ET
base = json.load(open('/root/.vp/BASELINE.json'))
env = dict(os.environ)
env.pop('KERNPY_VERIF', None)
env['PYTHONDONTWRITEBYTECODE'] = '1'
with tempfile.TemporaryDirectory() as d:
    x = os.path.join(d, 'junit.xml')
    cmd = ['/venv/bin/python', '-m', 'pytest', '-ra', '-q', '-p', 'no:cacheprovider', '--timeout=900',
           '--continue-on-collection-errors', f'--junitxml={x}']
    p = subprocess.run(cmd, cwd='/repo', env=env, stdout=subprocess.PIPE, stderr=subprocess.STDOUT, text=True)
    passed = set()
    for tc in ET.parse(x).getroot().iter('testcase'):
        if not any(ch.tag in ('failure', 'error', 'skipped') for ch in tc):
            passed.add(f"{tc.get('classname')}::{tc.get('name')}")
missing = [t for t in base['stable_pass'] if t not in passed]
print(f'baseline: {len(base["stable_pass"]) - len(missing)}/{len(base["stable_pass"])} stable tests pass; newly passing: '
      f'{len(passed - set(base["stable_pass"]))}')
for m in missing[:20]:
    print('  MISSING', m)
sys.exit(1 if missing else 0)
