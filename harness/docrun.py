"""
Shared document-level exploration: generate abstract documents, render them through the Lean driver,
import them with the real kernpy, run model import/exports for the tie, and evaluate grid-level
specification oracles (computed from the abstract document, never from kernpy's tree).
"""
from __future__ import annotations
import json
import gen, impl
from props.util import call

NULLISH = ('.', '*', '')
PREFIX = {'kern': '', 'ekern': 'e', 'bkern': 'b', 'bekern': 'be', 'akern': 'a', 'aekern': 'ae'}
ALLC = list(range(37))


def cat_index():
    from kernpy.core.tokens import TokenCategory as TC
    return {c.name: c.value - 1 for c in TC}


class Case:
    def __init__(self, adoc):
        self.adoc = adoc
        self.text = adoc['text']
        self.doc = None
        self.errors = None
        self.import_result = None

    def import_impl(self):
        def run():
            d, e = impl.import_text(self.text)
            return d, e
        try:
            self.doc, self.errors = run()
            self.import_result = {'ok': True}
        except ValueError:
            self.import_result = {'err': 'ValueError'}
        except Exception:  # noqa
            self.import_result = {'err': 'Exception'}
        return self.import_result


def make_cases(ctx, n, profiles=('core', 'free'), docs=None, **kw):
    """n generated documents (or the abstract documents given in `docs`), rendered, imported by the real code, counted"""
    global _DRIVER
    _DRIVER = ctx.driver
    rng = ctx.rng
    if docs is None:
        docs = []
        for _ in range(n):
            p = rng.choice(list(profiles))
            docs.append(gen.DocGen(rng, profile=p, **kw).make())
    gen.render_documents(ctx.driver, docs)
    cases = [Case(d) for d in docs]
    for c in cases:
        c.import_impl()
        noise(rng, c.doc)
        for row in c.adoc['rows']:
            ctx.count('row:' + (row['rk'] if row['kind'] == 'cells' else 'global'))
            if row['kind'] == 'cells':
                for cell in row['cells']:
                    ctx.count('cell:' + cell['k'] + (':' + cell.get('kind', '') if cell['k'] == 'other' else ''))
        ctx.count('spines:%d' % len(c.adoc['headers']))
    return cases


def raw_cases(ctx, adocs, kinds=None):
    """cases for the texts of gen.raw_variants derived from already rendered abstract documents; `adoc` holds only text, the source's
    headers and the kind (no grid: nothing here is compared with a grid oracle)"""
    cases = []
    for d in adocs:
        for kind, text in gen.raw_variants(ctx.rng, d):
            if kinds is not None and kind not in kinds:
                continue
            c = Case({'text': text, 'headers': list(d['headers']), 'rows': [], 'kind': kind})
            c.import_impl()
            noise(ctx.rng, c.doc)
            ctx.count('raw:' + kind)
            cases.append(c)
    return cases


def raw_range_tie(ctx, cases, encs=('kern',), max_m=5, what='range export of a text outside the generator\'s grammar differs from the model'):
    """correspondence only: every pair a <= b (and a few open / rejected pairs) of every imported raw case, impl vs model"""
    live = [c for c in cases if c.doc is not None]
    exps = []
    for c in live:
        M = min(len(c.doc.measure_start_tree_stages), max_m)
        pairs = [(a, b) for a in range(1, M + 1) for b in range(a, M + 1)] + [(0, M), (None, M), (1, None), (M, None), (2, 1), (1, M + 9)]
        c.raw_pairs = [(a, b, e) for e in encs for a, b in pairs]
        exps.append([{'cats': ALLC, 'enc': e, 'from': a, 'to': b} for a, b, e in c.raw_pairs])
    mresp = model_exports(ctx, live, exps)
    for c, mr in zip(live, mresp):
        if 'exports' not in mr:
            ctx.check({'text': c.text, 'clause': 'raw import'}, {'ok': True}, mr['import'], None, nontrivial=False, what='import outcome differs from the model')
            continue
        for (a, b, e), model in zip(c.raw_pairs, mr['exports']):
            got = dumps_public(c, {'from': a, 'to': b, 'enc': e})
            ctx.count('raw_range:' + c.adoc['kind'])
            ctx.check({'text': c.text, 'from_measure': a, 'to_measure': b, 'encoding': e, 'clause': 'raw text range (correspondence)'}, got, model, None,
                      nontrivial=False, what=what)


def noise(rng, doc):
    """a few read-only calls with arbitrary options before the calls a check looks at: on correct code they change nothing (C14), so every
    document-level check also sees the library after an arbitrary history of other calls (caches, shared option objects, module-level sets)"""
    if doc is None:
        return
    import kernpy as kp
    from kernpy.core.tokens import TokenCategory as TC
    from kernpy.core.tokenizers import Encoding
    cats = list(TC)
    encs = list(Encoding.__members__.values())
    for _ in range(rng.randint(0, 3)):
        k = rng.randrange(8)
        try:
            if k == 0:
                kp.dumps(doc, exclude=rng.sample(cats, rng.randint(1, 3)))
            elif k == 1:
                kp.dumps(doc, include=set(rng.sample(cats, rng.randint(1, 6))), exclude={rng.choice(cats)}, encoding=rng.choice(encs))
            elif k == 2:
                doc.get_all_tokens(filter_by_categories=rng.sample(cats, rng.randint(1, 3)))
            elif k == 3:
                kp.dumps(doc, spine_ids=[0], encoding=rng.choice(encs))
            elif k == 4:
                kp.dumps(doc, from_measure=1, to_measure=1)
            elif k == 5:
                TC.valid(include=None, exclude=rng.sample(cats, 2))
            elif k == 6:
                doc.get_unique_token_encodings(filter_by_categories=[rng.choice(cats)])
            else:
                kp.dumps(doc, spine_types=['**kern'], include=kp.BEKERN_CATEGORIES if hasattr(kp, 'BEKERN_CATEGORIES') else None, exclude=[rng.choice(cats)])
        except Exception:  # noqa  (out-of-range measures, unknown spines ...: the outcome of the noise is irrelevant)
            pass
    # objects the library hands out belong to the caller: editing them must not reach into the library
    if rng.random() < 0.5:
        try:
            from kernpy.core import ExportOptions
            k = rng.randrange(9)
            if k == 0:
                o = ExportOptions()
                o.spine_types.discard('**text') if hasattr(o.spine_types, 'discard') else o.spine_types.clear()
                o.token_categories.clear() if hasattr(o.token_categories, 'clear') else None
            elif k == 1:
                o = ExportOptions.default()
                if hasattr(o.spine_types, 'add'):
                    o.spine_types.add('**nonsense')
                else:
                    o.spine_types.append('**nonsense')
            elif k == 2:
                v = TC.valid()
                v -= {TC.DECORATION, TC.LYRICS, TC.BARLINES}
                a = TC.all()
                a.clear()
            elif k == 3:
                v = TC.valid(include=[TC.CORE], exclude=[TC.DURATION])
                v.clear()
                n = TC.nodes(TC.CORE)
                n.clear() if hasattr(n, 'clear') else None
            elif k == 4:
                l = kp.spine_types(doc)
                l.clear()
                l2 = kp.spine_types(doc, headers=['**kern'])
                l2.append('**x')
            elif k == 6:
                # pitch objects handed out by the public pitch importers
                from kernpy.core.pitch_models import HumdrumPitchImporter, PitchImporterFactory
                for spelling in ('c', 'G', 'ee', 'b-', 'f#', 'CC', 'a', 'dd'):
                    p = HumdrumPitchImporter().import_pitch(spelling)
                    p.octave = p.octave + 1
                    q = PitchImporterFactory.create('kern').import_pitch(spelling)
                    q.name = 'D'
            elif k == 7:
                # the category tree through the mapper class itself, positional and keyword calls
                from kernpy.core.tokens import TokenCategoryHierarchyMapper as HM
                for c in (TC.CORE, TC.NOTE_REST, TC.SIGNATURES, TC.STRUCTURAL):
                    for got in (HM.nodes(c), HM.nodes(parent=c), HM.children(c), HM.leaves(c), TC.nodes(c), TC.children(c), TC.leaves(c)):
                        if hasattr(got, 'clear'):
                            got.clear()
            elif k == 8:
                # questions about things that are not categories are answered (or refused) without being remembered
                from kernpy.core.tokens import TokenCategoryHierarchyMapper as HM
                for bad in ('CORE', None, 3, 'nonsense'):
                    for f in (HM.children, HM.leaves, TC.children, TC.leaves):
                        try:
                            f(bad)
                        except Exception:  # noqa
                            pass
            else:
                t = doc.get_all_tokens()
                t.clear()
                u = doc.get_unique_token_encodings()
                u.clear() if hasattr(u, 'clear') else None
                m = doc.get_metacomments()
                m.clear() if hasattr(m, 'clear') else None
        except Exception:  # noqa
            pass


def nontrivial(case):
    """>= 2 data rows and >= 1 note"""
    a = case.adoc
    nd = sum(1 for r in a['rows'] if r['kind'] == 'cells' and r['rk'] == 'data')
    note = any(c['k'] in ('note', 'chord') for c in gen.all_cells(a))
    return nd >= 2 and note


def model_exports(ctx, cases, exports_per_case, tree=False):
    """runs the model on every case; returns the driver responses"""
    reqs = []
    for case, exps in zip(cases, exports_per_case):
        reqs.append({'op': 'doc.run', 'text': case.text, 'oracle': impl.oracle_for_text(case.text), 'exports': exps, 'tree': tree})
    return ctx.driver.ask(reqs)


def tie_import(ctx, case, mresp, tree=False):
    """correspondence of the import outcome (error class / measure index / error list / optionally the whole tree)"""
    m = mresp['import']
    if case.doc is None:
        ctx.check({'text': case.text, 'clause': 'import'}, case.import_result, m if 'err' in m else {'ok': True}, None,
                  nontrivial=False, what='import outcome differs from the model')
        return False
    if 'err' in m:
        ctx.check({'text': case.text, 'clause': 'import'}, {'ok': True}, m, None, nontrivial=False, what='import outcome differs from the model')
        return False
    if tree:
        io = impl.doc_obs(case.doc, case.errors)
        mo = impl.canon_model_doc(m['ok'])
        ctx.check({'text': case.text, 'clause': 'tree'}, io, mo, None, nontrivial=nontrivial(case), what='imported tree differs from the model')
    else:
        io = {'starts': list(case.doc.measure_start_tree_stages), 'errors': [[e.line, e.encoding] for e in case.errors], 'n_stages': len(case.doc.tree.stages)}
        ctx.check({'text': case.text, 'clause': 'import summary'}, io, m['ok'], None, nontrivial=False, what='measure index / errors differ from the model')
    return True


def impl_export(case, o):
    return call(lambda: impl.export(case.doc, o))


# ------------------------------------------------------------------ grid oracles (from the abstract document only)
def clef_tracker(adoc):
    """for every cells-row: the clef text in force for each column *before* this row's own cells are taken into account"""
    clefs = None
    out = []
    for row in adoc['rows']:
        if row['kind'] != 'cells':
            out.append(None)
            continue
        if row['rk'] == 'header':
            clefs = [None] * len(row['cells'])
            out.append(list(clefs))
            continue
        out.append(list(clefs))
        nxt = []
        cells = row['cells']
        j = 0
        while j < len(cells):
            c = cells[j]
            cur = clefs[j]
            if c['k'] == 'other' and c.get('kind') == 'clef':
                cur = c['text']
            if c['k'] == 'op' and c['text'] == '*^':
                nxt += [cur, cur]
            elif c['k'] == 'op' and c['text'] == '*v':
                # a run of adjacent *v of the same spine collapses into the first
                k = j
                while k + 1 < len(cells) and cells[k + 1]['k'] == 'op' and cells[k + 1]['text'] == '*v' and row['live'][k + 1] == row['live'][j]:
                    k += 1
                nxt.append(cur)
                j = k
            elif c['k'] == 'op' and c['text'] == '*-':
                pass
            else:
                nxt.append(cur)
            j += 1
        clefs = nxt
    return out


def fill_views(ctx, cases, enc, cats_idx, key):
    """stores in every abstract cell c[key] = expected text under (enc, categories, clef in force), from the Lean spec"""
    reqs, refs = [], []
    for case in cases:
        tr = clef_tracker(case.adoc)
        for row, clefs in zip(case.adoc['rows'], tr):
            if row['kind'] != 'cells':
                continue
            for j, c in enumerate(row['cells']):
                if c['k'] == 'header':
                    c[key] = {'ok': '**' + PREFIX[enc] + c['text'][2:]} if 1 in cats_idx else {'ok': '.'}      # HEADER has index 1
                elif c['k'] == 'op':
                    c[key] = {'ok': c['text']} if 2 in cats_idx else {'ok': '.'}                               # SPINE_OPERATION index 2
                else:
                    clef = clefs[j] if clefs else None
                    if c['k'] == 'other' and c.get('kind') == 'clef':
                        clef = c['text']
                    reqs.append({'op': 'abs.view', 'cell': gen.clean(c),
                                 'enc': enc, 'cats': cats_idx, 'clef': clef})
                    refs.append(c)
    for c, r in zip(refs, ctx.driver.ask(reqs)):
        c[key] = r['view']


def spec_export(adoc, key, selected=None):
    """the export the property describes: one line per cells-row, one cell per selected column, all-null lines dropped"""
    lines = []
    for row in adoc['rows']:
        if row['kind'] != 'cells':
            continue
        cells = []
        for c, s in zip(row['cells'], row['live']):
            if selected is not None and not selected(s):
                continue
            v = c[key]
            if 'err' in v:
                return {'err': v['err']}
            cells.append(v['ok'])
        if cells and not all(x in NULLISH for x in cells):
            lines.append('\t'.join(cells))
    return {'ok': ''.join(l + '\n' for l in lines)}


# ------------------------------------------------------------------ a generic run: options x cases, tie + spec
def selected_fn(adoc, types, ids):
    hs = adoc['headers']
    def sel(s):
        return (types is None or hs[s] in types) and (ids is None or s in ids)
    return sel


def dumps_public(case, o, cats_objs=None):
    """through the public API (kp.dumps), options given the way a user gives them"""
    import kernpy as kp
    from kernpy.core.tokenizers import Encoding
    kw = {}
    if o.get('types') is not None:
        kw['spine_types'] = list(o['types'])
    if o.get('ids') is not None:
        kw['spine_ids'] = list(o['ids'])
    if o.get('include') is not None:
        kw['include'] = o['include']
    if o.get('exclude') is not None:
        kw['exclude'] = o['exclude']
    if o.get('enc') is not None:
        kw['encoding'] = Encoding(o['enc'])
    if o.get('from') is not None:
        kw['from_measure'] = o['from']
    if o.get('to') is not None:
        kw['to_measure'] = o['to']
    return call(lambda: kp.dumps(case.doc, **kw))


_DRIVER = None
_VALID_CACHE = {}


def _enc_arg(a):
    return None if a is None else {'k': 'list', 'v': sorted(c.value - 1 for c in a)}


def prefetch_valid(pairs):
    """one driver batch for many (include, exclude) pairs"""
    todo = []
    for inc, exc in pairs:
        key = json.dumps([_enc_arg(inc), _enc_arg(exc)])
        if key not in _VALID_CACHE and _DRIVER is not None:
            todo.append((key, inc, exc))
    if todo:
        resp = _DRIVER.ask([{'op': 'c11.valid', 'inc': _enc_arg(i), 'exc': _enc_arg(e)} for _, i, e in todo])
        for (key, _, _), r in zip(todo, resp):
            _VALID_CACHE[key] = sorted(r['spec']['ok'])


def valid_idx(include, exclude):
    """the selected set of the property: include categories with their descendants minus exclude categories with theirs.
    Taken from the Lean specification (Spec.selected over the documented tree), NOT from kernpy's own `valid`."""
    def enc(a):
        if a is None:
            return None
        return {'k': 'list', 'v': sorted(c.value - 1 for c in a)}
    key = json.dumps([enc(include), enc(exclude)])
    if key not in _VALID_CACHE:
        if _DRIVER is None:
            from kernpy.core.tokens import TokenCategory as TC
            return sorted(c.value - 1 for c in TC.valid(include=include, exclude=exclude))
        r = _DRIVER.ask([{'op': 'c11.valid', 'inc': enc(include), 'exc': enc(exclude)}])[0]
        _VALID_CACHE[key] = sorted(r['spec']['ok'])
    return _VALID_CACHE[key]


def run_option_sets(ctx, cases, combos, per_case_selections, what, clause, tie=True, spec=True, nontriv=None):
    """combos: list of dict(enc, include, exclude) shared by all cases; per_case_selections(case) -> list of dict(types, ids).
    For every case x combo x selection: impl (public API) vs model (tie) vs grid oracle (property)."""
    for ci, combo in enumerate(combos):
        cats = valid_idx(combo.get('include'), combo.get('exclude'))
        enc = combo.get('enc') or 'kern'
        key = '_v'
        if spec:
            fill_views(ctx, cases, enc, cats, key)
        sels = [per_case_selections(case) for case in cases]
        if tie:
            exps = [[{'cats': cats, 'enc': enc, 'types': s.get('types'), 'ids': s.get('ids')} for s in ss] for ss in sels]
            mresp = model_exports(ctx, cases, exps)
        for k, case in enumerate(cases):
            if case.doc is None:
                continue
            for si, s in enumerate(sels[k]):
                o = {'enc': combo.get('enc'), 'include': combo.get('include'), 'exclude': combo.get('exclude'), 'types': s.get('types'), 'ids': s.get('ids')}
                got = dumps_public(case, o)
                model = mresp[k]['exports'][si] if tie and 'exports' in mresp[k] else None
                sp = spec_export(case.adoc, key, selected_fn(case.adoc, s.get('types'), s.get('ids'))) if spec else None
                inp = {'text': case.text, 'encoding': combo.get('enc'),
                       'include': [c.name for c in combo['include']] if combo.get('include') is not None else None,
                       'exclude': [c.name for c in combo['exclude']] if combo.get('exclude') is not None else None,
                       'spine_types': s.get('types'), 'spine_ids': s.get('ids'), 'clause': clause}
                ctx.count('enc:%s' % enc)
                ctx.check(inp, got, model, sp, nontrivial=(nontrivial(case) if nontriv is None else nontriv(case, combo, s)), what=what)
                # the Lean specification of dumps(loads(text), options) as a function of the text (KernModel/Spec/TextExport.lean, theorem
                # C10_export_of_text): the real export must be exactly that
                if tie and mresp[k].get('wf') and 'spec' in mresp[k] and mresp[k]['spec'][si] is not None:
                    ls = mresp[k]['spec'][si]
                    ctx.count('lean_text_spec')
                    if got != ls:
                        ctx.fail({**inp, 'clause': clause + ' (Lean specification of dumps(loads(text), options))'},
                                 'the export is not what the specification of dumps(loads(text), options) as a function of the text says', impl=got, expected=ls)


# ------------------------------------------------------------------ the reference spine-path tracker on the abstract grid
def grid_tree(adoc):
    """Independent reading of the source grid: stage of every row, and for every cell its expected parent coordinate,
    header coordinate and spine id.  Returns (stages, order) where stages[s] = list of dict(parent, hdr, spine, kind, cell)
    and s = 1 + index of the row among all (non-empty) lines."""
    stages = [[{'parent': None, 'hdr': None, 'spine': None, 'kind': 'root', 'cell': None}]]
    last_pre = (0, 0)
    prev = None          # list of coords: the parent of column j of the next cells-row
    hdr_of = None        # parallel to prev: header coordinate
    for row in adoc['rows']:
        s = len(stages)
        if row['kind'] == 'global':
            stages.append([{'parent': last_pre, 'hdr': None, 'spine': None, 'kind': 'global', 'cell': row}])
            last_pre = (s, 0)
            continue
        cur, nxt, nxt_h = [], [], []
        cells = row['cells']
        j = 0
        for j, c in enumerate(cells):
            if c['k'] == 'header':
                cur.append({'parent': last_pre, 'hdr': (s, j), 'spine': j, 'kind': 'header', 'cell': c})
            else:
                cur.append({'parent': prev[j], 'hdr': hdr_of[j], 'spine': row['live'][j], 'kind': c['k'], 'cell': c})
        j = 0
        while j < len(cells):
            c = cells[j]
            h = cur[j]['hdr']
            if c['k'] == 'op' and c['text'] in ('*^', '*+'):
                nxt += [(s, j), (s, j)]; nxt_h += [h, h]
            elif c['k'] == 'op' and c['text'] == '*v':
                k = j
                while k + 1 < len(cells) and cells[k + 1]['k'] == 'op' and cells[k + 1]['text'] == '*v' and cur[k + 1]['hdr'] == h:
                    k += 1
                nxt.append((s, j)); nxt_h.append(h)
                j = k
            elif c['k'] == 'op' and c['text'] == '*-':
                pass
            else:
                nxt.append((s, j)); nxt_h.append(h)
            j += 1
        stages.append(cur)
        if nxt:
            prev, hdr_of = nxt, nxt_h
    return stages


def preorder(stages):
    """depth-first order of the grid tree: children in creation order (stage major, then column)"""
    kids = {}
    for s, st in enumerate(stages):
        for i, n in enumerate(st):
            if n['parent'] is not None:
                kids.setdefault(tuple(n['parent']), []).append((s, i))
    out, stack = [], [(0, 0)]
    while stack:
        c = stack.pop()
        out.append(c)
        stack.extend(reversed(kids.get(c, [])))
    return out



def reuse_objects(ctx, cases, steps=30, ranges=True):
    """ONE `Exporter` object and ONE `ExportOptions` object (default-constructed) serve a whole sequence of exports of several documents,
    through `Exporter.export_string` and `kernpy.export`: between the calls the fields of the options object are reassigned or the
    collections it holds are edited IN PLACE (a field whose value does not change is left alone), documents with different numbers of
    spines alternate, and some calls raise (an agnostic encoding on a spine without clef, a start beyond the last measure, an end before
    the start) - after a call that raised the same document is often exported again at once through the same objects.  Every result must
    be what fresh objects holding the same values give.  (Added after the sixth round of seeded changes: caches and state kept on the
    Exporter or written into the caller's options object - C05_r6_2, C06_r6_1, C07_r6_2, C08_r6_2, C13_r6_2, C14_r6_2.)"""
    import copy
    import kernpy as kp
    from kernpy.core import Exporter, ExportOptions
    from kernpy.core.tokens import TokenCategory as TC
    from kernpy.core.tokenizers import Encoding
    rng = ctx.rng
    live = [c for c in cases if c.doc is not None]
    if not live:
        return
    ex = opts = mine = history = again = None
    for step in range(steps):
        if step % 12 == 0:
            # a new pair of objects every dozen calls: what matters often happens in the first calls an object serves
            ex = Exporter()
            opts = ExportOptions()
            mine = {'types': None, 'ids': None, 'cats': None}      # what this function last put into the object (None: the constructor's default)
            history = []
            again = None
        case = again if again is not None and rng.random() < 0.7 else rng.choice(live)
        hs = case.adoc['headers']
        M = len(case.doc.measure_start_tree_stages)
        enc = rng.choice(list(Encoding)) if again is None else rng.choice([Encoding.normalizedKern, Encoding.eKern, Encoding.bEkern])
        exc = rng.choice([None, None, [TC.DECORATION], [TC.DURATION], [TC.LYRICS, TC.SIGNATURES], [TC.CORE]])
        cats = None if exc is None else sorted(TC.valid(include=None, exclude=exc), key=lambda c: c.value)
        types = rng.choice([None, None, ['**kern'], [], sorted(set(hs))[:1], sorted(set(hs))])
        ids = rng.choice([None, None, None, [0], list(range(len(hs))), [], [len(hs) - 1]])
        fm, tm = rng.choice([(None, None), (None, None), (1, None), (M, M), (None, 1), (M + 3, None), (2, 1), (1, M), (0, M), (M, None)]) if ranges else (None, None)
        vals = {'types': types, 'ids': ids, 'cats': 'all' if cats is None else [c.name for c in cats], 'enc': enc.name, 'from': fm, 'to': tm}
        all_cats = sorted(TC.valid(include=None, exclude=None), key=lambda c: c.value)
        # the shared options object: a field is touched only when its value changes; then it is reassigned, or the collection is edited in place
        if cats != mine['cats']:
            want = all_cats if cats is None else cats
            if rng.random() < 0.5 and isinstance(opts.token_categories, set):
                opts.token_categories.clear(); opts.token_categories.update(want); vals['how_cats'] = 'in place'
            elif rng.random() < 0.5 and isinstance(opts.token_categories, list):
                del opts.token_categories[:]; opts.token_categories.extend(want); vals['how_cats'] = 'in place'
            else:
                opts.token_categories = rng.choice([set, list])(want)
            mine['cats'] = cats
        if types != mine['types']:
            if types is None:
                opts.spine_types = copy.deepcopy(ExportOptions().spine_types)
            elif rng.random() < 0.5 and isinstance(opts.spine_types, list):
                del opts.spine_types[:]; opts.spine_types.extend(types); vals['how_types'] = 'in place'
            elif rng.random() < 0.5 and isinstance(opts.spine_types, set) and mine['types'] is not None:
                opts.spine_types.clear(); opts.spine_types.update(types); vals['how_types'] = 'in place'
            else:
                opts.spine_types = list(types)
            mine['types'] = types
        if ids != mine['ids']:
            if ids is not None and rng.random() < 0.5 and isinstance(opts.spine_ids, list):
                del opts.spine_ids[:]; opts.spine_ids.extend(ids); vals['how_ids'] = 'in place'
            else:
                opts.spine_ids = None if ids is None else list(ids)
            mine['ids'] = ids
        if opts.kern_type != enc:
            opts.kern_type = enc
        if (opts.from_measure, opts.to_measure) != (fm, tm):
            opts.from_measure, opts.to_measure = fm, tm
        via = 'Exporter.export_string' if again is not None or rng.random() < 0.7 else 'kernpy.export'
        vals['via'] = via
        history.append(vals)
        if via == 'kernpy.export':
            shared = call(lambda: kp.export(case.doc, opts))
        else:
            shared = call(lambda: ex.export_string(case.doc, opts))
        fresh = call(lambda: Exporter().export_string(case.doc, ExportOptions(
            spine_types=None if types is None else list(types), token_categories=set(all_cats if cats is None else cats), from_measure=fm, to_measure=tm,
            kern_type=enc, spine_ids=None if ids is None else list(ids))))
        ctx.seen({'text': case.text, 'clause': 'reused Exporter and ExportOptions', **{k: str(v) for k, v in vals.items()}}, True)
        ctx.count('reuse:' + ('raises' if 'err' in fresh else 'ok'))
        if shared != fresh:
            ctx.fail({'text': case.text, 'clause': 'reused Exporter and ExportOptions objects', 'this_call': {k: str(v) for k, v in vals.items()},
                      'earlier_calls': [{k: str(v) for k, v in h.items()} for h in history[:-1]][-6:]},
                     'an export through an Exporter / ExportOptions object that has served other calls differs from the export with fresh objects holding the same values',
                     impl=shared, expected=fresh)
            return
        again = case if 'err' in fresh and again is None else None



def edit_category_sets():
    """a caller empties every collection the category-tree functions hand out (enum and mapper class, for every category): what the library
    decides afterwards must not depend on it (round 6, C18_r6_1: `nodes()` memoised and returned the cached set itself)"""
    from kernpy.core.tokens import TokenCategory as TC, TokenCategoryHierarchyMapper as HM
    for c in TC:
        for f in (HM.nodes, HM.children, HM.leaves, TC.nodes, TC.children, TC.leaves):
            try:
                got = f(c)
                if hasattr(got, 'clear'):
                    got.clear()
            except Exception:  # noqa
                pass
    for f in (lambda: TC.valid(), lambda: TC.all(), lambda: TC.valid(include=[TC.SIGNATURES]), lambda: HM.valid(include=None, exclude=None), lambda: HM.all()):
        try:
            got = f()
            if hasattr(got, 'clear'):
                got.clear()
        except Exception:  # noqa
            pass
