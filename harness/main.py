"""
Entry point:   ./check Cxx quick|thorough [--replay file]      |      ./check --setup

Per check: translator -> lake build (proofs of that property + driver) -> textual and axiom audits
-> corpus + exploration through the driver (correspondence and property) -> verdict -> evidence.
"""
from __future__ import annotations
import importlib, json, os, signal, sys, time, traceback
from pathlib import Path

sys.dont_write_bytecode = True
HERE = Path(__file__).resolve().parent
sys.path.insert(0, str(HERE))
import common as C  # noqa: E402
import extract  # noqa: E402

BUDGET = {'quick': 900, 'thorough': 7200}


def on_alarm(signum, frame):
    print('TIMEOUT: check exceeded its time budget (exit 2, no verdict)', flush=True)
    os._exit(2)


def load_prop(pid):
    return importlib.import_module(f'props.{pid.lower()}')


def setup():
    ex = extract.run()
    if ex.problems:
        print('translator problems:', ex.problems)
    rc, out = C.lake_build(['KernModel', 'KernProofs', 'kerndriver'])
    print(out[-3000:])
    if rc != 0:
        print('SETUP: lake build failed')
        return 2
    if not C.BASELINE_FP.exists():
        C.BASELINE_FP.write_text(json.dumps(ex.fingerprints, indent=1, sort_keys=True))
    print('SETUP ok')
    return 0


def run_check(pid, tier, replay=None):
    seed = int(os.environ.get('VERIF_SEED', '0') or 0)
    prop = load_prop(pid)
    ctx = C.Ctx(pid, tier, seed)
    signal.signal(signal.SIGALRM, on_alarm)
    signal.alarm(BUDGET[tier])

    # 1. translator
    ex = extract.run()
    for p in ex.problems:
        ctx.broken.append(f'translator: {p}')
    base = json.loads(C.BASELINE_FP.read_text()) if C.BASELINE_FP.exists() else {}
    changed = sorted(k for k in getattr(prop, 'FINGERPRINTS', []) if base.get(k) != ex.fingerprints.get(k))
    if changed:
        ctx.notes.append(f'modelled source changed since baseline: {changed}')

    # 2. build: driver first (must stay available), then this property's proofs
    rc, out = C.lake_build(['kerndriver'])
    if rc != 0:
        ctx.broken.append('model/driver does not build against the regenerated tables: ' + out[-1500:])
        ctx.driver.available = False
    else:
        ctx.driver.available = C.DRIVER.exists()
    mods = C.prop_modules(prop)
    rc, out = C.lake_build(mods)
    proofs_ok = rc == 0
    if not proofs_ok:
        errs = [l for l in out.splitlines() if l.startswith('error:')]
        ctx.broken.append(f'proof obligation(s) in {" ".join(mods)} no longer check: ' + ' | '.join(errs)[:1500])

    # 3. audits
    hits = C.textual_audit()
    for h in hits:
        ctx.broken.append(f'textual audit: {h}')
    axioms = {}
    discharged = 0
    if proofs_ok:
        axioms, probs = C.axiom_audit(prop.LEAN_MODULE, prop.THEOREMS, extra_modules=mods[1:])
        for p in probs:
            ctx.broken.append(f'axiom audit: {p}')
        discharged = sum(1 for t in prop.THEOREMS if t in axioms and all(a in C.ALLOWED_AXIOMS for a in axioms[t]))
        if tier == 'thorough':
            with C.LakeLock():
                rc, out = C.sh(['lake', 'env', 'leanchecker', *mods], cwd=C.LEAN, timeout=3000)
            if rc != 0:
                ctx.broken.append('leanchecker rejected ' + ' '.join(mods) + ': ' + out[-500:])
            else:
                ctx.notes.append('leanchecker ok')

    # 4. exploration
    depth = tier
    if changed and tier == 'quick':
        depth = 'thorough'
        ctx.escalated = True
    try:
        if replay:
            prop.replay(ctx, json.loads(Path(replay).read_text(encoding='utf-8')))
        elif ctx.driver.available:
            prop.explore(ctx, depth)
        else:
            ctx.notes.append('driver unavailable: exploration skipped')
    except C.EnoughFailures:
        ctx.notes.append('exploration stopped early: enough failing inputs collected')
    except C.Infra as e:
        print(f'INFRA: {e}', flush=True)
        traceback.print_exc()
        return 2

    # 5. a broken proof / audit / translator / correspondence is not by itself a violation: search
    tie_broken = bool(ctx.broken or ctx.disagreements)
    if tie_broken and not ctx.failures and not replay and ctx.driver.available:
        ctx.notes.append('tie or proof broken: searching for a failing input with the thorough plan and extra seeds')
        for extra_seed in (seed + 1, seed + 2):
            if ctx.failures or ctx.elapsed() > BUDGET[tier] * 0.6:
                break
            import random
            ctx.rng = random.Random(extra_seed)
            ctx.escalated = True
            try:
                prop.explore(ctx, 'thorough' if depth == 'quick' else 'thorough')
            except C.EnoughFailures:
                ctx.notes.append('search stopped: enough failing inputs collected')
                break
            except C.Infra as e:
                ctx.notes.append(f'search aborted: {e}')
                break

    # 6. known findings: replay every open witness on the real code
    kf_lines = []
    for f in ctx.open_findings:
        try:
            w = json.loads((C.VERIF / f['witness']).read_text(encoding='utf-8'))
            still = prop.reproduce(ctx, f['key'], w)
        except C.Infra as e:
            print(f'INFRA: {e}', flush=True)
            return 2
        if still:
            kf_lines.append(f"KNOWN-FINDING: property={pid} {f['key']}: {f['what']}")
        else:
            ctx.notes.append(f"known finding {f['key']} no longer reproduces on this tree")

    # 7. verdict
    violations = 0
    lines = []
    if ctx.failures:
        violations = len(ctx.failures)
        best = min(ctx.failures, key=C.size_of)
        path = C.write_replay(pid, dict(property=pid, kind='failing-input', what=best.get('what'), input=best['input'],
                                        impl=best.get('impl'), expected=best.get('expected'), core=best.get('core'),
                                        broken=ctx.broken, n_failures=len(ctx.failures)))
        lines.append(f'VIOLATION property={pid} replay={path}')
    elif tie_broken:
        violations = 1
        payload = dict(property=pid, kind='no-failing-input-found', broken=ctx.broken,
                       correspondence_disagreements=ctx.disagreements[:5],
                       searched=dict(evaluations=ctx.evaluations, seeds=[seed, seed + 1, seed + 2]))
        path = C.write_replay(pid, payload)
        lines.append(f'VIOLATION property={pid} replay={path} no-failing-input-found')
    C.write_evidence(ctx, prop, prop.THEOREMS, discharged, axioms, violations)
    for l in kf_lines:
        print(l)
    for l in lines:
        print(l)
    print(f'{pid} {tier}: evaluations={ctx.evaluations} distinct_nontrivial={len(ctx.nontrivial)} '
          f'theorems={discharged}/{len(prop.THEOREMS)} disagreements={len(ctx.disagreements)} failures={len(ctx.failures)} '
          f'known_hits={ctx.known_hits} broken={len(ctx.broken)} wall={ctx.elapsed():.1f}s', flush=True)
    if ctx.broken:
        for b in ctx.broken[:5]:
            print('  broken:', b[:400])
    return 1 if violations else 0


def main(argv):
    if len(argv) >= 1 and argv[0] == '--setup':
        return setup()
    if len(argv) >= 1 and argv[0] == '--rebaseline':
        ex = extract.run()
        C.BASELINE_FP.write_text(json.dumps(ex.fingerprints, indent=1, sort_keys=True))
        print('fingerprint baseline rewritten from the current /repo tree')
        return 0
    if len(argv) < 2:
        print(__doc__)
        return 2
    pid, tier = argv[0], argv[1]
    replay = None
    if '--replay' in argv:
        replay = argv[argv.index('--replay') + 1]
    try:
        return run_check(pid, tier, replay)
    except subprocess_timeout as e:  # noqa
        print('TIMEOUT', e)
        return 2


import subprocess  # noqa: E402
subprocess_timeout = subprocess.TimeoutExpired

if __name__ == '__main__':
    try:
        rc = main(sys.argv[1:])
    except Exception:
        traceback.print_exc()
        rc = 2
    sys.exit(rc)
