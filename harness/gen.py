"""
Seeded generator of abstract cells and abstract documents of the supported Humdrum grammar
(the quantifier of C01), plus the damage stream.  Everything derives from one random.Random.

Abstract cells are the JSON form of KernModel.Abstract.ACell; the Lean driver renders them
(one renderer) and says what the listener must build (`tokOf`).
"""
from __future__ import annotations

# the 30 signifiers that do not combine with their neighbours (probed: all positions, repeats, ordered pairs)
SIG30 = list("$'()/:;JKLMNOSV[\\]^_`klmst{}~")
# also read as accidental-display suffix: only on notes without accidental
SIG_DISPLAY = list('XijZ')
REST_SIG = list("();'{}")          # restDecoration alternatives that are kept (stems are discarded by the listener)
REST_SIG_NOACC = ['X']
LETTERS = 'cdefgab'
ACCS = ['', '', '', '#', '-', '##', '--', 'n', '###', '---']
DISPLAYS = ['', '', '', 'X', 'x', 'i', 'I', 'j', 'Z', 'y', 'yy', 'Y', 'YY']
BAR_TYPES = ['', '', '', '||', '|!', '|!:', '|:', '!|:', ':|!', '=:|!', ':|!|:', ':||:', ':!:', ':!!:', '=']
HEADERS = ['**kern', '**text', '**dynam', '**dyn', '**harm', '**mxhm', '**fing', '**root']

CLEFS = ['*clefG2', '*clefF4', '*clefC3', '*clefC1', '*clefC4', '*clefF3', '*clefC2', '*clefGv2', '*clefG^2', '*clefFvv4']
KEYSIGS = ['*k[]', '*k[f#]', '*k[b-]', '*k[f#c#]', '*k[b-e-a-]', '*kcancel', '*k[f#c#g#d#]']
KEYS = ['*C:', '*a:', '*G:', '*e:', '*F#:', '*b-:', '*d:dor']
METERS = ['*met(c)', '*met(c|)', '*met(O)', '*met(C|)']
TIMESIGS = ['*M4/4', '*M3/4', '*M6/8', '*M2/2', '*M3+2/8', '*M12/8', '*M5/4']
STAFFS = ['*staff1', '*staff2', '*staff1/2']
INSTRS = ['*Ipiano', '*I"Organo', '*Ivioln', '*mI"Solo']
TANDEMS = ['*tb8', '*solo', '*above', '*below', '*cue', '*Xcue', '*MM120', '*8va', '*X8va', '*>A', '*>[A,B]', '*lh', '*rh', '*ped', '*Xped', '*part1', '*rscale:2']
LYRICS = ['Ky-', 'ri-', 'e', 'le-', 'i-', 'son', 'A-', 'men', 'señor', 'été', 'lu-', 'jah', 'the cat', 'a, b', '"quoted"', "it's", 'do re mi', 'glo-', 'ria', 'Ω', 'ß', 'x,y', 'and;']
DYNAMICS = ['p', 'f', 'mf', 'pp', 'ff', 'sfz', 'cresc.', 'dim.', '<', '>', 'fp', 'mp']
HARMONY = ['I', 'V7', 'IV', 'ii6', 'Cmaj7', 'N.C.', 'vi', 'V/V', 'bVII']
FINGERING = ['1', '2', '3', '5', '1 2', '3 5', '4']
ROOTS = ['4c', '2G', '4f#', '8r', '1C', '4e-']
TEXT_KIND = {'**text': ('lyrics', LYRICS), '**dynam': ('dynamics', DYNAMICS), '**dyn': ('dynamics', DYNAMICS),
             '**harm': ('harmony', HARMONY), '**mxhm': ('harmony', HARMONY), '**fing': ('fingering', FINGERING)}


class CellGen:
    def __init__(self, rng, sig_weight=0.35, canonical_only=True):
        self.rng = rng
        self.sig_weight = sig_weight
        self.canonical_only = canonical_only

    def dur(self, allow_none=True):
        r = self.rng
        if allow_none and r.random() < 0.06:
            return None
        num = r.choice(['1', '2', '4', '4', '8', '8', '16', '32', '3', '6', '12', '0', '00'])
        rat = r.choice(['3', '2', '5']) if r.random() < 0.06 else None
        dots = r.choice([0, 0, 0, 0, 1, 1, 2])
        grace = r.choice(['', '', '', '', '', '', 'q', 'qq', 'p', 'P']) if r.random() < 0.5 else ''
        return {'num': num, 'rat': rat, 'dots': dots, 'grace': grace}

    def sigs(self, alphabet, maxn=3):
        r = self.rng
        if r.random() > self.sig_weight:
            return []
        return [r.choice(alphabet) for _ in range(r.randint(1, maxn))]

    def pitch(self):
        r = self.rng
        l = r.choice(LETTERS)
        n = r.choice([1, 1, 1, 2, 2, 3, 4])
        return (l if r.random() < 0.6 else l.upper()) * n

    def note(self, dur_required=False):
        r = self.rng
        acc = r.choice(ACCS)
        disp = r.choice(DISPLAYS) if acc and r.random() < 0.3 else ''
        alpha = SIG30 if acc else SIG30 + SIG_DISPLAY
        d = self.dur(allow_none=not dur_required)
        pre = self.sigs(alpha)
        mid = self.sigs(alpha, 2) if d is not None else []
        post1 = self.sigs(SIG30, 2) if acc else []   # between pitch and accidental (display chars would be fine, keep simple)
        post2 = self.sigs(alpha)
        if acc and not disp:
            # a display-like signifier directly after the accidental would be read as display: SIG30 excludes them
            pass
        return {'k': 'note', 'pre': pre, 'dur': d, 'mid': mid, 'pitch': self.pitch(), 'post1': post1, 'acc': acc, 'disp': disp, 'post2': post2}

    def rest(self, dur_required=False):
        r = self.rng
        d = self.dur(allow_none=not dur_required)
        return {'k': 'rest', 'pre': self.sigs(REST_SIG, 2), 'dur': d, 'rr': 'rr' if r.random() < 0.1 else 'r', 'post': self.sigs(REST_SIG + REST_SIG_NOACC, 2)}

    def elem(self):
        return self.rest() if self.rng.random() < 0.2 else self.note()

    def chord(self):
        r = self.rng
        n = r.choice([2, 2, 3, 3, 4])
        es = []
        for i in range(n):
            e = self.rest(dur_required=(i == 0)) if r.random() < 0.08 else self.note(dur_required=(i == 0))
            if i > 0 and r.random() < 0.15:
                e['dur'] = None   # inherits the previous note's duration sub-tokens
                e['mid'] = [] if e['k'] == 'note' else e.get('mid')
            es.append(e)
        return {'k': 'chord', 'es': es}

    def bar(self, number=None):
        r = self.rng
        num = '' if number is None else str(number)
        if num and r.random() < 0.1:
            num += r.choice(['a', 'b'])
        return {'k': 'bar', 'double': r.random() < 0.1, 'number': num, 'hidden': False, 'type': r.choice(BAR_TYPES), 'fermata': r.random() < 0.08, 'tail': ''}

    def data_cell(self, header):
        r = self.rng
        if header in ('**kern',):
            x = r.random()
            if x < 0.12:
                return {'k': 'other', 'kind': 'empty', 'text': '.'}
            if x < 0.30:
                return self.chord()
            return self.elem()
        if header == '**root':
            return {'k': 'other', 'kind': 'empty', 'text': '.'} if r.random() < 0.3 else self.elem()
        kind, pool = TEXT_KIND.get(header, ('otherText', LYRICS))
        if r.random() < 0.3:
            return {'k': 'other', 'kind': 'empty', 'text': '.'}
        return {'k': 'other', 'kind': kind, 'text': r.choice(pool)}

    def interp_cell(self, header, what=None):
        """an interpretation cell (`*…`); non-kern spines mostly carry null interpretations"""
        r = self.rng
        if header not in ('**kern', '**root') and r.random() < 0.7:
            return {'k': 'other', 'kind': 'empty', 'text': '*'}
        what = what or r.choice(['clef', 'keysig', 'key', 'meter', 'timesig', 'staff', 'instr', 'tandem', 'null', 'null'])
        table = {'clef': ('clef', CLEFS), 'keysig': ('keySig', KEYSIGS), 'key': ('contextual', KEYS), 'meter': ('meter', METERS),
                 'timesig': ('timeSig', TIMESIGS), 'staff': ('staff', STAFFS), 'instr': ('nonvisual', INSTRS), 'null': ('empty', ['*'])}
        if what == 'tandem':
            t = r.choice(TANDEMS)
            kind = 'visual' if t in ('*above', '*below', '*cue', '*Xcue', '*ped', '*Xped', '*rscale:2') else ('contextual' if t in ('*MM120', '*8va', '*X8va') else 'nonvisual')
            return {'k': 'other', 'kind': kind, 'text': t}
        kind, pool = table[what]
        return {'k': 'other', 'kind': kind, 'text': r.choice(pool)}

    def comment_cell(self):
        r = self.rng
        return {'k': 'other', 'kind': 'fieldComment', 'text': r.choice(['!', '!', '!note', '!LO:TX:a', '!see, "this"', '!héllo'])}


def token_stream(rng, n, canonical_only=True):
    """n abstract **kern cells of mixed kinds (for the tokOf / tokenizer tie)"""
    g = CellGen(rng, sig_weight=0.6)
    out = []
    for _ in range(n):
        x = rng.random()
        if x < 0.5:
            out.append(g.note())
        elif x < 0.6:
            out.append(g.rest())
        elif x < 0.8:
            out.append(g.chord())
        elif x < 0.88:
            out.append(g.bar(rng.choice([None, 1, 12, 105])))
        else:
            out.append(g.interp_cell('**kern'))
    return out
