"""
Seeded generator of abstract cells and abstract documents of the supported Humdrum grammar
(the quantifier of C01), plus the damage stream.  Everything derives from one random.Random.

Abstract cells are the JSON form of KernModel.Abstract.ACell; the Lean driver renders them
(one renderer) and says what the listener must build (`tokOf`).
"""
from __future__ import annotations
import zlib

# the 30 signifiers that do not combine with their neighbours (probed: all positions, repeats, ordered pairs)
SIG30 = list('"' + "$'()/:;JKLMNOSV[\\]^_`klmst{}~")
assert len(SIG30) == 30
# also read as accidental-display suffix: only on notes without accidental
SIG_DISPLAY = list('XijZ')
REST_SIG = list("();'{}")          # restDecoration alternatives that are kept (stems are discarded by the listener)
REST_SIG_NOACC = ['X']
REST_POS = ['GG', 'dd', 'c', 'D', 'ee', 'b', 'AAA', 'f', 'BB']   # restPosition (vertical position of a rest): kept as one decoration, written after the r
LETTERS = 'cdefgab'
ACCS = ['', '', '', '#', '-', '##', '--', 'n', '###', '---']
DISPLAYS = ['', '', '', 'X', 'x', 'i', 'I', 'j', 'Z', 'y', 'yy', 'Y', 'YY']
BAR_TYPES = ['', '', '', '||', '|!', '|!:', '|:', '!|:', ':|!', '=:|!', ':|!|:', ':||:', ':!:', ':!!:', '=']
# global comments and reference records: taken literally, whatever their spelling (no blank after the colon, language tags, lower-case keys,
# keys that differ only in case, a tab inside, trailing blanks)
GLOBALS = ['!!!COM: Bach', '!! a comment', '!!!OTL: Title, "x"', '!!', '!!!voices: 2', '!!!ONB: señor', '!!!COM:Bach', '!!!OTL@@DE:Herr Gott', '!!!OTL@EN:Lord',
           '!!!com: lower', '!!!Comment: mixed', '!!!ENC:x', '!!! spaced', '!!!!four', '!!!COM: trailing  ', '!!!AGN:a; b', '!!!RDF**kern: i=editorial']
HEADERS = ['**kern', '**text', '**dynam', '**dyn', '**harm', '**mxhm', '**fing', '**root']

CLEFS = ['*clefG2', '*clefF4', '*clefC3', '*clefC1', '*clefC4', '*clefF3', '*clefC2', '*clefGv2', '*clefG^2', '*clefFvv4']
KEYSIGS = ['*k[]', '*k[f#]', '*k[b-]', '*k[f#c#]', '*k[b-e-a-]', '*kcancel', '*k[f#c#g#d#]']
KEYS = ['*C:', '*a:', '*G:', '*e:', '*F#:', '*b-:', '*d:dor']
METERS = ['*met(c)', '*met(c|)', '*met(O)', '*met(C|)']
TIMESIGS = ['*M4/4', '*M3/4', '*M6/8', '*M2/2', '*M3+2/8', '*M12/8', '*M5/4']
STAFFS = ['*staff1', '*staff2', '*staff1/2']
INSTRS = ['*Ipiano', '*I"Organo', '*Ivioln', '*mI"Solo']
TANDEMS = ['*tb8', '*solo', '*above', '*below', '*cue', '*Xcue', '*MM120', '*8va', '*X8va', '*>A', '*>[A,B]', '*lh', '*rh', '*ped', '*Xped', '*part1', '*rscale:2']
LYRICS = ['Ky-', 'ri-', 'e', 'le-', 'i-', 'son', 'A-', 'men', 'señor', 'été', 'lu-', 'jah', 'the cat', 'a, b', '"quoted"', "it's", 'do re mi', 'glo-', 'ria', 'Ω', 'ß', 'x,y', 'and;', '...', '..',
          # white space at the edges of a cell and text that mentions `**e...` (round 6: a `.strip()` in one tokenizer, a header rewrite applied to the whole text)
          'Ky- ', ' ri-', 'la**e', 'x**espr', 'e**', 'x**etext', 'see **ekern']
DYNAMICS = ['p', 'f', 'mf', 'pp', 'ff', 'sfz', 'cresc.', 'dim.', '<', '>', 'fp', 'mp']
HARMONY = ['I', 'V7', 'IV', 'ii6', 'Cmaj7', 'N.C.', 'vi', 'V/V', 'bVII']
FINGERING = ['1', '2', '3', '5', '1 2', '3 5', '4']
ROOTS = ['4c', '2G', '4f#', '8r', '1C', '4e-']
TEXT_KIND = {'**text': ('lyrics', LYRICS), '**dynam': ('dynamics', DYNAMICS), '**dyn': ('dynamics', DYNAMICS),
             '**harm': ('harmony', HARMONY), '**mxhm': ('harmony', HARMONY), '**fing': ('fingering', FINGERING)}


class CellGen:
    def __init__(self, rng, sig_weight=0.35, canonical_only=True):
        self.rng = rng
        self.sig_weight = sig_weight
        self.canonical_only = canonical_only

    def dur(self, allow_none=True):
        r = self.rng
        if allow_none and r.random() < 0.06:
            return None
        num = r.choice(['1', '2', '4', '4', '8', '8', '16', '32', '3', '6', '12', '0', '00'])
        rat = r.choice(['3', '2', '5']) if r.random() < 0.06 else None
        dots = r.choice([0, 0, 0, 0, 1, 1, 2])
        grace = r.choice(['', '', '', '', '', '', 'q', 'qq', 'p', 'P']) if r.random() < 0.5 else ''
        return {'num': num, 'rat': rat, 'dots': dots, 'grace': grace}

    def sigs(self, alphabet, maxn=3):
        r = self.rng
        if r.random() > self.sig_weight:
            return []
        return [r.choice(alphabet) for _ in range(r.randint(1, maxn))]

    def pitch(self):
        r = self.rng
        l = r.choice(LETTERS)
        n = r.choice([1, 1, 1, 2, 2, 3, 4, 5])        # five letters: octave 8 (`ccccc`) and octave -1 (`CCCCC`), the ends of the supported range
        return (l if r.random() < 0.6 else l.upper()) * n

    def note(self, dur_required=False):
        r = self.rng
        acc = r.choice(ACCS)
        disp = r.choice(DISPLAYS) if acc and r.random() < 0.3 else ''
        alpha = SIG30 if acc else SIG30 + SIG_DISPLAY
        d = self.dur(allow_none=not dur_required)
        pre = self.sigs(alpha)
        mid = self.sigs(alpha, 2) if d is not None else []
        post1 = self.sigs(SIG30, 2) if acc else []   # between pitch and accidental (display chars would be fine, keep simple)
        post2 = self.sigs(alpha)
        if acc and not disp:
            # a display-like signifier directly after the accidental would be read as display: SIG30 excludes them
            pass
        return {'k': 'note', 'pre': pre, 'dur': d, 'mid': mid, 'pitch': self.pitch(), 'post1': post1, 'acc': acc, 'disp': disp, 'post2': post2}

    def rest(self, dur_required=False):
        r = self.rng
        d = self.dur(allow_none=not dur_required)
        post = self.sigs(REST_SIG + REST_SIG_NOACC, 2)
        if r.random() < 0.2:
            post.insert(r.randint(0, len(post)), r.choice(REST_POS))
        return {'k': 'rest', 'pre': self.sigs(REST_SIG, 2), 'dur': d, 'rr': 'rr' if r.random() < 0.1 else 'r', 'post': post}

    def elem(self):
        return self.rest() if self.rng.random() < 0.2 else self.note()

    def chord(self):
        r = self.rng
        n = r.choice([2, 2, 3, 3, 4])
        es = []
        for i in range(n):
            e = self.rest(dur_required=(i == 0)) if r.random() < 0.08 else self.note(dur_required=(i == 0))
            if i > 0 and r.random() < 0.15:
                e['dur'] = None   # inherits the previous note's duration sub-tokens
                e['mid'] = [] if e['k'] == 'note' else e.get('mid')
            es.append(e)
        return {'k': 'chord', 'es': es}

    def bar(self, number=None):
        r = self.rng
        num = '' if number is None else str(number)
        if num and r.random() < 0.1:
            num += r.choice(['a', 'b'])
        return {'k': 'bar', 'double': r.random() < 0.1, 'number': num, 'hidden': False, 'type': r.choice(BAR_TYPES), 'fermata': r.random() < 0.08, 'tail': ''}

    plain = False

    def plain_note(self):
        r = self.rng
        if r.random() < 0.15:
            return {'k': 'rest', 'pre': [], 'dur': self.dur(allow_none=False), 'rr': 'r', 'post': self.sigs(REST_SIG, 1)}
        return {'k': 'note', 'pre': self.sigs(SIG30, 2), 'dur': self.dur(allow_none=False), 'mid': [], 'pitch': self.pitch(), 'post1': [], 'acc': '', 'disp': '',
                'post2': self.sigs(SIG30, 2)}

    def data_cell(self, header):
        r = self.rng
        if self.plain and header == '**kern':
            return {'k': 'other', 'kind': 'empty', 'text': '.'} if r.random() < 0.1 else self.plain_note()
        if header in ('**kern',):
            x = r.random()
            if x < 0.12:
                return {'k': 'other', 'kind': 'empty', 'text': '.'}
            if x < 0.30:
                return self.chord()
            # sometimes the same note as an earlier one of this generator, written with its signifiers in another order (same normal form,
            # different cell text): repeated material is what the unique / frequency queries are about
            pool = getattr(self, '_seen_notes', None)
            if pool is None:
                pool = self._seen_notes = []
            if pool and x < 0.42:
                import copy
                e = copy.deepcopy(r.choice(pool))
                if r.random() < 0.7:
                    r.shuffle(e['post2'])
                    if len(e['post2']) < 2 and e['pre'] and not e['acc']:
                        e['post2'], e['pre'] = e['post2'] + e['pre'], []
                return e
            e = self.elem()
            if e['k'] == 'note' and len(pool) < 6:
                pool.append(e)
            return e
        if header == '**root':
            return {'k': 'other', 'kind': 'empty', 'text': '.'} if r.random() < 0.3 else self.elem()
        kind, pool = TEXT_KIND.get(header, ('otherText', LYRICS))
        if r.random() < 0.3:
            return {'k': 'other', 'kind': 'empty', 'text': '.'}
        if r.random() < 0.08:
            # free text that happens to read like a **kern note or rest (a chord label 'G', a syllable 'r', a fingering '4c'): the same cell
            # text as a note of a **kern / **root spine, under the spine's own category
            return {'k': 'other', 'kind': kind, 'text': r.choice(['G', 'r', 'C', 'e', '4c', 'a', 'B-', 'f#', 'cc', '2r'])}
        return {'k': 'other', 'kind': kind, 'text': r.choice(pool)}

    def interp_cell(self, header, what=None):
        """an interpretation cell (`*…`); non-kern spines mostly carry null interpretations"""
        r = self.rng
        if header not in ('**kern', '**root') and r.random() < 0.7:
            return {'k': 'other', 'kind': 'empty', 'text': '*'}
        what = what or r.choice(['clef', 'keysig', 'key', 'meter', 'timesig', 'staff', 'instr', 'tandem', 'null', 'null', 'bbox'])
        if what == 'bbox':
            # a bounding box (IMAGE_ANNOTATIONS: shared structure in every spine type; its token class derives from Token directly)
            return {'k': 'other', 'kind': 'bbox', 'text': r.choice(['*xywh-1:10,20,30,40', '*xywh-p2:0,0,5,5', '*xywh-3:1,2,300,40'])}
        table = {'clef': ('clef', CLEFS), 'keysig': ('keySig', KEYSIGS), 'key': ('contextual', KEYS), 'meter': ('meter', METERS),
                 'timesig': ('timeSig', TIMESIGS), 'staff': ('staff', STAFFS), 'instr': ('nonvisual', INSTRS), 'null': ('empty', ['*'])}
        if what == 'tandem':
            t = r.choice(TANDEMS)
            kind = 'visual' if t in ('*above', '*below', '*cue', '*Xcue', '*ped', '*Xped', '*rscale:2') else ('contextual' if t in ('*MM120', '*8va', '*X8va') else 'nonvisual')
        else:
            kind, pool = table[what]
            t = r.choice(pool)
        if header not in ('**kern', '**root') and kind in ('contextual', 'visual', 'nonvisual'):
            # not shared structure: a non-kern spine keeps the text under its own category (C18)
            kind = TEXT_KIND.get(header, ('otherText', None))[0]
        return {'k': 'other', 'kind': kind, 'text': t}

    def comment_cell(self):
        r = self.rng
        return {'k': 'other', 'kind': 'fieldComment', 'text': r.choice(['!', '!', '!note', '!LO:TX:a', '!see, "this"', '!héllo', '! sotto voce ', '!**espressivo**', '!cf. the **ekern edition'])}


def token_stream(rng, n, canonical_only=True):
    """n abstract **kern cells of mixed kinds (for the tokOf / tokenizer tie)"""
    g = CellGen(rng, sig_weight=0.6)
    out = []
    for _ in range(n):
        x = rng.random()
        if x < 0.5:
            out.append(g.note())
        elif x < 0.6:
            out.append(g.rest())
        elif x < 0.8:
            out.append(g.chord())
        elif x < 0.88:
            out.append(g.bar(rng.choice([None, 1, 12, 105])))
        else:
            out.append(g.interp_cell('**kern'))
    return out


# ------------------------------------------------------------------------------------------------
# abstract documents
# ------------------------------------------------------------------------------------------------
NULL_I = {'k': 'other', 'kind': 'empty', 'text': '*'}
NULL_D = {'k': 'other', 'kind': 'empty', 'text': '.'}


def op_cell(text):
    return {'k': 'op', 'text': text}


class DocGen:
    """One abstract document: headers, rows of abstract cells with live sub-spine tracking.
    profile: 'core' (signatures before the first measure, splits re-joined before the next barline),
             'free' (mid-score signature changes, splits across barlines)."""

    def __init__(self, rng, profile='core', max_spines=4, kern_only=False, comments=True, max_measures=5, sig_weight=0.35,
                 split_depth=2, plain_notes=False, even_preamble=False, unknown=False, double_bars=False):
        self.rng = rng
        self.profile = profile
        self.max_spines = max_spines
        self.kern_only = kern_only
        self.comments = comments
        self.max_measures = max_measures
        self.cg = CellGen(rng, sig_weight=sig_weight)
        self.split_depth = split_depth
        self.even_preamble = even_preamble
        self.unknown = unknown          # add a spine of a type the library has no importer for (**recip, **silbe, ...)
        self.double_bars = double_bars  # sometimes two barline lines in a row (a repeat end followed by a repeat start): an empty measure
        if plain_notes:
            self.cg.plain = True

    def headers(self):
        r = self.rng
        n = r.randint(1, self.max_spines)
        if self.kern_only:
            return ['**kern'] * n
        hs = ['**kern']
        for _ in range(n - 1):
            hs.append(r.choice(['**kern', '**kern', '**text', '**dynam', '**harm', '**fing', '**dyn', '**mxhm', '**root']))
        r.shuffle(hs)
        if '**kern' not in hs:
            hs[0] = '**kern'
        if self.unknown:
            hs.insert(r.randrange(len(hs) + 1), r.choice(['**recip', '**silbe', '**cdata', '**MIDI', '**IPA', '**Bhatk', '**Kern', '**TEXT', '**har', '**tex', '**dyna', '**fin', '**textual', '**harmony']))
        return hs

    def make(self):
        r = self.rng
        hs = self.headers()
        rows = []
        live = list(range(len(hs)))          # spine id per live column
        depth = {i: 0 for i in range(len(hs))}

        def cells_row(rk, fn):
            rows.append({'kind': 'cells', 'rk': rk, 'cells': [fn(hs[s], s) for s in live], 'live': list(live)})

        def global_row():
            rows.append({'kind': 'global', 'text': r.choice(GLOBALS)})

        if self.comments:
            for _ in range(r.choice([0, 0, 1, 2])):
                global_row()
        rows.append({'kind': 'cells', 'rk': 'header', 'cells': [{'k': 'header', 'text': h} for h in hs], 'live': list(live)})
        # preamble
        for what in ('staff', 'instr', 'clef', 'keysig', 'timesig', 'meter'):
            p = {'staff': 0.3, 'instr': 0.3, 'clef': 0.95, 'keysig': 0.7, 'timesig': 0.7, 'meter': 0.2}[what]
            if r.random() < p:
                cells_row('interp', lambda h, s, w=what: self.cg.interp_cell(h, w) if h in ('**kern', '**root') else dict(NULL_I))
        if self.profile == 'free' and r.random() < 0.25:
            # a bounding-box line (image annotations are shared structure in every spine type)
            cells_row('interp', lambda h, s: self.cg.interp_cell(h, 'bbox') if r.random() < 0.8 else dict(NULL_I))
        if self.comments and r.random() < 0.2:
            global_row()
        nm = r.randint(1, self.max_measures)
        pickup = r.random() < 0.3
        number = 1
        for m in range(nm):
            if not (m == 0 and pickup):
                bar = self.cg.bar(number if r.random() < 0.8 else None)
                number += 1
                cells_row('bar', lambda h, s, b=bar: dict(b))
                if self.double_bars and r.random() < 0.2:
                    bar2 = self.cg.bar(None)
                    number += 1
                    cells_row('bar', lambda h, s, b=bar2: dict(b))
            ndata = r.randint(1, 4)
            open_splits = 0
            for k in range(ndata):
                x = r.random()
                can_split = len(live) < 6 and any(hs[s] == '**kern' and depth[s] < self.split_depth for s in live)
                if x < 0.12 and can_split:
                    cand = [i for i, s in enumerate(live) if hs[s] == '**kern' and depth[s] < self.split_depth]
                    i = r.choice(cand)
                    rows.append({'kind': 'cells', 'rk': 'split', 'cells': [op_cell('*^') if j == i else dict(NULL_I) for j in range(len(live))], 'live': list(live)})
                    depth[live[i]] += 1
                    live.insert(i, live[i])
                    open_splits += 1
                elif x < 0.18 and self.profile == 'free':
                    cells_row('interp', lambda h, s: self.cg.interp_cell(h, r.choice(['clef', 'keysig', 'timesig', 'key', 'tandem', 'null'])))
                elif x < 0.22 and self.comments:
                    cells_row('fc', lambda h, s: self.cg.comment_cell())
                elif x < 0.25 and self.comments:
                    global_row()
                elif x < 0.28:
                    cells_row('null', lambda h, s: dict(NULL_D))
                cells_row('data', lambda h, s: self.cg.data_cell(h))
                # joins
                pairs = [i for i in range(len(live) - 1) if live[i] == live[i + 1]]
                if pairs and (r.random() < 0.35):
                    self._join(rows, live, depth, r.choice(pairs))
            if self.profile == 'core':
                while True:
                    pairs = [i for i in range(len(live) - 1) if live[i] == live[i + 1]]
                    if not pairs:
                        break
                    self._join(rows, live, depth, pairs[0])
                    if r.random() < 0.3:
                        cells_row('data', lambda h, s: self.cg.data_cell(h))
        if r.random() < 0.75:
            bar = self.cg.bar(None)
            if r.random() < 0.6:
                bar['double'] = True
            cells_row('bar', lambda h, s, b=bar: dict(b))
        rows.append({'kind': 'cells', 'rk': 'term', 'cells': [op_cell('*-') for _ in live], 'live': list(live)})
        if self.comments and r.random() < 0.2:
            global_row()
        return {'headers': hs, 'rows': rows, 'profile': self.profile}

    def _join(self, rows, live, depth, i):
        # collapse the whole run of equal spine ids starting at i? Humdrum joins adjacent `*v`; two at a time here
        rows.append({'kind': 'cells', 'rk': 'join', 'cells': [op_cell('*v') if j in (i, i + 1) else dict(NULL_I) for j in range(len(live))], 'live': list(live)})
        depth[live[i]] -= 1
        del live[i + 1]


def clef_split_doc(rng):
    """a **kern spine (plus optionally a second one) that splits, changes clef in ONE sub-spine (or to different clefs in both),
    carries notes and chords in both sub-spines, joins, continues, and changes clef again later"""
    cg = CellGen(rng, sig_weight=0.2)
    two = rng.random() < 0.5
    hs = ['**kern', '**kern'] if two else ['**kern']
    rows = []
    live = list(range(len(hs)))

    def row(rk, fn):
        rows.append({'kind': 'cells', 'rk': rk, 'cells': [fn(j, s) for j, s in enumerate(live)], 'live': list(live)})
    rows.append({'kind': 'cells', 'rk': 'header', 'cells': [{'k': 'header', 'text': h} for h in hs], 'live': list(live)})
    row('interp', lambda j, s: {'k': 'other', 'kind': 'clef', 'text': rng.choice(CLEFS)})
    row('bar', lambda j, s, b=cg.bar(1): dict(b))
    row('data', lambda j, s: cg.note(dur_required=True))
    k = rng.randrange(len(live))
    rows.append({'kind': 'cells', 'rk': 'split', 'cells': [op_cell('*^') if j == k else dict(NULL_I) for j in range(len(live))], 'live': list(live)})
    live.insert(k, live[k])
    row('data', lambda j, s: cg.data_cell('**kern'))
    which = rng.choice(['left', 'right', 'both'])
    c1, c2 = rng.sample(CLEFS, 2)

    def clefcell(j, s):
        if j == k and which in ('left', 'both'):
            return {'k': 'other', 'kind': 'clef', 'text': c1}
        if j == k + 1 and which in ('right', 'both'):
            return {'k': 'other', 'kind': 'clef', 'text': c2}
        return dict(NULL_I)
    row('interp', clefcell)
    for _ in range(rng.randint(1, 3)):
        row('data', lambda j, s: cg.chord() if rng.random() < 0.3 else cg.note(dur_required=True))
    rows.append({'kind': 'cells', 'rk': 'join', 'cells': [op_cell('*v') if j in (k, k + 1) else dict(NULL_I) for j in range(len(live))], 'live': list(live)})
    del live[k + 1]
    row('data', lambda j, s: cg.note(dur_required=True))
    row('bar', lambda j, s, b=cg.bar(2): dict(b))
    if rng.random() < 0.6:
        row('interp', lambda j, s: {'k': 'other', 'kind': 'clef', 'text': rng.choice(CLEFS)} if rng.random() < 0.7 else dict(NULL_I))
    row('data', lambda j, s: cg.note(dur_required=True))
    rows.append({'kind': 'cells', 'rk': 'term', 'cells': [op_cell('*-') for _ in live], 'live': list(live)})
    return {'headers': hs, 'rows': rows, 'profile': 'clef-split'}


def clef_echo_doc(rng):
    """two or three **kern spines under DIFFERENT clefs (and a clef change later on) whose lines carry the SAME note / chord / rest text in
    every spine, and the same texts again after the clef change: the agnostic cell of a text depends on the clef of its own spine and
    on nothing else (added after seeded change C13_r5_2: a per-export memo keyed by the cell text)"""
    import copy
    cg = CellGen(rng, sig_weight=0.2)
    n = rng.choice([2, 2, 3])
    hs = ['**kern'] * n
    rows = []
    live = list(range(n))
    clefs = rng.sample(CLEFS, n)

    def row(rk, cells):
        rows.append({'kind': 'cells', 'rk': rk, 'cells': cells, 'live': list(live)})
    row('header', [{'k': 'header', 'text': h} for h in hs])
    row('interp', [{'k': 'other', 'kind': 'clef', 'text': c} for c in clefs])
    b = cg.bar(1)
    row('bar', [dict(b) for _ in live])
    shared = []
    for _ in range(rng.randint(2, 4)):
        c = cg.chord() if rng.random() < 0.5 else cg.note(dur_required=True)
        shared.append(c)
        row('data', [copy.deepcopy(c) for _ in live])
    b = cg.bar(2)
    row('bar', [dict(b) for _ in live])
    c2 = rng.sample(CLEFS, n)
    row('interp', [{'k': 'other', 'kind': 'clef', 'text': c} if rng.random() < 0.8 else dict(NULL_I) for c in c2])
    for c in shared[:2] + [cg.chord()]:
        row('data', [copy.deepcopy(c) for _ in live])
    row('term', [op_cell('*-') for _ in live])
    return {'headers': hs, 'rows': rows, 'profile': 'clef-echo'}


def nested_split_doc(rng):
    """**kern spines, signatures in the preamble (the same kinds in every spine); in one measure a spine splits and one of the two
    branches ('first' / 'second'), both ('both') or none ('none') splits again; the sub-spines are re-joined before the next barline
    in a random valid order (pairwise `*v *v` joins and n-way `*v *v *v` joins); later measures follow, one more plain split/join"""
    cg = CellGen(rng, sig_weight=0.2)
    hs = ['**kern'] * rng.choice([1, 1, 2])
    rows = []
    live = list(range(len(hs)))
    nest = rng.choice(['first', 'second', 'first', 'second', 'both', 'none'])

    def row(rk, fn):
        rows.append({'kind': 'cells', 'rk': rk, 'cells': [fn(j, s) for j, s in enumerate(live)], 'live': list(live)})

    def data(n=1):
        for _ in range(n):
            row('data', lambda j, s: cg.chord() if rng.random() < 0.2 else cg.note(dur_required=True))

    def split(k):
        rows.append({'kind': 'cells', 'rk': 'split', 'cells': [op_cell('*^') if j == k else dict(NULL_I) for j in range(len(live))], 'live': list(live)})
        live.insert(k, live[k])

    def join_all():
        while True:
            runs = []
            j = 0
            while j < len(live):
                k = j
                while k + 1 < len(live) and live[k + 1] == live[j]:
                    k += 1
                if k > j:
                    runs.append((j, k))
                j = k + 1
            if not runs:
                break
            a, b = rng.choice(runs)
            # a sub-run of length 2..(b-a+1)
            m = rng.randint(2, b - a + 1)
            st = rng.randint(a, b - m + 1)
            rows.append({'kind': 'cells', 'rk': 'join', 'cells': [op_cell('*v') if st <= j < st + m else dict(NULL_I) for j in range(len(live))], 'live': list(live)})
            del live[st + 1:st + m]
            if rng.random() < 0.5:
                data()
    rows.append({'kind': 'cells', 'rk': 'header', 'cells': [{'k': 'header', 'text': h} for h in hs], 'live': list(live)})
    row('interp', lambda j, s: {'k': 'other', 'kind': 'clef', 'text': rng.choice(CLEFS)})
    if rng.random() < 0.7:
        ks = cg.interp_cell('**kern', 'keysig')
        row('interp', lambda j, s: dict(ks))
    if rng.random() < 0.7:
        ts = cg.interp_cell('**kern', 'timesig')
        row('interp', lambda j, s: dict(ts))
    number = 1
    nm = rng.randint(3, 5)
    special = rng.randrange(nm - 1)
    plain = rng.randrange(nm)
    for m in range(nm):
        row('bar', lambda j, s, b=cg.bar(number): dict(b))
        number += 1
        data(rng.randint(1, 2))
        if m == special:
            k = rng.randrange(len(live))
            split(k)
            data()
            if nest in ('first', 'both'):
                split(k)
                data()
                if nest == 'both':
                    split(k + 2)
                    data()
            elif nest == 'second':
                split(k + 1)
                data()
            join_all()
            data()
        elif m == plain and rng.random() < 0.5:
            k = rng.randrange(len(live))
            split(k)
            data()
            join_all()
    if rng.random() < 0.7:
        row('bar', lambda j, s, b=cg.bar(None): dict(b))
    rows.append({'kind': 'cells', 'rk': 'term', 'cells': [op_cell('*-') for _ in live], 'live': list(live)})
    return {'headers': hs, 'rows': rows, 'profile': 'nested-split', 'nest': nest}


def shift_doc(rng):
    """two or three spines of different types; records whose spine operators keep the NUMBER of columns the same while changing which spine
    each column belongs to: one spine joins while its neighbour splits (`*v *v *^`), one splits while the neighbour joins (`*^ *v *v`), one
    ends while another splits (`*- *^`), in both orders; data lines in between"""
    cg = CellGen(rng, sig_weight=0.2)
    types = rng.choice([['**kern', '**kern'], ['**kern', '**text'], ['**kern', '**dynam', '**kern'], ['**kern', '**kern', '**text']])
    hs = list(types)
    rows = []
    live = list(range(len(hs)))

    def cellrow(rk, fn):
        rows.append({'kind': 'cells', 'rk': rk, 'cells': [fn(hs[s], s) for s in live], 'live': list(live)})

    def data(n=1):
        for _ in range(n):
            cellrow('data', lambda h, s: cg.data_cell(h))

    def oprow(ops):
        """ops: one operator text per live column; updates live by the spine-path rules"""
        rows.append({'kind': 'cells', 'rk': 'ops', 'cells': [op_cell(o) if o != '*' else dict(NULL_I) for o in ops], 'live': list(live)})
        nxt = []
        j = 0
        while j < len(ops):
            o = ops[j]
            if o == '*^':
                nxt += [live[j], live[j]]
            elif o == '*v':
                k = j
                while k + 1 < len(ops) and ops[k + 1] == '*v' and live[k + 1] == live[j]:
                    k += 1
                nxt.append(live[j]); j = k
            elif o == '*-':
                pass
            else:
                nxt.append(live[j])
            j += 1
        live[:] = nxt
    rows.append({'kind': 'cells', 'rk': 'header', 'cells': [{'k': 'header', 'text': h} for h in hs], 'live': list(live)})
    cellrow('interp', lambda h, s: {'k': 'other', 'kind': 'clef', 'text': rng.choice(CLEFS)} if h == '**kern' else dict(NULL_I))
    cellrow('bar', lambda h, s, b=cg.bar(1): dict(b))
    data()
    a, b = 0, 1
    if rng.random() < 0.5:
        a, b = 1, 0          # which of the first two spines plays which part
    # spine a splits alone
    oprow(['*^' if s == a else '*' for s in live]); data(rng.randint(1, 2))
    # a joins while b splits: the column count stays, the ownership shifts
    ops = []
    for j, s in enumerate(live):
        ops.append('*v' if s == a else '*^' if s == b else '*')
    oprow(ops); data(rng.randint(1, 2))
    cellrow('bar', lambda h, s, bb=cg.bar(2): dict(bb))
    data()
    # b joins while a splits
    ops = []
    for j, s in enumerate(live):
        ops.append('*v' if s == b else '*^' if s == a else '*')
    oprow(ops); data(rng.randint(1, 2))
    # a joins alone
    oprow(['*v' if s == a else '*' for s in live]); data()
    if rng.random() < 0.6:
        # a ends while b splits: again the same number of columns
        oprow(['*-' if s == a else '*^' if s == b else '*' for s in live]); data(rng.randint(1, 2))
        oprow(['*v' if s == b else '*' for s in live]); data()
    rows.append({'kind': 'cells', 'rk': 'term', 'cells': [op_cell('*-') for _ in live], 'live': list(live)})
    return {'headers': hs, 'rows': rows, 'profile': 'shift'}


def long_score(spines=1):
    """a long plain score: more lines than twice the interpreter's recursion limit; one or two **kern spines of quarter notes, a barline every
    four lines, clef and meter in the preamble.  Returns (text, lines as lists of cells)."""
    import sys
    n = 2 * sys.getrecursionlimit() + 300
    letters = ['c', 'd', 'e', 'f', 'g', 'a', 'b', 'cc', 'C', 'G']
    rows = [['**kern'] * spines, ['*clefG2'] * spines, ['*M4/4'] * spines]
    m = 0
    for i in range(n):
        if i % 4 == 0:
            m += 1
            rows.append(['=%d' % m] * spines)
        rows.append(['4' + letters[(i * 7 + j * 3) % len(letters)] for j in range(spines)])
    rows.append(['=='] * spines)
    rows.append(['*-'] * spines)
    text = ''.join('\t'.join(r) + '\n' for r in rows)
    return text, rows


def all_cells(doc):
    for row in doc['rows']:
        if row['kind'] == 'cells':
            for c in row['cells']:
                if c['k'] not in ('op', 'header'):
                    yield c


def clean(c):
    """the abstract cell without the harness's own annotations (keys starting with `_`)"""
    if c['k'] == 'chord':
        return {'k': 'chord', 'es': [clean(e) for e in c['es']]}
    return {k: v for k, v in c.items() if not k.startswith('_')}


def glue_safe(chord):
    """a chord whose notes can be written without separating spaces and still be read as the same notes"""
    for e in chord['es'][1:]:
        d = e.get('dur')
        if d is None or not d.get('num') or e.get('pre'):
            return False
    return True


def render_documents(driver, docs):
    """fills c['text'] (rendered by the Lean driver), c['kern'] (expected default export of the cell, from the abstract
    description) and returns the document texts"""
    cells = [c for d in docs for c in all_cells(d)]
    resp = driver.ask([{'op': 'abs.expect', 'cell': clean(c), 'clef': None} for c in cells])
    for c, r in zip(cells, resp):
        c['_text'] = r['text']
        c['_kern'] = r['kern'].get('ok')
        # the grammar lets the notes of a chord follow each other without a space (`chordSpace: SPACE?`): some chords are written that way
        # when that cannot change how the cell is read (every later note starts with its own duration digits)
        if c.get('k') == 'chord' and glue_safe(c) and zlib.crc32(c['_text'].encode('utf-8')) % 4 == 0:
            c['_text'] = c['_text'].replace(' ', '')
    texts = []
    for d in docs:
        lines = []
        for row in d['rows']:
            if row['kind'] == 'global':
                lines.append(row['text'])
            else:
                lines.append('\t'.join(c.get('_text', c.get('text')) for c in row['cells']))
        d['text'] = '\n'.join(lines) + '\n'
        texts.append(d['text'])
    return texts


# ------------------------------------------------------------------ raw texts outside the abstract grammar
LATE_HEADERS = ['**text', '**dynam', '**kern', '**recip', '**harm']


def _raw_lines(adoc):
    out = []
    for row in adoc['rows']:
        if row['kind'] == 'global':
            out.append(('global', None, [row['text']]))
        else:
            out.append((row['rk'], row, [c.get('_text', c.get('text')) for c in row['cells']]))
    return out


def _raw_text(lines):
    return ''.join('\t'.join(cs) + '\n' for cs in lines)


def raw_variants(rng, adoc):
    """texts the abstract generator cannot express, derived from a RENDERED abstract document (the harness has no grid oracle for them: they are
    compared with the model, the Lean spine-path tracker and the Lean text specification of the export): a spine added by `*+` and opened by
    a `**` cell below the first line, blank lines inside the score, a line shorter than the live spine paths, the exchange operator `*x`,
    a `**` cell in the middle of a spine, a `*+` whose new spine is never opened.  Returns a list of (kind, text)."""
    L = _raw_lines(adoc)
    cellrows = [i for i, (rk, row, cs) in enumerate(L) if rk != 'global']
    out = []
    # (a) a spine added by `*+` in the last column, opened by a `**` cell on the next line, carried to the end
    cand = [i for i in cellrows[1:] if L[i][0] in ('data', 'bar', 'interp')]
    if cand:
        r = rng.choice(cand)
        h = rng.choice(LATE_HEADERS)
        n = len(L[r][2])
        lines = [cs for (_, _, cs) in L[:r]]
        lines.append(['*'] * (n - 1) + ['*+'])
        lines.append(['*'] * n + [h])
        k = 0
        alive = True
        for rk, row, cs in L[r:]:
            if rk == 'global' or not alive:
                lines.append(list(cs)); continue
            if not cs:
                lines.append(list(cs)); continue
            if rk == 'data':
                k += 1
                extra = ('4c' if k % 2 else '8r') if h == '**kern' else rng.choice(['la', 'li', 'p', 'f', '.', 'C:'])
            elif rk == 'bar':
                extra = cs[0]
            elif all(c == '*-' for c in cs):
                extra = '*-'; alive = False
            else:
                extra = '*'
            lines.append(list(cs) + [extra])
        out.append(('plus', _raw_text(lines)))
    # (a2) a spine added by `*+` in a column that is NOT the last one: the new spine's cells stand right after that column and the columns to its
    # right move on (round 6, C18_r6_2: importers kept per column index).  Only where no later line changes the number of columns.
    cand = [i for i in cellrows[1:] if L[i][0] in ('data', 'bar', 'interp') and len(L[i][2]) >= 2 and
            all(len(L[k][2]) == len(L[i][2]) for k in cellrows if k >= i)]
    if cand:
        r = rng.choice(cand)
        h = rng.choice(LATE_HEADERS)
        n = len(L[r][2])
        j = rng.randrange(n - 1)
        lines = [cs for (_, _, cs) in L[:r]]
        lines.append(['*+' if c == j else '*' for c in range(n)])
        lines.append(['*'] * (j + 1) + [h] + ['*'] * (n - 1 - j))
        k = 0
        for rk, row, cs in L[r:]:
            if rk == 'global' or not cs:
                lines.append(list(cs)); continue
            if rk == 'data':
                k += 1
                extra = ('4c' if k % 2 else '8r') if h == '**kern' else rng.choice(['la', 'li', 'p', 'f', '.', 'C:'])
            elif rk == 'bar':
                extra = cs[0]
            elif all(c == '*-' for c in cs):
                extra = '*-'
            else:
                extra = '*'
            lines.append(list(cs[:j + 1]) + [extra] + list(cs[j + 1:]))
        out.append(('plus-mid', _raw_text(lines)))
    # (b) blank lines inside
    lines = [cs for (_, _, cs) in L]
    for _ in range(rng.randint(1, 3)):
        lines.insert(rng.randint(0, len(lines)), [])
    out.append(('blank', _raw_text(lines)))
    # (c) a line shorter than the live spine paths
    cand = [i for i in cellrows[1:] if len(L[i][2]) >= 2 and L[i][0] in ('data', 'interp', 'bar')]
    if cand:
        r = rng.choice(cand)
        lines = [list(cs) for (_, _, cs) in L]
        lines[r] = lines[r][:-1]
        out.append(('short', _raw_text(lines)))
    # (d) the exchange operator
    cand = [i for i in cellrows[1:] if len(L[i][2]) >= 2 and L[i][0] == 'data']
    if cand:
        r = rng.choice(cand)
        n = len(L[r][2])
        j = rng.randrange(n - 1)
        lines = [list(cs) for (_, _, cs) in L]
        lines.insert(r, ['*x' if c in (j, j + 1) else '*' for c in range(n)])
        out.append(('exchange', _raw_text(lines)))
    # (e) a `**` cell in the middle of a spine (no `*+`)
    cand = [i for i in cellrows[1:] if L[i][0] == 'data']
    if cand:
        r = rng.choice(cand)
        lines = [list(cs) for (_, _, cs) in L]
        lines[r][rng.randrange(len(lines[r]))] = rng.choice(LATE_HEADERS)
        out.append(('late-header', _raw_text(lines)))
    # (f) a `*+` whose new spine is never opened by a `**` cell
    cand = [i for i in cellrows[1:] if L[i][0] in ('data', 'bar')]
    if cand:
        r = rng.choice(cand)
        n = len(L[r][2])
        lines = [list(cs) for (_, _, cs) in L[:r]]
        lines.append(['*'] * (n - 1) + ['*+'])
        for rk, row, cs in L[r:]:
            lines.append(list(cs) if rk == 'global' or not cs else list(cs) + [cs[-1]])
        out.append(('plus-unopened', _raw_text(lines)))
    # (g) a whole spine ends early (`*-` in its column, the others go on with one cell less), with a global comment somewhere after it
    # (the importer keeps the list of parents of the previous record across comment lines)
    nsp = len(adoc['headers'])
    cand = [i for i in cellrows[1:] if L[i][0] in ('data', 'bar', 'interp') and L[i][1] is not None and 'live' in L[i][1]
            and len(set(L[i][1]['live'])) == len(L[i][1]['live']) == nsp]
    if cand and nsp >= 2:
        r = rng.choice(cand)
        live = L[r][1]['live']
        j = rng.choice([0, 0, len(live) - 1, rng.randrange(len(live))])
        sp = live[j]
        lines = [list(cs) for (_, _, cs) in L[:r]]
        lines.append(['*-' if c == j else '*' for c in range(len(live))])
        put_comment = rng.randint(0, 2)
        for rk, row, cs in L[r:]:
            if put_comment == 0:
                lines.append(['!! after the early end'])
            put_comment -= 1
            if rk == 'global' or not cs or row is None or 'live' not in row:
                lines.append(list(cs)); continue
            lines.append([c for c, s in zip(cs, row['live']) if s != sp])
        if all(len(x) > 0 for x in lines):
            out.append(('early-end', _raw_text(lines)))
    return out
