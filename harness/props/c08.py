"""C08 — A measure excerpt is a self-contained, equivalent score."""
from __future__ import annotations
import re
from .util import call
from . import c07

ID = 'C08'
LEAN_MODULE = 'KernProofs.C08'
EXTRA_MODULES = ['KernProofs.C08Prefix', 'KernProofs.C08Range']
THEOREMS = ['KM.C08.C08_terminator_count', 'KM.C08.C08_terminator_not_doubled', 'KM.C08.C08_no_terminator_without_range', 'KM.C08.C08_terminator_cells', 'KM.C08.C08_body_is_full_score_rows', 'KM.C08.C08_nested_split_witness',
            'KM.C08P.bodyRows_prefix', 'KM.C08P.toStage_le', 'KM.C08P.C08_excerpt_from_start', 'KM.C08P.bodyRows_range_free',
            'KM.C08R.preambleRow_quiet', 'KM.C08R.preambleRow_silent', 'KM.C08R.preambleRow_header', 'KM.C08R.loop_chain', 'KM.C08R.loop_walk', 'KM.C08R.preamble_flat', 'KM.C08R.sigCancelled_false',
            'KM.C08R.signatureRows_settled', 'KM.C08R.C08_preamble_flat', 'KM.C08R.C08_excerpt_flat', 'KM.C08R.C08_excerpt_spec', 'KM.C08R.toy_in_core', 'KM.C08R.toy_closed_split_in_core']
FINGERPRINTS = ['exporter.Exporter.export_string', 'exporter.Exporter.is_signature_cancelled', 'exporter.Exporter.export_token', 'importer.Importer',
                'document.Document', 'document.SignatureNodes']
RULE = ('core stream: generated **kern-only documents whose signatures precede the first measure (the same kinds in every spine), whose splits are '
        're-joined before the next barline and are not nested (quick 30 / thorough 300) x EVERY measure range 1 <= a <= b <= M and every range starting at the beginning (a = 0 or omitted, b = 0..M): the excerpt must start with the header '
        'line, have a cell count per line consistent with its spine operators, terminate every spine, re-import without errors, and give every note the '
        'same clef / key signature / time signature as the full score (signatures tracked on the texts themselves); frontier stream: mid-score signature '
        'changes, excerpts starting inside a split, nested splits, non-kern spines (quick 30 / thorough 300 documents) - failures there are attributed to '
        'the known findings only when the model predicts exactly the same output; every excerpt is compared with the model; non-trivial = range not '
        'starting at measure 1; distinct = (document, a, b)')
ASSUMPTIONS = ['a note is a cell of a data line other than . and rests count as notes for the governing signatures']

SIGPAT = (('clef', re.compile(r'^\*clef')), ('keysig', re.compile(r'^\*k(\[|cancel)')), ('timesig', re.compile(r'^\*M\d')), ('meter', re.compile(r'^\*met\(')))


def track(text):
    """walk an exported text with the spine-path rules; returns dict(ok, why, notes=[(line text, column, governing signatures)], header_first, terminated)"""
    lines = text.split('\n')
    if lines and lines[-1] == '':
        lines = lines[:-1]
    if not lines:
        return {'ok': False, 'why': 'empty'}
    first = lines[0].split('\t')
    if not all(c.startswith('**') for c in first):
        return {'ok': False, 'why': 'header line is not first'}
    sigs = [dict() for _ in first]
    notes = []
    for ln in lines[1:]:
        cells = ln.split('\t')
        if len(cells) != len(sigs):
            return {'ok': False, 'why': 'line %r has %d cells for %d live spine paths' % (ln, len(cells), len(sigs))}
        if any(c.startswith('**') for c in cells):
            return {'ok': False, 'why': 'a second header line %r' % ln}
        nxt = []
        j = 0
        while j < len(cells):
            c = cells[j]
            cur = dict(sigs[j])
            for name, pat in SIGPAT:
                if pat.match(c):
                    cur[name] = c
            if c == '*^':
                nxt += [cur, dict(cur)]
            elif c == '*v':
                k = j
                while k + 1 < len(cells) and cells[k + 1] == '*v':
                    k += 1
                if k == j:
                    return {'ok': False, 'why': 'a lone *v in %r' % ln}
                nxt.append(cur); j = k
            elif c == '*-':
                pass
            else:
                nxt.append(cur)
                if c07.is_data(ln) and c != '.':
                    notes.append((ln, j, tuple(sorted(sigs[j].items()))))
            j += 1
        sigs = nxt
    last = lines[-1].split('\t')
    if not all(c == '*-' for c in last) or sigs:
        return {'ok': False, 'why': 'the last line does not terminate every spine'}
    return {'ok': True, 'notes': notes}


def core_doc(adoc):
    """syntactic core: signatures only in the preamble and of the same kind in every spine, no split open at a barline; of nested splits
    only those in which at most one branch of a split is split again (both branches split again = finding F15d)"""
    if adoc.get('profile') == 'nested-split':
        return adoc['nest'] != 'both'
    seen_bar = False
    depth = {}
    for row in adoc['rows']:
        if row['kind'] != 'cells':
            continue
        if row['rk'] == 'bar':
            seen_bar = True
            if len(set(row['live'])) != len(row['live']):
                return False
        if row['rk'] == 'interp':
            kinds = [c.get('kind') if c['k'] == 'other' and c.get('kind') in c07.SIG_KINDS else None for c in row['cells']]
            if any(kinds) and (seen_bar or len(set(kinds)) != 1):
                return False
            if seen_bar is False and any(c['k'] in ('note', 'rest', 'chord') for c in row['cells']):
                pass
        if row['rk'] == 'split':
            for c, s in zip(row['cells'], row['live']):
                if c['k'] == 'op' and row['live'].count(s) > 1:
                    return False      # nested
        if row['rk'] == 'data' and not seen_bar and len(set(row['live'])) != len(row['live']):
            return False              # pickup inside a split
    return True


def explore(ctx, depth):
    import docrun, gen
    import kernpy as kp
    long_excerpts(ctx)
    n = 30 if depth == 'quick' else 300
    core = docrun.make_cases(ctx, n, kern_only=True, profiles=('core',), split_depth=1, max_measures=4)
    core += docrun.make_cases(ctx, 0, docs=[gen.nested_split_doc(ctx.rng) for _ in range(n)])
    frontier = docrun.make_cases(ctx, n, kern_only=False, profiles=('free', 'core'), split_depth=2, max_measures=4)
    # texts outside the generator's grammar (late `**` cells give columns of different depth: the backwards walk of the preamble meets the
    # root's missing parent): correspondence with the model on every pair of bounds
    docrun.raw_range_tie(ctx, docrun.raw_cases(ctx, [c.adoc for c in frontier[:6 if depth == 'quick' else 60]], kinds=('plus', 'late-header', 'plus-unopened', 'blank')),
                         encs=('kern', 'bekern'))
    docrun.reuse_objects(ctx, core + frontier, steps=150)
    for stream, cases in (('core', core), ('frontier', frontier)):
        exps = []
        for case in cases:
            M = len(case.doc.measure_start_tree_stages) if case.doc is not None else 0
            case.pairs = [(a, b) for a in range(1, M + 1) for b in range(a, M + 1)]
            # excerpts that start at the beginning of the score (from_measure 0 or omitted), including the one that ends at the barline
            # opening measure 1 (to_measure = 0)
            case.pairs += [(0, b) for b in range(0, M + 1)] + [(None, b) for b in range(0, M + 1)]
            kern_only = all(h == '**kern' for h in case.adoc['headers'])
            case.types = None if kern_only else ['**kern']
            exps.append([{'cats': docrun.ALLC, 'enc': 'kern', 'from': a, 'to': b, 'types': case.types} for a, b in case.pairs] +
                        [{'cats': docrun.ALLC, 'enc': 'kern', 'types': case.types}])
        mresp = docrun.model_exports(ctx, cases, exps)
        for case, mr in zip(cases, mresp):
            if case.doc is None:
                continue
            is_core = stream == 'core' and core_doc(case.adoc)
            first_results = {}
            ctx.count('stream:%s:%s' % (stream, 'core' if is_core else 'outside'))
            full = docrun.dumps_public(case, {'types': case.types})
            ft = track(full['ok']) if 'ok' in full else {'ok': False}
            for k, (a, b) in enumerate(case.pairs):
                got = docrun.dumps_public(case, {'from': a, 'to': b, 'types': case.types})
                model = mr['exports'][k] if 'exports' in mr else None
                inp = {'text': case.text, 'from_measure': a, 'to_measure': b, 'spine_types': case.types}
                tie_ok = got == model
                first_results[(a, b)] = got
                ctx.check({**inp, 'clause': 'tie'}, got, model, None, nontrivial=(a or 0) > 1, what='excerpt differs from the model')
                # the Lean specification of a later excerpt on the core of C08_excerpt_spec (no spine path split, joined, added or ended above the
                # first line of the excerpt; every signature above it): header line, signatures in force, the lines of the measures, terminator
                sp08 = mr['spec08'][k] if 'spec08' in mr else None
                if sp08 is not None:
                    ctx.count('lean_excerpt_spec')
                    if (a or 0) > 1:
                        ctx.count('lean_excerpt_spec:from>1')
                    if got != sp08:
                        ctx.fail({**inp, 'clause': 'Lean specification of a later excerpt (C08_excerpt_spec)'},
                                 'the excerpt is not header line + signatures in force + the lines of the measures + terminator', impl=got, expected=sp08)
                klass = classify(case.adoc, a)

                def bad(clause, what, impl=None, expected=None):
                    ctx.fail({**inp, 'clause': clause, 'class': klass}, what, impl=impl, expected=expected, core=is_core,
                             finding=None if is_core else klass, tie_ok=tie_ok)
                if 'ok' not in got:
                    bad('excerpt', 'a valid measure range raises', impl=got)
                    continue
                t = track(got['ok'])
                if not t['ok']:
                    bad('well-formed', 'the excerpt is not a well-formed Humdrum document: ' + t['why'], impl=got['ok'])
                    continue
                r = call(lambda: [[e.line, e.encoding] for e in kp.loads(got['ok'])[1]])
                if r != {'ok': []}:
                    bad('re-import', 'the excerpt does not re-import without errors', impl=r)
                    continue
                if ft.get('ok'):
                    # same governing signatures: the notes of the excerpt, in order, must be a contiguous run of the full score's notes
                    en = t['notes']
                    fn = ft['notes']
                    keys = [(x[0], x[1]) for x in fn]
                    ok = False
                    if not en:
                        ok = True
                    else:
                        first = (en[0][0], en[0][1])
                        for st in [i for i, kx in enumerate(keys) if kx == first]:
                            if [(x[0], x[1]) for x in fn[st:st + len(en)]] == [(x[0], x[1]) for x in en]:
                                ok = all(x[2] == y[2] for x, y in zip(fn[st:st + len(en)], en))
                                if ok:
                                    break
                    if not ok:
                        bad('same governing signatures', 'a note of the excerpt is not governed by the same clef / key signature / time signature as in the full score',
                            impl=[list(x) for x in en[:3]])
            if first_results:
                repeat_reversed(ctx, case, first_results)


def repeat_reversed(ctx, case, first_results):
    """the same excerpts again on the same document object, in the opposite order (wide before narrow, late before early): each must be what it was"""
    import docrun
    for (a, b) in sorted(first_results, key=lambda p: (-(p[0] or 0), -(p[1] if p[1] is not None else 10 ** 6))):
        again = docrun.dumps_public(case, {'from': a, 'to': b, 'types': case.types})
        if again != first_results[(a, b)]:
            ctx.fail({'text': case.text, 'from_measure': a, 'to_measure': b, 'spine_types': case.types, 'clause': 'the same excerpt again, after the others in reverse order'},
                     'an excerpt differs when it is exported again after other excerpts of the same document', impl=again, expected=first_results[(a, b)])
            return


def long_excerpts(ctx):
    """a long score: excerpts that start late must be well-formed, re-import without errors and keep clef and meter"""
    import gen
    import kernpy as kp
    text, rows = gen.long_score(2)
    doc = kp.loads(text)[0]
    M = len(doc.measure_start_tree_stages)
    for a, b in ((M - 2, M - 1), (M // 2, M // 2), (M - 400, M - 399)):
        got = call(lambda: kp.dumps(doc, from_measure=a, to_measure=b))
        ctx.seen({'clause': 'long score excerpt', 'from_measure': a, 'to_measure': b}, True)
        if 'ok' not in got:
            ctx.fail({'clause': 'long score excerpt', 'rows': len(rows), 'from_measure': a, 'to_measure': b, 'text_head': text[:60]}, 'a valid measure range of a long score raises', impl=got)
            continue
        t = track(got['ok'])
        ok = t['ok'] and all(dict(sig).get('clef') == '*clefG2' and dict(sig).get('timesig') == '*M4/4' for (_, _, sig) in t['notes']) and len(t['notes']) > 0
        if not ok:
            ctx.fail({'clause': 'long score excerpt', 'rows': len(rows), 'from_measure': a, 'to_measure': b, 'text_head': text[:60]},
                     'the excerpt of a long score is not well-formed or its notes are not under the clef and meter of the full score', impl=got['ok'][:300])


def classify(adoc, a):
    """which known class a document/range outside the core belongs to (first that applies)"""
    if not all(h == '**kern' for h in adoc['headers']):
        return 'F15c-non-kern-spines'
    if not c07.even_signatures(adoc) or any(r['kind'] == 'cells' and r['rk'] == 'interp' and i > first_bar(adoc) and
                                            any(c['k'] == 'other' and c.get('kind') in c07.SIG_KINDS for c in r['cells'])
                                            for i, r in enumerate(adoc['rows'])):
        return 'F15a-signature-change'
    for row in adoc['rows']:
        if row['kind'] == 'cells' and row['rk'] == 'split':
            for c, s in zip(row['cells'], row['live']):
                if c['k'] == 'op' and row['live'].count(s) > 1:
                    return 'F15d-nested-split'
    return 'F15b-start-inside-split'



def first_bar(adoc):
    for i, r in enumerate(adoc['rows']):
        if r['kind'] == 'cells' and r['rk'] == 'bar':
            return i
    return len(adoc['rows'])


def replay(ctx, payload):
    explore(ctx, 'quick')


def reproduce(ctx, key, w):
    import kernpy as kp
    d, _ = kp.loads(w['input']['text'])
    r = call(lambda: kp.dumps(d, from_measure=w['input']['from_measure'], to_measure=w['input']['to_measure'], spine_types=w['input'].get('spine_types')))
    if 'expected_error' in w:
        return r == {'err': w['expected_error']}
    return r == {'ok': w['impl']}
