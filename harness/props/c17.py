"""C17 — Token queries agree with the tree and with each other."""
from __future__ import annotations
from .util import call

ID = 'C17'
LEAN_MODULE = 'KernProofs.C17'
EXTRA_MODULES = ['KernProofs.C17Tree']
THEOREMS = ['KM.C17.preL_append', 'KM.C17.sizeL_append', 'KM.C17.dfsStack_eq', 'KM.C17.C17_dfs_is_preorder', 'KM.C17.C17_filtered_is_subsequence', 'KM.C17.C17_filter_is_closure', 'KM.C17.C17_empty_filter', 'KM.C17.uniqueToks_sublist', 'KM.C17.uniqueToks_not_seen', 'KM.C17.uniqueToks_nodup', 'KM.C17.uniqueToks_covers', 'KM.C17.C17_unique', 'KM.C17.freqAdd_eq', 'KM.C17.map_inc_noKey', 'KM.C17.keys_map_inc', 'KM.C17.total_map_inc', 'KM.C17.freqAdd_spec', 'KM.C17.foldl_freq', 'KM.C17.C17_frequencies_sum', 'KM.C17.C17_metacomments_by_key',
            'KM.C17T.mem_children', 'KM.C17T.dfs_sub', 'KM.C17T.climb_compose', 'KM.C17T.climb_sub', 'KM.C17T.children_nodup', 'KM.C17T.sub_nodup',
            'KM.C17T.sub_closed', 'KM.C17T.cover', 'KM.C17T.listing_exactly_once', 'KM.C17T.tinv2_step', 'KM.C17T.C17_listing_exactly_once', 'KM.C17T.C17_listing_length']
FINGERPRINTS = ['document.Document', 'document.Node', 'document.TokensTraversal', 'document.MetacommentsTraversal', 'public', 'importer.Importer']
RULE = ('generated documents with global comments before, inside and after the spines, nested splits and joins (quick 40 / thorough 400) x EVERY single '
        'category and random category sets: the token listing is compared with the spine-path order computed from the source grid alone (pre-header '
        'comments, each spine depth-first left to right, later comments) and with the model; filtered listing = sub-sequence by closure; unique = first '
        'occurrences; frequencies sum to the listing; comment query in order with the key-prefix rule; is_monophonic; non-trivial = document with a '
        'split or >= 2 spines and a comment; distinct = (document, filter)')
ASSUMPTIONS = ['the closure of a filter is C11\'s subject (taken from TokenCategory.valid)']


ANC_DESC = []        # (ancestor index, descendant index) pairs of the documented tree, from the Lean specification
FIXED_PAIRS = []


def _anc_desc(ctx):
    import docrun
    from kernpy.core.tokens import TokenCategory as TC
    cats = list(TC)
    if not ANC_DESC:
        for i, c in enumerate(cats):
            for j in docrun.valid_idx([c], None):
                if j != i:
                    ANC_DESC.append((i, j))
        FIXED_PAIRS.extend(ANC_DESC[:3])


def explore(ctx, depth):
    import docrun, gen
    docrun._DRIVER = ctx.driver
    _anc_desc(ctx)
    import kernpy as kp
    from kernpy.core.tokens import TokenCategory as TC
    cats = list(TC)
    rng = ctx.rng
    cases = docrun.make_cases(ctx, 40 if depth == 'quick' else 400)
    # invisible barlines (`=1-`, `==-`): tokens like any other for the listing (added after seeded change C17_r5_2: a `hidden` test shared with the
    # exporter made the listing skip them)
    hdocs = [gen.DocGen(rng, profile='core', max_measures=3).make() for _ in range(6 if depth == 'quick' else 60)]
    for hd in hdocs:
        for row in hd['rows']:
            if row['kind'] == 'cells' and row['rk'] == 'bar' and rng.random() < 0.6:
                for c in row['cells']:
                    if c.get('k') == 'bar':
                        c['hidden'] = True
    cases += docrun.make_cases(ctx, 0, docs=hdocs)
    # expected (encoding, category) of every cell from the abstract description
    cells = [c for case in cases for c in gen.all_cells(case.adoc)]
    for c, r in zip(cells, ctx.driver.ask([{'op': 'abs.tokof', 'cell': gen.clean(c)} for c in cells])):
        c['_enc'], c['_cat'] = r['tok']['enc'], r['tok']['cat']
        if c.get('k') == 'chord' and '_text' in c:
            c['_enc'] = c['_text']      # a chord token's text is the cell as written (the generator writes some chords without separating spaces)
    own = {'**text': 29, '**dynam': 26, '**dyn': 26, '**harm': 27, '**mxhm': 27, '**fing': 28}
    for case in cases:
        if case.doc is None:
            continue
        st = docrun.grid_tree(case.adoc)
        order = docrun.preorder(st)
        exp = []
        for (s, i) in order[1:]:
            n = st[s][i]
            if n['kind'] == 'global':
                exp.append([n['cell']['text'].strip(), TC.LINE_COMMENTS.value - 1])
            elif n['kind'] == 'header':
                exp.append([n['cell']['text'], TC.HEADER.value - 1])
            elif n['kind'] == 'op':
                exp.append([n['cell']['text'], TC.SPINE_OPERATION.value - 1])
            else:
                exp.append([n['cell']['_enc'], n['cell']['_cat']])
        nt = (len(case.adoc['headers']) >= 2 or any(r['kind'] == 'cells' and r['rk'] == 'split' for r in case.adoc['rows'])) and \
            any(r['kind'] == 'global' for r in case.adoc['rows'])
        got = call(lambda: [[t.encoding, t.category.value - 1] for t in case.doc.get_all_tokens()])
        mfil = [None, [TC.NOTE_REST.value - 1], [TC.CORE.value - 1, TC.COMMENTS.value - 1], []]
        import impl as IM
        mr = ctx.driver.ask([{'op': 'doc.listing', 'text': case.text, 'oracle': IM.oracle_for_text(case.text), 'filters': mfil}])[0]
        model = {'ok': mr['ok']['listings'][0]} if 'ok' in mr else mr
        if 'ok' in mr:
            for f, ml, mu in zip(mfil[1:], mr['ok']['listings'][1:], mr['ok']['uniques'][1:]):
                fc = [cats[i] for i in f]
                gi = call(lambda: [[t.encoding, t.category.value - 1] for t in case.doc.get_all_tokens(filter_by_categories=fc)])
                gu = call(lambda: [[t.encoding, t.category.value - 1] for t in case.doc.get_unique_tokens(filter_by_categories=fc)])
                ctx.check({'text': case.text, 'filter': f, 'clause': 'tie: filtered / unique listing'}, [gi, gu], [{'ok': ml}, {'ok': mu}], None, nontrivial=False,
                          what='filtered or unique listing differs from the model')
            ctx.check({'text': case.text, 'clause': 'tie: comments, measures, spine types'},
                      [call(lambda: case.doc.get_metacomments()), call(lambda: case.doc.measures_count()) if case.doc.measure_start_tree_stages else {'err': 'Exception'},
                       call(lambda: kp.spine_types(case.doc))],
                      [{'ok': mr['ok']['metacomments']}, mr['ok']['measures'], mr['ok']['spine_types']], None, nontrivial=False, what='queries differ from the model')
        ctx.check({'text': case.text, 'clause': 'listing order'}, got, model, {'ok': exp}, nontrivial=nt,
                  what='the token listing is not: pre-header comments, each spine depth-first left to right, later comments')
        if got != {'ok': exp}:
            continue
        full = exp
        filters = [[c] for c in cats] + [rng.sample(cats, rng.randint(2, 6)) for _ in range(4)] + [[]]
        # a category together with one of its own descendants (and the other way round), a category twice: the closure of the filter is a union
        # (added after seeded change C17_r5_1: "categories already covered by another one" were dropped the wrong way round)
        for a, b in rng.sample(ANC_DESC, 4 if depth == 'quick' else 12):
            filters += [[cats[a], cats[b]], [cats[b], cats[a]]]
        filters += [[cats[a], cats[a]] for a in rng.sample(range(len(cats)), 2)] + [[cats[a] for a, b in FIXED_PAIRS], [TC.CORE, TC.NOTE_REST], [TC.COMMENTS, TC.LINE_COMMENTS],
                                                                                      [TC.PITCH, TC.CORE]]
        for f in filters:
            # the closure comes from the Lean specification of the documented tree (Spec.selected), not from kernpy's own `valid`
            closure = set(docrun.valid_idx(f, None)) if f else set()
            want = [t for t in full if t[1] in closure]
            g = call(lambda: [[t.encoding, t.category.value - 1] for t in case.doc.get_all_tokens(filter_by_categories=f)])
            ctx.seen({'text': case.text, 'filter': [c.name for c in f], 'clause': 'filtered'}, nt and 0 < len(want) < len(full))
            if g != {'ok': want}:
                ctx.fail({'text': case.text, 'filter': [c.name for c in f], 'clause': 'filtered listing'},
                         'a category-filtered listing is not the sub-sequence whose category lies in the closure of the filter', impl=g, expected=want)
            # unique = first occurrences by encoding
            seen, uw = set(), []
            for t in want:
                if t[0] not in seen:
                    seen.add(t[0]); uw.append(t)
            u = call(lambda: [[t.encoding, t.category.value - 1] for t in case.doc.get_unique_tokens(filter_by_categories=f)])
            if u != {'ok': uw}:
                ctx.fail({'text': case.text, 'filter': [c.name for c in f], 'clause': 'unique listing'}, 'unique listing does not keep first occurrences', impl=u, expected=uw)
            ue = call(lambda: case.doc.get_unique_token_encodings(filter_by_categories=f))
            ae = call(lambda: case.doc.get_all_tokens_encodings(filter_by_categories=f))
            if ue != {'ok': [t[0] for t in uw]} or ae != {'ok': [t[0] for t in want]}:
                ctx.fail({'text': case.text, 'filter': [c.name for c in f], 'clause': 'encodings listing'}, 'encoding listings disagree with the token listings', impl=[ue, ae])
            fr = call(lambda: case.doc.frequencies(token_categories=f))
            if 'ok' not in fr or sum(v['occurrences'] for v in fr['ok'].values()) != len(want) or set(fr['ok']) != seen:
                ctx.fail({'text': case.text, 'filter': [c.name for c in f], 'clause': 'frequencies'}, 'frequency counts do not sum to the listing', impl=str(fr)[:300], expected=len(want))
        # None filter = everything
        g = call(lambda: [[t.encoding, t.category.value - 1] for t in case.doc.get_all_tokens(filter_by_categories=None)])
        if g != {'ok': full}:
            ctx.fail({'text': case.text, 'clause': 'filter None'}, 'filter None is not the full listing', impl=g, expected=full)
        # comments
        com = [r['text'].strip() for r in case.adoc['rows'] if r['kind'] == 'global']
        g = call(lambda: case.doc.get_metacomments())
        if g != {'ok': com}:
            ctx.fail({'text': case.text, 'clause': 'comments'}, "the comment query does not return the '!!' lines in order", impl=g, expected=com)
        for key in ('COM', 'OTL', 'voices', 'ONB', 'XYZ', 'com', 'Com', 'OTL@@DE', 'otl', 'ENC', 'enc', 'VOICES', 'RDF**kern'):
            g = call(lambda: case.doc.get_metacomments(KeyComment=key))
            want = [c for c in com if c.startswith('!!!' + key)]
            ctx.seen({'text': case.text, 'key': key, 'clause': 'comments by key'}, bool(want))
            if g != {'ok': want}:
                ctx.fail({'text': case.text, 'key': key, 'clause': 'comments by key'}, 'the comment query with a key does not return exactly the lines with that prefix', impl=g, expected=want)
        # monophonic
        hs = case.adoc['headers']
        any_chord = any(c['k'] == 'chord' for r in case.adoc['rows'] if r['kind'] == 'cells' for c, s in zip(r['cells'], r['live']))
        any_nr = any(c['k'] in ('note', 'rest') for r in case.adoc['rows'] if r['kind'] == 'cells' for c in r['cells'])
        want = hs.count('**kern') == 1 and not any_chord and any_nr
        g = call(lambda: kp.is_monophonic(case.doc))
        ctx.seen({'text': case.text, 'clause': 'monophonic'}, False)
        if g != {'ok': want}:
            ctx.fail({'text': case.text, 'clause': 'is_monophonic'}, 'is_monophonic is not: one **kern spine, no chord, at least one note or rest', impl=g, expected=want)

    # scores without a single note or rest (templates: clef, meter, barlines, null cells, lyrics): never monophonic; with one rest or note: monophonic
    for text, want in (('**kern\n*clefG2\n*M4/4\n=1\n.\n=2\n*-\n', False), ('**kern\t**text\n*clefG2\t*\n=1\t=1\n.\tla\n=2\t=2\n*-\t*-\n', False),
                       ('**kern\t**dynam\n*\t*\n*-\t*-\n', False), ('**kern\n*-\n', False), ('**kern\t**text\n*clefG2\t*\n=1\t=1\n4r\tla\n*-\t*-\n', True),
                       ('**kern\n*clefG2\n4zz#\n*-\n', False), ('**kern\t**text\n.\tla\n4c\t.\n*-\t*-\n', True), ('**kern\t**kern\n.\t.\n*-\t*-\n', False)):
        g = call(lambda: kp.is_monophonic(kp.loads(text)[0]))
        ctx.seen({'text': text, 'clause': 'monophonic (scores without notes)'}, True)
        if g != {'ok': want}:
            ctx.fail({'text': text, 'clause': 'is_monophonic (scores without notes)'}, 'is_monophonic is not: one **kern spine, no chord, at least one note or rest',
                     impl=g, expected=want)


    long_listing(ctx)


def long_listing(ctx):
    """a long score (more lines than twice the recursion limit): every cell's token exactly once, in order; comments query; frequencies sum"""
    import gen
    import kernpy as kp
    from kernpy.core.tokens import TokenCategory as TC
    text, rows = gen.long_score(1)
    text = '!!!COM: X\n' + text + '!!!OTL: Y\n'
    def run():
        d = kp.loads(text)[0]
        enc = [t.encoding for t in d.get_all_tokens()]
        notes = [t.encoding for t in d.get_all_tokens(filter_by_categories=[TC.NOTE_REST])]
        return {'n': len(enc), 'head': enc[:6], 'tail': enc[-4:], 'notes_ok': notes == [r[0] for r in rows if r[0][0] == '4'], 'n_notes': len(notes),
                'freq_sum': sum(v['occurrences'] if isinstance(v, dict) else v for v in d.frequencies().values()), 'comments': d.get_metacomments()}
    got = call(run)
    cells = [c for r in rows for c in r]
    want = {'ok': {'n': len(cells) + 2, 'head': ['!!!COM: X', '**kern', '*clefG2', '*M4/4', '=', cells[4]], 'tail': [cells[-3], '==', '*-', '!!!OTL: Y'],
                   'notes_ok': True, 'n_notes': sum(1 for c in cells if c[0] == '4'), 'freq_sum': len(cells) + 2, 'comments': ['!!!COM: X', '!!!OTL: Y']}}
    ctx.seen({'clause': 'long score listing', 'rows': len(rows)}, True)
    if got != want:
        ctx.fail({'clause': 'long score listing', 'rows': len(rows), 'text_head': text[:80]},
                 'the listing of a long score is not every cell once in order (or the derived queries disagree)', impl=got, expected=want['ok'])


def replay(ctx, payload):
    explore(ctx, 'quick')


def reproduce(ctx, key, w):
    return False
