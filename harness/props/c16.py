"""C16 — Pitch spelling codec is lossless and side-effect free."""
from __future__ import annotations
from .util import call, spell, agn_name, LETTERS

ID = 'C16'
LEAN_MODULE = 'KernProofs.C16'
THEOREMS = ['KM.C16.C16_import', 'KM.C16.C16_export', 'KM.C16.C16_export_pure', 'KM.C16.C16_no_write_sites',
            'KM.C16.C16_export_twice', 'KM.C16.C16_roundtrip', 'KM.C16.C16_rejects_four', 'KM.C16.C16_spell_injective',
            'KM.importHumdrum_spell', 'KM.exportHumdrum_pitchOf']
FINGERPRINTS = ['pitch_models.AgnosticPitch', 'pitch_models.HumdrumPitchImporter.import_pitch',
                'pitch_models.HumdrumPitchImporter._parse_pitch', 'pitch_models.HumdrumPitchExporter.export_pitch']
RULE = ('exhaustive: 7 letters x 7 alterations (-3..3) x octaves -1..9 (thorough: -6..14 plus 40 random octaves in +-60), each '
        'imported, exported twice with a name/octave snapshot of the pitch object before and after, plus alterations +-4 (rejected) '
        'and a stream of random ASCII strings for the error classes; every case is distinct; non-trivial = at least one accidental '
        'or an octave other than 3/4')
ASSUMPTIONS = ['str.upper/lower/islower are modelled for ASCII only; non-ASCII input is outside the model (and rejected by the name check)']


def _mods():
    from kernpy.core import pitch_models as P
    return P


def one_case(ctx, P, l, a, o, r):
    s = spell(l, a, o)
    inp = {'letter': LETTERS[l], 'alteration': a, 'octave': o, 'spelling': s}
    if r['spell'] != s:
        ctx.check({**inp, 'clause': 'spelling'}, s, r['spell'], None, what='model spelling differs from the harness spelling')
    nontrivial = a != 0 or o not in (3, 4)
    # import
    def imp():
        p = P.HumdrumPitchImporter().import_pitch(s)
        return {'name': p.name, 'octave': p.octave}
    ri = call(imp)
    spec = {'ok': {'name': agn_name(l, a), 'octave': o}} if abs(a) <= 3 else {'err': 'ValueError'}
    ctx.check({**inp, 'clause': 'import'}, ri, r['import'], spec, nontrivial=nontrivial,
              what='import of a spelling does not yield its letter/alteration/octave')
    if 'ok' not in ri:
        return
    # every import hands out its own object: editing a pitch a caller got earlier must not change what a later import of the same spelling yields
    def own_object():
        p1 = P.HumdrumPitchImporter().import_pitch(s)
        p1.octave = p1.octave + 2
        p1.name = 'D-' if p1.name != 'D-' else 'E'
        p2 = P.HumdrumPitchImporter().import_pitch(s)
        return {'name': p2.name, 'octave': p2.octave, 'same_object': p2 is p1}
    ro = call(own_object)
    exp_o = {'ok': {'name': agn_name(l, a), 'octave': o, 'same_object': False}}
    ctx.seen({**inp, 'clause': 'import after a caller edited an earlier result'}, nontrivial)
    if ro != exp_o:
        ctx.fail({**inp, 'clause': 'import after a caller edited an earlier result'},
                 'a second import of the same spelling is affected by edits to the pitch object an earlier import returned', impl=ro, expected=exp_o['ok'])
    # a pitch named in the '#' notation (constructor or setter) is the same pitch: it exports to the same spelling
    if a > 0:
        sharp_name = LETTERS[l] + '#' * a
        for how in ('constructor', 'setter'):
            def via_sharp():
                if how == 'constructor':
                    q = P.AgnosticPitch(sharp_name, o)
                else:
                    q = P.AgnosticPitch(LETTERS[l], o)
                    q.name = sharp_name
                return {'name': q.name, 'export': P.HumdrumPitchExporter().export_pitch(q), 'accidentals': q.accidentals() if hasattr(q, 'accidentals') and callable(q.accidentals) else None}
            rs = call(via_sharp)
            ctx.seen({**inp, 'clause': "named with '#' (%s)" % how}, True)
            if 'ok' not in rs or rs['ok']['name'] != agn_name(l, a) or rs['ok']['export'] != s:
                ctx.fail({**inp, 'clause': "named with '#' (%s)" % how, 'given_name': sharp_name},
                         "a pitch named in the '#' notation is not the pitch of the '+' notation (name / exported spelling)", impl=rs, expected={'name': agn_name(l, a), 'export': s})
    # export twice, snapshots
    p = P.AgnosticPitch(ri['ok']['name'], ri['ok']['octave'])
    before = (p.name, p.octave)
    e1 = call(lambda: P.HumdrumPitchExporter().export_pitch(p))
    mid = (p.name, p.octave)
    e2 = call(lambda: P.HumdrumPitchExporter().export_pitch(p))
    after = (p.name, p.octave)
    impl = {'first': e1.get('ok', e1), 'second': e2.get('ok', e2), 'after': {'name': after[0], 'octave': after[1]}}
    spec = {'first': s, 'second': s, 'after': {'name': before[0], 'octave': before[1]}}
    ctx.check({**inp, 'clause': 'export twice'}, impl, r['export'], spec, nontrivial=nontrivial,
              what='export does not return the spelling, or alters the pitch object (second export differs)')
    if mid != before:
        ctx.fail({**inp, 'clause': 'purity'}, 'export_pitch altered the pitch object it was given', impl=list(mid), expected=list(before))


def explore(ctx, depth):
    P = _mods()
    octs = list(range(-1, 10)) if depth == 'quick' else list(range(-6, 15)) + [ctx.rng.randint(-60, 60) for _ in range(40)]
    alts = list(range(-3, 4)) + [-4, 4]
    cases = [(l, a, o) for l in range(7) for a in alts for o in octs]
    resp = ctx.driver.ask([{'op': 'c16.case', 'l': l, 'a': a, 'o': o} for l, a, o in cases])
    for (l, a, o), r in zip(cases, resp):
        ctx.count(f'alt{a}')
        one_case(ctx, P, l, a, o, r)
    # one importer object and one exporter object (Humdrum and American) serving the whole grid in sequence: every result is the spelling, and
    # every pitch object handed out or passed in earlier still is the pitch it was
    def reused_objects():
        imp, exp, aexp = P.HumdrumPitchImporter(), P.HumdrumPitchExporter(), P.AmericanPitchExporter()
        kept, bad = [], []
        for (l, a, o) in cases:
            if abs(a) > 3:
                continue
            s = spell(l, a, o)
            p = imp.import_pitch(s)
            q = P.AgnosticPitch(agn_name(l, a), o)
            out_p, out_q = exp.export_pitch(p), exp.export_pitch(q)
            try:
                aexp.export_pitch(q)
            except Exception:  # noqa
                pass
            if out_p != s or out_q != s:
                bad.append(['export', s, out_p, out_q])
            kept.append((s, agn_name(l, a), o, p, q))
        for s, name, o, p, q in kept:
            if (p.name, p.octave) != (name, o) or (q.name, q.octave) != (name, o):
                bad.append(['object changed later', s, [p.name, p.octave], [q.name, q.octave]])
        return bad[:5]
    got = call(reused_objects)
    ctx.seen({'clause': 'one importer / exporter object for the whole grid'}, True)
    if got != {'ok': []}:
        ctx.fail({'clause': 'one importer / exporter object for the whole grid'},
                 'with one importer and one exporter object serving many pitches a result is wrong or an earlier pitch object was altered', impl=got, expected=[])
    # renaming an existing pitch: a rejected name leaves the pitch as it was; an accepted one makes it exactly the pitch of that name
    # (round 6: C16_r6_1 stored the rejected name before checking it, C16_r6_2 kept a stale copy of the letter)
    def renamed():
        bad = []
        imp, exp_ = P.HumdrumPitchImporter(), P.HumdrumPitchExporter()
        for l in range(7):
            for a in (-3, -1, 0, 2):
                for o in (-1, 0, 3, 4, 8):
                    s = spell(l, a, o)
                    p = imp.import_pitch(s)
                    for rejected in ('C++++', 'C----', 'H', 'c+-+-+', ''):
                        try:
                            p.name = rejected
                            bad.append(['accepted', s, rejected])
                        except ValueError:
                            pass
                        except Exception as e:
                            bad.append(['raised ' + type(e).__name__, s, rejected])
                    if (p.name, p.octave) != (agn_name(l, a), o) or exp_.export_pitch(p) != s:
                        bad.append(['changed by a rejected name', s, [p.name, p.octave], exp_.export_pitch(p)])
                    l2, a2 = (l + 3) % 7, (a + 4) % 7 - 3
                    p.name = agn_name(l2, a2)
                    out = exp_.export_pitch(p)
                    if out != spell(l2, a2, o) or (p.name, p.octave) != (agn_name(l2, a2), o):
                        bad.append(['renamed', s, agn_name(l2, a2), out, spell(l2, a2, o)])
                    q = imp.import_pitch(out)
                    if (q.name, q.octave) != (p.name, p.octave):
                        bad.append(['renamed, re-imported', s, out, [q.name, q.octave]])
        return bad[:5]
    got = call(renamed)
    ctx.seen({'clause': 'renaming an existing pitch'}, True)
    if got != {'ok': []}:
        ctx.fail({'clause': 'renaming an existing pitch (rejected names leave it unchanged, accepted names are exported and re-imported exactly)'},
                 'a pitch whose name was reassigned is not exported as the pitch it now is, or a rejected name changed it', impl=got, expected=[])
    # error classes on arbitrary ASCII (tie only)
    rng = ctx.rng
    alphabet = 'abcdefgABCDEFGhzHZ#-+n19 x'
    strs = [''.join(rng.choice(alphabet) for _ in range(rng.randint(0, 6))) for _ in range(300 if depth == 'quick' else 3000)]
    resp = ctx.driver.ask([{'op': 'pitch.import', 'enc': s} for s in strs])
    for s, r in zip(strs, resp):
        def imp():
            p = P.HumdrumPitchImporter().import_pitch(s)
            return {'name': p.name, 'octave': p.octave}
        ctx.check({'clause': 'import arbitrary', 'spelling': s}, call(imp), r['model'], None, nontrivial=False, what='import of arbitrary text')
        ctx.count('arbitrary')
    ctx.exhaustive = True


def replay(ctx, payload):
    explore(ctx, 'quick')


def reproduce(ctx, key, w):
    return False
