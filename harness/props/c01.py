"""C01 — Normalised export is a fixed point of import-then-export."""
from __future__ import annotations
import copy
from .util import call

ID = 'C01'
LEAN_MODULE = 'KernProofs.C01'
EXTRA_MODULES = ['KernProofs.C01Norm', 'KernProofs.C01Text', 'KernProofs.C01Plain']
THEOREMS = ['KM.C01.C01_canon', 'KM.C01.C01_canon_export', 'KM.C01.canon_sameContent', 'KM.C01.C01_export_is_render_canon', 'KM.C01.C01_cell_fixed_point', 'KM.C01.canon_idem', 'KM.Spec.sortedSet_congr', 'KM.Spec.sortedSet_idem', 'KM.C03.C03_single',
            'KM.C01N.C01_normal_form_fixed_point', 'KM.C01N.C01_normalForm_idem', 'KM.C01N.RT_P0',
            'KM.C01T.specExport_rel', 'KM.C01T.toks_rel', 'KM.C01T.C01_export_of_normal_form', 'KM.C01T.C01_dumps_of_normal_form',
            'KM.C01P.specBody_allsel', 'KM.C01P.C01_plain_export', 'KM.C01P.outRows_norm', 'KM.C01P.C01_fixed_point_plain']
FINGERPRINTS = ['tokens.NoteRestToken.export', 'tokens.ChordToken.export', 'tokenizers.KernTokenizer.tokenize', 'tokenizers.EkernTokenizer.tokenize',
                'base_antlr_spine_parser_listener', 'exporter.Exporter.export_string', 'exporter.get_kern_from_ekern', 'importer.Importer',
                'kern_spine_importer.KernSpineImporter.import_token']
RULE = ('generated documents of the full grammar (quick 40 / thorough 500): dumps, loads(dumps) error list, dumps(loads(dumps)); the extended chain '
        'dumps(eKern) -> get_kern_from_ekern -> loads -> dumps(eKern); and for every document a variant in which the signifiers of every note are '
        'permuted across the four positions and duplicated (same set) must give the same export; plus the corpus of all single and ordered-pair '
        'placements of the 30 signifiers; the model is run on the same chains (tie); non-trivial = document with >= 2 data rows and >= 1 note')
ASSUMPTIONS = ['canonicity is claimed for the 30 non-combining signifiers (and X i j Z on notes without accidental), as in the property']


def scramble(rng, cell):
    """same content, signifiers permuted across positions and duplicated"""
    import gen
    c = copy.deepcopy(cell)
    if c['k'] == 'chord':
        c['es'] = [scramble(rng, e) for e in c['es']]
        return c
    if c['k'] == 'note':
        sigs = c['pre'] + c['mid'] + c['post1'] + c['post2']
        sigs = sigs + [rng.choice(sigs) for _ in range(rng.randint(0, 2))] if sigs else []
        rng.shuffle(sigs)
        c['pre'], c['mid'], c['post1'], c['post2'] = [], [], [], []
        for s in sigs:
            slots = ['pre', 'post2']
            if c['dur'] is not None:
                slots.append('mid')
            if c['acc'] and s not in gen.SIG_DISPLAY:
                slots.append('post1')
            if c['acc'] and s in gen.SIG_DISPLAY:
                slots = ['pre'] + (['mid'] if c['dur'] is not None else [])   # directly after an accidental it would be read as display
            c[rng.choice(slots)].append(s)
        return c
    if c['k'] == 'rest':
        # the vertical position of a rest (letters, e.g. GG) is one signifier: it is neither repeated (GGGG is another position) nor moved in
        # front of the duration; it keeps a place somewhere after the r
        pos = [x for x in c['pre'] + c['post'] if x.isalpha() and x != 'X']
        sigs = [x for x in c['pre'] + c['post'] if x not in pos]
        sigs = sigs + [rng.choice(sigs) for _ in range(rng.randint(0, 1))] if sigs else []
        rng.shuffle(sigs)
        k = rng.randint(0, len(sigs))
        c['pre'], c['post'] = sigs[:k], sigs[k:]
        for x in pos[:1]:
            c['post'].insert(rng.randint(0, len(c['post'])), x)
        return c
    return c


def explore(ctx, depth):
    import docrun, gen, impl
    import kernpy as kp
    from kernpy.core.tokenizers import Encoding
    from kernpy.core.exporter import get_kern_from_ekern
    rng = ctx.rng
    cases = docrun.make_cases(ctx, 40 if depth == 'quick' else 500)
    extended_signifiers(ctx, depth)
    # the witness of the repaired defect F22 (free text that mentions an extended header) and some relatives: both chains hold
    import json as _json
    from common import VERIF as _V
    wtexts = [_json.load(open(_V / 'findings' / 'F22-header-rewrite-in-free-text.json'))['input']['text'],
              '**kern\t**dynam\t**text\n*clefG2\t*\t*\n=1\t=1\t=1\n4c\tp**edynam\t**e\n!see **etext and **edyn\t!**ekern\t!x**eharm y\n8d\tf\tla**eroot\n==\t==\t==\n*-\t*-\t*-\n']
    for wt in wtexts:
        r = call(lambda: ext_chain(kp, Encoding, get_kern_from_ekern, wt))
        ctx.seen({'text': wt, 'clause': 'free text that mentions an extended header'}, True)
        if r != {'ok': None}:
            ctx.fail({'text': wt, 'clause': 'free text that mentions an extended header (witness of the repaired defect F22)'},
                     'import(export) has errors or does not re-export to the same text (plain or extended chain)', impl=r)
    # corpus: all single and ordered-pair placements of the signifiers on one note (one document each batch)
    import itertools
    notes = []
    sigs = gen.SIG30
    pairs = list(itertools.permutations(sigs, 2)) if depth == 'thorough' else [tuple(rng.sample(sigs, 2)) for _ in range(120)]
    for a, b in pairs:
        notes.append(({'k': 'note', 'pre': [a], 'dur': {'num': '4', 'rat': None, 'dots': 0, 'grace': ''}, 'mid': [], 'pitch': 'c', 'post1': [], 'acc': '', 'disp': '', 'post2': [b]},
                      {'k': 'note', 'pre': [], 'dur': {'num': '4', 'rat': None, 'dots': 0, 'grace': ''}, 'mid': [b, a], 'pitch': 'c', 'post1': [], 'acc': '', 'disp': '', 'post2': [b]}))
    corpus_docs = []
    for chunk in range(0, len(notes), 40):
        part = notes[chunk:chunk + 40]
        for side in (0, 1):
            rows = [{'kind': 'cells', 'rk': 'header', 'cells': [{'k': 'header', 'text': '**kern'}], 'live': [0]}]
            rows += [{'kind': 'cells', 'rk': 'data', 'cells': [copy.deepcopy(p[side])], 'live': [0]} for p in part]
            rows += [{'kind': 'cells', 'rk': 'term', 'cells': [gen.op_cell('*-')], 'live': [0]}]
            corpus_docs.append({'headers': ['**kern'], 'rows': rows, 'profile': 'corpus'})
    gen.render_documents(ctx.driver, corpus_docs)
    corpus = [docrun.Case(d) for d in corpus_docs]
    for c in corpus:
        c.import_impl()
    for a, b in zip(corpus[0::2], corpus[1::2]):
        ea, eb = call(lambda: kp.dumps(a.doc)), call(lambda: kp.dumps(b.doc))
        ctx.seen({'corpus': a.text[:60]})
        if ea != eb:
            ctx.fail({'text_a': a.text, 'text_b': b.text, 'clause': 'canonicity (signifier pair corpus)'},
                     'two writings of the same notes (same signifier sets) export differently', impl=ea, expected=eb)
    # the statements of C01_normalForm_idem and C01_dumps_of_normal_form evaluated on the real library: the cell-wise normal form of the text
    # (computed by the Lean definition `C01N.normalForm` with the real parser's per-cell outcomes) is idempotent and exports to the same text
    plain_cases = docrun.make_cases(ctx, 12 if depth == 'quick' else 120, comments=False)      # documents without global comments: mostly plain texts
    live = [c for c in cases + plain_cases if c.doc is not None]
    nresp = ctx.driver.ask([{'op': 'doc.norm', 'text': c.text, 'oracle': impl.oracle_for_text(c.text)} for c in live])
    ntexts = [''.join('\t'.join(row) + '\n' for row in r['rows']) for r in nresp]
    n2resp = ctx.driver.ask([{'op': 'doc.norm', 'text': t, 'oracle': impl.oracle_for_text(t)} for t in ntexts])
    for c, nt_, r2 in zip(live, ntexts, n2resp):
        n2 = ''.join('\t'.join(row) + '\n' for row in r2['rows'])
        ctx.seen({'text': c.text, 'clause': 'normal form'}, docrun.nontrivial(c))
        ctx.count('normal_form:' + ('changed' if nt_ != c.text else 'same'))
        if n2 != nt_:
            ctx.fail({'text': c.text, 'normal_form': nt_, 'clause': 'normal form idempotent'},
                     'the cell-wise normal form of the text (every data cell replaced by its exported text) is not a fixed point of itself', impl=n2, expected=nt_)
            continue
        ea = call(lambda: kp.dumps(c.doc))
        eb = call(lambda: kp.dumps(kp.loads(nt_)[0]))
        if ea != eb:
            ctx.fail({'text': c.text, 'normal_form': nt_, 'clause': 'export of the normal form'},
                     'dumps(loads(normal form of the text)) differs from dumps(loads(text))', impl=eb, expected=ea)
        # the statement of C01_plain_export / C01_fixed_point_plain: for a plain text (no global comment, only supported spine types, no line of
        # the normal form all-null) the export IS the normal form
        plain = not any(r['kind'] == 'global' for r in c.adoc['rows']) and all(h in gen.HEADERS for h in c.adoc['headers']) and \
            all(any(x not in ('.', '*', '') for x in ln.split('\t')) for ln in nt_.split('\n')[:-1])
        ctx.count('normal_form:' + ('plain' if plain else 'not-plain'))
        if plain and ea != {'ok': nt_}:
            ctx.fail({'text': c.text, 'clause': 'plain text: export = normal form'},
                     'the default export of a plain text is not its cell-wise normal form', impl=ea, expected=nt_)
    # chains on generated documents
    chain_cases, chain_exps = [], []
    for case in cases:
        if case.doc is None:
            ctx.fail({'text': case.text, 'clause': 'import'}, 'a well-formed document does not import', impl=case.import_result)
            continue
        nt = docrun.nontrivial(case)
        e1 = call(lambda: kp.dumps(case.doc))
        ctx.seen({'text': case.text, 'clause': 'fixed point'}, nt)
        if 'ok' not in e1:
            ctx.fail({'text': case.text, 'clause': 'default export'}, 'default export raises', impl=e1)
            continue
        def reimport(text):
            d, errs = kp.loads(text)
            return {'errors': [[e.line, e.encoding] for e in errs], 'export': kp.dumps(d)}
        r2 = call(lambda: reimport(e1['ok']))
        exp = {'ok': {'errors': [], 'export': e1['ok']}}
        if r2 != exp:
            ctx.fail({'text': case.text, 'clause': 'kern fixed point'}, 'import(export) has errors or does not re-export to the same text', impl=r2, expected=exp)
        # the same through the file entry points: the source written to a file and read with load(), the export written with dump() and read
        # back with load() - the normal form must not depend on the entry point
        import tempfile, os
        with tempfile.TemporaryDirectory(prefix='kernverif_c01_') as td:
            src_path, out_path = os.path.join(td, 'src.krn'), os.path.join(td, 'out.krn')
            with open(src_path, 'w', encoding='utf-8', newline='') as f:
                f.write(case.text)
            def via_files():
                d, errs = kp.load(src_path)
                kp.dump(d, out_path)
                d2, errs2 = kp.load(out_path)
                return {'errors': [[e.line, e.encoding] for e in errs] + [[e.line, e.encoding] for e in errs2], 'first': kp.dumps(d), 'second': kp.dumps(d2)}
            rf = call(via_files)
        expf = {'ok': {'errors': [], 'first': e1['ok'], 'second': e1['ok']}}
        if rf != expf:
            ctx.fail({'text': case.text, 'clause': 'fixed point through files (load / dump / load)'},
                     'importing the document from a file, or re-importing its export from a file, does not give the same normal form as the in-memory path',
                     impl=rf, expected=expf['ok'])
        x1 = call(lambda: kp.dumps(case.doc, encoding=Encoding.eKern))
        if 'ok' in x1:
            def chain():
                k = get_kern_from_ekern(x1['ok'])
                d, errs = kp.loads(k)
                return {'errors': [[e.line, e.encoding] for e in errs], 'export': kp.dumps(d, encoding=Encoding.eKern)}
            r3 = call(chain)
            exp = {'ok': {'errors': [], 'export': x1['ok']}}
            if r3 != exp:
                ctx.fail({'text': case.text, 'clause': 'ekern fixed point'},
                         'removing the separators of the extended export, re-importing and re-exporting in extended form does not return the same text',
                         impl=r3, expected=exp)
        # model tie on the chain: the model imports the exported text and must export the same again
        c2 = docrun.Case({'text': e1['ok'], 'headers': case.adoc['headers'], 'rows': []})
        chain_cases.append((case, c2, e1['ok']))
    # the normal form of documents whose free text holds the two separator characters: whatever the first export makes of such text (finding
    # F10 of C03/C04: the plain encodings drop the characters), the exported text is a normal form, so it must be a fixed point of the plain
    # chain AND of the extended chain (dumps(eKern) -> get_kern_from_ekern -> loads -> dumps(eKern))
    sep_docs = []
    for case in cases[:10 if depth == 'quick' else 100]:
        if case.doc is None or not any(h != '**kern' for h in case.adoc['headers']):
            continue
        v = copy.deepcopy(case.adoc)
        k = 0
        for row in v['rows']:
            if row['kind'] == 'cells' and row['rk'] == 'data':
                for c in row['cells']:
                    if c['k'] == 'other' and c.get('kind') in ('lyrics', 'dynamics', 'harmony', 'fingering', 'otherText') and k < 4:
                        c['text'] = ['col\u00b7le-', 'a@b', 'x\u00b7@y', 'l\u00b7l'][k]
                        k += 1
        if k:
            sep_docs.append(v)
    if sep_docs:
        gen.render_documents(ctx.driver, sep_docs)
        for v in sep_docs:
            def normal_form_chains():
                d0, _ = kp.loads(v['text'])
                nf = kp.dumps(d0)
                d1, errs1 = kp.loads(nf)
                plain = kp.dumps(d1)
                x = kp.dumps(d1, encoding=Encoding.eKern)
                d2, errs2 = kp.loads(get_kern_from_ekern(x))
                return {'errors': [[e.line, e.encoding] for e in errs1 + errs2], 'plain_fixed': plain == nf, 'extended_fixed': kp.dumps(d2, encoding=Encoding.eKern) == x}
            got = call(normal_form_chains)
            ctx.seen({'text': v['text'], 'clause': 'normal form of text with separator characters'}, True)
            if got != {'ok': {'errors': [], 'plain_fixed': True, 'extended_fixed': True}}:
                ctx.fail({'text': v['text'], 'clause': 'normal form of text with separator characters'},
                         'the exported text of a document whose free text holds @ or \u00b7 is not a fixed point of the plain and the extended chain',
                         impl=got, expected={'ok': {'errors': [], 'plain_fixed': True, 'extended_fixed': True}})
    # canonicity on documents
    variants = []
    for case in cases:
        v = copy.deepcopy(case.adoc)
        for row in v['rows']:
            if row['kind'] == 'cells':
                row['cells'] = [scramble(rng, c) for c in row['cells']]
        variants.append(v)
    gen.render_documents(ctx.driver, variants)
    for case, v in zip(cases, variants):
        if case.doc is None:
            continue
        vc = docrun.Case(v)
        vc.import_impl()
        ea = call(lambda: kp.dumps(case.doc))
        eb = call(lambda: kp.dumps(vc.doc)) if vc.doc is not None else vc.import_result
        ctx.seen({'text': v['text'], 'clause': 'canonicity'}, docrun.nontrivial(case))
        if ea != eb:
            ctx.fail({'text_a': case.text, 'text_b': v['text'], 'clause': 'canonicity (document)'},
                     'the same document with signifiers in another order/position/repetition exports differently', impl=eb, expected=ea)
    # tie: model on original and on exported text
    m1 = docrun.model_exports(ctx, [c for c, _, _ in chain_cases], [[{'cats': docrun.ALLC, 'enc': 'kern'}, {'cats': docrun.ALLC, 'enc': 'ekern'}] for _ in chain_cases])
    m2 = docrun.model_exports(ctx, [c2 for _, c2, _ in chain_cases], [[{'cats': docrun.ALLC, 'enc': 'kern'}] for _ in chain_cases])
    for (case, c2, e1), r1, r2 in zip(chain_cases, m1, m2):
        ctx.check({'text': case.text, 'clause': 'tie: default export'}, {'ok': e1}, r1['exports'][0] if 'exports' in r1 else r1['import'], None,
                  nontrivial=False, what='default export differs from the model')
        ctx.check({'text': e1, 'clause': 'tie: re-export of the exported text'}, {'ok': e1}, r2['exports'][0] if 'exports' in r2 else r2['import'], None,
                  nontrivial=False, what='model: export(import(export)) differs')


# every alternative of `noteDecoration` in the grammar, with the ones that are longer than one character or combine with their neighbours
# (outside the 30 signifiers of the canonicity clause): slurs with elision marks and staff changes, ties, hidden ties, editorial marks, trills,
# mordents, grace marks, ...
EXT_SIGS = ['&(', '&)', '&&(', '(<', '(>', ')', '(', '<', '>', 'L<', 'J>', 'K<', 'k>', '[y', '[', ']', '_', 'x', 'xx', 'y', 'yy', '?', '??', 'T', 'TT', 't',
            'W', 'w', 'Ww', 'M', 'm', 'q', 'qq', 'p', 'P', '.', 'S', '$', 'O', 'l', 'V', 'N', 'j', 'X', 'Z', 'i', ':', "'", '"', '`', '~', '^', ';', 's',
            '{', '}', '/', '\\', 'L', 'J', 'K', 'k']


def ext_chain(kp, Encoding, get_kern_from_ekern, text):
    """the two chains of the property on one text; returns None when both hold, else (clause, details...)"""
    d, e = kp.loads(text)
    if e:
        return ('import-errors', [x.encoding for x in e])
    d1 = kp.dumps(d)
    dd, ee = kp.loads(d1)
    if ee:
        return ('reimport-errors', d1, [x.encoding for x in ee])
    d2 = kp.dumps(dd)
    if d2 != d1:
        return ('plain-not-fixed', d1, d2)
    e1 = kp.dumps(d, encoding=Encoding.eKern)
    d3, e3 = kp.loads(get_kern_from_ekern(e1))
    if e3:
        return ('ext-reimport-errors', e1, [x.encoding for x in e3])
    e2 = kp.dumps(d3, encoding=Encoding.eKern)
    if e2 != e1:
        return ('ext-not-fixed', e1, e2)
    return None


def extended_signifiers(ctx, depth):
    """notes that carry one or two signifiers of the FULL alphabet of the grammar, before the duration and after the pitch: the default export
    must re-import without errors and be a fixed point; the extended chain must return the extended text - except that two signifiers which read
    as ONE longer signifier when they stand next to each other (`(` + `<`, `[` + `y`, `W` + `w`, `?` + `??` ...) cannot be told apart once the
    separators are removed: finding F20, attributed only when the two extended texts differ in decoration separators alone"""
    import kernpy as kp
    from kernpy.core.tokenizers import Encoding
    from kernpy.core.exporter import get_kern_from_ekern
    rng = ctx.rng
    combos = [((a,), ()) for a in EXT_SIGS] + [((), (a,)) for a in EXT_SIGS]
    pairs = [(a, b) for a in EXT_SIGS for b in EXT_SIGS]
    if depth == 'quick':
        pairs = rng.sample(pairs, 500) + [('(', '&('), ('&(', '('), (')', '&)'), ('(', '(<'), ('L', 'L<'), ('[', 'y'), ('W', 'w'), ('(', '<')]
    for a, b in pairs:
        combos.append(((a,), (b,)) if rng.random() < 0.5 else ((), (a, b)))
        if rng.random() < 0.3:
            combos.append(((a, b), ()))
    for pre, post in combos:
        cell = ''.join(pre) + rng.choice(['4c', '8.dd', '16GG#', '2e-']) + ''.join(post)
        text = '**kern\n*clefG2\n=1\n%s\n==\n*-\n' % cell
        r = call(lambda: ext_chain(kp, Encoding, get_kern_from_ekern, text))
        ctx.seen({'cell': cell, 'clause': 'extended signifier alphabet'}, True)
        ctx.count('ext_sig:' + ('raise' if 'err' in r else 'ok' if r['ok'] is None else r['ok'][0]))
        if 'err' in r:
            ctx.fail({'text': text, 'clause': 'extended signifier alphabet'}, 'import / export of a note with grammar signifiers raises', impl=r)
            continue
        r = r['ok']
        if r is None or r[0] == 'import-errors':
            continue                      # the parser rejects the combination: not a document that "imports without errors"
        if r[0] == 'ext-not-fixed':
            sep_only = r[1].replace('\u00b7', '') == r[2].replace('\u00b7', '')
            ctx.fail({'text': text, 'clause': 'extended chain (full signifier alphabet)'},
                     'the extended export is not returned by removing the separators, re-importing and re-exporting in extended form',
                     impl=r[2], expected=r[1], core=not sep_only, finding='F20-fusing-signifiers' if sep_only else None, tie_ok=True)
        else:
            ctx.fail({'text': text, 'clause': r[0] + ' (full signifier alphabet)'},
                     'import(export) has errors or does not re-export to the same text', impl=list(r[1:]))


def replay(ctx, payload):
    explore(ctx, 'quick')


def reproduce(ctx, key, w):
    if key == 'F20-fusing-signifiers':
        import kernpy as kp
        from kernpy.core.tokenizers import Encoding
        from kernpy.core.exporter import get_kern_from_ekern
        r = ext_chain(kp, Encoding, get_kern_from_ekern, w['input']['text'])
        return r is not None and r[0] == 'ext-not-fixed' and r[1] == w['expected'] and r[2] == w['impl']
    return False
