"""C10 — Agnostic encoding depends only on staff position and accidental."""
from __future__ import annotations
from .util import call, spell, agn_name, LETTERS

ID = 'C10'
LEAN_MODULE = 'KernProofs.C10'
EXTRA_MODULES = ['KernProofs.C10Doc', 'KernProofs.C10Text']
THEOREMS = ['KM.C10.bottom_table', 'KM.C10.bottom_G2', 'KM.C10.letterToIndex_table', 'KM.C10.gkernLetters_table',
            'KM.C10.gkernOfPosition_steps', 'KM.C10.C10_position', 'KM.C10.C10_G2_identity', 'KM.C10.C10_translation',
            'KM.C10.C10_bottom_is_e', 'KM.C10.C10_all_clefs', 'KM.C10.C10_marks_ignored',
            'KM.C10D.lookup_sigsUpdate', 'KM.C10D.cellStep_body_sigs', 'KM.C10D.nodeAt_addNode', 'KM.C10D.SI_add', 'KM.C10D.runRows_SI',
            'KM.C10D.C10_sigs_recurrence', 'KM.C10D.C10_clef_passes_down', "KM.C10D.C10_clef_passes_down'", 'KM.C10D.C10_clef_sets', 'KM.C10D.C10_clef_in_force',
            'KM.C10T.tinv_step', 'KM.C10T.parent_earlier', 'KM.C10T.clef_is_nearest', 'KM.C10T.clefOf_spec', 'KM.C10T.cellBody_any', 'KM.C10T.rowOfStage_specA',
            'KM.C10T.C10_export_of_text', 'KM.C10T.bodyRows_range_of_text']
FINGERPRINTS = ['gkern.PositionInStaff', 'gkern.PitchPositionReferenceSystem.compute_position', 'gkern.ClefFactory.create_clef',
                'gkern.gkern_to_g_clef_pitch', 'gkern.pitch_to_gkern_string', 'gkern.GKernExporter', 'gkern.Staff',
                'pitch_models.AgnosticPitch']
RULE = ('exhaustive: 7 clefs x {no, ^, ^^, v, vv} octave marks x 7 letters x {none, #, ##, -, --} x octaves 0..8 (11 025 cases; thorough: '
        'octaves -5..14 and triple accidentals) through ClefFactory.create_clef + pitch_to_gkern_string, each checked against the '
        'characterisation, the G2 identity, translation by -9..9 steps, bottom line -> e, accidental suffix and mark-independence; '
        'plus malformed clef texts for the error classes; non-trivial = clef other than plain G2 or an accidental')
ASSUMPTIONS = ['decimal formatting of the staff position (str(int) / int(str)) is not modelled', 'ASCII only']

CLEFS = ['G2', 'F3', 'F4', 'C1', 'C2', 'C3', 'C4']
MARKS = ['', '^', '^^', 'v', 'vv']


def move(l, o, k):
    d = 7 * o + l + k
    return d % 7, d // 7


def explore(ctx, depth):
    from kernpy.core import gkern as G
    from kernpy.core.pitch_models import AgnosticPitch
    octs = list(range(0, 9)) if depth == 'quick' else list(range(-5, 15))
    alts = [0, 1, 2, 3, -1, -2, -3]        # triple accidentals in both tiers (round 6, C10_r6_1: a `{0,2}` quantifier)
    cases = [(c, m, l, a, o) for c in CLEFS for m in MARKS for l in range(7) for a in alts for o in octs]
    texts = {(c, m): '*clef' + c[0] + m + c[1] for c in CLEFS for m in MARKS}
    resp = ctx.driver.ask([{'op': 'c10.case', 'clef': texts[(c, m)], 'l': l, 'a': a, 'o': o} for c, m, l, a, o in cases])
    plain = {}
    bottoms = {}
    for c in CLEFS:
        b = G.ClefFactory.create_clef('*clef' + c).bottom_line()
        bottoms[c] = (b.name, b.octave)

    def gk(text, l, a, o):
        return call(lambda: G.pitch_to_gkern_string(AgnosticPitch(agn_name(l, a), o), G.ClefFactory.create_clef(text)))

    for (c, m, l, a, o), r in zip(cases, resp):
        inp = {'clef': texts[(c, m)], 'pitch': spell(l, a, o)}
        impl = gk(texts[(c, m)], l, a, o)
        ctx.check(inp, impl, r['model'], r['spec'], nontrivial=(c != 'G2' or m != '' or a != 0),
                  what='agnostic spelling is not the pitch on the same line/space under G2 with the same accidental')
        if m == '':
            plain[(c, l, a, o)] = impl
        elif impl != plain.get((c, l, a, o)):
            ctx.fail({**inp, 'clause': 'octave marks'}, 'octave marks on the clef change the position', impl=impl, expected=plain.get((c, l, a, o)))
        if c == 'G2' and impl != {'ok': spell(l, a, o)}:
            ctx.fail({**inp, 'clause': 'G2 identity'}, 'under G2 the agnostic spelling is not the pitch itself', impl=impl, expected={'ok': spell(l, a, o)})
        if 'ok' in impl:
            acc = ('#' * a if a >= 0 else '-' * (-a))
            if not (impl['ok'].endswith(acc) and impl['ok'][:len(impl['ok']) - len(acc)].isalpha()):
                ctx.fail({**inp, 'clause': 'accidental'}, 'accidental not carried over unchanged', impl=impl, expected=acc)
    # translation and bottom line, on the implementation
    rng = ctx.rng
    for c in CLEFS:
        bn, bo = bottoms[c]
        r = call(lambda: G.pitch_to_gkern_string(AgnosticPitch(bn, bo), G.ClefFactory.create_clef('*clef' + c)))
        ctx.seen({'clef': c, 'clause': 'bottom'})
        if r != {'ok': 'e'}:
            ctx.fail({'clef': c, 'clause': 'bottom line', 'pitch': [bn, bo]}, "the clef's bottom-line pitch does not map to e", impl=r, expected={'ok': 'e'})
        for l in range(7):
            for o in (octs if depth == 'thorough' else [1, 3, 4, 6]):
                base = gk('*clef' + c, l, 0, o)
                for k in range(-9, 10):
                    l2, o2 = move(l, o, k)
                    moved = gk('*clef' + c, l2, 0, o2)
                    ctx.seen({'clef': c, 'l': l, 'o': o, 'k': k, 'clause': 'translation'})
                    if 'ok' in base and 'ok' in moved:
                        # decode base spelling to (letter, octave), move it, respell
                        s = base['ok']
                        L = LETTERS.index(s[0].upper())
                        O = 3 + len(s) if s[0].islower() else 4 - len(s)
                        l3, o3 = move(L, O, k)
                        if moved['ok'] != spell(l3, 0, o3):
                            ctx.fail({'clef': c, 'pitch': spell(l, 0, o), 'k': k, 'clause': 'translation'},
                                     'moving the pitch by k steps does not move the agnostic pitch by k steps', impl=moved, expected={'ok': spell(l3, 0, o3)})
                    elif base != moved:
                        ctx.fail({'clef': c, 'pitch': spell(l, 0, o), 'k': k, 'clause': 'translation'}, 'error on one side only', impl=moved, expected=base)
    # malformed / unusual clef texts and pitch names: tie only
    bad = ['*clefX', '*clefF2', '*clefC5', '*clef', 'clefG2', '*clefG', '*clefG1', '*clefGv', '*clef*clefF4', '*clefC^3', '*clefP', 'G2', '*clefF^^4x',
           '*clefCv4', '*clefF33', '*clefFC3', '*cle*cleffF3']
    names = ['C', 'D+', 'E--', 'F+++', 'G---', 'A+-', 'B', 'H', 'c', 'C++++']
    reqs, metas = [], []
    for t in bad + ['*clef' + c for c in CLEFS]:
        for nm in names:
            for o in (2, 4, 5):
                reqs.append({'op': 'c10.gkern', 'clef': t, 'name': nm, 'octave': o})
                metas.append((t, nm, o))
    resp = ctx.driver.ask(reqs)
    for (t, nm, o), r in zip(metas, resp):
        def run():
            clef = G.ClefFactory.create_clef(t)
            return G.pitch_to_gkern_string(AgnosticPitch(nm, o), clef)
        ctx.check({'clause': 'arbitrary', 'clef': t, 'name': nm, 'octave': o}, call(run), r['model'], None, nontrivial=False, what='arbitrary clef text / pitch name')
    ctx.exhaustive = True


    token_level(ctx, depth)
    document_level(ctx, depth)


def document_level(ctx, depth):
    """whole documents with clef changes, chords and splits: the agnostic export differs from the kern export only in the pitch letters of
    notes, each converted under the clef in force (tracked on the source grid along the spine paths)"""
    import docrun
    import gen
    cases = docrun.make_cases(ctx, 15 if depth == 'quick' else 200, profiles=('free', 'core'))
    # clef changes inside a split: two clefs in force at the same time within one spine
    special = [gen.clef_split_doc(ctx.rng) for _ in range(12 if depth == 'quick' else 120)]
    # the same cell text under different clefs (neighbouring spines, and again after a clef change)
    special += [gen.clef_echo_doc(ctx.rng) for _ in range(6 if depth == 'quick' else 60)]
    gen.render_documents(ctx.driver, special)
    sc = [docrun.Case(d) for d in special]
    for c in sc:
        c.import_impl()
    cases = sc + cases
    sig_table(ctx, cases)
    plain = docrun.make_cases(ctx, 4 if depth == 'quick' else 30, plain_notes=True, max_measures=2, kern_only=True)
    transposed_documents(ctx, plain)
    docrun.run_option_sets(ctx, cases, [{'enc': 'akern', 'include': None, 'exclude': None}, {'enc': 'aekern', 'include': None, 'exclude': None}],
                           lambda case: [{}],
                           'the agnostic export of a document is not the kern export with the pitch letters converted under the clef in force for each note',
                           'agnostic document')


def sig_table(ctx, cases):
    """the statement of theorem C10_sigs_recurrence on the real tree: every node's last_signature_nodes is its parent's table, updated with the
    node itself when its token is a signature; and the theorem's hypothesis on the parser's tokens (a signature token is neither a barline nor a
    CORE token)"""
    from kernpy.core.tokens import TokenCategory as TC, SignatureToken
    for case in cases:
        if case.doc is None:
            continue
        bad = None
        for s, st in enumerate(case.doc.tree.stages):
            for i, n in enumerate(st):
                t = n.token
                if t is None:
                    continue
                if isinstance(t, SignatureToken) and (t.category == TC.BARLINES or TC.is_child(child=t.category, parent=TC.CORE)):
                    bad = ('hypothesis', s, i, type(t).__name__, t.category.name)
                exp = dict(n.parent.last_signature_nodes.nodes) if n.parent is not None and n.parent.last_signature_nodes is not None else {}
                if isinstance(t, SignatureToken):
                    exp[type(t).__name__] = n
                got = n.last_signature_nodes.nodes if n.last_signature_nodes is not None else {}
                if {k: id(v) for k, v in got.items()} != {k: id(v) for k, v in exp.items()}:
                    bad = ('recurrence', s, i, sorted(got), sorted(exp))
        ctx.seen({'text': case.text, 'clause': 'signature table'}, True)
        if bad:
            ctx.fail({'text': case.text, 'clause': 'signature table: ' + bad[0], 'stage': bad[1], 'column': bad[2]},
                     'the signature table of a node (the clef in force) is not its parent\'s table updated with the node itself', impl=list(bad[3:]))


def transposed_documents(ctx, cases):
    """documents whose pitches were rewritten by to_transposed (the whole spelling, accidental included, then sits in the PITCH part): their
    agnostic export must be the agnostic export of the re-imported kern export of the same document"""
    import kernpy as kp
    from kernpy.core.tokenizers import Encoding
    for case in cases:
        if case.doc is None:
            continue
        for iv, dr in (('M3', 'up'), ('m3', 'down'), ('A4', 'up')):
            def run():
                src = kp.loads(case.text)[0]
                t = src.to_transposed(iv, dr)
                k = kp.dumps(t)
                re = kp.loads(k)[0]
                return {e: [kp.dumps(t, encoding=Encoding(e)), kp.dumps(re, encoding=Encoding(e))] for e in ('akern', 'aekern')}
            got = call(run)
            ctx.seen({'text': case.text, 'clause': 'transposed document, agnostic', 'interval': iv, 'direction': dr}, True)
            if 'ok' not in got:
                continue            # unspellable results etc.: C15's subject
            for e, (a, b) in got['ok'].items():
                if a != b:
                    ctx.fail({'text': case.text, 'interval': iv, 'direction': dr, 'encoding': e, 'clause': 'agnostic export of a transposed document'},
                             'the agnostic export of a transposed document differs from the agnostic export of its re-imported kern export', impl=a, expected=b)


def token_level(ctx, depth):
    """the agnostic tokenisation of a note / chord under a clef differs from the kern one only in the pitch letters,
    each converted under that clef (naturals and display suffixes exist only here)"""
    import gen, tokobs
    from kernpy.core.tokens import TokenCategory as TC, ClefToken
    from kernpy.core.tokenizers import TokenizerFactory
    rng = ctx.rng
    n = 300 if depth == 'quick' else 3000
    cells = [c for c in gen.token_stream(rng, n)]
    fixed = [{'k': 'note', 'pre': [], 'dur': {'num': '4', 'rat': None, 'dots': 0, 'grace': ''}, 'mid': [], 'pitch': 'c', 'post1': [], 'acc': 'n', 'disp': '', 'post2': []},
             {'k': 'note', 'pre': [], 'dur': {'num': '4', 'rat': None, 'dots': 0, 'grace': ''}, 'mid': [], 'pitch': 'c', 'post1': [], 'acc': '#', 'disp': 'X', 'post2': []}]
    cells = fixed + cells
    clefs = ['*clef' + c for c in CLEFS] + ['*clefGv2', '*clefF^^4']
    reqs, metas = [], []
    for c in cells:
        clef = rng.choice(clefs)
        reqs.append({'op': 'abs.expect', 'cell': c, 'clef': clef})
        metas.append((c, clef))
    allc = set(TC)
    # tokenizer OBJECTS carried along a spine: the clef of an agnostic tokenizer is reassigned at a clef change and further cells are tokenized
    carried = {e: TokenizerFactory.create(e, token_categories=allc, last_clef_reference=ClefToken(clefs[0])) for e in ('akern', 'aekern')}
    for (c, clef), r in zip(metas, ctx.driver.ask(reqs)):
        t, o = tokobs.fresh_kern(r['text'])
        if t is None:
            continue
        impl = call(lambda: TokenizerFactory.create('akern', token_categories=allc, last_clef_reference=ClefToken(clef)).tokenize(t))
        ctx.count('doc-level:' + c['k'])
        ctx.check({'cell': r['text'], 'clef': clef, 'clause': 'agnostic cell'}, impl, None, r['akern'], nontrivial=c['k'] in ('note', 'chord'),
                  what='agnostic export of a cell is not the kern export with only the pitch letters converted under the clef in force')
        if 'ok' in impl:
            for e, tk in carried.items():
                def with_carried():
                    tk.last_clef = clef
                    return tk.tokenize(t)
                fresh = call(lambda: TokenizerFactory.create(e, token_categories=allc, last_clef_reference=ClefToken(clef)).tokenize(t))
                gotc = call(with_carried)
                if gotc != fresh:
                    ctx.fail({'cell': r['text'], 'clef': clef, 'encoding': e, 'clause': 'agnostic tokenizer object whose clef was reassigned'},
                             'a tokenizer object whose last_clef was reassigned does not spell the cell under the new clef', impl=gotc, expected=fresh)


def replay(ctx, payload):
    explore(ctx, 'quick')


def reproduce(ctx, key, w):
    return False
