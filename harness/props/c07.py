"""C07 — Measure ranges partition the score."""
from __future__ import annotations
from .util import call

ID = 'C07'
LEAN_MODULE = 'KernProofs.C07'
EXTRA_MODULES = ['KernProofs.C07Doc', 'KernProofs.C07Text']
THEOREMS = ['KM.C07.C07_reject_negative_start', 'KM.C07.C07_reject_end_beyond', 'KM.C07.C07_reject_end_before_start', 'KM.C07.C07_valid_pair', 'KM.C07.C07_stop_stage', 'KM.C07.C07_start_stage', 'KM.C07.C07_body', 'KM.C07.C07_rows_unmodified', 'KM.C07.intervals_lo_ge', 'KM.C07.C07_partition', 'KM.C07.C07_iterate', 'KM.exportParts_noRange',
            'KM.C07D.startsOf_append', 'KM.C07D.cellStep_bar', 'KM.C07D.cellsLoop_bar', 'KM.C07D.rowStep_bar', 'KM.C07D.runRows_bar', 'KM.C07D.C07_measure_index', 'KM.C07T.C07_range_of_text']
FINGERPRINTS = ['exporter.Exporter.export_string', 'exporter.Exporter.export_options_validator', 'importer.Importer', 'document.Document']
RULE = ('generated **kern-only documents (1-4 spines, with/without opening barline, pickup, final barline, nested splits; quick 30 / thorough 300) '
        'x EVERY pair 1 <= a <= b <= M plus out-of-range pairs (a < 0, b > M, b < a): the data lines of the range export are compared with the data '
        'lines of the full export lying in measures a..b (measure boundaries computed from the abstract document), the bounding barlines are checked, '
        'the single-measure exports are checked to partition the data lines, iteration yields 1..M (also nested, interleaved and partly consumed iterations), and every export is compared with the model; '
        'non-trivial = M >= 2 and a range that is not the whole score; distinct = (document, a, b)')
ASSUMPTIONS = ['a data line is a line none of whose cells starts with * = or !']


def is_data(line):
    return line != '' and not any(c.startswith(('*', '=', '!')) for c in line.split('\t'))


def is_bar(line):
    return line != '' and all(c.startswith('=') for c in line.split('\t'))


def measure_rows(adoc):
    """abstract-row indices at which a measure starts (barline rows; the first row with a CORE-category cell when no measure is open)"""
    starts = []
    for i, row in enumerate(adoc['rows']):
        if row['kind'] != 'cells' or row['rk'] == 'header':
            continue
        cells = row['cells']
        if any(c['k'] == 'bar' for c in cells):
            starts.append(i)
        elif not starts and any(c['k'] in ('note', 'rest', 'chord') or (c['k'] == 'other' and c.get('kind') == 'empty') for c in cells):
            starts.append(i)
    return starts


def spec_lines(adoc, key):
    """(abstract row index, exported line) of the full export, from the grid oracle"""
    out = []
    for i, row in enumerate(adoc['rows']):
        if row['kind'] != 'cells':
            continue
        cells = [c[key]['ok'] for c in row['cells']]
        if cells and not all(x in ('.', '*', '') for x in cells):
            out.append((i, '\t'.join(cells)))
    return out


SIG_KINDS = ('clef', 'keySig', 'timeSig', 'meter')


def even_signatures(adoc):
    """every signature row gives a signature of the same kind to every spine (then all spines carry the same number of signatures everywhere)"""
    for row in adoc['rows']:
        if row['kind'] == 'cells' and row['rk'] == 'interp':
            kinds = [c.get('kind') if c['k'] == 'other' and c.get('kind') in SIG_KINDS else None for c in row['cells']]
            if any(k is not None for k in kinds) and len(set(kinds)) != 1:
                return False
    return True


def explore(ctx, depth):
    import docrun
    import kernpy as kp
    cases = docrun.make_cases(ctx, 30 if depth == 'quick' else 300, kern_only=True, max_measures=5 if depth == 'quick' else 7, double_bars=True)
    docrun.fill_views(ctx, cases, 'kern', docrun.ALLC, '_v')
    docrun.raw_range_tie(ctx, docrun.raw_cases(ctx, [c.adoc for c in cases[:6 if depth == 'quick' else 60]], kinds=('plus', 'late-header', 'blank')))
    docrun.reuse_objects(ctx, cases, steps=60)
    all_exps = []
    for case in cases:
        starts = measure_rows(case.adoc)
        M = len(starts)
        pairs = [(a, b) for a in range(1, M + 1) for b in range(a, M + 1)]
        bad = [(-1, None), (-1, 1), (1, M + 1), (None, M + 1), (2, 1), (M, M - 1) if M >= 2 else (3, 2), (0, M), (0, None), (None, M), (1, None), (M, None)]
        # every combination of boundary values (added after seeded change C07_r5_1: an end of exactly 0 with a start >= 1 was not among the pairs);
        # (None, -1) is left out: a negative end without a start is not in the property and indexes the measure list from its end
        A_ = [None] + sorted({-1, 0, 1, 2, M, M + 1})
        B_ = [None, -1, 0, 1, M - 1, M, M + 1]
        bad += [(a, b) for a in A_ for b in B_ if (a, b) not in pairs and (a, b) not in bad and not (a is None and b in (None, -1))]
        case.pairs, case.bad, case.starts, case.M = pairs, bad, starts, M
        all_exps.append([{'cats': docrun.ALLC, 'enc': 'kern', 'from': a, 'to': b} for a, b in pairs + bad])
    mresp = docrun.model_exports(ctx, cases, all_exps)
    for case, mr in zip(cases, mresp):
        if case.doc is None:
            ctx.fail({'text': case.text, 'clause': 'import'}, 'a well-formed document does not import', impl=case.import_result)
            continue
        docrun.tie_import(ctx, case, mr)
        M, starts = case.M, case.starts
        implM = len(case.doc.measure_start_tree_stages)
        ctx.seen({'text': case.text, 'clause': 'M'}, False)
        if implM != M:
            ctx.fail({'text': case.text, 'clause': 'measure count'}, 'number of measures differs from the barline structure of the source', impl=implM, expected=M)
            continue
        # the statement of theorem C07_measure_index on the real tree: the index is read off the tree line by line
        from kernpy.core.tokens import TokenCategory as TC
        acc = []
        for s, st in enumerate(case.doc.tree.stages):
            if any(n.token is not None and (n.token.category == TC.BARLINES or (TC.is_child(child=n.token.category, parent=TC.CORE) and not acc)) for n in st):
                acc.append(s)
        if list(case.doc.measure_start_tree_stages) != acc:
            ctx.fail({'text': case.text, 'clause': 'measure index = barline structure of the tree'},
                     'the measure index is not the list of stages holding a barline (first: a CORE token)', impl=list(case.doc.measure_start_tree_stages), expected=acc)
            continue
        it = call(lambda: list(case.doc))
        if M >= 1 and it != {'ok': list(range(1, M + 1))}:
            ctx.fail({'text': case.text, 'clause': 'iteration'}, 'iterating the document does not yield 1..M', impl=it, expected=list(range(1, M + 1)))
        elif M >= 1:
            # every iteration yields 1..M on its own: repeated, nested, interleaved and partly consumed iterations (the way all pairs a <= b are enumerated)
            def iterations():
                d = case.doc
                nested = [(a, b) for a in d for b in d]
                zipped = list(zip(d, d))
                i1 = iter(d)
                first = next(i1)
                again = list(d)
                rest = list(i1)
                return {'nested': nested, 'zipped': zipped, 'first': first, 'again': again, 'rest': rest, 'twice': [list(d), list(d)]}
            rng_ = list(range(1, M + 1))
            exp_it = {'ok': {'nested': [(a, b) for a in rng_ for b in rng_], 'zipped': [(a, a) for a in rng_], 'first': 1, 'again': rng_, 'rest': rng_[1:],
                             'twice': [rng_, rng_]}}
            got_it = call(iterations)
            ctx.seen({'text': case.text, 'clause': 'independent iterations'}, M >= 2)
            if got_it != exp_it:
                ctx.fail({'text': case.text, 'clause': 'independent iterations'},
                         'nested / interleaved / partly consumed iterations of one document do not each yield 1..M', impl=got_it, expected=exp_it['ok'])
        full = spec_lines(case.adoc, '_v')
        stops = starts[1:] + [len(case.adoc['rows'])]
        singles = {}
        for k, (a, b) in enumerate(case.pairs + case.bad):
            got = docrun.dumps_public(case, {'from': a, 'to': b})
            model = mr['exports'][k] if 'exports' in mr else None
            inp = {'text': case.text, 'from_measure': a, 'to_measure': b}
            if (a, b) in case.bad and k >= len(case.pairs):
                rejected = (a is not None and a < 0) or (b is not None and b > M) or (a is not None and b is not None and b < a)
                if rejected:
                    ctx.check({**inp, 'clause': 'out of range'}, got, model, {'err': 'ValueError'}, nontrivial=True, what='an out-of-range measure pair is not rejected with ValueError')
                else:
                    ctx.check({**inp, 'clause': 'open range'}, got, model, None, nontrivial=False, what='range export differs from the model')
                continue
            nt = M >= 2 and (a, b) != (1, M)
            ctx.check({**inp, 'clause': 'tie'}, got, model, None, nontrivial=nt, what='range export differs from the model')
            if 'ok' not in got:
                # outside the proved core: spines carrying different numbers of signatures at the start of the range make the
                # exporter raise "Node signature mismatch" (known finding, shared with C08)
                uneven = not even_signatures(case.adoc)
                ctx.fail({**inp, 'clause': 'range export'}, 'a valid measure range raises', impl=got, core=not uneven,
                         finding='F15-signature-mismatch' if got == {'err': 'Exception'} else None, tie_ok=(got == model))
                continue
            lines = got['ok'].split('\n')
            data = [l for l in lines if is_data(l)]
            lo, hi = starts[a - 1], stops[b - 1]
            exp = [l for (i, l) in full if lo <= i < hi and is_data(l)]
            if a == b:
                singles[a] = data
            if data != exp:
                ctx.fail({**inp, 'clause': 'data lines of the range'}, 'the range export does not contain exactly the data lines of measures a..b, in order and unmodified',
                         impl=data, expected=exp)
                continue
            # bounding barlines
            open_bar = [l for (i, l) in full if i == lo and is_bar(l)]
            close_bar = [l for (i, l) in full if i == hi and is_bar(l)] if b < M else []
            body = [l for l in lines if is_data(l) or is_bar(l)]
            ok = True
            if open_bar and exp and not (body and body[0] == open_bar[0]):
                ok = False
            if close_bar and exp and not (body and body[-1] == close_bar[0]):
                ok = False
            if not ok:
                ctx.fail({**inp, 'clause': 'bounding barlines'}, 'the excerpt is not bounded by the barline that opens a and the barline that closes b',
                         impl=body[:1] + body[-1:], expected=open_bar + close_bar)
        if M >= 1 and len(singles) == M:
            allsingle = [l for k in range(1, M + 1) for l in singles[k]]
            alldata = [l for (i, l) in full if is_data(l) and i >= starts[0]]
            ctx.seen({'text': case.text, 'clause': 'partition'})
            if allsingle != alldata:
                ctx.fail({'text': case.text, 'clause': 'partition'}, 'the single-measure exports do not contain every data line of the full export exactly once',
                         impl=allsingle, expected=alldata)


    long_ranges(ctx)
    # the file-writing entry point takes the same measure range: `dump(document, path, from_measure=a, to_measure=b)` writes what `dumps` returns
    # and rejects what `dumps` rejects (round 6, C07_r6_1: `to_measure=from_measure` in the forwarded keywords)
    import tempfile, os, shutil
    tmp = tempfile.mkdtemp(prefix='kernverif_c07_')
    try:
        for ci, case in enumerate(cases[:8 if depth == 'quick' else 60]):
            if case.doc is None:
                continue
            M = case.M
            prs = [(a, b) for a in (None, 1, 2, M) for b in (None, 1, M - 1, M, M + 1) if not (a is None and b is None)]
            for k, (a, b) in enumerate(prs):
                path = os.path.join(tmp, 'r%d_%d.krn' % (ci, k))
                def run_dump():
                    kw = {}
                    if a is not None:
                        kw['from_measure'] = a
                    if b is not None:
                        kw['to_measure'] = b
                    kp.dump(case.doc, path, **kw)
                    with open(path, encoding='utf-8', newline='') as fh:
                        return fh.read()
                written = call(run_dump)
                ref = docrun.dumps_public(case, {'from': a, 'to': b})
                ctx.seen({'text': case.text, 'from_measure': a, 'to_measure': b, 'clause': 'dump to a file with a measure range'}, True)
                if written != ref:
                    ctx.fail({'text': case.text, 'from_measure': a, 'to_measure': b, 'clause': 'dump to a file with a measure range'},
                             'dump() with a measure range does not write what dumps() returns for the same range (or does not reject what dumps() rejects)',
                             impl=written, expected=ref)
    finally:
        shutil.rmtree(tmp, ignore_errors=True)


def long_ranges(ctx):
    """a long score (more lines than twice the recursion limit): ranges that start late, in the middle and at the very end"""
    import gen
    import kernpy as kp
    text, rows = gen.long_score(2)
    nm = sum(1 for r in rows if r[0].startswith('=') and not r[0].startswith('=='))     # measures with notes
    def data_of(a, b):
        out = []
        m = 0
        for r in rows:
            if r[0].startswith('='):
                m += 1
            elif r[0].startswith('4') and a <= m <= b:
                out.append('\t'.join(r))
        return out
    doc = call(lambda: kp.loads(text)[0])
    if 'ok' not in doc:
        ctx.fail({'clause': 'long score', 'text_head': text[:80]}, 'a long well-formed score does not import', impl=doc)
        return
    doc = doc['ok']
    M = len(doc.measure_start_tree_stages)
    ctx.seen({'clause': 'long score: measure count', 'rows': len(rows)}, True)
    if M != nm + 1:
        ctx.fail({'clause': 'long score: measure count', 'rows': len(rows)}, 'number of measures differs from the barline structure of the source', impl=M, expected=nm + 1)
        return
    for a, b in ((nm, nm), (nm - 1, nm + 1), (nm // 2, nm // 2 + 1), (1, 2), (nm - 300, nm - 300)):
        got = call(lambda: kp.dumps(doc, from_measure=a, to_measure=b))
        ctx.seen({'clause': 'long score: range', 'from_measure': a, 'to_measure': b}, True)
        data = [l for l in got['ok'].split('\n') if is_data(l)] if 'ok' in got else got
        if data != data_of(a, b):
            ctx.fail({'clause': 'long score: data lines of the range', 'rows': len(rows), 'from_measure': a, 'to_measure': b, 'text_head': text[:60]},
                     'the range export of a long score does not contain exactly the data lines of measures a..b', impl=str(data)[:300], expected=str(data_of(a, b))[:300])


def replay(ctx, payload):
    explore(ctx, 'quick')


def reproduce(ctx, key, w):
    import kernpy as kp
    if key == 'F15-signature-mismatch':
        doc, _ = kp.loads(w['input']['text'])
        r = call(lambda: kp.dumps(doc, from_measure=w['input']['from_measure'], to_measure=w['input']['to_measure']))
        return r == {'err': 'Exception'}
    return False
