"""C12 — Malformed tokens are isolated, reported once and preserved."""
from __future__ import annotations
import copy, itertools
from .util import call

ID = 'C12'
LEAN_MODULE = 'KernProofs.C12'
EXTRA_MODULES = ['KernProofs.C12Doc', 'KernProofs.C12Iso']
THEOREMS = ['KM.C12.resets_errors', 'KM.C12.C12_state_independent', 'KM.C12.C12_history', 'KM.C12.C12_order_irrelevant', 'KM.C12.wraps_rejected', 'KM.C12.C12_rejected_cell', 'KM.C12.C12_accepted_cell', 'KM.C12.C12_exported_verbatim',
            'KM.C12D.errNodes_append', 'KM.C12D.cellStep_err', 'KM.C12D.cellsLoop_err', 'KM.C12D.rowStep_err', 'KM.C12D.runRows_err', 'KM.C12D.C12_errors_are_error_nodes', 'KM.C12D.C12_import_isolates',
            'KM.C12I.emit_congr', 'KM.C12I.step_congr', 'KM.C12I.C12_isolation', 'KM.C12I.C12_same_skeleton', 'KM.C12I.C12_same_wf', 'KM.C12I.TT_run_congr']
FINGERPRINTS = ['kern_spine_importer.KernSpineImporter.import_token', 'error_listener.ErrorListener', 'importer.Importer', 'tokens.ErrorToken.export',
                'exporter.Exporter.append_row', 'importer_factory.createImporter']
RULE = ('generated documents (quick 30 / thorough 300) x placements of 1..3 malformed cells of four kinds (unknown characters, wrong order, truncated, valid '
        'token + garbage) in **kern and **root spines: import must succeed, report exactly the damaged cells in row-then-column order with their line '
        'and verbatim text, leave every other token as in the undamaged import, and export the damaged cells verbatim in place (all compared with the '
        'model too); plus single-importer histories: all sequences up to length 3 (quick) / 5 (thorough, sampled to 4000) over a 12-token alphabet of '
        'valid and invalid tokens through ONE KernSpineImporter, each outcome compared with a fresh importer; plus the silent-shortening clause '
        '(token text = cell text) on every corpus cell (known finding F3 only for the cells its witness file lists); EVERY placement of 9 characters outside the **kern alphabet in 14 base tokens must be rejected; non-trivial = at least one damaged cell followed by a valid **kern cell; distinct = (document, damage)')
ASSUMPTIONS = ['a cell is "malformed" when a fresh importer of its spine type rejects it (the ANTLR recogniser is a parameter)']

UNKNOWN = ['4zz#', '4c%', '@@', '4h', '4c!', '=x=', '*clefQ9', 'wxyz']
ORDER = ['#c4', 'c#4#', '-4c-r', '4#c', 'r4c']
TRUNC = ['*k[f#', '*M4', '*clef', '8..', '4', '*xywh-1:1,2,3', '*MM', '(', '8rL 8G', '16r 16r[', '4rL', '*xywh-1', '*xywh-1,10,20,300,400', '*xywh-12:10,20;300,400']
# characters the **kern lexer has no rule for, and base tokens of every kind
NONLEX = ['\u00a0', '\u2019', '\u00b7', '\u65e5', '\u00df', '\u200b', '\u20ac', '\u201c', '\u00ad']
BASES = ['4c', '8.dd#L', '*clefG2', '=1', '2r', '4c 4e', '*M4/4', '*k[f#]', '.', '16ee-/', '==', '*k[b-e-]', '4.GG#', '*']   # not '*met(c)': '*' + anything is the silent-shortening class (F3)
GARBAGE = ['4c@', '*clefG2x', '=1@', '4c 4', '4r%', '*M4/4x', '*k[]]', '==@']


def explore(ctx, depth):
    import docrun, gen, impl, tokobs
    import kernpy as kp
    from kernpy.core.kern_spine_importer import KernSpineImporter
    rng = ctx.rng
    # which damage texts does a fresh kern importer really reject?  (the others are the silent-shortening class, F3)
    rejected, accepted = [], []
    for t in UNKNOWN + ORDER + TRUNC + GARBAGE:
        (rejected if tokobs.fresh_kern(t)[0] is None else accepted).append(t)
    ctx.count('damage_texts_rejected', len(rejected))
    ctx.count('damage_texts_accepted_by_parser', len(accepted))
    # ---- silent shortening: the token of an accepted cell must carry the whole cell text (F3: no EOF in the start rule)
    import corpus_tokens as CT, json
    from common import VERIF as V
    f3_cells = set(json.load(open(V / 'findings' / 'F3-no-eof.json')).get('cells', []))
    for t in CT.ALL + accepted:
        tk, o = tokobs.fresh_kern(t)
        if tk is None:
            continue
        full = o.get('enc')
        ctx.seen({'cell': t, 'clause': 'not shortened'}, False)
        # barlines drop their number by design; compare the other classes
        if o['cls'] in ('BarToken',):
            continue
        if full != t:
            # known finding F3 only for the cells listed in its witness file; any other shortened cell is a violation
            listed = t in f3_cells
            ctx.fail({'cell': t, 'clause': 'no cell is silently shortened'}, 'the parser accepted a prefix of the cell and dropped the rest silently',
                     impl=full, expected=t, core=not listed, finding='F3-no-eof' if listed else None, tie_ok=True)
    # ---- characters outside the **kern alphabet: every placement in every base token must be rejected (exhaustive over this grid)
    for base in BASES:
        for ch in NONLEX:
            for pos in range(len(base) + 1):
                t = base[:pos] + ch + base[pos:]
                tk, o = tokobs.fresh_kern(t)
                ctx.seen({'cell': t, 'clause': 'character outside the alphabet'}, True)
                if tk is not None:
                    ctx.fail({'cell': t, 'clause': 'character outside the alphabet'},
                             'a **kern cell containing a character outside the **kern alphabet is not reported as malformed', impl=o, expected='rejected')
    ctx.count('nonlexable_placements', sum(len(b) + 1 for b in BASES) * len(NONLEX))
    # ---- documents with damage
    cases = docrun.make_cases(ctx, 30 if depth == 'quick' else 300)
    dam_cases, metas = [], []
    for case in cases:
        if case.doc is None or case.errors:
            continue
        # also cells of local-comment lines (`!...` in every column): a malformed cell in such a line is a malformed cell, its neighbours stay
        # comments (added after seeded change C12_r5_1, which decided "comment" by the first cell of the line)
        cand = [(ri, ci) for ri, row in enumerate(case.adoc['rows']) if row['kind'] == 'cells' and row['rk'] in ('data', 'interp', 'bar', 'fc')
                for ci, c in enumerate(row['cells']) if case.adoc['headers'][row['live'][ci]] in ('**kern', '**root')]
        if not cand:
            continue
        for _ in range(2):
            k = rng.randint(1, min(3, len(cand)))
            places = sorted(rng.sample(cand, k))
            v = copy.deepcopy(case.adoc)
            dmg = {}
            for (ri, ci) in places:
                t = rng.choice(rejected)
                v['rows'][ri]['cells'][ci] = {'k': 'other', 'kind': 'error', 'text': t, '_text': t}
                dmg[(ri, ci)] = t
            lines = []
            for row in v['rows']:
                lines.append(row['text'] if row['kind'] == 'global' else '\t'.join(c.get('_text', c.get('text')) for c in row['cells']))
            v['text'] = '\n'.join(lines) + '\n'
            dc = docrun.Case(v)
            dc.import_impl()
            dam_cases.append(dc)
            metas.append((case, dmg))
    mresp = docrun.model_exports(ctx, dam_cases, [[{'cats': docrun.ALLC, 'enc': 'kern'}] for _ in dam_cases], tree=True)
    for dc, (case, dmg), mr in zip(dam_cases, metas, mresp):
        inp = {'text': dc.text, 'damaged': [[ri + 1, ci, t] for (ri, ci), t in sorted(dmg.items())]}
        nt = True
        if dc.doc is None:
            ctx.fail({**inp, 'clause': 'import succeeds'}, 'import of a document with malformed cells raises', impl=dc.import_result)
            continue
        docrun.tie_import(ctx, dc, mr, tree=True)
        # exactly one error per damaged cell, in row order, with line number (1-based line of the text) and verbatim text
        exp_err = [[ri + 1, t] for (ri, ci), t in sorted(dmg.items())]
        got_err = [[e.line, e.encoding] for e in dc.errors]
        ctx.seen({**inp, 'clause': 'errors'}, nt)
        if got_err != exp_err:
            ctx.fail({**inp, 'clause': 'one error per malformed cell'}, 'errors are not exactly the malformed cells with their line and text', impl=got_err, expected=exp_err)
            continue
        # the statement of theorem C12_errors_are_error_nodes on the real tree: the error list is the error tokens of the tree in reading order,
        # each with the number of its line (= its stage) and its verbatim text
        from kernpy.core.tokens import ErrorToken
        tree_err = [[s, n.token.encoding] for s, st in enumerate(dc.doc.tree.stages) for n in st if isinstance(n.token, ErrorToken)]
        if got_err != tree_err:
            ctx.fail({**inp, 'clause': 'error list = error tokens of the tree'}, 'the error list is not the list of error tokens of the tree in reading order',
                     impl=got_err, expected=tree_err)
            continue
        # every other token as without the damage
        a = impl.doc_obs(case.doc, case.errors)['stages']
        b = impl.doc_obs(dc.doc, dc.errors)['stages']
        same = len(a) == len(b)
        if same:
            for s, (x, y) in enumerate(zip(a, b)):
                for i, (n1, n2) in enumerate(zip(x, y)):
                    if (s - 1, i) in dmg:
                        if n2['tok']['cls'] != 'ErrorToken' or n2['tok']['enc'] != dmg[(s - 1, i)]:
                            same = False
                    elif n1['tok'] != n2['tok'] or n1['parent'] != n2['parent']:
                        same = False
        if not same:
            ctx.fail({**inp, 'clause': 'other tokens unchanged'}, 'a token other than the malformed ones differs from the undamaged import')
            continue
        # exported verbatim in place
        e0 = call(lambda: kp.dumps(case.doc))
        e1 = call(lambda: kp.dumps(dc.doc))
        ctx.check({**inp, 'clause': 'tie: export'}, e1, mr['exports'][0] if 'exports' in mr else None, None, nontrivial=False, what='export differs from the model')
        if 'ok' in e0 and 'ok' in e1:
            # the damaged export must be the undamaged export with the damaged cells replaced (line structure from the grid)
            import docrun as D
            D.fill_views(ctx, [case], 'kern', D.ALLC, '_v')
            lines = []
            for ri, row in enumerate(case.adoc['rows']):
                if row['kind'] != 'cells':
                    continue
                cells = [dmg.get((ri, ci), c['_v']['ok']) for ci, c in enumerate(row['cells'])]
                if cells and not all(x in ('.', '*', '') for x in cells):
                    lines.append('\t'.join(cells))
            exp = ''.join(l + '\n' for l in lines)
            if e1['ok'] != exp:
                # frontier: the plain encodings strip the two separator characters from every token, error tokens included (F10)
                has_sep = any('@' in t or '·' in t for t in dmg.values())
                ctx.fail({**inp, 'clause': 'exported verbatim in place'}, 'the malformed cells are not exported verbatim in place', impl=e1['ok'], expected=exp,
                         core=not has_sep, finding='F10-separators-stripped' if has_sep else None,
                         tie_ok=('exports' in mr and mr['exports'][0] == e1))
    # ---- the malformed cells in every encoding and in range exports (correspondence with the model, and the cell verbatim in its line):
    # an error token has no parts, so every encoding prints its text
    from kernpy.core.tokenizers import Encoding
    sub = [(dc, m) for dc, m in zip(dam_cases, metas) if dc.doc is not None][:12 if depth == 'quick' else 150]
    encs = ['ekern', 'bkern', 'bekern', 'akern', 'aekern']
    exps = [[{'cats': docrun.ALLC, 'enc': e} for e in encs] + [{'cats': docrun.ALLC, 'enc': 'kern', 'from': 1, 'to': None}, {'cats': docrun.ALLC, 'enc': 'bekern', 'from': 1, 'to': 1}]
            for _ in sub]
    mresp2 = docrun.model_exports(ctx, [dc for dc, _ in sub], exps)
    for (dc, (case, dmg)), mr in zip(sub, mresp2):
        if 'exports' not in mr:
            continue
        for ex, model in zip(exps[0], mr['exports']):
            got = docrun.dumps_public(dc, {'enc': ex['enc'], 'from': ex.get('from'), 'to': ex.get('to')})
            inp = {'text': dc.text, 'encoding': ex['enc'], 'from_measure': ex.get('from'), 'to_measure': ex.get('to'), 'damaged': sorted(dmg.values())}
            ctx.check({**inp, 'clause': 'malformed cells in every encoding (correspondence)'}, got, model, None, nontrivial=True,
                      what='export of a document with malformed cells differs from the model')
            if 'ok' in got and ex.get('from') is None and not any('@' in t or '\u00b7' in t for t in dmg.values()):
                cells = [c for ln in got['ok'].split('\n') for c in ln.split('\t')]
                for t in dmg.values():
                    if t not in cells:
                        ctx.fail({**inp, 'clause': 'malformed cell verbatim in every encoding', 'cell': t},
                                 'a malformed cell is not printed verbatim under this encoding', impl=got['ok'], expected=t)
    # ---- a score without opening barline whose first line of music is malformed in every spine: the malformed cell still opens measure 1
    # (the measure index, the range export from measure 1 and the full export against the model)
    # malformed cells with irregular white space (two blanks, outer blanks, no-break / thin spaces): verbatim in every encoding
    for bad in ('4zz  4e', ' 4zz', '4zz  ', '4zz\u00a04e', '4zz\u20094e', '8..  L'):
        text_ = '**kern\t**kern\n*clefG2\t*clefF4\n4c\t' + bad + '\n' + bad + '\t4d\n*-\t*-\n'
        dws, errs_ws = kp.loads(text_)
        if len(errs_ws) != 2:
            continue       # the parser accepts this one: not a malformed cell
        for e in ('kern', 'ekern', 'bkern', 'bekern', 'akern', 'aekern'):
            got = call(lambda: kp.dumps(dws, encoding=Encoding(e)))
            ctx.seen({'text': text_, 'encoding': e, 'clause': 'malformed cell with irregular white space'}, True)
            cells = [c for ln in got.get('ok', '').split('\n') for c in ln.split('\t')]
            if cells.count(bad) != 2:
                ctx.fail({'text': text_, 'encoding': e, 'cell': bad, 'clause': 'malformed cell with irregular white space verbatim in every encoding'},
                         'a malformed cell with irregular white space is not printed verbatim under this encoding', impl=got, expected=bad)
    wit = []
    for hs, first in ((['**kern'], ['4zz#']), (['**kern', '**kern'], ['#c4', '4c@x']), (['**kern'], ['r4']), (['**kern', '**kern'], ['4zz#', '8..'])):
        rows_ = [hs, ['*clefG2'] * len(hs), ['*M4/4'] * len(hs), first, ['4c'] * len(hs), ['=2'] * len(hs), ['4d'] * len(hs), ['*-'] * len(hs)]
        wit.append(docrun.Case({'text': ''.join('\t'.join(r) + '\n' for r in rows_), 'headers': hs, 'rows': [], 'kind': 'first line malformed'}))
    for c in wit:
        c.import_impl()
    wexp = [{'cats': docrun.ALLC, 'enc': 'kern'}, {'cats': docrun.ALLC, 'enc': 'kern', 'from': 1, 'to': 1}, {'cats': docrun.ALLC, 'enc': 'kern', 'from': 1, 'to': None},
            {'cats': docrun.ALLC, 'enc': 'kern', 'from': 2, 'to': 2}]
    mresp3 = docrun.model_exports(ctx, wit, [wexp for _ in wit], tree=True)
    for c, mr in zip(wit, mresp3):
        if not docrun.tie_import(ctx, c, mr, tree=True):
            continue
        ctx.seen({'text': c.text, 'clause': 'first line of music malformed'}, True)
        if len(c.doc.measure_start_tree_stages) != 2 or c.doc.measure_start_tree_stages[0] != 4:
            ctx.fail({'text': c.text, 'clause': 'first line of music malformed: measure index'}, 'a malformed cell in the first line of music does not open measure 1',
                     impl=list(c.doc.measure_start_tree_stages), expected=[4, 6])
        for ex, model in zip(wexp, mr['exports']):
            got = docrun.dumps_public(c, {'from': ex.get('from'), 'to': ex.get('to')})
            ctx.check({'text': c.text, 'from_measure': ex.get('from'), 'to_measure': ex.get('to'), 'clause': 'first line of music malformed: exports'}, got, model, None,
                      nontrivial=True, what='export of a score whose first line of music is malformed differs from the model')
    # ---- single-importer histories
    alphabet = ['4c', '8.dd#L', '=1', '*clefG2', '4c 4e', '.', '*', '2r'] + rejected[:4]
    maxlen = 3 if depth == 'quick' else 5
    seqs = [s for n in range(1, maxlen + 1) for s in itertools.product(alphabet, repeat=n)]
    if len(seqs) > 4000:
        seqs = rng.sample(seqs, 4000)
    fresh = {t: tokobs.fresh_kern(t)[1] for t in alphabet}
    for seq in seqs:
        imp = KernSpineImporter()
        outs = []
        for t in seq:
            try:
                outs.append(tokobs.obs(imp.import_token(t)))
            except Exception:  # noqa
                outs.append(None)
        exp = [fresh[t] for t in seq]
        ctx.seen({'history': list(seq)}, any(fresh[t] is None for t in seq[:-1]))
        if outs != exp:
            ctx.fail({'history': list(seq), 'clause': 'history independence'}, 'the outcome for a cell depends on the cells parsed before it', impl=outs, expected=exp)
    ctx.count('histories', len(seqs))

    # ---- a record whose cells are ALL empty (a line of tabs only) in a score with several spines: one error per cell, with the line; errors
    # further down keep their line numbers (round 6, C12_r6_1: `if not any(row)` took such a record for a blank line)
    for n in (2, 3, 4):
        text = '\t'.join(['**kern'] * n) + '\n' + '\t'.join(['4c'] * n) + '\n' + '\t' * (n - 1) + '\n' + '\t'.join(['4zz'] + ['4d'] * (n - 1)) + '\n' + \
               '\t'.join(['*-'] * n) + '\n'
        got = call(lambda: [[e.line, e.encoding] for e in kp.loads(text)[1]])
        exp = {'ok': [[3, '']] * n + [[4, '4zz']]}
        ctx.seen({'text': text, 'clause': 'a record of empty cells'}, True)
        if got != exp:
            ctx.fail({'text': text, 'clause': 'a record of empty cells'}, 'errors are not exactly the malformed cells with their line and text', impl=got, expected=exp['ok'])
    # ---- malformed cells read from a FILE: characters that `str.splitlines` takes for line boundaries are ordinary (unknown) characters in a
    # file whose lines end with LF: the cell is one malformed cell, reported once with its line, exported verbatim (round 6, C12_r6_2)
    import tempfile as _tf, os as _os
    tmp = _tf.mkdtemp(prefix='kernverif_c12_')
    try:
        for k, ch in enumerate(['\x0b', '\x0c', '\x1c', '\x1e', '\x85', '\u2028', '\u2029', '\u20ac']):
            for cell in ('4d' + ch, '4' + ch + 'd'):
                rows = [['**kern', '**kern'], ['*clefG2', '*clefF4'], ['4c', '4C'], [cell, '4D'], ['4e', cell], ['*-', '*-']]
                ftext = ''.join('\t'.join(r) + '\n' for r in rows)
                path = _os.path.join(tmp, 'm%d.krn' % k)
                with open(path, 'w', encoding='utf-8', newline='') as fh:
                    fh.write(ftext)
                def run_f():
                    d, errs = kp.load(path)
                    return [[[e.line, e.encoding] for e in errs], kp.dumps(d)]
                got = call(run_f)
                exp = {'ok': [[[4, cell], [5, cell]], ftext]}
                ctx.seen({'clause': 'malformed cell in a file', 'char': repr(ch)}, True)
                if got != exp:
                    ctx.fail({'file_text': ftext, 'char': repr(ch), 'clause': 'malformed cell read from a file'},
                             'a malformed cell of a file is not reported once with its line and exported verbatim in place', impl=got, expected=exp['ok'])
    finally:
        import shutil as _sh
        _sh.rmtree(tmp, ignore_errors=True)


def replay(ctx, payload):
    explore(ctx, 'quick')


def reproduce(ctx, key, w):
    import tokobs
    if key == 'F3-no-eof':
        tk, o = tokobs.fresh_kern(w['input']['cell'])
        return tk is not None and o.get('enc') != w['input']['cell']
    if key == 'F10-separators-stripped':
        import kernpy as kp
        d, _ = kp.loads(w['input']['text'])
        return kp.dumps(d) == w['impl']
    return False
