"""C13 — Export options act independently of one another."""
from __future__ import annotations
from .util import call

ID = 'C13'
LEAN_MODULE = 'KernProofs.C13'
EXTRA_MODULES = ['KernProofs.C13Doc']
THEOREMS = ['KM.C13.C13_select_then_view', 'KM.C13.C13_view_then_select', 'KM.C13.C13_independent_arguments', 'KM.C13.C13_default_spine_types', 'KM.C13.C13_default_encoding', 'KM.C13.C13_default_exclude', 'KM.C13.C13_default_include',
            'KM.C13D.cellBody_clefFree', 'KM.C13D.appendRow_specO', 'KM.C13D.rowOfStage_specO', 'KM.C13D.bodyRows_specO', 'KM.C13D.C13_export_of_text',
            'KM.C13D.C13_cell_factorises', 'KM.C13D.C06_cell_projection', 'KM.C13D.C05_selection_keeps_grid']
FINGERPRINTS = ['exporter.Exporter.export_string', 'exporter.Exporter.append_row', 'exporter.Exporter.export_token', 'generic.Generic',
                'public', 'exporter.ExportOptions', 'tokenizers.TokenizerFactory.create']
RULE = ('generated documents (quick 20 / thorough 200) x the product of: random subsets of spine ids / types, include/exclude pairs, the six '
        'encodings; the export with all three options is compared with (a) the composition of the three cell-wise transformations on the '
        'abstract grid (oracle), (b) the model, (c) text-level compositions on the implementation\'s own outputs: column projection of the '
        'export without spine selection, and separator stripping of the extended export; explicit-default vs omitted options compared; '
        'non-trivial = at least two of the three options differ from their defaults; distinct = (document, option triple)')
ASSUMPTIONS = []

TS, DS = '@', '·'
SPINE_OPS = ('*-', '*^', '*v', '*+')


def project_text(text, hs_keep):
    """delete the columns of unselected spines from an exported text (spine paths tracked on the text itself); hs_keep(spine index) -> bool"""
    lines = text.split('\n')
    if lines and lines[-1] == '':
        lines = lines[:-1]
    out = []
    live = None
    for ln in lines:
        cells = ln.split('\t')
        if live is None:
            live = list(range(len(cells)))
        if len(cells) != len(live):
            return None
        kept = [c for c, s in zip(cells, live) if hs_keep(s)]
        if kept and not all(x in ('.', '*', '') for x in kept):
            out.append('\t'.join(kept))
        nxt = []
        j = 0
        while j < len(cells):
            c = cells[j]
            if c == '*^':
                nxt += [live[j], live[j]]
            elif c == '*v':
                k = j
                while k + 1 < len(cells) and cells[k + 1] == '*v' and live[k + 1] == live[j]:
                    k += 1
                nxt.append(live[j]); j = k
            elif c == '*-':
                pass
            else:
                nxt.append(live[j])
            j += 1
        live = nxt
    return ''.join(l + '\n' for l in out)


def explore(ctx, depth):
    import docrun
    import kernpy as kp
    from kernpy.core.tokens import TokenCategory as TC, HEADERS
    from kernpy.core.tokenizers import Encoding
    rng = ctx.rng
    cats = list(TC)
    cases = docrun.make_cases(ctx, 20 if depth == 'quick' else 200)
    import gen
    cases += docrun.make_cases(ctx, 0, docs=[gen.shift_doc(ctx.rng) for _ in range(5 if depth == 'quick' else 50)])
    # the same note / chord text under different clefs in neighbouring spines and again after a clef change (seeded change C13_r5_2)
    cases += docrun.make_cases(ctx, 0, docs=[gen.clef_echo_doc(ctx.rng) for _ in range(5 if depth == 'quick' else 50)])
    # interpretation lines of mixed kinds and syllables written with dots only (`...`): alone in their line once the other spines are deselected
    from . import c05 as _c05
    cases += docrun.make_cases(ctx, 0, docs=[_c05.mixed_interp_doc()])
    combos = []
    incs = [None, [TC.CORE, TC.SIGNATURES, TC.BARLINES, TC.STRUCTURAL], [TC.NOTE_REST, TC.BARLINES, TC.STRUCTURAL], None]
    excs = [None, [TC.DECORATION], [TC.DURATION], [TC.SIGNATURES, TC.LYRICS]]
    parts = [TC.DURATION, TC.PITCH, TC.ALTERATION, TC.DECORATION, TC.REST]
    for enc in ['kern', 'ekern', 'bkern', 'bekern', 'akern', 'aekern']:
        for _ in range(2 if depth == 'quick' else 4):
            combos.append({'enc': enc, 'include': rng.choice(incs), 'exclude': rng.choice(excs)})
        # every encoding also with filters on the sub-parts of notes (each sub-part category dropped alone at least sometimes)
        for _ in range(3 if depth == 'quick' else 8):
            exc = rng.sample(parts, rng.randint(1, 2)) + (rng.sample(cats, rng.randint(0, 2)) if rng.random() < 0.4 else [])
            inc = None if rng.random() < 0.6 else rng.sample(cats, rng.randint(3, 10)) + [TC.NOTE_REST]
            combos.append({'enc': enc, 'include': inc, 'exclude': exc})
        combos.append({'enc': enc, 'include': None, 'exclude': [rng.choice(parts)]})

    docrun.reuse_objects(ctx, cases, steps=150)

    def sels(case):
        hs = case.adoc['headers']
        n = len(hs)
        types = sorted(set(hs))
        return [{}, {'ids': sorted(rng.sample(range(n), rng.randint(0, n)))}, {'types': sorted(rng.sample(types, rng.randint(1, len(types))))},
                {'ids': sorted(rng.sample(range(n), rng.randint(1, n))), 'types': sorted(rng.sample(types, rng.randint(1, len(types))))}] + \
            ([{'types': ['**text']}] if '**text' in hs and len(types) > 1 else [])

    def nt(case, combo, s):
        k = (combo.get('enc') not in (None, 'kern')) + (combo.get('include') is not None or combo.get('exclude') is not None) + bool(s)
        return k >= 2
    docrun.run_option_sets(ctx, cases, combos, sels,
                           'export with spine selection + category filter + encoding is not the composition of the three single transformations',
                           'composition (grid oracle)', nontriv=nt)
    # (b1) texts outside the generator's grammar (gen.raw_variants): every option set against the model and the Lean text specification
    rcases = [c for c in docrun.raw_cases(ctx, [c.adoc for c in cases[:5 if depth == 'quick' else 50]]) if c.doc is not None]
    docrun.run_option_sets(ctx, rcases, combos[::3] if depth == 'quick' else combos, sels,
                           'export of a text outside the generator\'s grammar under an option set is not what the model / the text specification says',
                           'raw text: option sets', spec=False, nontriv=lambda *a: True)
    # (b0) documents with malformed cells (kept verbatim as error tokens) under every option set: correspondence and Lean text specification
    import copy as _copy0
    from corpus_tokens import DAMAGED
    import tokobs
    rejected = [t for t in DAMAGED if tokobs.fresh_kern(t)[0] is None and '@' not in t and '\u00b7' not in t and t.strip() == t and t]
    ddocs = []
    for case in cases[:6 if depth == 'quick' else 60]:
        if case.doc is None:
            continue
        v = _copy0.deepcopy(case.adoc)
        k = 0
        for row in v['rows']:
            if row['kind'] == 'cells' and row['rk'] in ('data', 'interp'):
                for ci, c in enumerate(row['cells']):
                    if v['headers'][row['live'][ci]] == '**kern' and k < 3 and rng.random() < 0.3:
                        t = rng.choice(rejected)
                        row['cells'][ci] = {'k': 'other', 'kind': 'error', 'text': t}
                        k += 1
        if k:
            ddocs.append(v)
    if ddocs:
        dcases = [c for c in docrun.make_cases(ctx, 0, docs=ddocs) if c.doc is not None]
        docrun.run_option_sets(ctx, dcases, combos[::2] if depth == 'quick' else combos, sels,
                               'export of a document with malformed cells under an option set is not what the model / the text specification says',
                               'malformed cells: option sets', spec=False, nontriv=lambda *a: True)
    # (b2) free text with the two separator characters ('@', U+00B7): what the property says about such cells is the open finding F10 (C03 / C04 /
    # C12); here only the correspondence with the model is checked, under every encoding and a few selections
    import copy as _copy
    sep_docs = []
    for case in cases[:6 if depth == 'quick' else 40]:
        if case.doc is None or not any(h != '**kern' for h in case.adoc['headers']):
            continue
        v = _copy.deepcopy(case.adoc)
        k = 0
        for row in v['rows']:
            if row['kind'] == 'cells' and row['rk'] == 'data':
                for c in row['cells']:
                    if c['k'] == 'other' and c.get('kind') in ('lyrics', 'dynamics', 'harmony', 'fingering', 'otherText') and k < 3:
                        c['text'] = ['col\u00b7le', 'a@b', 'x\u00b7@y'][k]
                        k += 1
        if k:
            sep_docs.append(v)
    if sep_docs:
        sep_cases = docrun.make_cases(ctx, 0, docs=sep_docs)
        docrun.run_option_sets(ctx, sep_cases, [{'enc': e, 'include': None, 'exclude': None} for e in ('kern', 'ekern', 'bkern', 'bekern', 'akern', 'aekern')] +
                               [{'enc': 'kern', 'include': None, 'exclude': [TC.DECORATION]}],
                               lambda case: [{}, {'ids': [0]}], 'export of a document with separator characters in free text differs from the model',
                               'separator characters in free text (correspondence only)', spec=False)
    # (c) text-level compositions on the implementation itself
    for case in cases:
        if case.doc is None:
            continue
        hs = case.adoc['headers']
        for combo in combos[:6] if depth == 'quick' else combos:
            enc = combo['enc']
            kw = {'encoding': Encoding(enc)}
            if combo['include'] is not None:
                kw['include'] = combo['include']
            if combo['exclude'] is not None:
                kw['exclude'] = combo['exclude']
            full = call(lambda: kp.dumps(case.doc, **kw))
            if 'ok' not in full:
                continue
            ids = sorted(rng.sample(range(len(hs)), rng.randint(0, len(hs))))
            sel = call(lambda: kp.dumps(case.doc, spine_ids=ids, **kw))
            # the text-level projection follows the spine paths on the exported text itself, so it only applies when the filter keeps
            # the header line and the spine operators (otherwise the text does not say which column belongs to which spine; the
            # grid oracle above covers those option sets)
            V = docrun.valid_idx(combo['include'], combo['exclude'])
            structural = TC.HEADER.value - 1 in V and TC.SPINE_OPERATION.value - 1 in V
            exp = project_text(full['ok'], lambda s: s in ids) if structural else None
            ctx.seen({'text': case.text, 'clause': 'T_spine after T_cat,T_enc', 'ids': ids, 'enc': enc})
            if exp is not None and sel != {'ok': exp}:
                ctx.fail({'text': case.text, 'spine_ids': ids, 'encoding': enc, 'include': str(combo['include']), 'exclude': str(combo['exclude']),
                          'clause': 'projection of the filtered export'}, 'spine selection does not commute with the other options', impl=sel, expected={'ok': exp})
            if enc in ('ekern', 'bekern', 'aekern'):
                plain = {'ekern': 'kern', 'bekern': 'bkern', 'aekern': 'akern'}[enc]
                kw2 = dict(kw); kw2['encoding'] = Encoding(plain)
                p = call(lambda: kp.dumps(case.doc, **kw2))
                stripped = '\n'.join(('\t'.join(('**' + plain[:-4] + c[2 + len(enc) - 4:]) if c.startswith('**') else c.replace(TS, '').replace(DS, '')
                                                for c in ln.split('\t'))) for ln in full['ok'].split('\n'))
                ctx.seen({'text': case.text, 'clause': 'T_enc last', 'enc': enc})
                if p != {'ok': stripped}:
                    ctx.fail({'text': case.text, 'encoding': enc, 'clause': 'plain = stripped extended (document)'},
                             'the plain encoding of the filtered export is not the extended one with the separators removed', impl=p, expected={'ok': stripped})
        # dump(): the destination's name says nothing about the encoding - omitted options mean the defaults whatever the suffix, and the file
        # holds what dumps() returns for the same options
        import tempfile, os, pathlib
        with tempfile.TemporaryDirectory(prefix='kernverif_c13_') as td:
            for name in ('out.krn', 'out.ekrn', 'out.EKRN', 'out.bekrn', 'out.akrn', 'out.aekrn', 'out.bkrn', 'out.ekern', 'out.txt', 'out'):
                for kw in ({}, {'spine_ids': [0]}, {'exclude': [TC.DECORATION]}):
                    path = os.path.join(td, name)
                    def via_dump():
                        kp.dump(case.doc, path if len(kw) != 1 else pathlib.Path(path), **kw)
                        with open(path, encoding='utf-8', newline='') as f:
                            return f.read()
                    got = call(via_dump)
                    exp = call(lambda: kp.dumps(case.doc, **kw))
                    ctx.seen({'text': case.text, 'clause': 'dump to ' + name, 'kw': sorted(kw)}, nontrivial=False)
                    if got != exp:
                        ctx.fail({'text': case.text, 'file': name, 'options': sorted(kw), 'clause': 'dump(): omitted options are the defaults whatever the file name'},
                                 'dump() to this file name does not write what dumps() returns for the same (omitted) options', impl=got, expected=exp)
        # explicit defaults vs omitted
        base = call(lambda: kp.dumps(case.doc))
        variants = [dict(spine_types=None), dict(include=None, exclude=None), dict(encoding=None), dict(spine_ids=None, from_measure=None, to_measure=None),
                    dict(spine_types=list(HEADERS)), dict(spine_types=set(HEADERS)), dict(include=set(cats)), dict(include=list(cats), exclude=[]),
                    dict(exclude=set()), dict(encoding=Encoding.normalizedKern), dict(instruments=None, show_measure_numbers=None),
                    dict(show_measure_numbers=False), dict(spine_ids=list(range(len(hs))))]
        for kw in variants:
            got = call(lambda: kp.dumps(case.doc, **kw))
            ctx.seen({'text': case.text, 'clause': 'explicit default', 'kw': sorted(kw)}, nontrivial=False)
            if got != base:
                ctx.fail({'text': case.text, 'explicit': sorted(kw), 'clause': 'explicit default = omitted'},
                         'passing a default value explicitly changes the export', impl=got, expected=base)


def replay(ctx, payload):
    explore(ctx, 'quick')


def reproduce(ctx, key, w):
    return False
