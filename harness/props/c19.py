"""C19 — Concatenation indexes address the fragments."""
from __future__ import annotations
import itertools
from .util import call
from . import c07

ID = 'C19'
LEAN_MODULE = 'KernProofs.C19'
THEOREMS = ['KM.C19.pairsFrom_spec', 'KM.C19.C19_indexes', 'KM.C19.C19_empty', 'KM.C19.runRows_append', 'KM.C19.C19_pair_addresses_stages']
FINGERPRINTS = ['generic.Generic', 'public', 'exporter.Exporter.export_string', 'importer.Importer', 'document.Document']
RULE = ('generated **kern scores of C07\'s domain (quick 15 / thorough 120) cut at EVERY set of barline lines into 1..6 fragments (capped at 40 cut sets '
        'per score in the quick tier), with newline and empty separators: concat must give the same document as importing the joined text (default '
        'export and measure index compared, also against the model), one pair per fragment, consecutive, last = M, and exporting pair i must reproduce '
        'the data lines of fragment i; non-trivial = at least 2 fragments; distinct = (score, cut set, separator)')
ASSUMPTIONS = ['fragments end with a newline when the separator is empty']


def explore(ctx, depth):
    import docrun
    import kernpy as kp
    late_signatures(ctx, depth)
    cases = docrun.make_cases(ctx, 15 if depth == 'quick' else 120, kern_only=True, profiles=('core',), comments=False, max_measures=5, double_bars=True)
    rng = ctx.rng
    # scores in which one branch of a split is split again and everything is re-joined before the barline (n-way joins): the fragments after
    # it must still be addressed by their pairs (round 6, C19_r6_1: only the first `*v` of a join group closed its split)
    import gen as _gen
    nd = [d_ for d_ in (_gen.nested_split_doc(rng) for _ in range(12 if depth == 'quick' else 80)) if d_.get('nest') != 'both'][:5 if depth == 'quick' else 40]
    cases = docrun.make_cases(ctx, 0, docs=nd) + cases       # first: an escalated run may be cut before it reaches the end of the list
    docrun.fill_views(ctx, cases, 'kern', docrun.ALLC, '_v')
    for case in cases:
        if case.doc is None:
            continue
        if ctx.elapsed() > 420:
            # an escalated quick run (a modelled function changed) uses the thorough plan: it is cut here rather than stopped by the time budget
            ctx.notes.append('exploration cut after 420 s (%d documents left)' % (len(cases) - cases.index(case)))
            break
        lines = case.text.split('\n')[:-1]
        bars = [i for i, l in enumerate(lines) if c07.is_bar(l)]
        M = len(case.doc.measure_start_tree_stages)
        cutsets = []
        for k in range(0, 6):
            cutsets += [list(c) for c in itertools.combinations(bars, k)]
        if depth == 'quick' and len(cutsets) > 24:
            cutsets = [[]] + rng.sample(cutsets[1:], 23)
        full_export = call(lambda: kp.dumps(case.doc))
        import impl as IM
        oracle = IM.oracle_for_text(case.text)
        pending = []
        for cuts in cutsets:
            bounds = [0] + cuts + [len(lines)]
            frags = ['\n'.join(lines[a:b]) for a, b in zip(bounds, bounds[1:])]
            variants = [('\n', frags, 'lf'), ('', [f + '\n' for f in frags], 'lf')]
            if len(cuts) >= 1 and (depth == 'thorough' or len(cuts) <= 2):
                # fragments as they come from Windows files: CRLF line ends and an empty line at the end of every fragment but the last
                crlf = [f.replace('\n', '\r\n') + ('\r\n\r\n' if k < len(frags) - 1 else '\r\n') for k, f in enumerate(frags)]
                variants.append(('', crlf, 'crlf+blank'))
                # fragments whose lines end with a bare carriage return (old Mac line ends; `loads` reads them: round 6, C19_r6_2)
                variants.append(('', [f.replace('\n', '\r') + '\r' for f in frags], 'cr'))
            if len(cuts) >= 1 and len(cuts) <= 2:
                # text read from a file saved as "UTF-8 with signature": whatever loads() makes of the joined text, concat makes of the fragments
                for sep_b, cont_b in (('\n', ['\ufeff' + frags[0]] + frags[1:]), ('', ['\ufeff' + frags[0] + '\n'] + [f + '\n' for f in frags[1:]])):
                    whole = call(lambda: kp.dumps(kp.loads(sep_b.join(cont_b))[0]))
                    parts = call(lambda: kp.dumps(kp.concat(cont_b, separator=sep_b)[0]))
                    ctx.seen({'text': case.text, 'cut_at_lines': cuts, 'separator': sep_b, 'clause': 'byte order mark'}, True)
                    if whole != parts:
                        ctx.fail({'text': case.text, 'cut_at_lines': cuts, 'separator': sep_b, 'clause': 'first fragment starts with a byte order mark'},
                                 'concat of fragments does not have the outcome of loading the joined text', impl=parts, expected=whole)
            for sep, contents, flavour in variants:
                inp = {'text': case.text, 'cut_at_lines': cuts, 'separator': sep, 'line_ends': flavour}
                def run():
                    d, idx = kp.concat(contents, separator=sep)
                    return d, [list(p) for p in idx]
                r = call(run)
                if 'ok' in r:
                    io = {'ok': {'pairs': r['ok'][1], 'starts': list(r['ok'][0].measure_start_tree_stages), 'export': call(lambda: kp.dumps(r['ok'][0]))}}
                else:
                    io = r
                pending.append(({**inp, 'clause': 'tie: concat'}, io, {'op': 'doc.concat', 'frags': contents, 'sep': sep, 'oracle': oracle}, len(frags) >= 2))
                ctx.count('fragments:%d' % len(frags))
                if 'ok' not in r:
                    ctx.fail({**inp, 'clause': 'concat'}, 'concatenation of fragments that form a valid score raises', impl=r)
                    continue
                d, idx = r['ok']
                exp_doc = call(lambda: kp.dumps(d))
                if exp_doc != full_export or list(d.measure_start_tree_stages) != list(case.doc.measure_start_tree_stages):
                    ctx.fail({**inp, 'clause': 'same document'}, 'concat does not yield the document of the joined text', impl=exp_doc, expected=full_export)
                    continue
                ok_pairs = len(idx) == len(frags) and idx[-1][1] == M and all(b[0] == a[1] + 1 for a, b in zip(idx, idx[1:])) and idx[0][0] == 0
                if not ok_pairs:
                    ctx.fail({**inp, 'clause': 'pairs'}, 'pairs are not one per fragment, consecutive, ending at the measure count', impl=idx, expected={'fragments': len(frags), 'M': M})
                    continue
                for (a, b), frag in zip(idx, frags):
                    # the data lines of the fragment, as the full export prints them: re-export the fragment's own lines through the oracle
                    want = [l for l in data_lines_of_fragment(case, frag)]
                    got = call(lambda: kp.dumps(d, from_measure=a, to_measure=b))
                    if 'ok' not in got:
                        if b < a and not want:
                            continue   # a fragment without a measure of its own (preamble only): the empty pair has nothing to address
                        ctx.fail({**inp, 'pair': [a, b], 'clause': 'export of a pair'}, 'exporting a returned pair raises', impl=got)
                        break
                    # the text a pair addresses is a score of its own (C08's clauses on C08's core: header line first, cell counts that follow the spine
                    # operators, every spine terminated) - round 6, C19_r6_1: the data lines were right, a stray `*^` line stood above them
                    from . import c08 as _c08
                    if _c08.core_doc(case.adoc):
                        tr_ = _c08.track(got['ok'])
                        if not tr_['ok']:
                            ctx.fail({**inp, 'pair': [a, b], 'clause': 'the export of a pair is a well-formed score'},
                                     'exporting pair i does not give a well-formed Humdrum text: ' + tr_['why'], impl=got['ok'])
                            break
                    data = [l for l in got['ok'].split('\n') if c07.is_data(l)]
                    if data != want:
                        ctx.fail({**inp, 'pair': [a, b], 'clause': 'data lines of the fragment'}, 'exporting pair i does not reproduce the data lines of fragment i',
                                 impl=data, expected=want)
                        break


        flush(ctx, pending)
def flush(ctx, pending):
    for (inp, io, _, nt), mr in zip(pending, ctx.driver.ask([p[2] for p in pending])):
        ctx.check(inp, io, mr, None, nontrivial=nt, what='concat differs from the model')


def data_lines_of_fragment(case, frag):
    """expected exported data lines of a fragment: the full export's data lines whose source line lies in the fragment (grid oracle)"""
    if not hasattr(case, '_linemap'):
        import docrun
        # map source line index -> exported line (None when dropped)
        m = {}
        li = 0
        for i, row in enumerate(case.adoc['rows']):
            if row['kind'] == 'cells':
                cells = [c['_v']['ok'] for c in row['cells']]
                m[li] = None if all(x in ('.', '*', '') for x in cells) else '\t'.join(cells)
            else:
                m[li] = None
            li += 1
        case._linemap = m
        case._lines = case.text.split('\n')[:-1]
    # fragments are contiguous line ranges: locate by identity of content positions
    out = []
    pos = getattr(case, '_pos', 0)
    n = len(frag.split('\n')) if frag != '' else 0
    for i in range(pos, pos + n):
        l = case._linemap.get(i)
        if l is not None and c07.is_data(l):
            out.append(l)
    case._pos = pos + n
    if case._pos >= len(case._lines):
        case._pos = 0
    return out


def late_signatures(ctx, depth):
    """scores in which a kind of signature occurs for the first time after the music has started (and mid-score signature changes in general),
    cut into fragments at barlines: every pair of bounds of the concatenated document against the model run on the joined text"""
    import docrun, gen
    import kernpy as kp
    rng = ctx.rng
    docs = [gen.DocGen(rng, profile='free', kern_only=True, max_spines=2, comments=False, max_measures=5).make() for _ in range(6 if depth == 'quick' else 60)]
    # fixed witnesses: the first meter sign / key signature / time signature of the score in its third measure
    for late in ('*met(c)', '*k[f#]', '*M3/4', '*clefF4'):
        rows = [['**kern'], ['*clefG2'] if late != '*clefF4' else ['*staff1'], ['=1'], ['4c'], ['4d'], ['=2'], ['4e'], ['=3'], [late], ['4f'], ['=4'], ['4g'], ['==']]
        rows.append(['*-'])
        docs.append({'headers': ['**kern'], 'rows': [], 'text': ''.join('\t'.join(r) + '\n' for r in rows), 'profile': 'late signature'})
    gen.render_documents(ctx.driver, [d for d in docs if d['rows']])
    cases = []
    for d in docs:
        lines = d['text'].split('\n')[:-1]
        bars = [i for i, l in enumerate(lines) if c07.is_bar(l)]
        if not bars:
            continue
        cuts = sorted(rng.sample(bars, min(len(bars), rng.randint(1, 3))))
        bounds = [0] + cuts + [len(lines)]
        frags = ['\n'.join(lines[a:b]) for a, b in zip(bounds, bounds[1:])]
        c = docrun.Case({'text': d['text'], 'headers': d['headers'], 'rows': [], 'kind': 'concat of ' + d.get('profile', 'free')})
        r = call(lambda: kp.concat(frags, separator='\n'))
        if 'ok' not in r:
            continue
        c.doc, c.errors, c.import_result = r['ok'][0], [], {'ok': True}
        cases.append(c)
    docrun.raw_range_tie(ctx, cases, what='a pair of bounds exported from a concatenated document differs from the model run on the joined text')
    # on the fixed witnesses (one spine, nothing outside C08's core but the late signature) the statement itself: every note of an exported pair is
    # governed by the same clef / key signature / time signature / meter sign as in the full score
    from . import c08
    for c in cases:
        if c.adoc['kind'] != 'concat of late signature':
            continue
        full = call(lambda: kp.dumps(c.doc))
        ft = c08.track(full['ok']) if 'ok' in full else {'ok': False}
        M = len(c.doc.measure_start_tree_stages)
        for a in range(1, M + 1):
            for b in range(a, M + 1):
                got = call(lambda: kp.dumps(c.doc, from_measure=a, to_measure=b))
                ctx.seen({'text': c.text, 'from_measure': a, 'to_measure': b, 'clause': 'late signature: same governing signatures'}, True)
                t = c08.track(got['ok']) if 'ok' in got else {'ok': False, 'why': str(got)}
                if not t['ok'] or not ft.get('ok'):
                    ctx.fail({'text': c.text, 'from_measure': a, 'to_measure': b, 'clause': 'late signature: well-formed'},
                             'a pair exported from the concatenated document is not a well-formed document: ' + str(t.get('why')), impl=got)
                    continue
                en, fn = t['notes'], ft['notes']
                ok = not en
                for st in range(len(fn) - len(en) + 1):
                    if en and [(x[0], x[1]) for x in fn[st:st + len(en)]] == [(x[0], x[1]) for x in en] and all(x[2] == y[2] for x, y in zip(fn[st:st + len(en)], en)):
                        ok = True
                        break
                if not ok:
                    ctx.fail({'text': c.text, 'from_measure': a, 'to_measure': b, 'clause': 'late signature: same governing signatures'},
                             'a note of an exported pair is not governed by the same clef / key signature / time signature / meter sign as in the full score',
                             impl=got['ok'], expected=[list(x) for x in fn[:4]])


def replay(ctx, payload):
    explore(ctx, 'quick')


def reproduce(ctx, key, w):
    return False
