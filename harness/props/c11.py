"""C11 — Category algebra follows the documented tree."""
from __future__ import annotations
import itertools

ID = 'C11'
LEAN_MODULE = 'KernProofs.C11'
THEOREMS = [
    'KM.C11.categories_table', 'KM.C11.hierarchy_names_known', 'KM.C11.readme_names_known',
    'KM.C11.C11_forest_each_once', 'KM.C11.C11_matches_documented_tree', 'KM.C11.readme_each_once',
    'KM.C11.C11_is_child', 'KM.C11.C11_nodes', 'KM.C11.C11_children', 'KM.C11.C11_leaves', 'KM.C11.C11_all',
    'KM.C11.C11_valid', 'KM.C11.C11_valid_rejects', 'KM.C11.C11_match',
    'KM.C11.C11_kind_independent', 'KM.C11.C11_set_semantics',
]
FINGERPRINTS = [f'tokens.TokenCategoryHierarchyMapper.{fn}' for fn in (
    '_is_child', 'is_child', 'children', '_nodes', '_find_subtree', 'nodes', 'valid', '_leaves', 'leaves',
    '_match', '_validate_include', '_validate_exclude', 'match', 'all')]
RULE = ('exhaustive: 37 categories (children/nodes/leaves/all), 37x37 ordered pairs (is_child), every include/exclude pair of '
        'sets of size <=1 (quick) / <=2 (thorough, 704x704) through valid, match on all 37 targets for sampled pairs, random '
        'larger sets, the four argument kinds (None/single/list/tuple/set) and non-category elements; a case is non-trivial '
        'when include or exclude is a non-empty collection; distinct = distinct (function, arguments)')
ASSUMPTIONS = ['Python set semantics are modelled as lists compared up to membership (sorted by enum value before comparison)']


def _kp():
    from kernpy.core.tokens import TokenCategory, TokenCategoryHierarchyMapper
    return TokenCategory, TokenCategoryHierarchyMapper


def canon(s):
    return sorted(c.value - 1 for c in s)


def call(fn):
    try:
        return {'ok': fn()}
    except ValueError:
        return {'err': 'ValueError'}
    except KeyError:
        return {'err': 'KeyError'}
    except Exception as e:  # noqa
        return {'err': 'Exception', 'detail': f'{type(e).__name__}: {e}'[:200]}


def mk_arg(kind, idxs, cats):
    """returns (python argument, json for the driver); idx None = a non-category element"""
    elems = [cats[i] if i is not None else 'not-a-category' for i in idxs]
    if kind == 'none':
        return None, None
    if kind == 'single':
        return elems[0], {'k': 'single', 'v': [idxs[0]]}
    if kind == 'list':
        return list(elems), {'k': 'list', 'v': list(idxs)}
    if kind == 'tuple':
        return tuple(elems), {'k': 'tuple', 'v': list(idxs)}
    if kind == 'set':
        return set(elems), {'k': 'set', 'v': list(idxs)}
    raise ValueError(kind)


def small_sets(n):
    out = [[]] + [[i] for i in range(n)]
    out += [[a, b] for a in range(n) for b in range(a + 1, n)]
    return out


def explore(ctx, depth):
    TC, M = _kp()
    cats = list(TC)
    n = len(cats)
    # ---- tables: all categories, all ordered pairs
    t = ctx.driver.ask([{'op': 'c11.tables'}])[0]
    names = t['names']
    if [c.name for c in cats] != names or [c.value for c in cats] != list(range(1, n + 1)):
        ctx.check({'fn': 'enum'}, [c.name for c in cats], names, names, what='TokenCategory members differ from the 37 modelled')
    ctx.check({'fn': 'all'}, canon(TC.all()), sorted(t['all']), list(range(37)), what='all() is not every category once')
    ctx.check({'fn': 'mapper.all'}, canon(M.all()), sorted(t['all']), list(range(37)), what='mapper.all()')
    for i, c in enumerate(cats[:37]):
        for fn in ('children', 'nodes', 'leaves'):
            impl = call(lambda: canon(getattr(TC, fn)(c)))
            ctx.check({'fn': fn, 'target': c.name}, impl, {'ok': sorted(t[fn][i])}, {'ok': sorted(t['spec_' + fn][i])},
                      what=f'{fn}({c.name}) differs from the documented tree')
        for j, d in enumerate(cats[:37]):
            impl = call(lambda: bool(TC.is_child(child=d, parent=c)))
            ctx.check({'fn': 'is_child', 'parent': c.name, 'child': d.name}, impl, {'ok': t['is_child'][i][j]},
                      {'ok': t['spec_is_child'][i][j]}, what='is_child differs from the documented tree')
    ctx.count('table_cells', 37 * 3 + 37 * 37)

    # ---- valid / match on explicit arguments, in the four kinds
    kinds = ['list', 'tuple', 'set', 'single']
    reqs, metas = [], []

    def add(inc_kind, inc_idx, exc_kind, exc_idx, with_match):
        pi, ji = mk_arg(inc_kind, inc_idx, cats)
        pe, je = mk_arg(exc_kind, exc_idx, cats)
        reqs.append({'op': 'c11.valid', 'inc': ji, 'exc': je})
        metas.append(('valid', inc_kind, inc_idx, exc_kind, exc_idx, pi, pe))
        if with_match:
            reqs.append({'op': 'c11.match', 'inc': ji, 'exc': je})
            metas.append(('match', inc_kind, inc_idx, exc_kind, exc_idx, pi, pe))

    rng = ctx.rng
    singles = [[]] + [[i] for i in range(37)]
    k = 0
    for a in singles:
        for b in singles:
            ka = kinds[k % 4] if len(a) == 1 else kinds[k % 3]
            kb = kinds[(k // 4) % 4] if len(b) == 1 else kinds[(k // 4) % 3]
            k += 1
            add(ka, a, kb, b, with_match=(k % 7 == 0))
    # None on either side
    for a in singles:
        add('none', [], kinds[len(a) % 3], a, True)
        add(kinds[len(a) % 3], a, 'none', [], True)
    add('none', [], 'none', [], True)
    # random larger sets, with repetitions and in random order
    nrand = 300 if depth == 'quick' else 3000
    for _ in range(nrand):
        a = [rng.randrange(37) for _ in range(rng.randint(0, 8))]
        b = [rng.randrange(37) for _ in range(rng.randint(0, 6))]
        add(rng.choice(kinds[:3]), a, rng.choice(kinds[:3]), b, rng.random() < 0.3)
    # selections that are already "expanded": a category's whole subtree from the documented tree, with and without the category itself, without
    # one inner category, the leaves together with the root (round 6, C11_r6_1: a fast path for expanded selections tested `leaves` for `nodes`)
    sn = t['spec_nodes']
    for i in range(37):
        sub = sorted(set(sn[i]))
        if not sub:
            continue
        inner = [j for j in sub if sn[j]]
        for a in ([i] + sub, sub, [i] + sorted(set(t['spec_leaves'][i])), [j for j in [i] + sub if not inner or j != inner[0]], sub + sub):
            add(rng.choice(kinds[:3]), a, 'none', [], True)
            add(rng.choice(kinds[:3]), a, rng.choice(kinds[:3]), [], False)
    # long lists and tuples with many repetitions (longer than the enumeration itself)
    for _ in range(20 if depth == 'quick' else 100):
        base = [rng.randrange(37) for _ in range(rng.randint(1, 4))]
        a = [rng.choice(base) for _ in range(rng.randint(37, 90))]
        b = [rng.choice(base) for _ in range(rng.choice([0, 0, 40, 75]))] if rng.random() < 0.5 else [rng.randrange(37) for _ in range(rng.randint(0, 3))]
        add(rng.choice(kinds[:2]), a, rng.choice(kinds[:3]), b, True)
        add(rng.choice(kinds[:3]), b[:3], rng.choice(kinds[:2]), a, True)
    # non-category elements
    for _ in range(40):
        a = [rng.choice([None, rng.randrange(37)]) for _ in range(rng.randint(1, 3))]
        b = [rng.choice([None, rng.randrange(37)]) for _ in range(rng.randint(0, 3))]
        add(rng.choice(kinds[:3]), a, rng.choice(kinds[:3]), b, True)
        add('single', [None], 'none', [], False)
    resp = ctx.driver.ask(reqs)
    for (fn, ik, ii, ek, ei, pi, pe), r in zip(metas, resp):
        inp = {'fn': fn, 'include': [ik, [names[i] if i is not None else None for i in ii]],
               'exclude': [ek, [names[i] if i is not None else None for i in ei]]}
        nontrivial = bool(ii) or bool(ei)
        ctx.count(f'{fn}:{ik}/{ek}')
        if fn == 'valid':
            impl = call(lambda: canon(TC.valid(include=pi, exclude=pe)))
            model = r['model'] if 'err' in r['model'] else {'ok': sorted(set(r['model']['ok']))}
            ctx.check(inp, _strip(impl), model, r['spec'], nontrivial=nontrivial,
                      what='valid(include, exclude) is not include-with-descendants minus exclude-with-descendants')
        else:
            impl = [_strip(call(lambda: bool(TC.match(c, include=pi, exclude=pe)))) for c in cats[:37]]
            model = r['model']
            spec = [{'ok': b} for b in r['spec']] if isinstance(r['spec'], list) else [{'err': 'ValueError'}] * 37
            ctx.check(inp, impl, model, spec, nontrivial=nontrivial,
                      what='match is not "the category or one of its descendants is selected"')

    # ---- a selection the library handed out, edited in place by the caller and handed back as `include`: it means what it now contains
    # (round 6, C11_r6_2: results of `valid` carried a marker "already expanded" that survived the edit)
    back = []
    for _ in range(12 if depth == 'quick' else 120):
        first = [cats[i] for i in rng.sample(range(37), rng.randint(1, 3))]
        v = call(lambda: TC.valid(include=first))
        if 'ok' not in v:
            continue
        v = v['ok']
        extra = cats[rng.randrange(37)]
        how = rng.choice(['add', 'ior', 'update', 'discard'])
        try:
            if how == 'add':
                v.add(extra)
            elif how == 'ior':
                v |= {extra}
            elif how == 'update':
                v.update([extra])
            else:
                v.discard(extra)
        except Exception:  # noqa
            continue
        idx = sorted(c.value - 1 for c in v)
        got = call(lambda: canon(TC.valid(include=v)))
        got_m = call(lambda: canon(M.valid(include=v, exclude=None)))
        back.append((got, got_m, idx, how))
    resp_b = ctx.driver.ask([{'op': 'c11.valid', 'inc': {'k': 'set', 'v': idx}, 'exc': None} for _, _, idx, _ in back]) if back else []
    for (got, got_m, idx, how), r in zip(back, resp_b):
        inp = {'fn': 'valid', 'include': ['a result of valid(), edited in place by ' + how, [names[i] for i in idx]], 'exclude': None}
        ctx.check(inp, _strip(got), {'ok': sorted(set(r['model']['ok']))} if 'ok' in r['model'] else r['model'], r['spec'], nontrivial=True,
                  what='valid(include=<a selection handed out earlier and edited since>) is not include-with-descendants')
        ctx.check({**inp, 'fn': 'mapper.valid'}, _strip(got_m), {'ok': sorted(set(r['model']['ok']))} if 'ok' in r['model'] else r['model'], r['spec'], nontrivial=True,
                  what='mapper valid(include=<a selection handed out earlier and edited since>) is not include-with-descendants')

    # ---- argument objects reused and edited in place between calls (same size, other contents): every call answers for the contents it is given
    pending = []
    for _ in range(30 if depth == 'quick' else 300):
        kind = rng.choice(['set', 'list'])
        cur = rng.sample(range(37), rng.randint(1, 4))
        obj = set(cats[i] for i in cur) if kind == 'set' else [cats[i] for i in cur]
        other = set() if rng.random() < 0.5 else {cats[rng.randrange(37)]}
        as_include = rng.random() < 0.5
        for step in range(4):
            def ask():
                kw = {'include': obj, 'exclude': other} if as_include else {'include': other or None, 'exclude': obj}
                return {'valid': canon(TC.valid(**kw)), 'match': [bool(TC.match(c, **kw)) for c in cats[:37]]}
            got = call(ask)
            idx = sorted(c.value - 1 for c in obj)
            oth = sorted(c.value - 1 for c in other)
            pending.append((got, idx if as_include else (oth if other else None), oth if as_include else idx, kind, step))
            # edit in place, keeping the size
            new = rng.randrange(37)
            while cats[new] in obj:
                new = rng.randrange(37)
            if kind == 'set':
                obj.discard(next(iter(obj))); obj.add(cats[new])
            else:
                obj[rng.randrange(len(obj))] = cats[new]
    reqs2 = []
    for got, inc, exc, kind, step in pending:
        ji = None if inc is None else {'k': 'list', 'v': inc}
        je = {'k': 'list', 'v': exc}
        reqs2.append({'op': 'c11.valid', 'inc': ji, 'exc': je})
        reqs2.append({'op': 'c11.match', 'inc': ji, 'exc': je})
    resp2 = ctx.driver.ask(reqs2)
    for k, (got, inc, exc, kind, step) in enumerate(pending):
        rv, rm = resp2[2 * k], resp2[2 * k + 1]
        want = {'ok': {'valid': sorted(rv['spec']['ok']), 'match': rm['spec']}} if 'ok' in rv['spec'] and isinstance(rm['spec'], list) else None
        ctx.seen({'fn': 'reused argument object', 'kind': kind, 'step': step, 'include': inc, 'exclude': exc}, step > 0)
        if want is not None and _strip(got) != want:
            ctx.fail({'fn': 'valid/match with a reused argument object edited in place', 'kind': kind, 'step': step,
                      'include': None if inc is None else [names[i] for i in inc], 'exclude': [names[i] for i in exc]},
                     'valid / match do not answer for the current contents of an argument object that was edited in place since an earlier call',
                     impl=_strip(got), expected=want['ok'])

    # ---- the 704 x 704 grid (thorough plan): masks, impl vs model vs spec
    if depth == 'thorough':
        sets = small_sets(37)
        rows = ctx.driver.ask([{'op': 'c11.gridrow', 'i': i} for i in range(len(sets))])
        bad = 0
        for i, a in enumerate(sets):
            inc = {cats[x] for x in a}
            rowI = []
            for b in sets:
                v = M.valid(include=inc, exclude={cats[x] for x in b})
                m = 0
                for c in v:
                    m |= 1 << (c.value - 1)
                rowI.append(m)
            ctx.evaluations += len(sets)
            if rowI != rows[i]['model'] or rowI != rows[i]['spec']:
                for jx, b in enumerate(sets):
                    if rowI[jx] != rows[i]['spec'][jx] or rowI[jx] != rows[i]['model'][jx]:
                        bad += 1
                        if bad <= 20:
                            ctx.check({'fn': 'valid', 'include': ['set', [names[x] for x in a]], 'exclude': ['set', [names[x] for x in b]]},
                                      rowI[jx], rows[i]['model'][jx], rows[i]['spec'][jx], what='valid grid cell (bit mask over enum values)')
        ctx.count('grid_cells', len(sets) ** 2)
        for i in range(len(sets)):
            ctx.nontrivial.add(('gridrow', i).__repr__().encode())
        ctx.exhaustive = True
    else:
        ctx.exhaustive = True  # the quick plan still enumerates all 37 / 37x37 / 38x38 completely
    # ---- the answers belong to the caller, and questions about things that are not categories leave no trace: after editing every returned
    # set in place (through the enum and through the mapper class, positional and keyword calls) and after asking about non-categories,
    # the tree functions, all(), valid(include=None) and match(include=None) answer as the tables say
    def abuse():
        for c in cats[:37]:
            for got in (TC.children(c), TC.nodes(c), TC.leaves(c), M.children(c), M.nodes(c), M.leaves(c), M.children(parent=c), M.nodes(parent=c), M.leaves(target=c)):
                if hasattr(got, 'add'):
                    got.add(c); got.discard(next(iter(got)))
                    got.clear()
        a1, a2 = TC.all(), M.all()
        a1.clear(); a2.discard(TC.CORE)
        v = M.valid(include=None, exclude=None); v.clear()
        for bad in ('CORE', None, 3, 'nonsense', 1.5):
            for f in (TC.children, TC.leaves, TC.nodes, M.children, M.leaves, M.nodes):
                try:
                    f(bad)
                except Exception:  # noqa
                    pass
            try:
                TC.is_child(child=bad, parent=TC.CORE)
            except Exception:  # noqa
                pass
    call(abuse)
    ctx.check({'fn': 'all', 'after': 'edits and non-category questions'}, call(lambda: canon(TC.all())), {'ok': sorted(t['all'])}, {'ok': list(range(37))},
              what='all() after the caller edited earlier answers / asked about non-categories')
    ctx.check({'fn': 'mapper.all', 'after': 'edits and non-category questions'}, call(lambda: canon(M.all())), {'ok': sorted(t['all'])}, {'ok': list(range(37))},
              what='mapper.all() after the caller edited earlier answers / asked about non-categories')
    ctx.check({'fn': 'valid(None, None)', 'after': 'edits and non-category questions'}, call(lambda: canon(M.valid(include=None, exclude=None))), {'ok': sorted(t['all'])},
              {'ok': list(range(37))}, what='valid(include=None) after the caller edited earlier answers / asked about non-categories')
    for i, c in enumerate(cats[:37]):
        for fn in ('children', 'nodes', 'leaves'):
            for via, obj in (('enum', TC), ('mapper', M)):
                impl = call(lambda: canon(getattr(obj, fn)(c)))
                ctx.check({'fn': fn, 'target': c.name, 'via': via, 'after': 'edits and non-category questions'}, impl, {'ok': sorted(t[fn][i])}, {'ok': sorted(t['spec_' + fn][i])},
                          what=f'{fn}({c.name}) after the caller edited an earlier answer')
        m = call(lambda: bool(M.match(c, include=None, exclude=None)))
        ctx.check({'fn': 'match(include=None)', 'target': c.name, 'after': 'edits and non-category questions'}, m, {'ok': True}, {'ok': True},
                  what='match with include=None after non-category questions')
        for j, d in enumerate(cats[:37]):
            if (i + j) % 3 == 0:
                impl = call(lambda: bool(TC.is_child(child=d, parent=c)))
                ctx.check({'fn': 'is_child', 'parent': c.name, 'child': d.name, 'after': 'edits and non-category questions'}, impl, {'ok': t['is_child'][i][j]},
                          {'ok': t['spec_is_child'][i][j]}, what='is_child after the caller edited earlier answers')


def _strip(r):
    return {k: v for k, v in r.items() if k != 'detail'}


def replay(ctx, payload):
    """re-evaluate one recorded input on the current tree"""
    TC, M = _kp()
    inp = payload['input']
    cats = {c.name: c for c in TC}
    fn = inp.get('fn')
    if fn in ('children', 'nodes', 'leaves', 'is_child', 'all', 'mapper.all', 'enum'):
        explore(ctx, 'quick')
        return
    explore(ctx, 'quick')


def reproduce(ctx, key, witness):
    return False
