"""C18 — Every spine type imports every token without loss."""
from __future__ import annotations
import warnings
from .util import call

ID = 'C18'
LEAN_MODULE = 'KernProofs.C18'
EXTRA_MODULES = ['KernProofs.C18Doc']
THEOREMS = ['KM.C18.listener_names_known', 'KM.C18.all_records_ok', 'KM.C18.importWrapped_rule', 'KM.C18.C18_dispatch',
            'KM.C18.C18_empty_rejected', 'KM.C18.own_not_shared', 'KM.C18.C18_barlines', 'KM.C18.C18_shared_identical', 'KM.C18.C18_verbatim',
            'KM.C18D.C18_cell_in_document', 'KM.C18D.C18_same_text_two_spines']
FINGERPRINTS = ['importer_factory.createImporter', 'text_spine_importer.TextSpineImporter.import_token',
                'dynam_spine_importer.DynamSpineImporter.import_token', 'dyn_importer.DynSpineImporter.import_token',
                'harm_spine_importer.HarmSpineImporter.import_token', 'mhxm_spine_importer.MxhmSpineImporter.import_token',
                'fing_spine_importer.FingSpineImporter.import_token', 'basic_spine_importer.BasicSpineImporter.import_token',
                'base_antlr_spine_parser_listener']
RULE = ('headers **text **dynam **dyn **harm **mxhm **fing and three unknown ones x a token corpus covering every alternative of `field` in the '
        'grammar, free text (spaces, quotes, commas, separators, non-ASCII), damaged tokens and random strings over the lexer alphabet '
        '(quick 150, thorough 3000) through createImporter(h).import_token, the kern outcome of every cell being supplied by a fresh '
        'KernSpineImporter; plus whole documents whose rows are imported under each header in turn (measure index and token listing compared); '
        'non-trivial = the fresh kern importer accepts the cell (so the importer has to decide); distinct = distinct (header, cell)')
ASSUMPTIONS = ['the ANTLR recogniser is a parameter: the model is told what a fresh KernSpineImporter does with each cell',
               'every category the kern listener can produce is in the generated listener category set (checked on every explored cell)']

HEADERS = ['**text', '**dynam', '**dyn', '**harm', '**mxhm', '**fing', '**unknown', '**silbe', '**x',
           '**har', '**tex', '**dyna', '**fin', '**mx', '**roo', '**ker', '**men', '**k', '**Text', '**HARM', '**textual']


QUOTED = ['"Ave', '"a"', '""', '"', '"Wer', 'da?"', 'x"y', '"a b', 'a,b', '"a,b"']


def explore(ctx, depth):
    import kernpy as kp
    from kernpy.core.importer_factory import createImporter
    import corpus_tokens as CT
    import tokobs
    rng = ctx.rng
    import docrun
    docrun.edit_category_sets()
    cells = list(CT.ALL)
    nrand = 150 if depth == 'quick' else 3000
    for _ in range(nrand):
        cells.append(''.join(rng.choice(CT.LEXER_ALPHABET) for _ in range(rng.randint(1, 6))))
        cells.append(''.join(rng.choice(CT.WIDE_ALPHABET) for _ in range(rng.randint(1, 5))))
        if rng.random() < 0.5:  # mutate a corpus token
            base = rng.choice(CT.ALL)
            i = rng.randrange(len(base) + 1)
            cells.append(base[:i] + rng.choice(CT.LEXER_ALPHABET) + base[i:])
    cells = [c for c in dict.fromkeys(cells) if '\t' not in c and '\n' not in c]
    kern = {}
    for c in cells:
        kern[c] = tokobs.fresh_kern(c)
    reqs, metas = [], []
    for h in HEADERS:
        for c in cells:
            reqs.append({'op': 'c18.import', 'header': h, 'cell': c, 'kern': kern[c][1]})
            metas.append((h, c))
        reqs.append({'op': 'c18.import', 'header': h, 'cell': '', 'kern': None})
        metas.append((h, ''))
    resp = ctx.driver.ask(reqs)
    for (h, c), r in zip(metas, resp):
        def run():
            t = createImporter(h).import_token(c)
            return tokobs.obs(t)
        impl = call(run)
        ctx.count('kern_accepts' if kern.get(c, (None, None))[1] is not None else 'kern_rejects')
        ctx.check({'header': h, 'cell': c}, impl, r['model'], r['spec'], nontrivial=kern.get(c, (None, None))[1] is not None,
                  what='token is neither the kern token (shared structure) nor the verbatim text under the spine type\'s own category')
    # ---- whole documents: the same rows under each header
    warnings.simplefilter('ignore')
    ndocs = 12 if depth == 'quick' else 120
    pool = CT.NOTES + CT.SIGS + CT.BARS + CT.EMPTY + CT.FREE[:30] + CT.CONTEXT + CT.VISUAL
    pool = [c for c in pool if not c.startswith('!') and not c.startswith('**') and c not in ('*-', '*^', '*v', '*+', '*x') and c.strip() == c and c]
    for d in range(ndocs):
        rows = [rng.choice(pool) for _ in range(rng.randint(3, 12))]
        if rng.random() < 0.7:
            rows.insert(rng.randrange(len(rows) + 1), rng.choice(CT.BARS))
        results = {}
        for h in HEADERS:
            text = '\n'.join([h] + rows + ['*-']) + '\n'
            def run():
                doc, errs = kp.loads(text)
                toks = doc.get_all_tokens()
                bars = [i for i, t in enumerate(toks) if t.category.name == 'BARLINES']
                return {'measures': list(doc.measure_start_tree_stages), 'barline_rows': bars, 'errors': len(errs),
                        'texts': [t.encoding for t in toks[1:]]}
            results[h] = call(run)
        ref = results[HEADERS[0]]
        ctx.seen({'doc': rows})
        ctx.count('documents')
        for h in HEADERS[1:]:
            a, b = results[h], ref
            if 'ok' in a and 'ok' in b:
                same = a['ok']['measures'] == b['ok']['measures'] and a['ok']['barline_rows'] == b['ok']['barline_rows'] and a['ok']['errors'] == 0 == b['ok']['errors']
            else:
                same = False
            if not same:
                ctx.fail({'rows': rows, 'header': h, 'reference_header': HEADERS[0], 'clause': 'barlines detected identically'},
                         'measure index / barline rows differ between spine types, or import failed', impl=a, expected=b)


    # ---- documents with several spine types side by side: the same text in every column of a row.
    #      every node must hold what the per-cell rule says for (its own header, the cell text), whatever was parsed before it
    kern_hdrs = ['**kern'] + HEADERS
    ndocs2 = 10 if depth == 'quick' else 100
    pool2 = [c for c in pool + CT.UNICODE + CT.DYNAMICS_LIKE if c and c.strip() == c]
    docs = []
    for d in range(ndocs2):
        cols = rng.sample(kern_hdrs, rng.randint(2, 5))
        rows = [rng.choice(pool2) for _ in range(rng.randint(3, 9))]
        rows += [rng.choice(rows) for _ in range(3)]          # repeated texts
        # text that begins with, ends with or consists of a double quote (quoted direct speech in lyrics): taken literally under every spine type
        rows.insert(rng.randrange(len(rows) + 1), rng.choice(QUOTED))
        if rng.random() < 0.6:
            # an invisible barline, later a visible one of the same shape (and the other way round): tokens that compare equal but differ in `hidden`
            hb, vb = rng.choice([('=1-', '='), ('=-', '='), ('=3-', '=3'), ('==-', '=='), ('=2-', '=')])
            k = rng.randrange(len(rows))
            rows = rows[:k] + ([hb] if rng.random() < 0.7 else [vb]) + rows[k:] + [vb, hb, vb]
        docs.append((cols, rows))
    need = sorted({c for _, rows in docs for c in rows})
    kern2 = {c: tokobs.fresh_kern(c) for c in need}
    reqs, metas = [], []
    for cols, rows in docs:
        for h in cols:
            for c in rows:
                reqs.append({'op': 'c18.import', 'header': h, 'cell': c, 'kern': kern2[c][1]})
                metas.append((h, c))
    exp = {}
    for (h, c), r in zip(metas, ctx.driver.ask(reqs)):
        exp[(h, c)] = r
    for cols, rows in docs:
        text = '\n'.join(['\t'.join(cols)] + ['\t'.join([c] * len(cols)) for c in rows] + ['\t'.join(['*-'] * len(cols))]) + '\n'
        def run():
            doc, errs = kp.loads(text)
            return [[tokobs.obs(n.token) for n in doc.tree.stages[2 + i]] for i in range(len(rows))]
        got = call(run)
        ctx.count('multi_spine_documents')
        if 'ok' not in got:
            ctx.fail({'columns': cols, 'rows': rows, 'clause': 'multi-spine import'}, 'import of a multi-spine document failed', impl=got)
            continue
        for i, c in enumerate(rows):
            for j, h in enumerate(cols):
                r = exp[(h, c)]
                impl = {'ok': got['ok'][i][j]}
                if impl['ok'].get('cls') == 'ErrorToken':
                    impl = {'err': 'Exception'}       # the document importer wraps a raising import_token into an ErrorToken
                model = r['model'] if 'ok' in r['model'] else {'err': 'Exception'}
                spec = r['spec'] if h != '**kern' else None
                ctx.check({'columns': cols, 'row': i, 'column': j, 'header': h, 'cell': c, 'previous_rows': rows[:i]}, impl, model, spec,
                          nontrivial=kern2[c][1] is not None,
                          what='inside a multi-spine document a cell is not imported as its own spine type imports that text')

    # ---- a spine of another type added in the MIDDLE of the score by `*+` in a column that is not the last one: from then on the columns to
    #      its right have moved, and every cell must still be imported as the type of ITS OWN spine imports that text (round 6, C18_r6_2)
    docs3 = []
    for d in range(8 if depth == 'quick' else 80):
        cols = rng.sample(kern_hdrs, rng.randint(2, 4))
        j = rng.randrange(len(cols) - 1)
        hnew = rng.choice([h for h in kern_hdrs if h != cols[j]])
        rows1 = [rng.choice(pool2) for _ in range(rng.randint(1, 3))]
        rows2 = [rng.choice(pool2) for _ in range(rng.randint(2, 5))] + [rng.choice(rows1)]
        docs3.append((cols, j, hnew, rows1, rows2))
    need = sorted({c for _, _, _, r1, r2 in docs3 for c in r1 + r2})
    kern3 = {c: tokobs.fresh_kern(c) for c in need}
    reqs, metas = [], []
    for cols, j, hnew, rows1, rows2 in docs3:
        for h in cols + [hnew]:
            for c in rows1 + rows2:
                reqs.append({'op': 'c18.import', 'header': h, 'cell': c, 'kern': kern3[c][1]})
                metas.append((h, c))
    exp3 = {}
    for (h, c), r in zip(metas, ctx.driver.ask(reqs)):
        exp3[(h, c)] = r
    for cols, j, hnew, rows1, rows2 in docs3:
        cols2 = cols[:j + 1] + [hnew] + cols[j + 1:]
        n = len(cols)
        lines = ['\t'.join(cols)] + ['\t'.join([c] * n) for c in rows1] + ['\t'.join('*+' if k == j else '*' for k in range(n))] + \
                ['\t'.join(['*'] * (j + 1) + [hnew] + ['*'] * (n - 1 - j))] + ['\t'.join([c] * (n + 1)) for c in rows2] + ['\t'.join(['*-'] * (n + 1))]
        text = '\n'.join(lines) + '\n'
        def run3():
            doc, errs = kp.loads(text)
            st = doc.tree.stages
            return [[tokobs.obs(nd.token) for nd in st[2 + i]] for i in range(len(rows1))] + \
                   [[tokobs.obs(nd.token) for nd in st[2 + len(rows1) + 2 + i]] for i in range(len(rows2))]
        got = call(run3)
        ctx.count('added_spine_documents')
        if 'ok' not in got:
            ctx.fail({'text': text, 'clause': 'spine added by *+ in the middle: import'}, 'import of a document with a spine added by *+ failed', impl=got)
            continue
        for i, c in enumerate(rows1 + rows2):
            hdrs = cols if i < len(rows1) else cols2
            for k, h in enumerate(hdrs):
                r = exp3[(h, c)]
                impl = {'ok': got['ok'][i][k]}
                if impl['ok'].get('cls') == 'ErrorToken':
                    impl = {'err': 'Exception'}
                model = r['model'] if 'ok' in r['model'] else {'err': 'Exception'}
                spec = r['spec'] if h != '**kern' else None
                ctx.check({'text': text, 'row': i, 'column': k, 'header': h, 'cell': c, 'clause': 'spine added by *+ in the middle'}, impl, model, spec,
                          nontrivial=kern3[c][1] is not None,
                          what='after a spine was added by *+ a cell is not imported as its own spine type imports that text')


def replay(ctx, payload):
    explore(ctx, 'quick')


def reproduce(ctx, key, w):
    return False
