"""C04 — The six encodings are consistent views of one document."""
from __future__ import annotations
import copy
from .util import call

ID = 'C04'
LEAN_MODULE = 'KernProofs.C04'
EXTRA_MODULES = ['KernProofs.C04Doc']
THEOREMS = ['KM.C04.C04_kern_is_stripped_ekern', 'KM.C04.C04_akern_is_stripped_aekern', 'KM.C04.C04_bkern_is_stripped_bekern',
            'KM.C04.bekernOf_noDecSep', 'KM.C04.bekernNote_noteText', 'KM.C04.bekernOf_chordText', 'KM.C04.C04_bekern_notewise',
            'KM.C04.C04_bekern_single', 'KM.C04.prefix_table', 'KM.C04.C04_header', 'KM.C04.C04_nonnote_identical',
            'KM.C04D.C04_cell_view', 'KM.C04D.C04_line_view', 'KM.C04D.viewOpt_isSome']
FINGERPRINTS = ['tokenizers.KernTokenizer.tokenize', 'tokenizers.EkernTokenizer.tokenize', 'tokenizers.BekernTokenizer.tokenize',
                'tokenizers.BkernTokenizer.tokenize', 'tokenizers.AEKernTokenizer.tokenize', 'tokenizers.AKernTokenizer.tokenize',
                'tokenizers.TokenizerFactory.create', 'tokenizers.Encoding.prefix', 'tokens.NoteRestToken.export', 'tokens.ChordToken.export',
                'tokens.SimpleToken.export', 'exporter.HeaderTokenGenerator.new', 'exporter.Exporter.export_token']
RULE = ('generated abstract cells of the grammar (notes, rests, chords with shared decorations and inherited durations, barlines, interpretations; '
        'quick 400 / thorough 4000) parsed by the real kern importer x the six encodings x category selections keeping durations or pitches x '
        'clefs, each tokenisation compared with the model, and the property clauses evaluated on the implementation (plain = stripped extended; '
        'basic = full without decorations note by note; non-note cells identical; header = ** + prefix + type); non-trivial = note/rest/chord '
        'with at least one decoration; distinct = distinct (cell text, encoding, category set, clef)')
ASSUMPTIONS = ['tokens come from the real parser on rendered abstract cells (tokOf tie checked in the same run)']

ENCS = ['kern', 'ekern', 'bkern', 'bekern', 'akern', 'aekern']
TS, DS = '@', '·'


def strip(s):
    return s.replace(TS, '').replace(DS, '')


def selections(TC, rng, depth):
    sels = [(None, None), (None, [TC.DECORATION]), ([TC.CORE, TC.SIGNATURES, TC.BARLINES, TC.STRUCTURAL, TC.IMAGE_ANNOTATIONS], None),
            ([TC.NOTE_REST], [TC.DECORATION]), ([TC.DURATION, TC.PITCH], None), ([TC.PITCH, TC.ALTERATION, TC.REST], None),
            ([TC.DURATION, TC.DECORATION], None), (None, [TC.ALTERATION])]
    return sels


def explore(ctx, depth):
    import gen, tokobs
    from kernpy.core.tokens import TokenCategory as TC, NoteRestToken, ChordToken, HeaderToken, ClefToken
    from kernpy.core.tokenizers import TokenizerFactory, Encoding
    from kernpy.core.exporter import HeaderTokenGenerator
    rng = ctx.rng
    n = 400 if depth == 'quick' else 4000
    cells = gen.token_stream(rng, n)
    # a few fixed witnesses first (corpus of past failures)
    cells = [
        {'k': 'chord', 'es': [{'k': 'note', 'pre': [], 'dur': {'num': '4', 'rat': None, 'dots': 0, 'grace': ''}, 'mid': [], 'pitch': 'c', 'post1': [], 'acc': '', 'disp': '', 'post2': ['L']},
                              {'k': 'note', 'pre': [], 'dur': {'num': '4', 'rat': None, 'dots': 0, 'grace': ''}, 'mid': [], 'pitch': 'e', 'post1': [], 'acc': '', 'disp': '', 'post2': []}]},
        {'k': 'note', 'pre': [], 'dur': {'num': '4', 'rat': None, 'dots': 1, 'grace': ''}, 'mid': [], 'pitch': 'c', 'post1': [], 'acc': '', 'disp': '', 'post2': []},
        {'k': 'note', 'pre': [], 'dur': {'num': '4', 'rat': None, 'dots': 0, 'grace': ''}, 'mid': [], 'pitch': 'c', 'post1': [], 'acc': 'n', 'disp': '', 'post2': []},
        {'k': 'note', 'pre': [], 'dur': {'num': '8', 'rat': None, 'dots': 0, 'grace': ''}, 'mid': [], 'pitch': 'ff', 'post1': [], 'acc': '#', 'disp': 'X', 'post2': ['J']},
        # the editorial signifier with its footnote mark (`y@`, `yy@`): the one signifier whose text contains a separator character - on a chord note
        # that is not the last, on the last, and on a single note
        {'k': 'chord', 'es': [{'k': 'note', 'pre': [], 'dur': {'num': '4', 'rat': None, 'dots': 0, 'grace': ''}, 'mid': [], 'pitch': 'c', 'post1': [], 'acc': '', 'disp': '', 'post2': ['yy@']},
                              {'k': 'note', 'pre': [], 'dur': {'num': '4', 'rat': None, 'dots': 0, 'grace': ''}, 'mid': [], 'pitch': 'e', 'post1': [], 'acc': '', 'disp': '', 'post2': []},
                              {'k': 'note', 'pre': [], 'dur': {'num': '4', 'rat': None, 'dots': 0, 'grace': ''}, 'mid': [], 'pitch': 'g', 'post1': [], 'acc': '', 'disp': '', 'post2': ['y@']}]},
        {'k': 'chord', 'es': [{'k': 'note', 'pre': [], 'dur': {'num': '4', 'rat': None, 'dots': 0, 'grace': ''}, 'mid': [], 'pitch': 'c', 'post1': [], 'acc': '', 'disp': '', 'post2': ['y@', 'L']},
                              {'k': 'note', 'pre': [], 'dur': {'num': '4', 'rat': None, 'dots': 0, 'grace': ''}, 'mid': [], 'pitch': 'e', 'post1': [], 'acc': '', 'disp': '', 'post2': []}]},
        {'k': 'note', 'pre': [], 'dur': {'num': '4', 'rat': None, 'dots': 0, 'grace': ''}, 'mid': [], 'pitch': 'c', 'post1': [], 'acc': '', 'disp': '', 'post2': ['yy@']},
    ] + cells
    r0 = ctx.driver.ask([{'op': 'abs.tokof', 'cell': c} for c in cells])
    toks = []
    for c, r in zip(cells, r0):
        t, o = tokobs.fresh_kern(r['text'])
        ctx.check({'clause': 'tokOf', 'cell': r['text']}, o, r['tok'], None, nontrivial=False, what='listener token differs from tokOf')
        if t is not None:
            toks.append((r['text'], t, o))
            # the same chord written without separating spaces (`chordSpace: SPACE?`): the same notes, so the same text in every encoding
            if c.get('k') == 'chord' and gen.glue_safe(c) and len(toks) % 2 == 0:
                t2, o2 = tokobs.fresh_kern(r['text'].replace(' ', ''))
                if t2 is not None:
                    toks.append((r['text'].replace(' ', ''), t2, o2))
    sels = selections(TC, rng, depth)
    clefs = [None, '*clefG2', '*clefF4', '*clefC3', '*clefGv2']
    reqs, metas = [], []
    for text, t, o in toks:
        sel = [sels[0], rng.choice(sels)]
        for inc, exc in sel:
            cats = TC.valid(include=inc, exclude=exc)
            ci = sorted(c.value - 1 for c in cats)
            clef = rng.choice(clefs)
            for e in ENCS:
                reqs.append({'op': 'tok.tokenize', 'enc': e, 'cats': ci, 'clef': clef, 'tok': o})
                metas.append((text, t, o, cats, ci, clef, e))
    resp = ctx.driver.ask(reqs)
    out = {}
    for (text, t, o, cats, ci, clef, e), r in zip(metas, resp):
        key = (text, tuple(ci), clef)
        clef_tok = ClefToken(clef) if clef else None
        impl = call(lambda: TokenizerFactory.create(e, token_categories=cats, last_clef_reference=clef_tok).tokenize(t))
        is_note = isinstance(t, (NoteRestToken, ChordToken))
        has_dec = is_note and any(len(n.decoration_subtokens) for n in (t.notes_tokens if isinstance(t, ChordToken) else [t]))
        ctx.count(f'{e}:{"note" if is_note else "other"}')
        ctx.check({'cell': text, 'encoding': e, 'categories': [c.name for c in sorted(cats)] if len(cats) < 37 else 'all', 'clef': clef},
                  impl, r['model'], None, nontrivial=has_dec, what='tokenisation differs from the model')
        out.setdefault(key, {})[e] = impl
        out[key]['_tok'] = t
        out[key]['_cats'] = cats
    # property clauses on the implementation
    for (text, ci, clef), d in out.items():
        t, cats = d['_tok'], d['_cats']
        inp = {'cell': text, 'categories': 'all' if len(ci) == 37 else list(ci), 'clef': clef}
        for plain, ext in (('kern', 'ekern'), ('bkern', 'bekern'), ('akern', 'aekern')):
            a, b = d.get(plain), d.get(ext)
            if a is None or b is None:
                continue
            exp = {'ok': strip(b['ok'])} if 'ok' in b else b
            if a != exp:
                ctx.fail({**inp, 'clause': f'{plain} = stripped {ext}'}, f'{plain} is not {ext} with the separators removed', impl=a, expected=exp)
        is_note = isinstance(t, (NoteRestToken, ChordToken))
        if is_note:
            notes = t.notes_tokens if isinstance(t, ChordToken) else [t]
            keeps = all(any(s.category in cats for s in n.pitch_duration_subtokens) for n in notes)
            if keeps and 'ok' in d.get('bekern', {}):
                t2 = copy.deepcopy(t)
                for n2 in (t2.notes_tokens if isinstance(t2, ChordToken) else [t2]):
                    n2.decoration_subtokens = []
                exp = call(lambda: TokenizerFactory.create('ekern', token_categories=cats).tokenize(t2))
                if d['bekern'] != exp:
                    ctx.fail({**inp, 'clause': 'bekern = ekern without decorations, note by note'},
                             'a basic encoding is not the full one with the signifiers removed note by note', impl=d['bekern'], expected=exp)
        else:
            vals = {e: d.get(e) for e in ENCS}
            if TS not in text and DS not in text and clef is not None:
                ref = {'ok': t.encoding}      # (a barline token's text is the cell without its measure number)
                if any(v != ref for v in vals.values()):
                    ctx.fail({**inp, 'clause': 'non-note cells identical'}, 'a non-note cell differs between encodings', impl=vals, expected=ref)
    # headers
    # (also types that themselves begin with an encoding prefix: `**ekern` is an unknown type like any other, its extended header is `**eekern`)
    for h in ['**kern', '**text', '**dynam', '**harm', '**mxhm', '**fing', '**root', '**dyn', '**ekern', '**bkern', '**bekern', '**akern', '**aekern', '**etext', '**bdyn', '**aetext', '**recip']:
        for e in Encoding.__members__.values():
            got = call(lambda: HeaderTokenGenerator.new(token=HeaderToken(h, 0), type=e).encoding)
            exp = {'ok': '**' + {'kern': '', 'ekern': 'e', 'bkern': 'b', 'bekern': 'be', 'akern': 'a', 'aekern': 'ae'}[e.value] + h[2:]}
            ctx.seen({'header': h, 'enc': e.value}, nontrivial=False)
            if got != exp:
                ctx.fail({'header': h, 'encoding': e.value, 'clause': 'header'}, 'header is not ** + prefix + type', impl=got, expected=exp)


    document_level(ctx, depth)


def document_level(ctx, depth):
    """whole documents: every encoding against the grid oracle and the model; plain = stripped extended on the exported texts"""
    import docrun
    import kernpy as kp
    from kernpy.core.tokens import TokenCategory as TC
    from kernpy.core.tokenizers import Encoding
    cases = docrun.make_cases(ctx, 12 if depth == 'quick' else 150)
    import gen as _gen
    cases += docrun.make_cases(ctx, 0, docs=[_gen.clef_echo_doc(ctx.rng) for _ in range(3 if depth == 'quick' else 30)])
    combos = []
    for enc in ENCS:
        combos.append({'enc': enc, 'include': None, 'exclude': None})
        combos.append({'enc': enc, 'include': None, 'exclude': [TC.DECORATION]})
        # selections that delete every pitch / duration part of a note but keep its signifiers: the basic encodings must then print no signifier
        combos.append({'enc': enc, 'include': None, 'exclude': [TC.PITCH, TC.ALTERATION]})
        combos.append({'enc': enc, 'include': None, 'exclude': [TC.DURATION, TC.REST, TC.PITCH, TC.ALTERATION]})
        combos.append({'enc': enc, 'include': [TC.DECORATION, TC.LYRICS, TC.CHORD, TC.STRUCTURAL, TC.BARLINES], 'exclude': None})
    docrun.run_option_sets(ctx, cases, combos, lambda case: [{}],
                           'a document exported in one of the six encodings is not the cell-wise view of the source grid in that encoding', 'document in six encodings')
    # spines whose type begins with an encoding prefix (`**ekern`, `**bdyn`, ...): unknown types like any other; listed in spine_types they are
    # exported with the header ** + prefix + type
    import gen
    pdocs = []
    for ptype in ('**ekern', '**bkern', '**aekern', '**bdyn', '**aetext', '**etext', '**bekern', '**akern'):
        d = gen.DocGen(ctx.rng, profile='free', max_measures=2, max_spines=2, unknown=True).make()
        j = next(i for i, h in enumerate(d['headers']) if h not in gen.HEADERS)
        d['headers'][j] = ptype
        for row in d['rows']:
            if row['kind'] == 'cells' and row['rk'] == 'header':
                row['cells'][j]['text'] = ptype
        pdocs.append(d)
    pcases = docrun.make_cases(ctx, 0, docs=pdocs)
    docrun.run_option_sets(ctx, pcases, [{'enc': e, 'include': None, 'exclude': None} for e in ENCS],
                           lambda case: [{'types': sorted(set(case.adoc['headers']))}, {'types': sorted(set(case.adoc['headers']) | {'**kern'})}],
                           'a spine whose type begins with an encoding prefix is not exported with the header ** + prefix + type', 'prefixed spine types')
    # one Exporter object serving several exports (spine-type query first, then the six encodings with two category selections, then again
    # without decorations): every result must be what a fresh exporter gives, and plain = stripped extended on those results
    from kernpy.core import Exporter, ExportOptions
    for case in cases:
        if case.doc is None:
            continue
        ex = Exporter()
        call(lambda: ex.get_spine_types(case.doc))
        seq = [(e, None) for e in ('ekern', 'kern', 'bekern', 'bkern', 'aekern', 'akern')] + [(e, [TC.DECORATION]) for e in ENCS] + [('kern', None), ('ekern', None)]
        res = {}
        for e, exc in seq:
            cats = set(TC.valid(include=None, exclude=exc))
            shared = call(lambda: ex.export_string(case.doc, ExportOptions(token_categories=cats, kern_type=Encoding(e))))
            fresh = call(lambda: Exporter().export_string(case.doc, ExportOptions(token_categories=set(cats), kern_type=Encoding(e))))
            ctx.seen({'text': case.text, 'clause': 'one exporter, several exports', 'enc': e, 'exclude': str(exc)}, True)
            if shared != fresh:
                ctx.fail({'text': case.text, 'clause': 'one exporter, several exports', 'sequence': [[a, str(b)] for a, b in seq], 'encoding': e, 'exclude': str(exc)},
                         'an Exporter object that has already served other exports gives a different text than a fresh one', impl=shared, expected=fresh)
                break
            res[(e, str(exc))] = shared
    # measure ranges x encodings: the recovered header line must carry the prefix too, cells stay consistent (tie with the model)
    exps = []
    for case in cases:
        M = len(case.doc.measure_start_tree_stages) if case.doc is not None else 0
        case.ranges = [(a, b) for a in range(1, M + 1) for b in (None, M) if b is None or a <= b][:4]
        exps.append([{'cats': docrun.ALLC, 'enc': e, 'from': a, 'to': b} for (a, b) in case.ranges for e in ENCS])
    mresp = docrun.model_exports(ctx, cases, exps)
    for case, mr in zip(cases, mresp):
        if case.doc is None or 'exports' not in mr:
            continue
        k = 0
        for (a, b) in case.ranges:
            outs = {}
            for e in ENCS:
                got = docrun.dumps_public(case, {'from': a, 'to': b, 'enc': e})
                ctx.check({'text': case.text, 'from_measure': a, 'to_measure': b, 'encoding': e, 'clause': 'tie: range export in an encoding'}, got, mr['exports'][k], None,
                          nontrivial=True, what='range export in this encoding differs from the model')
                outs[e] = got
                k += 1
                if 'ok' in got and got['ok']:
                    hdr = got['ok'].split('\n')[0].split('\t')
                    if not all(c.startswith('**' + docrun.PREFIX[e]) and c[2 + len(docrun.PREFIX[e]):] in ('kern', 'text', 'dynam', 'dyn', 'harm', 'mxhm', 'fing', 'root') for c in hdr):
                        ctx.fail({'text': case.text, 'from_measure': a, 'to_measure': b, 'encoding': e, 'clause': 'range export: headers'},
                                 'spine headers of a measure-range export are not ** + prefix + type', impl=hdr)
            for plain, ext in (('kern', 'ekern'), ('bkern', 'bekern'), ('akern', 'aekern')):
                pa, ex = outs.get(plain), outs.get(ext)
                if pa and ex and 'ok' in pa and 'ok' in ex:
                    exp = '\n'.join('\t'.join(('**' + docrun.PREFIX[plain] + c[2 + len(docrun.PREFIX[ext]):]) if c.startswith('**') else strip(c) for c in ln.split('\t'))
                                    for ln in ex['ok'].split('\n'))
                    if pa['ok'] != exp:
                        ctx.fail({'text': case.text, 'from_measure': a, 'to_measure': b, 'clause': f'range export: {plain} = stripped {ext}'},
                                 f'{plain} range export is not the {ext} one with the separators removed', impl=pa['ok'], expected=exp)
    for case in cases:
        if case.doc is None:
            continue
        for plain, ext in (('kern', 'ekern'), ('bkern', 'bekern'), ('akern', 'aekern')):
            a = call(lambda: kp.dumps(case.doc, encoding=Encoding(plain)))
            b = call(lambda: kp.dumps(case.doc, encoding=Encoding(ext)))
            ctx.seen({'text': case.text, 'clause': 'document: plain = stripped extended', 'pair': plain})
            if 'ok' in a and 'ok' in b:
                exp = '\n'.join('\t'.join(('**' + docrun.PREFIX[plain] + c[2 + len(docrun.PREFIX[ext]):]) if c.startswith('**') else strip(c) for c in ln.split('\t'))
                                for ln in b['ok'].split('\n'))
                if a['ok'] != exp:
                    ctx.fail({'text': case.text, 'clause': f'document: {plain} = stripped {ext}'}, f'{plain} export is not the {ext} export with the separators removed',
                             impl=a['ok'], expected=exp)
            elif a != b:
                ctx.fail({'text': case.text, 'clause': f'document: {plain} / {ext} errors'}, 'one encoding raises and its counterpart does not', impl=a, expected=b)
            # headers
            if 'ok' in b:
                hdr = b['ok'].split('\n')[0].split('\t')
                want = ['**' + docrun.PREFIX[ext] + h[2:] for h in case.adoc['headers'] if h in ('**kern', '**text', '**dynam', '**dyn', '**harm', '**mxhm', '**fing', '**root')]
                if hdr != want:
                    ctx.fail({'text': case.text, 'clause': 'document: headers'}, 'spine headers are not ** + prefix + type', impl=hdr, expected=want)


def replay(ctx, payload):
    explore(ctx, 'quick')


def reproduce(ctx, key, w):
    if key == 'F10-separators-stripped':
        import kernpy as kp
        d, _ = kp.loads(w['input']['text'])
        return kp.dumps(d) == w['impl']
    if key == 'F16-hidden-barline':
        import kernpy as kp
        d, _ = kp.loads(w['input']['text'])
        return kp.dumps(d) == w['impl']
    return False
