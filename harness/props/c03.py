"""C03 — Export conserves the score content cell for cell."""
from __future__ import annotations
from .util import call

ID = 'C03'
LEAN_MODULE = 'KernProofs.C03'
THEOREMS = []
FINGERPRINTS = ['tokens.NoteRestToken.export', 'tokens.ChordToken.export', 'tokens.SimpleToken.export', 'tokenizers.KernTokenizer.tokenize',
                'tokenizers.EkernTokenizer.tokenize', 'base_antlr_spine_parser_listener', 'exporter.Exporter.export_string',
                'exporter.Exporter.append_row', 'exporter.Exporter.export_token']
RULE = ''
ASSUMPTIONS = []


def token_level(ctx, depth, cells):
    """kern text of import_token(render a) against the abstract cell's own description"""
    import tokobs
    from kernpy.core.tokens import TokenCategory as TC
    from kernpy.core.tokenizers import TokenizerFactory
    resp = ctx.driver.ask([{'op': 'abs.expect', 'cell': c, 'clef': None} for c in cells])
    allc = set(TC)
    for c, r in zip(cells, resp):
        text = r['text']
        t, o = tokobs.fresh_kern(text)
        if t is None:
            ctx.fail({'cell': text, 'clause': 'parses'}, 'a cell of the supported grammar is rejected by the kern importer', impl=None, expected='token')
            continue
        impl = call(lambda: TokenizerFactory.create('kern', token_categories=allc).tokenize(t))
        ctx.count(c['k'])
        hidden_bar = c['k'] == 'bar' and c.get('hidden')
        ctx.check({'cell': text, 'clause': 'cell export'}, impl, None, r['kern'],
                  nontrivial=c['k'] in ('note', 'rest', 'chord'),
                  what='exported cell is not duration marks + pitch + accidental + sorted set of signifiers (or the verbatim cell)')


def explore(ctx, depth):
    import gen
    n = 600 if depth == 'quick' else 6000
    cells = gen.token_stream(ctx.rng, n)
    token_level(ctx, depth, cells)


def replay(ctx, payload):
    explore(ctx, 'quick')


def reproduce(ctx, key, w):
    return False
