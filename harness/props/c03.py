"""C03 — Export conserves the score content cell for cell."""
from __future__ import annotations
from .util import call

ID = 'C03'
LEAN_MODULE = 'KernProofs.C03'
EXTRA_MODULES = ['KernProofs.C03Chord', 'KernProofs.C03Doc']
THEOREMS = ['KM.C03.elemOut_eq', 'KM.C03.strip_noSep', 'KM.C03.strip_append', 'KM.C03.strip_joinSep_tok', 'KM.C03.strip_joinSep_dec', 'KM.C03.mem_addDecs', 'KM.C03.addDecs_acc_subset', 'KM.C03.mem_addDecs_of_mem', 'KM.C03.nodup_addDecs', 'KM.C03.sorted_decs', 'KM.C03.durSubs_flat', 'KM.C03.durSubs_ok', 'KM.C03.pdOf_sorted', 'KM.C03.pdOf_flat', 'KM.C03.allF_true', 'KM.C03.filter_allF', 'KM.C03.sigs_ok', 'KM.C03.pd_encs_ok', 'KM.C03.strip_withDec', 'KM.C03.pdOf_ne_nil', 'KM.C03.C03_element', 'KM.C03.C03_single', 'KM.C03.C03_other_verbatim', 'KM.C03.C03_barline', 'KM.C03.C03_grid', 'KM.strLe_trans', 'KM.strLe_antisymm', 'KM.decLe_antisymm', 'KM.Spec.strictSorted_ext',
            'KM.C03.zipNotes_chordWalk', 'KM.C03.strip_joinSpace', 'KM.C03.chordDurs_ok', 'KM.C03.C03_chord', 'KM.C03.C03_cell',
            'KM.C03D.cellBody_all', 'KM.C03D.appendRow_spec', 'KM.C03D.rowOfStage_spec', 'KM.C03D.bodyRows_spec', 'KM.C03D.export_of_skeleton_tokens',
            'KM.C03D.C03_export_of_text', 'KM.C03D.cellOfTok_tokOf']
FINGERPRINTS = ['tokens.NoteRestToken.export', 'tokens.ChordToken.export', 'tokens.SimpleToken.export', 'tokenizers.KernTokenizer.tokenize',
                'tokenizers.EkernTokenizer.tokenize', 'base_antlr_spine_parser_listener', 'exporter.Exporter.export_string',
                'exporter.Exporter.append_row', 'exporter.Exporter.export_token', 'importer.Importer']
RULE = ('generated abstract documents of C01\'s grammar (1-4 spines of all supported types, nested splits and joins, comments, every barline type, '
        'notes/rests/chords with any duration form and any subset/order/position/repetition of the 30 signifiers; quick 60 / thorough 800 documents) '
        'and generated single cells (quick 600 / thorough 6000): the default export of the real import is compared line by line and cell by cell with '
        'the expected text computed from the generator\'s own abstract description (an oracle independent of kernpy\'s parser), and with the model; '
        'non-trivial = document with >= 2 data rows and >= 1 note (cells: note/rest/chord); distinct = distinct document text')
ASSUMPTIONS = ['the abstract-cell oracle (Spec.cellOut / Spec.cellView) is the reading of "keeps duration marks, pitch letters, accidental and signifiers"']


def token_level(ctx, depth, cells):
    """kern text of import_token(render a) against the abstract cell's own description"""
    import tokobs
    from kernpy.core.tokens import TokenCategory as TC
    from kernpy.core.tokenizers import TokenizerFactory
    resp = ctx.driver.ask([{'op': 'abs.expect', 'cell': c, 'clef': None} for c in cells])
    allc = set(TC)
    for c, r in zip(cells, resp):
        text = r['text']
        t, o = tokobs.fresh_kern(text)
        if t is None:
            ctx.fail({'cell': text, 'clause': 'parses'}, 'a cell of the supported grammar is rejected by the kern importer', impl=None, expected='token')
            continue
        impl = call(lambda: TokenizerFactory.create('kern', token_categories=allc).tokenize(t))
        ctx.count('single:' + c['k'])
        ctx.check({'cell': text, 'clause': 'cell export'}, impl, None, r['kern'],
                  nontrivial=c['k'] in ('note', 'rest', 'chord'),
                  what='exported cell is not duration marks + pitch + accidental + sorted set of signifiers (or the verbatim cell)')


REST_EXT = ['/j', '\\j', ';', '(', ')', '{', '}', "'", '<', '>', 'q', 'qq', 'yy', 'y', 'X', '&(', '&)', '.', '(<']


def extended_signifiers(ctx, depth):
    """notes with signifiers of the FULL alphabet of the grammar (C01.EXT_SIGS: slurs with elision marks and staff changes, ties, hidden ties,
    editorial marks `y` / `yy`, trills, mordents, grace marks ...), one before the duration and one after the pitch, in a two-spine score:
    the exported cell is duration + pitch + the sorted set of the signifiers, in place, and the neighbouring cells are untouched.  Oracle
    written from the statement (all signifiers have the one category DECORATION, so "sorted" is code-point order); no model involved.
    `TT` (extended trill) is read as two `T` and printed as one: finding F21, attributed only when that is the whole difference."""
    import kernpy as kp
    from . import c01
    rng = ctx.rng
    sigs = c01.EXT_SIGS
    combos = [(a, None) for a in sigs] + [(None, a) for a in sigs]
    pairs = [(a, b) for a in sigs for b in sigs]
    combos += rng.sample(pairs, 400) if depth == 'quick' else pairs
    combos += [('yy', None), (None, 'yy'), ('yy', 'L'), ('y', 'yy'), ('TT', None), ('(', '&(')]
    combos = [(a, b, None) for a, b in combos]
    # rests: every alternative of `restDecoration` (slurs, grace marks, staff changes, fermata, editorial marks, staccato, phrase marks, dots and the
    # stem written on a rest, `/j` and `\\j` - round 6, C03_r6_1), singly and in pairs
    rsigs = REST_EXT
    combos += [(a, None, 'r') for a in rsigs] + [(None, a, 'r') for a in rsigs]
    rpairs = [(a, b) for a in rsigs for b in rsigs]
    combos += [(a, b, 'r') for a, b in (rng.sample(rpairs, 120) if depth == 'quick' else rpairs)]
    for a, b, isrest in combos:
        base = rng.choice(['4r', '2r', '8r']) if isrest else rng.choice(['4c', '8dd', '16GG', '2e'])
        cell = (a or '') + base + (b or '')
        other = rng.choice(['4C', '2r', '.', '8g#L'])
        text = '**kern\t**kern\n*clefG2\t*clefF4\n=1\t=1\n%s\t%s\n%s\t%s\n==\t==\n*-\t*-\n' % (cell, other, other, cell)
        def run():
            d, e = kp.loads(text)
            return [[x.encoding for x in e], kp.dumps(d)]
        r = call(run)
        ctx.seen({'cell': cell, 'clause': 'extended signifier alphabet'}, True)
        if 'ok' not in r:
            ctx.fail({'text': text, 'clause': 'extended signifier alphabet'}, 'import / export of a note with grammar signifiers raises', impl=r)
            continue
        errs, out = r['ok']
        if errs:
            ctx.count('ext_sig:parser-rejects')
            continue
        exp_cell = base + ''.join(sorted({x for x in (a, b) if x}))
        exp_other = {'8g#L': '8g#L'}.get(other, other)
        def grid(c):
            return '**kern\t**kern\n*clefG2\t*clefF4\n=\t=\n%s\t%s\n%s\t%s\n==\t==\n*-\t*-\n' % (c, exp_other, exp_other, c)
        exp = grid(exp_cell)
        if other == '.':
            pass
        ctx.count('ext_sig:checked')
        if out != exp:
            tt_only = 'TT' in (a, b) and out == grid(base + ''.join(sorted({('T' if x == 'TT' else x) for x in (a, b) if x})))
            ctx.fail({'text': text, 'cell': cell, 'clause': 'conservation (full signifier alphabet)'},
                     'exported cell is not duration marks + pitch + accidental + sorted set of signifiers (or the neighbouring cells changed)',
                     impl=out, expected=exp, core=not tt_only, finding='F21-extended-trill' if tt_only else None, tie_ok=True)


def explore(ctx, depth):
    import gen, docrun
    extended_signifiers(ctx, depth)
    n = 600 if depth == 'quick' else 6000
    token_level(ctx, depth, gen.token_stream(ctx.rng, n))
    cases = docrun.make_cases(ctx, 60 if depth == 'quick' else 800)
    for case in cases:
        if case.doc is None:
            ctx.fail({'text': case.text, 'clause': 'import'}, 'a well-formed document does not import', impl=case.import_result)
        elif case.errors:
            ctx.fail({'text': case.text, 'clause': 'import errors'}, 'a well-formed document imports with errors',
                     impl=[[e.line, e.encoding] for e in case.errors])
    docrun.run_option_sets(ctx, cases, [{'enc': None, 'include': None, 'exclude': None}], lambda case: [{}],
                           'default export is not the source grid minus comment lines and all-null lines, cell for cell', 'default export')

    # texts outside the generator's grammar (`*+` with a `**` cell below the first line, blank lines, `**` cells inside a spine): no grid oracle;
    # the real export against the model and against the Lean specification of dumps(loads(text)) (C03_export_of_text quantifies over every text)
    rcases = [c for c in docrun.raw_cases(ctx, [c.adoc for c in cases[:8 if depth == 'quick' else 80]]) if c.doc is not None]
    docrun.run_option_sets(ctx, rcases, [{'enc': None, 'include': None, 'exclude': None}], lambda case: [{}],
                           'default export of a text outside the generator\'s grammar is not what the model / the text specification says', 'raw text: default export',
                           spec=False, nontriv=lambda *a: True)


    frontier(ctx, depth)


def frontier(ctx, depth):
    """hidden barlines (=1-): the exporter prints a null cell instead of the barline (finding F16); separator characters inside free text (F10)"""
    import docrun, impl
    import kernpy as kp
    for text, expected, key in (
            ('**kern\t**kern\n*clefG2\t*clefF4\n=1-\t=1-\n4c\t4C\n=2\t=2\n*-\t*-\n', '**kern\t**kern\n*clefG2\t*clefF4\n=-\t=-\n4c\t4C\n=\t=\n*-\t*-\n', 'F16-hidden-barline'),
            ('**kern\t**text\n*clefG2\t*\n4c\tcol·legi\n4d\ta@b\n*-\t*-\n', '**kern\t**text\n*clefG2\t*\n4c\tcol·legi\n4d\ta@b\n*-\t*-\n', 'F10-separators-stripped')):
        got = call(lambda: kp.dumps(kp.loads(text)[0]))
        m = ctx.driver.ask([{'op': 'doc.run', 'text': text, 'oracle': impl.oracle_for_text(text), 'exports': [{'cats': docrun.ALLC, 'enc': 'kern'}], 'tree': False}])[0]
        model = m['exports'][0] if 'exports' in m else m['import']
        ctx.check({'text': text, 'clause': 'frontier'}, got, model, {'ok': expected}, core=False, finding=key, nontrivial=True,
                  what='a barline does not keep its type / free text is not reproduced verbatim')


    file_entry(ctx)


def file_entry(ctx):
    """the file entry point: a score read with load() keeps free-text cells verbatim, also characters that str.splitlines() would treat as line
    boundaries (VT, FF, FS, GS, RS, NEL, U+2028, U+2029) - in a file the lines end where the file's own line ends are"""
    import tempfile, os
    import kernpy as kp
    with tempfile.TemporaryDirectory(prefix='kernverif_c03_') as td:
        for k, ch in enumerate(['\x0b', '\x0c', '\x1c', '\x1d', '\x1e', '\x85', '\u2028', '\u2029']):
            for eol in ('\n', '\r\n'):
                rows = [['**kern', '**text'], ['*clefG2', '*'], ['4c', 'a' + ch + 'b'], ['4d', 'end' + ch], ['4e', '!x' + ch + 'y'], ['*-', '*-']]
                text = eol.join('\t'.join(r) for r in rows) + eol
                path = os.path.join(td, 'f%d_%d.krn' % (k, len(eol)))
                with open(path, 'w', encoding='utf-8', newline='') as f:
                    f.write(text)
                got = call(lambda: kp.dumps(kp.load(path)[0]))
                want = {'ok': ''.join('\t'.join(r) + '\n' for r in rows)}
                ctx.seen({'clause': 'file entry point', 'char': repr(ch), 'eol': repr(eol)}, True)
                if got != want:
                    ctx.fail({'clause': 'file entry point: free text verbatim', 'file_text': text, 'char': repr(ch)},
                             'a score read from a file is not exported cell for cell (a character inside a cell was taken for a line boundary or dropped)',
                             impl=got, expected=want['ok'])


def replay(ctx, payload):
    explore(ctx, 'quick')


def reproduce(ctx, key, w):
    if key == 'F10-separators-stripped':
        import kernpy as kp
        d, _ = kp.loads(w['input']['text'])
        return kp.dumps(d) == w['impl']
    if key == 'F16-hidden-barline':
        import kernpy as kp
        d, _ = kp.loads(w['input']['text'])
        return kp.dumps(d) == w['impl']
    if key == 'F21-extended-trill':
        import kernpy as kp
        d, _ = kp.loads(w['input']['text'])
        return kp.dumps(d) == w['impl']
    return False
