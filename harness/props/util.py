"""helpers shared by the property modules"""
from __future__ import annotations

LETTERS = 'CDEFGAB'


def call(fn):
    try:
        return {'ok': fn()}
    except ValueError:
        return {'err': 'ValueError'}
    except KeyError:
        return {'err': 'KeyError'}
    except Exception:  # noqa
        return {'err': 'Exception'}


def spell(l: int, a: int, o: int) -> str:
    """independent Python spelling of (letter index, alteration, octave)"""
    L = LETTERS[l]
    body = L.lower() * (o - 3) if o >= 4 else L * (4 - o)
    return body + ('#' * a if a >= 0 else '-' * (-a))


def agn_name(l: int, a: int) -> str:
    return LETTERS[l] + ('+' * a if a >= 0 else '-' * (-a))
