"""C05 — Category filtering removes exactly the unselected material."""
from __future__ import annotations
import random
from .util import call

ID = 'C05'
LEAN_MODULE = 'KernProofs.C05'
THEOREMS = ['KM.C05.C05_decorations', 'KM.C05.C05_pitch_duration', 'KM.C05.C05_note_text', 'KM.C05.C05_listener_tokens_ordered', 'KM.C05.C05_placeholder', 'KM.C05.C05_placeholder_text', 'KM.C05.C05_selected', 'KM.C05.C05_identity', 'KM.C05.C05_selected_set', 'KM.C05.C05_null_rows_dropped', 'KM.mergeSort_decLe_filter', 'KM.mergeSort_pdLe_filter']
FINGERPRINTS = ['exporter.Exporter.export_string', 'exporter.Exporter.append_row', 'exporter.Exporter._retrieve_empty_token',
                'tokens.NoteRestToken.export', 'tokens.ChordToken.export', 'generic.Generic', 'tokens.TokenCategoryHierarchyMapper.valid']
RULE = ('a fixed set of generated documents (3 quick / 8 thorough, seed-independent) x EVERY single category as include, as exclude, and EVERY '
        '(include, exclude) pair of single categories (37^2 + 2*37 combinations, de-duplicated by the selected set), plus random documents '
        '(quick 15 / thorough 150) x random larger include/exclude sets, in the kern and ekern encodings; export compared with the unfiltered '
        'structured export in which unselected sub-parts of notes/rests are deleted and other unselected tokens become placeholders (oracle from '
        'the abstract document) and with the model; non-trivial = the selected set is neither everything nor nothing; distinct = (document, selected set, encoding)')
ASSUMPTIONS = ['the selected set itself is C11\'s subject; here it is taken from TokenCategory.valid']


def echo_doc():
    """the same cell texts under different categories in one document: 'G', 'r', '4c', 'e' as notes / rests of **root and **kern spines and as
    chord label, syllable and fingering of **harm, **text and **fing spines (in every row the same text in all columns, and shifted)"""
    import gen
    hs = ['**root', '**harm', '**kern', '**text', '**fing']
    def note(p, dur=None):
        return {'k': 'note', 'pre': [], 'dur': ({'num': dur, 'rat': None, 'dots': 0, 'grace': ''} if dur else None), 'mid': [], 'pitch': p, 'post1': [], 'acc': '', 'disp': '', 'post2': []}
    def rest(dur=None):
        return {'k': 'rest', 'pre': [], 'dur': ({'num': dur, 'rat': None, 'dots': 0, 'grace': ''} if dur else None), 'rr': 'r', 'post': []}
    kinds = {'**harm': 'harmony', '**text': 'lyrics', '**fing': 'fingering'}
    def row(texts):
        cells = []
        for h, t in zip(hs, texts):
            if h in ('**root', '**kern'):
                if t == 'r':
                    cells.append(rest())
                elif t[0].isdigit():
                    cells.append(rest(t[0]) if t[1:] == 'r' else note(t[1:], t[0]))
                else:
                    cells.append(note(t))
            else:
                cells.append({'k': 'other', 'kind': kinds[h], 'text': t})
        return {'kind': 'cells', 'rk': 'data', 'cells': cells, 'live': list(range(len(hs)))}
    live = list(range(len(hs)))
    rows = [{'kind': 'cells', 'rk': 'header', 'cells': [{'k': 'header', 'text': h} for h in hs], 'live': live},
            {'kind': 'cells', 'rk': 'interp', 'cells': [{'k': 'other', 'kind': 'clef', 'text': '*clefG2'} if h in ('**root', '**kern') else {'k': 'other', 'kind': 'empty', 'text': '*'} for h in hs], 'live': live},
            {'kind': 'cells', 'rk': 'bar', 'cells': [{'k': 'bar', 'double': False, 'number': '1', 'hidden': False, 'type': '', 'fermata': False, 'tail': ''} for _ in hs], 'live': live}]
    for texts in (['G', 'G', 'G', 'G', 'G'], ['r', 'r', 'r', 'r', 'r'], ['e', 'G', '4c', 'e', '4c'], ['4c', 'e', 'e', '4c', 'r'], ['C', 'r', '2r', 'C', '2r'], ['2r', 'C', 'C', 'r', 'e']):
        rows.append(row(texts))
    rows.append({'kind': 'cells', 'rk': 'term', 'cells': [gen.op_cell('*-') for _ in hs], 'live': live})
    return {'headers': hs, 'rows': rows, 'profile': 'echo'}


def mixed_interp_doc():
    """interpretation lines that hold signatures of DIFFERENT kinds side by side (a clef change in one spine on the line of a key change in
    another, a meter next to a null interpretation ...): which placeholder a filtered-out cell leaves (`*` for a signature) is decided cell
    by cell (added after seeded change C05_r5_1)"""
    import gen
    rng = random.Random(5051)
    cg = gen.CellGen(rng, sig_weight=0.2)
    hs = ['**kern', '**kern', '**kern', '**text']
    live = list(range(len(hs)))
    rows = [{'kind': 'cells', 'rk': 'header', 'cells': [{'k': 'header', 'text': h} for h in hs], 'live': live}]

    def interp(whats):
        rows.append({'kind': 'cells', 'rk': 'interp', 'live': live,
                     'cells': [cg.interp_cell(h, w) if w != 'null' else dict(gen.NULL_I) for h, w in zip(hs, whats)]})

    def data():
        rows.append({'kind': 'cells', 'rk': 'data', 'live': live, 'cells': [cg.data_cell(h) for h in hs]})

    def bar(n):
        b = cg.bar(n)
        rows.append({'kind': 'cells', 'rk': 'bar', 'live': live, 'cells': [dict(b) for _ in hs]})
    interp(['clef', 'clef', 'clef', 'null'])
    interp(['keysig', 'timesig', 'clef', 'null'])
    interp(['meter', 'keysig', 'timesig', 'null'])
    bar(1); data(); data()
    interp(['clef', 'null', 'keysig', 'null'])
    interp(['timesig', 'meter', 'null', 'null'])
    interp(['key', 'clef', 'staff', 'null'])
    data(); bar(2)
    interp(['null', 'keysig', 'clef', 'null'])
    data()
    # syllables written with dots only: text, not null tokens, also when they are all that a filter leaves of their line (round 6, C05_r6_1 / C13_r6_1)
    drows = [r for r in rows if r['rk'] == 'data']
    for r, t in zip(drows, ['...', '..', 'la']):
        r['cells'][3] = {'k': 'other', 'kind': 'lyrics', 'text': t}
    rows.append({'kind': 'cells', 'rk': 'term', 'cells': [gen.op_cell('*-') for _ in hs], 'live': live})
    return {'headers': hs, 'rows': rows, 'profile': 'mixed-interp'}


def explore(ctx, depth):
    import docrun, gen
    from kernpy.core.tokens import TokenCategory as TC
    cats = list(TC)
    # fixed document set
    save = ctx.rng
    ctx.rng = random.Random(20260926)
    fixed = docrun.make_cases(ctx, 3 if depth == 'quick' else 8, max_measures=3)
    fixed += docrun.make_cases(ctx, 0, docs=[echo_doc(), mixed_interp_doc()])
    ctx.rng = save
    docrun.reuse_objects(ctx, fixed, steps=36, ranges=False)
    combos, seen = [], set()

    def add(inc, exc, enc):
        v = tuple(docrun.valid_idx(inc, exc))
        # de-duplicate by the selected set of the specification AND by what the implementation's own `valid` makes of the pair:
        # a pair on which the two differ is always exported
        try:
            vi = tuple(sorted(c.value - 1 for c in TC.valid(include=inc, exclude=exc)))
        except Exception:  # noqa
            vi = ('raises',)
        if (v, vi, enc) in seen:
            return
        seen.add((v, vi, enc))
        combos.append({'enc': enc, 'include': inc, 'exclude': exc})
    docrun.prefetch_valid([([a], None) for a in cats] + [(None, [a]) for a in cats] + [([a], [b]) for a in cats for b in cats])
    for a in cats:
        add([a], None, 'ekern')
        add(None, [a], 'ekern')
    for a in cats:
        for b in cats:
            add([a], [b], 'ekern')
    add(None, None, 'ekern')
    add(list(cats), [], 'ekern')
    for a in (TC.CORE, TC.NOTE_REST, TC.DURATION, TC.DECORATION, TC.SIGNATURES, TC.BARLINES):
        add([a], None, None)
        add(None, [a], None)
    # the sub-parts of notes under every encoding (the agnostic ones rebuild the pitch from its parts), singly and in pairs
    parts = [TC.DURATION, TC.PITCH, TC.ALTERATION, TC.DECORATION, TC.REST]
    for enc in ('kern', 'bkern', 'bekern', 'akern', 'aekern'):
        for a in parts:
            add(None, [a], enc)
        for a in parts:
            for b in parts:
                if a.value < b.value:
                    add(None, [a, b], enc)
        add([TC.PITCH, TC.DURATION, TC.CHORD, TC.SIGNATURES, TC.STRUCTURAL], None, enc)
        add([TC.NOTE_REST, TC.SIGNATURES, TC.STRUCTURAL, TC.BARLINES], [TC.ALTERATION], enc)
    # an include that is given but empty selects nothing (it is not "no include"): every kind of empty collection, alone and with an exclude
    for empty in ([], set(), ()):
        combos.append({'enc': 'ekern', 'include': empty, 'exclude': None})
        combos.append({'enc': None, 'include': empty, 'exclude': [TC.DECORATION]})
    nt = lambda case, combo, s: 0 < len(docrun.valid_idx(combo.get('include'), combo.get('exclude'))) < 37
    what = ('filtered export is not the unfiltered export with unselected sub-parts deleted, other unselected tokens replaced by placeholders '
            'and all-placeholder lines dropped')
    docrun.run_option_sets(ctx, fixed, combos, lambda case: [{}], what, 'category filter (fixed documents, exhaustive singles/pairs)', nontriv=nt)
    ctx.count('distinct_selected_sets', len(combos))
    # random documents x random larger sets
    rnd = docrun.make_cases(ctx, 15 if depth == 'quick' else 150)
    rc = []
    for _ in range(6 if depth == 'quick' else 20):
        inc = ctx.rng.sample(cats, ctx.rng.randint(1, 8)) if ctx.rng.random() < 0.8 else None
        exc = ctx.rng.sample(cats, ctx.rng.randint(0, 5)) if ctx.rng.random() < 0.8 else None
        rc.append({'enc': ctx.rng.choice(['ekern', None, 'ekern']), 'include': inc, 'exclude': exc})
    docrun.run_option_sets(ctx, rnd, rc, lambda case: [{}], what, 'category filter (random documents, larger sets)', nontriv=nt)
    # identity clauses on the implementation
    import kernpy as kp
    for case in fixed + rnd:
        if case.doc is None:
            continue
        base = call(lambda: kp.dumps(case.doc))
        for kw in ({'include': set(cats)}, {'exclude': set()}, {'include': list(cats), 'exclude': []}, {'include': None, 'exclude': None}):
            got = call(lambda: kp.dumps(case.doc, **kw))
            ctx.seen({'text': case.text, 'identity': str(sorted(kw))}, nontrivial=False)
            if got != base:
                ctx.fail({'text': case.text, 'options': {k: 'all' if v else v for k, v in kw.items()}, 'clause': 'identity'},
                         'include=all / exclude=nothing is not the identity', impl=got, expected=base)


    # the objects a caller passes as include / exclude (and the library's own category sets) are not consumed: the same set object used for a
    # second export gives what a fresh equal set gives
    for case in (fixed + rnd)[:8 if depth == 'quick' else 40]:
        if case.doc is None:
            continue
        for inc0, exc1 in ((set(kp.BEKERN_CATEGORIES), {TC.BARLINES}), ({TC.DURATION, TC.PITCH, TC.ALTERATION, TC.DECORATION, TC.REST, TC.CHORD, TC.LYRICS, TC.STRUCTURAL}, {TC.DECORATION}),
                           (None, {TC.CORE})):
            for shared in ((kp.BEKERN_CATEGORIES if inc0 == set(kp.BEKERN_CATEGORIES) else inc0), ):
                before = None if shared is None else set(shared)
                first = call(lambda: kp.dumps(case.doc, include=shared, exclude=exc1))
                second = call(lambda: kp.dumps(case.doc, include=shared))
                fresh = call(lambda: kp.dumps(case.doc, include=None if before is None else set(before)))
                ctx.seen({'text': case.text, 'clause': 'argument objects are not consumed', 'include': str(inc0)[:60]}, True)
                if second != fresh or (before is not None and set(shared) != before):
                    ctx.fail({'text': case.text, 'clause': 'argument objects are not consumed', 'include': sorted(c.name for c in before) if before else None,
                              'first_call_exclude': sorted(c.name for c in exc1)},
                             'a second export with the same include object differs from an export with a fresh equal set (or the object was changed)',
                             impl={'second': second, 'object_now': sorted(c.name for c in shared) if shared is not None else None},
                             expected={'second': fresh, 'object_now': sorted(c.name for c in before) if before else None})


def replay(ctx, payload):
    explore(ctx, 'quick')


def reproduce(ctx, key, w):
    return False
