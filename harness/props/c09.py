"""C09 — Transposition is exact interval arithmetic."""
from __future__ import annotations
from .util import call, spell, agn_name, LETTERS

ID = 'C09'
LEAN_MODULE = 'KernProofs.C09'
THEOREMS = ['KM.C09.chroma_table', 'KM.C09.chroma_table_size', 'KM.C09.interval_table', 'KM.C09.core_all',
            'KM.C09.C09_exact', 'KM.C09.C09_compose', 'KM.C09.C09_unison', 'KM.C09.C09_inverse', 'KM.C09.C09_octave',
            'KM.C09.named_values', 'KM.C09.C09_fourth_fifth', 'KM.C09.C09_failure', 'KM.C09.names_canonical',
            'KM.C09.C09_inverse_spelling', 'KM.chromas_ok', 'KM.byValue_ok', 'KM.toTransposedDelta_shift', 'KM.transposeSpec_shift']
FINGERPRINTS = ['pitch_models.AgnosticPitch', 'pitch_models.AgnosticPitch.get_chroma', 'pitch_models.AgnosticPitch.to_transposed',
                'pitch_models.HumdrumPitchImporter._parse_pitch', 'pitch_models.HumdrumPitchExporter.export_pitch',
                'transposer.transpose', 'transposer.transpose_agnostics']
RULE = ('exhaustive in both tiers: 7 letters x 5 alterations x octaves 0..8 x the 40 named intervals x 2 directions = 25 200 string-level '
        'calls of kernpy.transpose against the independent letter/semitone specification, plus on the same grid the inverse law, unison, '
        'octave and fourth-then-fifth; thorough adds octaves -4..13 and random octaves in +-80; non-trivial = interval other than P1 '
        'or alteration != 0; distinct = distinct (spelling, interval, direction)')
ASSUMPTIONS = ['ASCII input only (see C16)']


def explore(ctx, depth):
    import kernpy
    from kernpy.core import transposer as TR
    ivs = ctx.driver.ask([{'op': 'c09.intervals'}])[0]
    live = [(v, k) for v, k in TR.Intervals.items()]
    if [(d['value'], d['name']) for d in ivs] != live:
        ctx.check({'clause': 'interval table'}, live, [(d['value'], d['name']) for d in ivs], None, what='Intervals table differs from the generated one')
    byname = dict(TR.IntervalsByName)
    octs = list(range(0, 9))
    if depth == 'thorough':
        octs = list(range(-4, 14)) + sorted({ctx.rng.randint(-80, 80) for _ in range(12)})
    cases = [(l, a, o, v, n, d) for l in range(7) for a in range(-2, 3) for o in octs for (v, n) in live for d in ('up', 'down')]
    resp = ctx.driver.ask([{'op': 'c09.case', 'l': l, 'a': a, 'o': o, 'iv': v, 'ivname': n, 'dir': d} for l, a, o, v, n, d in cases])
    tr = kernpy.transpose
    unspellable = 0
    for (l, a, o, v, n, d), r in zip(cases, resp):
        s = spell(l, a, o)
        inp = {'pitch': s, 'interval': n, 'direction': d}
        nontrivial = (n != 'P1') or a != 0
        r1 = call(lambda: tr(s, v, direction=d))
        if r['spec'] is None:
            unspellable += 1
        ctx.check(inp, r1, r['model'], r['spec'], nontrivial=nontrivial,
                  what='transposed pitch is not letter+diatonic size / sounding pitch+semitone size')
        if 'ok' in r1:
            back = call(lambda: tr(r1['ok'], v, direction=('down' if d == 'up' else 'up')))
            if back != {'ok': s}:
                ctx.fail({**inp, 'clause': 'inverse'}, 'transposing back does not return the original spelling', impl=back, expected={'ok': s})
            if n == 'P1' and r1['ok'] != s:
                ctx.fail({**inp, 'clause': 'unison'}, 'unison is not the identity', impl=r1, expected={'ok': s})
            if n == 'octave':
                exp = spell(l, a, o + (1 if d == 'up' else -1))
                if r1['ok'] != exp:
                    ctx.fail({**inp, 'clause': 'octave'}, 'an octave does not keep the name', impl=r1, expected={'ok': exp})
            if n == 'P4':
                r2 = call(lambda: tr(r1['ok'], byname['P5'], direction=d))
                exp = call(lambda: tr(s, byname['octave'], direction=d))
                if r2 != exp:
                    ctx.fail({**inp, 'clause': 'P4 then P5'}, 'a fourth followed by a fifth is not an octave', impl=r2, expected=exp)
    # ---- calling conventions and the other notation: the same grid points through positional arguments in the documented order
    # (pitch, interval, input_format, output_format, direction), and with the pitch written in American notation (letter, '#', octave number;
    # octave 0 included) - the arithmetic is on the pitch, not on how it is written or how the call is spelled
    def kern_to_american(k):
        body = k.rstrip('#-')
        acc = k[len(body):]
        o = 3 + len(body) if body[0].islower() else 4 - len(body)
        if len(acc) > 1:
            return None            # the American writer's double accidentals are C16's business
        return body[0].upper() + {'': '', '#': '#', '-': 'b'}[acc] + str(o)
    conv = 0
    for k, ((l, a, o, v, n, d), r) in enumerate(zip(cases, resp)):
        if r['spec'] is None or 'ok' not in r['spec'] or k % 5 != (l + o) % 5:
            continue
        s = spell(l, a, o)
        inp = {'pitch': s, 'interval': n, 'direction': d}
        conv += 1
        got = call(lambda: tr(s, v, 'kern', 'kern', d))
        ctx.seen({**inp, 'clause': 'positional call'}, n != 'P1')
        if got != r['spec']:
            ctx.fail({**inp, 'clause': 'positional call transpose(pitch, interval, input_format, output_format, direction)'},
                     'a call with positional arguments in the documented order is not the transposition', impl=got, expected=r['spec'])
        if a in (0, 1) and 0 <= o <= 9:
            am = LETTERS[l].upper() + ('#' if a == 1 else '') + str(o)
            got = call(lambda: tr(am, v, input_format='american', output_format='kern', direction=d))
            ctx.seen({**inp, 'clause': 'American notation in', 'american': am}, True)
            if got != r['spec']:
                ctx.fail({**inp, 'clause': 'American notation in', 'american': am}, 'the same pitch written in American notation transposes differently',
                         impl=got, expected=r['spec'])
            exp_am = kern_to_american(r['spec']['ok'])
            if exp_am is not None:
                got = call(lambda: tr(am, v, 'american', 'american', d))
                if got != {'ok': exp_am}:
                    ctx.fail({**inp, 'clause': 'American notation in and out', 'american': am}, 'the transposed pitch written in American notation is not the transposed pitch',
                             impl=got, expected={'ok': exp_am})
    ctx.count('calling_convention_cases', conv)
    ctx.count('cases', len(cases))
    ctx.count('spec_unspellable_with_two_accidentals', unspellable)
    # ---- pitch OBJECTS that are reused: one AgnosticPitch swept through octaves / names with the public setters and transposed after each edit;
    # direction strings built at run time (equal to 'up' / 'down' but not the interned literal)
    from kernpy.core.pitch_models import AgnosticPitch, HumdrumPitchExporter
    up_rt, down_rt = ''.join(['u', 'p']), 'DOWN'.lower()
    obj_cases = []
    for l in range(7):
        for a in (-1, 0, 1):
            p = AgnosticPitch(agn_name(l, a), 4)
            for o in (2, 5, 3, 6, 4):
                for (v, n) in live[::3]:
                    for d, drt in (('up', up_rt), ('down', down_rt)):
                        def run():
                            p.octave = o
                            p.get_chroma()
                            q = AgnosticPitch.to_transposed(p, v, drt)
                            return HumdrumPitchExporter().export_pitch(q)
                        obj_cases.append((l, a, o, v, n, d, call(run)))
    resp = ctx.driver.ask([{'op': 'c09.case', 'l': l, 'a': a, 'o': o, 'iv': v, 'ivname': n, 'dir': d} for l, a, o, v, n, d, _ in obj_cases])
    for (l, a, o, v, n, d, got), r in zip(obj_cases, resp):
        if r['spec'] is None:
            continue
        ctx.seen({'clause': 'reused pitch object', 'pitch': spell(l, a, o), 'interval': n, 'direction': d}, True)
        if got != r['spec']:
            ctx.fail({'clause': 'reused pitch object (octave reassigned, run-time direction string)', 'pitch': spell(l, a, o), 'interval': n, 'direction': d},
                     'transposing a pitch object whose octave was reassigned (or with a direction string built at run time) is not the transposition of its current value',
                     impl=got, expected=r['spec'])
    ctx.count('reused_object_cases', len(obj_cases))
    # arbitrary ASCII for the error classes (tie only)
    rng = ctx.rng
    alphabet = 'abcdefgABCDEFG#-+n1 x'
    strs = [(''.join(rng.choice(alphabet) for _ in range(rng.randint(0, 5))), rng.choice(live)[0], rng.choice(['up', 'down', 'sideways']))
            for _ in range(300 if depth == 'quick' else 3000)]
    resp = ctx.driver.ask([{'op': 'c09.transpose', 'enc': s, 'iv': v, 'dir': d} for s, v, d in strs])
    for (s, v, d), r in zip(strs, resp):
        ctx.check({'clause': 'arbitrary', 'pitch': s, 'interval_value': v, 'direction': d}, call(lambda: tr(s, v, direction=d)), r['model'], None,
                  nontrivial=False, what='transpose of arbitrary text')
    ctx.exhaustive = True
    # pitch objects handed out by the importers are the caller's: editing them must not change what the same spellings mean afterwards
    # (round 6, C09_r6_2: `import_pitch` memoised per spelling and returned the cached object)
    from kernpy.core.pitch_models import HumdrumPitchImporter, AmericanPitchImporter
    sample = [(s, n, d) for s in ('c', 'BB-', 'ee#', 'CC--', 'g') for n in ('m2', 'P5', 'A4', 'd2', 'octave') for d in ('up', 'down')]
    def outcomes():
        return [call(lambda: tr(s, byname[n], direction=d)) for (s, n, d) in sample]
    before = outcomes()
    def edit():
        for imp in (HumdrumPitchImporter(), HumdrumPitchImporter()):
            for s in ('c', 'BB-', 'ee#', 'CC--', 'g', 'd'):
                p = imp.import_pitch(s)
                p.octave = p.octave + 1
                p.name = 'B'
        ai = AmericanPitchImporter()
        for s in ('C4', 'B-2', 'E#5'):
            p = ai.import_pitch(s)
            p.octave = p.octave + 2
        return True
    call(edit)
    after = outcomes()
    ctx.seen({'clause': 'imported pitch objects edited by the caller'}, True)
    if after != before:
        k = next(i for i, (x, y) in enumerate(zip(before, after)) if x != y)
        ctx.fail({'clause': 'the same transpositions after the caller edited pitch objects it had imported', 'pitch': sample[k][0], 'interval': sample[k][1],
                  'direction': sample[k][2]},
                 'a transposition gives another result after the caller edited pitch objects handed out by the importers', impl=after[k], expected=before[k])


def replay(ctx, payload):
    explore(ctx, 'quick')


def reproduce(ctx, key, w):
    return False
