"""C02 — Import builds a spine tree that mirrors the text cell for cell."""
from __future__ import annotations
import itertools
from .util import call

ID = 'C02'
LEAN_MODULE = 'KernProofs.C02'
EXTRA_MODULES = ['KernProofs.C02Tree', 'KernProofs.C02Tok', 'KernProofs.C02Surplus']
THEOREMS = ['KM.C02.C02_one_stage_per_line', 'KM.C02.C02_measure_index_ok', 'KM.C02.splitLinesAux_line', 'KM.C02.line_boundary_free', 'KM.C02.splitRow_renderLine', 'KM.C02.C02_reader_literal', 'KM.C02.C02_surplus_data', 'KM.C02.C02_surplus_operator', 'KM.C02.C02_surplus_comment', 'KM.C02.cellsLoop_error', 'KM.C02.C02_surplus_row_rejected', 'KM.C02.C02_row_error_propagates', 'KM.C02.C02_data_cell_node', 'KM.C02.C02_split_and_end', 'KM.rowStep_shape', 'KM.runRows_startsOk', 'KM.runRows_stageCount', 'KM.cellStep_frame', 'KM.cellStep_length', 'KM.addNode_length',
            'KM.C02T.C02_tree', 'KM.C02T.C02_tree_text', 'KM.C02T.C02_import_succeeds', 'KM.C02T.C02_tree_exists', 'KM.C02T.cellStep_body', 'KM.C02T.cellStep_header',
            'KM.C02T.emitM_eq', 'KM.C02T.cellStep_track', 'KM.C02T.cellStep_ok', 'KM.C02T.cellsLoop_track', 'KM.C02T.cellsLoop_ok', 'KM.C02T.rowStep_track',
            'KM.C02T.rowStep_ok', 'KM.C02T.runRows_track', 'KM.C02T.runRows_ok', 'KM.C02T.step_cells',
            'KM.C02K.cellStep_tok', 'KM.C02K.modelHdrEnc_eq', 'KM.C02K.cellsLoop_tok', 'KM.C02K.lookup_hdr_row', 'KM.C02K.rowStep_tok', 'KM.C02K.runRows_tok', 'KM.C02K.C02_tokens',
            'KM.C02S.surplus_cell_fails', 'KM.C02S.surplus_row_fails', 'KM.C02S.C02_surplus_text']
FINGERPRINTS = ['importer.Importer', 'document.Node', 'document.MultistageTree', 'document.SignatureNodes', 'tokens.HeaderToken.export']
RULE = ('(a) EVERY spine-operator layout with <= 2 initial spines, <= 4 live paths and <= 2 (quick) / 3 (thorough) operator rows, each column of each '
        'operator row being one of * *^ *v *-, filled with distinguishable data cells; (a2) EVERY pattern of *v / * on one line over one spine split into 3..6 sub-spines (and next to a second spine of the same type); (b) generated documents of the full grammar (quick 40 / '
        'thorough 400); (c) cells with quotes, commas, spaces, non-ASCII; (d) lines with one surplus cell of each kind (data token, spine operator, '
        'field comment) in every position: the imported tree (stages, nodes per stage, parent links, header node, spine id, cell text) is compared '
        'with the Lean spine-path tracker (the specification of theorem C02_tree, run on the text by the driver), with a reference tracker run on the source grid and with the model; surplus cells must raise; non-trivial = layout with at '
        'least one split or join (documents: >= 2 data rows and a note); distinct = distinct source text')
ASSUMPTIONS = ['cells contain no TAB and no line-boundary character (they cannot, in the in-memory API)']

OPS = ['*', '*^', '*v', '*-']


def layouts(n0, max_rows, max_live=4):
    """all operator-row sequences; yields list of rows (each a list of op texts) with the live spine ids before each row"""
    def rec(live, rows, depth):
        yield rows
        if depth == max_rows or not live:
            return
        for ops in itertools.product(OPS, repeat=len(live)):
            if all(o == '*' for o in ops):
                continue
            nxt = []
            j = 0
            while j < len(ops):
                o = ops[j]
                if o == '*^':
                    nxt += [live[j], live[j]]
                elif o == '*v':
                    k = j
                    while k + 1 < len(ops) and ops[k + 1] == '*v' and live[k + 1] == live[j]:
                        k += 1
                    nxt.append(live[j]); j = k
                elif o == '*-':
                    pass
                else:
                    nxt.append(live[j])
                j += 1
            if len(nxt) > max_live:
                continue
            yield from rec(nxt, rows + [(list(live), list(ops))], depth + 1)
    yield from rec(list(range(n0)), [], 0)


def layout_doc(n0, rows):
    """abstract document for an operator layout; data rows of distinguishable lyric cells between the operator rows"""
    import gen
    hs = ['**text'] * n0
    out = [{'kind': 'cells', 'rk': 'header', 'cells': [{'k': 'header', 'text': h} for h in hs], 'live': list(range(n0))}]
    live = list(range(n0))
    r = 0

    def data():
        nonlocal r
        r += 1
        out.append({'kind': 'cells', 'rk': 'data', 'live': list(live),
                    'cells': [{'k': 'other', 'kind': 'lyrics', 'text': 'w%dx%d' % (r, j)} for j in range(len(live))]})
    data()
    for lv, ops in rows:
        out.append({'kind': 'cells', 'rk': 'ops', 'live': list(lv),
                    'cells': [gen.op_cell(o) if o != '*' else {'k': 'other', 'kind': 'empty', 'text': '*'} for o in ops]})
        nxt = []
        j = 0
        while j < len(ops):
            o = ops[j]
            if o == '*^':
                nxt += [lv[j], lv[j]]
            elif o == '*v':
                k = j
                while k + 1 < len(ops) and ops[k + 1] == '*v' and lv[k + 1] == lv[j]:
                    k += 1
                nxt.append(lv[j]); j = k
            elif o == '*-':
                pass
            else:
                nxt.append(lv[j])
            j += 1
        live = nxt
        if live:
            data()
    return {'headers': hs, 'rows': out, 'profile': 'layout'}


def join_pattern_docs():
    """one spine (and two spines of the same type) split into k = 3..6 sub-spines, then ONE line with every pattern of `*v` and `*` over the
    k columns (several separate join groups of one spine on one line, lone `*v`, groups touching the neighbour spine), then a data line"""
    import gen
    docs = []
    for two in (False, True):
        for k in (3, 4, 5, 6):
            if two and k > 4:
                continue
            for mask in range(1, 2 ** k):
                hs = ['**text', '**text'] if two else ['**text']
                live = list(range(len(hs)))
                out = [{'kind': 'cells', 'rk': 'header', 'cells': [{'k': 'header', 'text': h} for h in hs], 'live': list(live)}]
                r = [0]

                def data():
                    r[0] += 1
                    out.append({'kind': 'cells', 'rk': 'data', 'live': list(live),
                                'cells': [{'k': 'other', 'kind': 'lyrics', 'text': 'w%dx%d' % (r[0], j)} for j in range(len(live))]})
                data()
                while live.count(0) < k:
                    i = max(j for j, s in enumerate(live) if s == 0)
                    out.append({'kind': 'cells', 'rk': 'split', 'live': list(live),
                                'cells': [gen.op_cell('*^') if j == i else {'k': 'other', 'kind': 'empty', 'text': '*'} for j in range(len(live))]})
                    live.insert(i, 0)
                    data()
                ops = ['*v' if (mask >> j) & 1 else '*' for j in range(k)] + (['*v'] if two and mask & 1 else ['*'] if two else [])
                out.append({'kind': 'cells', 'rk': 'join', 'live': list(live),
                            'cells': [gen.op_cell('*v') if o == '*v' else {'k': 'other', 'kind': 'empty', 'text': '*'} for o in ops]})
                nxt = []
                j = 0
                while j < len(ops):
                    if ops[j] == '*v':
                        e = j
                        while e + 1 < len(ops) and ops[e + 1] == '*v' and live[e + 1] == live[j]:
                            e += 1
                        nxt.append(live[j]); j = e
                    else:
                        nxt.append(live[j])
                    j += 1
                live = nxt
                data()
                out.append({'kind': 'cells', 'rk': 'term', 'live': list(live), 'cells': [gen.op_cell('*-') for _ in live]})
                docs.append({'headers': hs, 'rows': out, 'profile': 'join-pattern'})
    return docs


def check_tree(ctx, case, nt, clause, track=None):
    """the implementation's tree against the Lean spine-path tracker (Spec.Track, the specification of theorem C02_tree) run on the
    text, and against the reference tracker on the generator's grid"""
    import docrun, impl
    if case.doc is None:
        ctx.fail({'text': case.text, 'clause': clause + ': import'}, 'a text that obeys the spine-path rules does not import', impl=case.import_result)
        return
    exp = docrun.grid_tree(case.adoc)
    io = impl.doc_obs(case.doc, case.errors)
    got = [[{'parent': tuple(n['parent']) if n['parent'] else None, 'hdr': tuple(n['hdr']) if n['hdr'] else None} for n in st] for st in io['stages']]
    if track is not None:
        ctx.count('lean_tracker:' + ('wf' if track['wf'] else 'not-wf'))
        if not track['wf']:
            ctx.fail({'text': case.text, 'clause': clause + ': wf'}, 'the generator produced a text with surplus cells (harness defect)', core=False)
        else:
            lean = [[{'parent': tuple(n[0]) if n[0] else None, 'hdr': tuple(n[1]) if n[1] else None} for n in st] for st in track['skel']]
            ctx.seen({'text': case.text, 'clause': clause + ': lean tracker'}, nt)
            if got != lean:
                k = next((i for i, (a, b) in enumerate(zip(got, lean)) if a != b), min(len(got), len(lean)))
                ctx.fail({'text': case.text, 'clause': clause + ': skeleton (Lean tracker)', 'first_differing_stage': k},
                         'the imported tree does not have the skeleton of the spine-path tracker (stages / nodes / parent links / header nodes)',
                         impl=got[k] if k < len(got) else len(got), expected=lean[k] if k < len(lean) else len(lean))
                return
    want = [[{'parent': tuple(n['parent']) if n['parent'] else None, 'hdr': tuple(n['hdr']) if n['hdr'] else None} for n in st] for st in exp]
    ctx.seen({'text': case.text, 'clause': clause}, nt)
    if got != want:
        k = next((i for i, (a, b) in enumerate(zip(got, want)) if a != b), min(len(got), len(want)))
        ctx.fail({'text': case.text, 'clause': clause + ': shape', 'first_differing_stage': k},
                 'stages / nodes / parent links / header nodes do not mirror the source grid',
                 impl=got[k] if k < len(got) else len(got), expected=want[k] if k < len(want) else len(want))
        return
    # header tokens carry the 0-based column index; cell text is literal
    for s, (st, est) in enumerate(zip(case.doc.tree.stages, exp)):
        for n, e in zip(st, est):
            if e['kind'] == 'header' and (n.token.spine_id != e['spine'] or n.token.encoding != e['cell']['text']):
                ctx.fail({'text': case.text, 'clause': clause + ': header'}, 'header token does not carry its text and 0-based spine id',
                         impl=[n.token.encoding, n.token.spine_id], expected=[e['cell']['text'], e['spine']])
            if e['kind'] == 'other' and e['cell'].get('kind') in ('lyrics', 'dynamics', 'harmony', 'fingering', 'otherText', 'fieldComment') \
                    and n.token.encoding != e['cell']['text']:
                ctx.fail({'text': case.text, 'clause': clause + ': literal text', 'stage': s}, 'cell text is not taken literally', impl=n.token.encoding, expected=e['cell']['text'])
            if e['kind'] == 'global' and n.token.encoding != e['cell']['text'].strip():
                # a global comment / reference record is one cell: its text is the line (outer blanks aside), whatever its key and spelling
                ctx.fail({'text': case.text, 'clause': clause + ': literal text of a global comment', 'stage': s}, 'the text of a global comment is not taken literally',
                         impl=n.token.encoding, expected=e['cell']['text'].strip())


def explore(ctx, depth):
    import docrun, gen, impl
    import kernpy as kp
    # (a) exhaustive operator layouts
    docs = []
    for n0 in (1, 2):
        for rows in layouts(n0, 2 if depth == 'quick' else 3):
            docs.append(layout_doc(n0, rows))
    gen.render_documents(ctx.driver, docs)
    lcases = [docrun.Case(d) for d in docs]
    for c in lcases:
        c.import_impl()
    mresp = docrun.model_exports(ctx, lcases, [[{'cats': docrun.ALLC, 'enc': 'kern'}] for _ in lcases], tree=True)
    tracks = ctx.driver.ask([{'op': 'doc.track', 'text': c.text} for c in lcases])
    for case, mr, tr in zip(lcases, mresp, tracks):
        nt = any(c['k'] == 'op' and c['text'] in ('*^', '*v') for r in case.adoc['rows'] if r['kind'] == 'cells' for c in r['cells'])
        docrun.tie_import(ctx, case, mr, tree=True)
        check_tree(ctx, case, nt, 'operator layout', tr)
    ctx.count('operator_layouts', len(lcases))
    # (a') every pattern of joins on one line over 3..6 sub-spines
    jdocs = join_pattern_docs()
    gen.render_documents(ctx.driver, jdocs)
    jcases = [docrun.Case(d) for d in jdocs]
    for c in jcases:
        c.import_impl()
    mresp = docrun.model_exports(ctx, jcases, [[] for _ in jcases], tree=True)
    tracks = ctx.driver.ask([{'op': 'doc.track', 'text': c.text} for c in jcases])
    for case, mr, tr in zip(jcases, mresp, tracks):
        docrun.tie_import(ctx, case, mr, tree=True)
        check_tree(ctx, case, True, 'join pattern', tr)
    ctx.count('join_patterns', len(jcases))
    # (b) generated documents
    cases = docrun.make_cases(ctx, 40 if depth == 'quick' else 400)
    cases += docrun.make_cases(ctx, 10 if depth == 'quick' else 100, unknown=True, max_measures=3)
    mresp = docrun.model_exports(ctx, cases, [[] for _ in cases], tree=True)
    tracks = ctx.driver.ask([{'op': 'doc.track', 'text': c.text} for c in cases])
    for case, mr, tr in zip(cases, mresp, tracks):
        docrun.tie_import(ctx, case, mr, tree=True)
        check_tree(ctx, case, docrun.nontrivial(case), 'document', tr)
    # (b2) texts outside the generator's grammar (a spine added by `*+`, `**` cells below the first line, blank lines, short lines, `*x`):
    # the tree against the model (correspondence) and against the Lean tracker (theorems C02_tree / C02_import_succeeds quantify over every text)
    rcases = docrun.raw_cases(ctx, [c.adoc for c in cases[:8 if depth == 'quick' else 80]])
    mresp = docrun.model_exports(ctx, rcases, [[] for _ in rcases], tree=True)
    tracks = ctx.driver.ask([{'op': 'doc.track', 'text': c.text} for c in rcases])
    for case, mr, tr in zip(rcases, mresp, tracks):
        docrun.tie_import(ctx, case, mr, tree=True)
        kind = case.adoc['kind']
        ctx.count('raw_tracker:%s:%s' % (kind, 'wf' if tr['wf'] else 'not-wf'))
        if not tr['wf']:
            continue
        ctx.seen({'text': case.text, 'clause': 'raw text: lean tracker'}, True)
        if case.doc is None:
            if kind != 'exchange':
                ctx.fail({'text': case.text, 'clause': 'raw text: import'}, 'a text without surplus cells and without *x does not import', impl=case.import_result)
            continue
        io = impl.doc_obs(case.doc, case.errors)
        got = [[[n['parent'], n['hdr']] for n in st] for st in io['stages']]
        lean = [[[n[0], n[1]] for n in st] for st in tr['skel']]
        if got != lean:
            k = next((i for i, (a, b) in enumerate(zip(got, lean)) if a != b), min(len(got), len(lean)))
            ctx.fail({'text': case.text, 'clause': 'raw text: skeleton (Lean tracker)', 'first_differing_stage': k},
                     'the imported tree does not have the skeleton of the spine-path tracker (stages / nodes / parent links / header nodes)',
                     impl=got[k] if k < len(got) else len(got), expected=lean[k] if k < len(lean) else len(lean))
    # (c) literal cell text through the line reader, (d) surplus cells
    specials = ['"quoted"', '"open', 'a,b', 'a b', ' lead', 'trail ', 'señor', '日本', 'x"y', "it's", '""', 'a;b', '\\t', 'r\\n', 'é́', '  ', 'a\x0bb'[:1] + 'b',
                # text that is not in Unicode normal form C (decomposed accents, marks out of canonical order, singletons) must be taken literally too
                'e\u0301', 'n\u0303o', 'a\u0308\u0323', 'a\u0323\u0308', '\u212b', '\u2126', '\ufb01n', 'I\u0307', '!e\u0301', '\u1e9e', 'x\u200by']
    rng = ctx.rng
    for t in specials:
        text = '**text\t**text\n' + t + '\tplain\nnext\t' + t + '\n*-\t*-\n'
        def run():
            d, e = kp.loads(text)
            return [[n.token.encoding for n in st] for st in d.tree.stages[1:]]
        got = call(run)
        exp = {'ok': [['**text', '**text'], [t, 'plain'], ['next', t], ['*-', '*-']]}
        mrows = ctx.driver.ask([{'op': 'doc.rows', 'text': text}])[0]
        ctx.check({'text': text, 'clause': 'literal cell text'}, got, {'ok': mrows}, exp, what='the line reader interprets quotes / commas / spaces')
    # (c2) the file entry point reads the file's own lines: characters that str.splitlines() treats as line boundaries (VT, FF, FS, GS, RS, NEL,
    # U+2028, U+2029) are ordinary cell text in a file whose lines end with LF or CRLF
    import tempfile, os, shutil
    tmp = tempfile.mkdtemp(prefix='kernverif_c02_')
    try:
        for k, ch in enumerate(['\x0b', '\x0c', '\x1c', '\x1d', '\x1e', '\x85', '\u2028', '\u2029']):
            for eol in ('\n', '\r\n'):
                cells = [['**kern', '**text'], ['4c', 'a' + ch + 'b'], ['4d', 'end' + ch], ['4e', '!x' + ch + 'y'], ['*-', '*-']]
                ftext = eol.join('\t'.join(r) for r in cells) + eol
                path = os.path.join(tmp, 'f%d_%d.krn' % (k, len(eol)))
                with open(path, 'w', encoding='utf-8', newline='') as f:
                    f.write(ftext)
                def run_file():
                    d, e = kp.load(path)
                    return [[n.token.encoding for n in st] for st in d.tree.stages[1:]]
                got = call(run_file)
                ctx.seen({'clause': 'file lines', 'char': repr(ch), 'eol': repr(eol)}, True)
                if got != {'ok': cells}:
                    ctx.fail({'clause': 'literal cell text (file entry point)', 'file_text': ftext, 'char': repr(ch)},
                             'a file is not imported line for line and cell for cell (a character inside a cell was taken for a line boundary or dropped)',
                             impl=got, expected=cells)
    finally:
        shutil.rmtree(tmp, ignore_errors=True)
    for case in (cases[:15] if depth == 'quick' else cases[:150]):
        if case.doc is None:
            continue
        lines = case.text.split('\n')[:-1]
        cand = [i for i, l in enumerate(lines) if not l.startswith('!!') and not l.startswith('**') and i > 0]
        if not cand:
            continue
        for kind, cell in (('data token', '4c'), ('spine operator', '*^'), ('field comment', '!x'), ('null', '.'), ('interpretation', '*clefG2'), ('empty cell (trailing tab)', '')):
            i = rng.choice(cand)
            cells = lines[i].split('\t')
            pos = len(cells)     # a surplus cell at the end of the line
            bad = lines[:i] + ['\t'.join(cells + [cell])] + lines[i + 1:]
            text = '\n'.join(bad) + '\n'
            r = call(lambda: kp.loads(text)[0] and True)
            m = ctx.driver.ask([{'op': 'doc.run', 'text': text, 'oracle': impl.oracle_for_text(text), 'exports': [], 'tree': False}])[0]['import']
            model = m if 'err' in m else {'ok': True}
            ctx.count('surplus:' + kind)
            ctx.check({'text': text, 'line': i + 1, 'surplus': cell, 'clause': 'surplus cell'}, {'raised': 'err' in r}, {'raised': 'err' in model},
                      {'raised': True}, what='a line with more cells than live spine paths is not rejected with an exception')
            if 'err' in r and 'err' in model and r != model:
                ctx.check({'text': text, 'clause': 'surplus cell: exception class'}, r, model, None, what='exception class differs from the model')
            # every way into the library rejects the line: the importer class, the file entry points, the deprecated `create` / `read`, `concat`
            # (round 6, C02_r6_2: a "tolerant" mode switched on by default on the legacy path)
            import warnings as _w, tempfile as _tf, os as _os
            from kernpy.core.importer import Importer as _Imp
            fd, pth = _tf.mkstemp(suffix='.krn', prefix='kernverif_c02s_')
            with _os.fdopen(fd, 'w', encoding='utf-8', newline='') as fh:
                fh.write(text)
            try:
                with _w.catch_warnings():
                    _w.simplefilter('ignore')
                    ways = {'Importer.import_string': lambda: _Imp().import_string(text), 'Importer.import_file': lambda: _Imp().import_file(pth),
                            'kernpy.load': lambda: kp.load(pth), 'kernpy.create': lambda: kp.create(text), 'kernpy.read': lambda: kp.read(pth),
                            'kernpy.concat': lambda: kp.concat([text]), 'kernpy.loads(strict)': lambda: kp.loads(text, strict=True) if 'strict' in kp.loads.__code__.co_varnames else kp.loads(text)}
                    for wname, fn in ways.items():
                        rw = call(lambda: fn() and True)
                        ctx.seen({'clause': 'surplus cell through ' + wname, 'surplus': cell}, True)
                        if 'err' not in rw:
                            ctx.fail({'text': text, 'line': i + 1, 'surplus': cell, 'entry_point': wname, 'clause': 'surplus cell: every entry point'},
                                     'a line with more cells than live spine paths is not rejected with an exception through this entry point', impl=rw)
            finally:
                _os.unlink(pth)


def replay(ctx, payload):
    explore(ctx, 'quick')


def reproduce(ctx, key, w):
    return False
