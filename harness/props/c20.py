"""C20 — File and command-line paths equal the in-memory API."""
from __future__ import annotations
import os, shutil, subprocess, sys, tempfile
from .util import call

ID = 'C20'
LEAN_MODULE = 'KernProofs.C20'
THEOREMS = ['KM.C20.lines_agree_aux', 'KM.C20.C20_readers', 'KM.C20.C20_same_document', 'KM.C20.C20_domain_is_needed', 'KM.C20.C20_converter_options']
FINGERPRINTS = ['importer.Importer', 'exporter.kern_to_ekern', 'exporter.ekern_to_krn', 'exporter.get_kern_from_ekern', 'generic.Generic', 'public']
RULE = ('generated documents (quick 16 / thorough 120) written to real files in a temporary directory with LF and CRLF line ends, with and without a final '
        'newline, non-ASCII lyrics: load(file) vs loads(text) (whole tree and export), the model\'s two line readers on the same texts, dump vs dumps for '
        'random option sets (incl. a missing directory), the converter functions kern_to_ekern / ekern_to_krn in-process for every document and real '
        '`python -m kernpy` subprocesses (single file, directory, recursive; quick 4 / thorough 12 invocations) compared byte for byte with the API, and '
        'ekern -> kern -> ekern on the converter\'s output; non-trivial = CRLF or missing final newline or a sub-directory; distinct = (document, line end, mode)')
ASSUMPTIONS = ['file system, locale default encoding of open(), argparse and glob order are not modelled; they are exercised here as they are in this sandbox']


def explore(ctx, depth):
    import docrun, impl
    import kernpy as kp
    from kernpy.core.tokens import BEKERN_CATEGORIES, TokenCategory as TC
    from kernpy.core.tokenizers import Encoding
    from kernpy.core.exporter import kern_to_ekern, ekern_to_krn
    rng = ctx.rng
    cases = docrun.make_cases(ctx, 16 if depth == 'quick' else 120, max_measures=3)
    tmp = tempfile.mkdtemp(prefix='kernverif_c20_')
    env = dict(os.environ)
    env['PYTHONDONTWRITEBYTECODE'] = '1'
    env['PYTHONWARNINGS'] = 'ignore'
    try:
        cli_jobs = []
        for k, case in enumerate(cases):
            if case.doc is None:
                continue
            variants = [('lf', case.text), ('crlf', case.text.replace('\n', '\r\n')), ('lf-nofinal', case.text[:-1]), ('crlf-nofinal', case.text.replace('\n', '\r\n')[:-2])]
            rows = ctx.driver.ask([{'op': 'doc.rows', 'text': t} for _, t in variants])
            for (name, text), mrows in zip(variants, rows):
                path = os.path.join(tmp, 'd%d_%s.krn' % (k, name))
                with open(path, 'w', encoding='utf-8', newline='') as f:
                    f.write(text)
                def via_file():
                    d, errs = kp.load(path)
                    return {'tree': impl.doc_obs(d, errs), 'export': kp.dumps(d)}
                def via_text():
                    d, errs = kp.loads(text)
                    return {'tree': impl.doc_obs(d, errs), 'export': kp.dumps(d)}
                a, b = call(via_file), call(via_text)
                nt = name != 'lf'
                ctx.seen({'text': text, 'clause': 'load = loads', 'variant': name}, nt)
                if a != b:
                    ctx.fail({'text': text, 'variant': name, 'clause': 'load = loads'}, 'loading a file differs from loading its text', impl=str(a)[:400], expected=str(b)[:400])
                # tie: the model's reader gives the rows python's splitlines + tab split gives
                prow = [l.split('\t') if l != '' else [] for l in text.splitlines()]
                ctx.check({'text': text, 'clause': 'tie: line reader'}, prow, mrows, None, nontrivial=False, what='rows differ from the model reader')
            # dump = dumps
            for _ in range(2):
                kw = {}
                if rng.random() < 0.5:
                    kw['encoding'] = rng.choice(list(Encoding.__members__.values()))
                if rng.random() < 0.5:
                    kw['include'] = rng.sample(list(TC), rng.randint(1, 6))
                if rng.random() < 0.3:
                    kw['spine_types'] = ['**kern']
                out = os.path.join(tmp, 'out%d' % k, 'sub' if rng.random() < 0.5 else '', 'x.krn')
                s = call(lambda: kp.dumps(case.doc, **kw))
                def dump():
                    kp.dump(case.doc, out, **kw)
                    with open(out, 'r', newline='') as f:
                        return f.read()
                w = call(dump)
                ctx.seen({'text': case.text, 'clause': 'dump = dumps', 'kw': sorted(kw)}, False)
                if ('ok' in s) and w != s:
                    ctx.fail({'text': case.text, 'options': sorted(kw), 'clause': 'dump writes dumps'}, 'dump does not write exactly what dumps returns', impl=w, expected=s)
            # the same path written twice, the second time with a shorter text: the file must hold exactly the second text
            same = os.path.join(tmp, 'same%d.krn' % k)
            def overwrite():
                kp.dump(case.doc, same)
                kp.dump(case.doc, same, include=[TC.BARLINES, TC.HEADER])
                with open(same, 'r', newline='') as f:
                    return f.read()
            w2 = call(overwrite)
            s2 = call(lambda: kp.dumps(case.doc, include=[TC.BARLINES, TC.HEADER]))
            ctx.seen({'text': case.text, 'clause': 'dump over an existing longer file'}, True)
            if 'ok' in s2 and w2 != s2:
                ctx.fail({'text': case.text, 'clause': 'dump over an existing longer file'}, 'dump onto an existing file does not leave exactly what dumps returns',
                         impl=w2, expected=s2)
            # converters, in-process
            src = os.path.join(tmp, 'c%d.krn' % k)
            text = rng.choice(variants)[1]
            with open(src, 'w', encoding='utf-8', newline='') as f:
                f.write(text)
            ek, kr, ek2 = src[:-4] + '.ekrn', src[:-4] + '.back.krn', src[:-4] + '.back.ekrn'
            api = call(lambda: kp.dumps(kp.loads(text)[0], spine_types=['**kern'], include=BEKERN_CATEGORIES, encoding=Encoding.eKern))
            def conv():
                kern_to_ekern(src, ek)
                return open(ek, newline='').read()
            got = call(conv)
            ctx.seen({'text': text, 'clause': 'kern_to_ekern'}, True)
            if got != api:
                ctx.fail({'text': text, 'clause': 'kern_to_ekern = API'}, 'the kern-to-ekern converter does not write what the API produces for the same input',
                         impl=got, expected=api)
            elif 'ok' in got:
                def chain():
                    ekern_to_krn(ek, kr)
                    kern_to_ekern(kr, ek2)
                    return open(ek2, newline='').read()
                back = call(chain)
                if back != got:
                    ctx.fail({'text': text, 'clause': 'ekern -> kern -> ekern'}, "converting the converter's ekern output to kern and back does not return the original ekern",
                             impl=back, expected=got)
                cli_jobs.append((text, got['ok']))
        # a long file: more than 64 KiB (and, thorough, more than 128 KiB), with a two-byte character lying across byte offsets 65536 / 131072
        # (a reader that decodes the file block by block must not lose it) - load(file) must equal loads(text)
        for target in ((65536,) if depth == 'quick' else (65536, 131072, 8192, 4096)):
            body = ''.join('4c\t%s\n' % ('ñandú' + 'é' * (i % 7)) for i in range(target // 8))
            for pad in range(0, 6):
                big = '!! ' + 'x' * (40 + pad) + '\n**kern\t**text\n*clefG2\t*\n=1\t=1\n' + body + '*-\t*-\n'
                enc = big.encode('utf-8')
                if len(enc) > target + 2 and (enc[target] & 0xC0) == 0x80:     # a continuation byte at the boundary: the character straddles it
                    break
            else:
                continue
            path = os.path.join(tmp, 'big%d.krn' % target)
            with open(path, 'w', encoding='utf-8', newline='') as f:
                f.write(big)
            def big_file():
                d, errs = kp.load(path)
                return {'errors': [[e.line, e.encoding] for e in errs], 'lyrics': [t.encoding for t in d.get_all_tokens(filter_by_categories=[TC.LYRICS])], 'export': kp.dumps(d)}
            def big_text():
                d, errs = kp.loads(big)
                return {'errors': [[e.line, e.encoding] for e in errs], 'lyrics': [t.encoding for t in d.get_all_tokens(filter_by_categories=[TC.LYRICS])], 'export': kp.dumps(d)}
            a, b = call(big_file), call(big_text)
            ctx.seen({'clause': 'load = loads (long file)', 'bytes': len(enc), 'boundary': target}, True)
            if a != b:
                bad = next((i for i, (x, y) in enumerate(zip(a.get('ok', {}).get('lyrics', []), b.get('ok', {}).get('lyrics', []))) if x != y), None)
                ctx.fail({'clause': 'load = loads (long file)', 'bytes': len(enc), 'boundary': target, 'text_head': big[:120], 'first_differing_lyric': bad},
                         'loading a long file differs from loading its text', impl=str(a)[:300] if bad is None else a['ok']['lyrics'][bad], expected=str(b)[:300] if bad is None else b['ok']['lyrics'][bad])
        # conversion in place: output path = input path (function and command line)
        for k, case in enumerate(cases[:3 if depth == 'quick' else 10]):
            if case.doc is None:
                continue
            src = os.path.join(tmp, 'inplace%d.krn' % k)
            with open(src, 'w', encoding='utf-8', newline='') as f:
                f.write(case.text)
            api = call(lambda: kp.dumps(kp.loads(case.text)[0], spine_types=['**kern'], include=BEKERN_CATEGORIES, encoding=Encoding.eKern))
            if 'ok' not in api:
                continue
            from kernpy.core.exporter import get_kern_from_ekern
            def inplace():
                kern_to_ekern(src, src)
                a1 = open(src, newline='').read()
                ekern_to_krn(src, src)
                a2 = open(src, newline='').read()
                return [a1, a2]
            got = call(inplace)
            want = {'ok': [api['ok'], get_kern_from_ekern(api['ok'])]}
            ctx.seen({'text': case.text, 'clause': 'conversion in place'}, True)
            if got != want:
                ctx.fail({'text': case.text, 'clause': 'conversion in place (output path = input path)'},
                         'converting a file onto itself does not leave what the API produces', impl=got, expected=want['ok'])
                continue
            cli = os.path.join(tmp, 'inplace_cli%d.ekrn' % k)
            with open(cli, 'w', encoding='utf-8', newline='') as f:
                f.write(api['ok'])
            subprocess.run([sys.executable, '-m', 'kernpy', '--ekern2kern', '--input_path', cli, '--output_path', cli], env=env, cwd=tmp,
                           stdout=subprocess.PIPE, stderr=subprocess.PIPE, text=True, timeout=300)
            gotc = open(cli, newline='').read() if os.path.exists(cli) else None
            if gotc != get_kern_from_ekern(api['ok']):
                ctx.fail({'text': case.text, 'clause': 'CLI conversion in place (--output_path = --input_path)'},
                         'python -m kernpy --ekern2kern onto the input file does not leave what the API produces', impl=gotc, expected=get_kern_from_ekern(api['ok']))
        # real subprocesses
        njobs = 4 if depth == 'quick' else 12
        jobs = cli_jobs[:njobs]
        if jobs:
            d1 = os.path.join(tmp, 'cli')
            os.makedirs(os.path.join(d1, 'deep', 'deeper'))
            paths = []
            for i, (text, exp) in enumerate(jobs):
                sub = ['', 'deep', os.path.join('deep', 'deeper')][i % 3]
                # the same file stem in different directories (a corpus laid out as composer/number.krn)
                p = os.path.join(d1, sub, 's%d.%s' % (i // 3, 'krn' if i % 2 == 0 else 'kern'))
                with open(p, 'w', encoding='utf-8', newline='') as f:
                    f.write(text)
                paths.append((p, exp, sub))
            # single file with explicit output
            p, exp, _ = paths[0]
            outp = os.path.join(tmp, 'single.ekrn')
            r = subprocess.run([sys.executable, '-m', 'kernpy', '--kern2ekern', '--input_path', p, '--output_path', outp], env=env, cwd=tmp,
                               stdout=subprocess.PIPE, stderr=subprocess.PIPE, text=True, timeout=300)
            got = open(outp, newline='').read() if os.path.exists(outp) else None
            ctx.seen({'clause': 'cli single file'}, True)
            if got != exp:
                ctx.fail({'text': jobs[0][0], 'clause': 'CLI single file'}, 'python -m kernpy --kern2ekern does not write what the API produces', impl=got, expected=exp)
            # single file WITHOUT an output path, given through a symbolic link that lives in another directory under another name: the result
            # is written next to the path that was given, with its stem (round 6, C20_r6_1: `Path.resolve()` follows the link)
            ldir, ddir = os.path.join(tmp, 'work'), os.path.join(tmp, 'data')
            os.makedirs(ldir); os.makedirs(ddir)
            target = os.path.join(ddir, '0001.blob')
            shutil.copyfile(p, target)
            link = os.path.join(ldir, 'kyrie.krn')
            try:
                os.symlink(target, link)
            except OSError:
                link = None
            if link:
                subprocess.run([sys.executable, '-m', 'kernpy', '--kern2ekern', '--input_path', link], env=env, cwd=tmp,
                               stdout=subprocess.PIPE, stderr=subprocess.PIPE, text=True, timeout=300)
                want = os.path.join(ldir, 'kyrie.ekrn')
                got = open(want, newline='').read() if os.path.exists(want) else None
                ctx.seen({'clause': 'cli single file through a symbolic link'}, True)
                if got != exp:
                    ctx.fail({'text': jobs[0][0], 'clause': 'CLI single file given through a symbolic link, no output path',
                              'work_dir': sorted(os.listdir(ldir)), 'data_dir': sorted(os.listdir(ddir))},
                             'python -m kernpy --kern2ekern does not write <stem of the given path>.ekrn next to the given path', impl=got, expected=exp)
            # directory, non recursive then recursive
            for rec in (False, True):
                for q, _, _ in paths:
                    o = os.path.splitext(q)[0] + '.ekrn'
                    if os.path.exists(o):
                        os.remove(o)
                cmd = [sys.executable, '-m', 'kernpy', '--kern2ekern', '--input_path', d1] + (['-r'] if rec else [])
                subprocess.run(cmd, env=env, cwd=tmp, stdout=subprocess.PIPE, stderr=subprocess.PIPE, text=True, timeout=600)
                for q, exp, sub in paths:
                    o = os.path.splitext(q)[0] + '.ekrn'
                    should = rec or sub == ''
                    got = open(o, newline='').read() if os.path.exists(o) else None
                    ctx.seen({'clause': 'cli directory', 'recursive': rec, 'file': os.path.relpath(q, d1)}, sub != '')
                    if (got if should else None) != (exp if should else None) or (not should and got is not None):
                        ctx.fail({'file': os.path.relpath(q, d1), 'recursive': rec, 'clause': 'CLI directory'},
                                 'directory invocation does not convert exactly the selected files to what the API produces', impl=got, expected=exp if should else None)
            # ekern2kern over the directory, then compare with the in-memory conversion
            subprocess.run([sys.executable, '-m', 'kernpy', '--ekern2kern', '--input_path', d1, '-r'], env=env, cwd=tmp, stdout=subprocess.PIPE, stderr=subprocess.PIPE, text=True, timeout=600)
            from kernpy.core.exporter import get_kern_from_ekern
            for q, exp, sub in paths:
                o = os.path.splitext(q)[0] + '.krn'
                got = open(o, newline='').read() if os.path.exists(o) else None
                ctx.seen({'clause': 'cli ekern2kern', 'file': os.path.relpath(q, d1)}, True)
                if got != get_kern_from_ekern(exp):
                    ctx.fail({'file': os.path.relpath(q, d1), 'clause': 'CLI ekern2kern'}, 'python -m kernpy --ekern2kern does not write what the API produces', impl=got, expected=get_kern_from_ekern(exp))
            # a second directory run after an input was replaced by a file with an OLDER time stamp (restored from a backup, cp -p, rsync -t)
            # while its output from the first run is still there: the output must be the conversion of what the input holds now
            if len(jobs) >= 2:
                import time
                d2 = os.path.join(tmp, 'cli2', 'sub')
                os.makedirs(d2)
                (ta, ea), (tb, eb) = jobs[0], jobs[1]
                pa, pb = os.path.join(d2, 'a.krn'), os.path.join(d2, 'b.kern')
                for pth, txt in ((pa, ta), (pb, tb)):
                    with open(pth, 'w', encoding='utf-8', newline='') as f:
                        f.write(txt)
                cmd = [sys.executable, '-m', 'kernpy', '--kern2ekern', '--input_path', os.path.join(tmp, 'cli2'), '-r']
                subprocess.run(cmd, env=env, cwd=tmp, stdout=subprocess.PIPE, stderr=subprocess.PIPE, text=True, timeout=600)
                with open(pa, 'w', encoding='utf-8', newline='') as f:
                    f.write(tb)
                old_t = time.time() - 86400
                os.utime(pa, (old_t, old_t))
                subprocess.run(cmd, env=env, cwd=tmp, stdout=subprocess.PIPE, stderr=subprocess.PIPE, text=True, timeout=600)
                oa = os.path.join(d2, 'a.ekrn')
                got = open(oa, newline='').read() if os.path.exists(oa) else None
                ctx.seen({'clause': 'cli directory, second run after an input was replaced by an older-dated file'}, True)
                if got != eb:
                    ctx.fail({'clause': 'CLI directory, second run', 'text_first_run': ta, 'text_second_run': tb},
                             'a second directory run does not convert an input that was replaced (with an older time stamp) since the first run', impl=got, expected=eb)
        # load, edit the returned document in place, load the same unchanged file again: the second document is the document of the file
        # (round 6, C20_r6_2: `load` memoised per file state and handed out shallow clones)
        if cli_jobs:
            ltext = cli_jobs[0][0]
            lp2 = os.path.join(tmp, 'again.krn')
            with open(lp2, 'w', encoding='utf-8', newline='') as f:
                f.write(ltext)
            def load_edit_load():
                d1, _ = kp.load(lp2)
                for tk in d1.get_all_tokens():
                    try:
                        tk.encoding = tk.encoding.upper()
                        tk.hidden = True
                    except Exception:
                        pass
                d2, _ = kp.load(lp2)
                return kp.dumps(d2)
            ref = call(lambda: kp.dumps(kp.loads(ltext)[0]))
            got = call(load_edit_load)
            ctx.seen({'clause': 'load, edit, load again'}, True)
            if got != ref:
                ctx.fail({'text': ltext, 'clause': 'load, edit the document, load the same file again'},
                         'a second load of an unchanged file is not the document of the file after the first loaded document was edited in place', impl=got, expected=ref)
        # a single field longer than 128 KiB (a huge global comment): the string reader and the file reader agree, whatever the order of the calls
        long_text = '!!!ONB: ' + 'x' * 140000 + '\n**kern\n4c\n*-\n'
        lp = os.path.join(tmp, 'longfield.krn')
        with open(lp, 'w', encoding='utf-8', newline='') as f:
            f.write(long_text)
        def outcome(fn):
            r = call(fn)
            return 'ok' if 'ok' in r else r
        seq = [outcome(lambda: kp.dumps(kp.loads(long_text)[0])), outcome(lambda: kp.dumps(kp.load(lp)[0])), outcome(lambda: kp.dumps(kp.loads(long_text)[0]))]
        # the same three calls in a process of their own (this process has already read files, so state that a file read leaves behind in the
        # library or in the csv module would be invisible here)
        script = ("import sys, kernpy as kp\n"
                  "t = open(sys.argv[1], encoding='utf-8', newline='').read()\n"
                  "def o(f):\n"
                  "    try:\n        f(); return 'ok'\n    except Exception as e:\n        return type(e).__name__\n"
                  "print(o(lambda: kp.dumps(kp.loads(t)[0])), o(lambda: kp.dumps(kp.load(sys.argv[1])[0])), o(lambda: kp.dumps(kp.loads(t)[0])))\n")
        pr = subprocess.run([sys.executable, '-c', script, lp], env=env, cwd=tmp, stdout=subprocess.PIPE, stderr=subprocess.PIPE, text=True, timeout=300)
        sub_seq = pr.stdout.split()
        ctx.seen({'clause': 'load = loads (one field longer than 128 KiB), fresh process'}, True)
        if len(sub_seq) != 3 or not (sub_seq[0] == sub_seq[1] == sub_seq[2]):
            ctx.fail({'clause': 'load = loads (one field longer than 128 KiB), fresh process', 'field_length': 140000},
                     'in a fresh process loads(text), load(file), loads(text) of a text with a very long field do not have the same outcome',
                     impl=sub_seq or pr.stderr[-300:], expected='three equal outcomes')
        ctx.seen({'clause': 'load = loads (one field longer than 128 KiB), loads before and after load'}, True)
        if not (seq[0] == seq[1] == seq[2]):
            ctx.fail({'clause': 'load = loads (one field longer than 128 KiB)', 'field_length': 140000},
                     'loading a text with a very long field and loading the file that holds it do not have the same outcome (or the outcome depends on the order of the calls)',
                     impl=seq, expected=[seq[0]] * 3)
    finally:
        shutil.rmtree(tmp, ignore_errors=True)


def replay(ctx, payload):
    explore(ctx, 'quick')


def reproduce(ctx, key, w):
    return False
