"""C06 — Spine selection is column projection."""
from __future__ import annotations
import itertools
from .util import call

ID = 'C06'
LEAN_MODULE = 'KernProofs.C06'
EXTRA_MODULES = ['KernProofs.C06Doc']
THEOREMS = ['KM.C06.C06_export_rows', 'KM.C06.C06_row_is_selected_cells', 'KM.C06.C06_row_projection', 'KM.C06.C06_null_rows_absorbed', 'KM.C06.C06_selection_by_header', 'KM.C06.C06_spine_types_empty', 'KM.rowOfStage_eq', 'KM.exportString_noRange', 'KM.mapM_filterMap_sel',
            'KM.C06D.C06_spine_types_of_text', 'KM.C06D.C06_spine_types_default']
FINGERPRINTS = ['exporter.Exporter.export_string', 'exporter.Exporter.append_row', 'exporter.Exporter.compute_header_type',
                'exporter.Exporter.get_spine_types', 'importer.Importer', 'generic.Generic']
RULE = ('generated documents with nested splits and joins (quick 25 / thorough 250) and documents whose operator records shift the ownership of columns while keeping their number (quick 10 / thorough 100) x EVERY subset of spine ids and EVERY subset of the occurring '
        'spine types (and a few mixed id+type selections): export compared with the projection of the source grid onto the selected spines '
        '(computed from the generator\'s live sub-spine tracking, not from kernpy\'s tree) and with the model; the spine-type query compared '
        'with the header line of that projection; non-trivial = document with a split and >= 2 spines; distinct = (document, selection)')
ASSUMPTIONS = []


def subsets(xs):
    xs = list(xs)
    return [list(c) for r in range(len(xs) + 1) for c in itertools.combinations(xs, r)]


def explore(ctx, depth):
    import docrun
    import kernpy as kp
    cases = docrun.make_cases(ctx, 25 if depth == 'quick' else 250)
    # records whose operators keep the number of columns while changing which spine each column belongs to
    import gen
    cases += docrun.make_cases(ctx, 0, docs=[gen.shift_doc(ctx.rng) for _ in range(10 if depth == 'quick' else 100)])
    # one spine split into 3 or 4 sub-spines beside a second spine, then one line with every pattern of `*v` and `*` (n-way joins, several join
    # groups on one line): what each column belongs to afterwards decides the projection (added after seeded change C06_r5_1)
    from . import c02
    cases += docrun.make_cases(ctx, 0, docs=[d for d in c02.join_pattern_docs() if len(d['headers']) == 2])

    # spines of a type the library has no importer for (`**recip`, `**silbe` ...): never part of a selection by type that does not name them
    ucases = docrun.make_cases(ctx, 4 if depth == 'quick' else 40, unknown=True, max_measures=2)
    docrun.reuse_objects(ctx, cases + ucases, steps=48, ranges=False)

    def sels(case):
        hs = case.adoc['headers']
        out = [{'ids': s} for s in subsets(range(len(hs)))]
        types = sorted(set(hs))
        out += [{'types': t} for t in subsets(types)]
        out += [{'types': ctx.rng.choice(subsets(types)), 'ids': ctx.rng.choice(subsets(range(len(hs))))} for _ in range(2)]
        out.append({'types': ['**kern', '**nonexistent']})
        return out

    def nt(case, combo, s):
        return len(case.adoc['headers']) >= 2 and any(r['kind'] == 'cells' and r['rk'] == 'split' for r in case.adoc['rows'])

    def usels(case):
        from kernpy.core.tokens import HEADERS as _H
        known = sorted(set(h for h in case.adoc['headers'] if h in _H))
        return [{'types': t} for t in subsets(known) if t]
    docrun.run_option_sets(ctx, ucases, [{'enc': None, 'include': None, 'exclude': None}], usels,
                           'export with a selection of spine types contains a spine of a type that was not selected (a type the library has no importer for)',
                           'projection (documents with a spine of an unknown type)', nontriv=lambda *a: True)
    docrun.run_option_sets(ctx, cases, [{'enc': None, 'include': None, 'exclude': None}, {'enc': 'ekern', 'include': None, 'exclude': None}], sels,
                           'export with a spine selection is not the full export with the unselected columns deleted and all-null lines dropped',
                           'projection', nontriv=nt)
    # the selection is a set of spines: any re-iterable collection that holds the same ids / types selects the same columns (list = reference);
    # ids that name no spine (negative, beyond the last) select nothing
    from kernpy.core.tokenizers import Encoding
    for case in cases[:12 if depth == 'quick' else 120]:
        if case.doc is None:
            continue
        hs = case.adoc['headers']
        n = len(hs)
        k = ctx.rng.randint(0, n)
        ids = list(range(k))                       # a prefix, so that range(k) is the same selection
        types = sorted(set(ctx.rng.sample(hs, ctx.rng.randint(1, n))))
        ref_i = call(lambda: kp.dumps(case.doc, spine_ids=list(ids)))
        ref_t = call(lambda: kp.dumps(case.doc, spine_types=list(types)))
        ref_it = call(lambda: kp.dumps(case.doc, spine_ids=list(ids), spine_types=list(types), encoding=Encoding.eKern))
        kinds = [('tuple', tuple), ('set', set), ('frozenset', frozenset), ('range', lambda x: range(len(x)) if x and isinstance(x[0], int) or not x else tuple(x)),
                 ('dict keys', lambda x: {v: None for v in x}.keys()), ('dict', lambda x: {v: True for v in x})]
        for name, mk in kinds:
            got_i = call(lambda: kp.dumps(case.doc, spine_ids=mk(ids)))
            got_t = call(lambda: kp.dumps(case.doc, spine_types=mk(types)))
            got_it = call(lambda: kp.dumps(case.doc, spine_ids=mk(ids), spine_types=mk(types), encoding=Encoding.eKern))
            ctx.seen({'text': case.text, 'clause': 'selection given as ' + name, 'ids': ids, 'types': types}, n >= 2)
            for what_, got, ref in (('spine_ids', got_i, ref_i), ('spine_types', got_t, ref_t), ('both', got_it, ref_it)):
                if got != ref:
                    ctx.fail({'text': case.text, 'clause': 'selection given as ' + name, 'argument': what_, 'spine_ids': ids, 'spine_types': types},
                             'the same selection given as another kind of collection exports differently', impl=got, expected=ref)
        for extra in ([-1], [-n], [n], [n + 3, -2], [-1, -n - 1]):
            got = call(lambda: kp.dumps(case.doc, spine_ids=list(ids) + extra))
            ctx.seen({'text': case.text, 'clause': 'ids that name no spine', 'ids': ids + extra}, n >= 2)
            if got != ref_i:
                ctx.fail({'text': case.text, 'clause': 'ids that name no spine', 'spine_ids': ids + extra},
                         'an id that names no spine (negative or beyond the last) changes the projection', impl=got, expected=ref_i)
    # the spine-type query = header line of the projection
    for case in cases:
        if case.doc is None:
            continue
        hs = case.adoc['headers']
        for t in [None] + subsets(sorted(set(hs))):
            got = call(lambda: kp.spine_types(case.doc, headers=t))
            exp = {'ok': [h for h in hs if t is None or h in t]}
            ctx.seen({'text': case.text, 'headers': t, 'clause': 'spine_types'})
            if got != exp:
                ctx.fail({'text': case.text, 'headers': t, 'clause': 'spine_types'}, 'spine-type query is not the header line of the projection', impl=got, expected=exp)
            elif 'ok' in got and got['ok']:
                # the answer belongs to the caller: after editing it (and asking with the types in another order) the query still answers for the document
                def again():
                    first = kp.spine_types(case.doc, headers=t)
                    first.reverse(); first.append('**edited'); first.pop(0)
                    return kp.spine_types(case.doc, headers=None if t is None else list(reversed(t)))
                g2 = call(again)
                if g2 != exp:
                    ctx.fail({'text': case.text, 'headers': t, 'clause': 'spine_types after the caller edited an earlier answer'},
                             'a repeated spine-type query is affected by edits to the list an earlier query returned', impl=g2, expected=exp)


def replay(ctx, payload):
    explore(ctx, 'quick')


def reproduce(ctx, key, w):
    return False
