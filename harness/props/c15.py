"""C15 — Transposing a document moves pitches and nothing else."""
from __future__ import annotations
import copy
from .util import call, LETTERS

ID = 'C15'
LEAN_MODULE = 'KernProofs.C15'
EXTRA_MODULES = ['KernProofs.C15Doc', 'KernProofs.C15Round']
THEOREMS = ['KM.C15.C15_links_kept', 'KM.C15.C15_non_notes_unchanged', 'KM.C15.mapM_pd', 'KM.C15.C15_note', 'KM.C15.C15_pitch_is_C09', 'KM.C15.C15_bad_arguments', 'KM.C15.C15_source_is_modified', 'KM.C15.C15_accidental_not_merged', 'KM.C15.C15_chords_not_transposed',
            'KM.C15D.nodeStep_skel', 'KM.C15D.nodeStep_tok', 'KM.C15D.C15_same_skeleton', 'KM.C15D.C15_export',
            'KM.C15R.transpose_back', 'KM.C15R.subStep_back', 'KM.C15R.transposeTok_back', 'KM.C15R.nodeStep_back', 'KM.C15R.rows_back', 'KM.C15R.C15_roundtrip']
FINGERPRINTS = ['document.Document', 'transposer.transpose', 'pitch_models.AgnosticPitch', 'pitch_models.HumdrumPitchExporter.export_pitch',
                'pitch_models.HumdrumPitchImporter._parse_pitch', 'tokens.NoteRestToken.export']
RULE = ('core stream: generated documents whose notes are single notes without explicit accidental (all spine types, splits, comments; quick 12 / '
        'thorough 80) x the 40 named intervals x 2 directions: the export of the transposed document is compared with the source grid in which only '
        'the pitch letters of notes are replaced by the C09 specification result (oracle from the abstract document), the call may fail only when a '
        'result needs more than two accidentals (the unused chroma), transposing back must restore the export, and the source document\'s export must be '
        'unchanged by the call; frontier stream: notes with accidentals and chords (quick 10 / thorough 60 documents); all outcomes are compared with the '
        'model, which returns the result AND the source document after the call; non-trivial = interval other than P1 on a document with >= 2 notes')
ASSUMPTIONS = []


def decode(p):
    l = LETTERS.index(p[0].upper())
    o = 3 + len(p) if p[0].islower() else 4 - len(p)
    return l, o


def explore(ctx, depth):
    import docrun, gen, impl
    import kernpy as kp
    from kernpy.core import transposer as TR
    rng = ctx.rng
    ivs = list(TR.IntervalsByName.items())
    core = docrun.make_cases(ctx, 12 if depth == 'quick' else 80, plain_notes=True, max_measures=3)
    # notes written without a duration (a bare pitch: the pitch is the FIRST part of the note) and staves under the percussion clef `*clefP`
    # (a legal clef sign): transposed like every other note (round 6: `if pitch_index:` and "unpitched staves are skipped")
    xdocs = [gen.DocGen(rng, profile='core', plain_notes=True, max_measures=3).make() for _ in range(5 if depth == 'quick' else 40)]
    for xd in xdocs:
        for c in gen.all_cells(xd):
            if c.get('k') == 'note' and rng.random() < 0.35:
                c['dur'] = None
                c['pre'] = []
            elif c.get('k') == 'other' and c.get('kind') == 'clef' and rng.random() < 0.4:
                c['text'] = rng.choice(['*clefP', '*clefP2'])
    core += docrun.make_cases(ctx, 0, docs=xdocs)
    frontier = docrun.make_cases(ctx, 10 if depth == 'quick' else 60, max_measures=3)
    for stream, cases in (('core', core), ('frontier', frontier)):
        for case in cases:
            if case.doc is None:
                continue
            text = case.text
            notes = [c for c in gen.all_cells(case.adoc) if c['k'] == 'note']
            has_acc = any(c['acc'] for c in notes) or any(e['k'] == 'note' and e['acc'] for c in gen.all_cells(case.adoc) if c['k'] == 'chord' for e in c['es'])
            has_chord = any(c['k'] == 'chord' for c in gen.all_cells(case.adoc))
            is_core = stream == 'core' and not has_acc and not has_chord
            base = call(lambda: kp.dumps(kp.loads(text)[0]))
            combos = [(n, v, d) for (n, v) in ivs for d in ('up', 'down')]
            if depth == 'quick':
                combos = rng.sample(combos, 16) + [('P1', 0, 'up'), ('octave', 40, 'down')]
            # C09 specification for every note of the document
            reqs = []
            for (n, v, d) in combos:
                for c in notes:
                    l, o = decode(c['pitch'])
                    reqs.append({'op': 'c09.case', 'l': l, 'a': 0, 'o': o, 'iv': v, 'ivname': n, 'dir': d})
            resp = iter(ctx.driver.ask(reqs))
            mreqs = [{'op': 'doc.transpose', 'text': text, 'oracle': impl.oracle_for_text(text), 'iv': n, 'dir': d} for (n, v, d) in combos]
            mresp = ctx.driver.ask(mreqs)
            docrun.fill_views(ctx, [case], 'kern', docrun.ALLC, '_v')
            for (n, v, d), mr in zip(combos, mresp):
                specs = [next(resp) for _ in notes]
                inp = {'text': text, 'interval': n, 'direction': d}
                src, _ = kp.loads(text)          # a fresh import for every call (the call is known to modify its source)
                if rng.random() < 0.6:
                    # the source has been read before it is transposed: exported in every encoding (read-only calls; whatever they leave behind in
                    # the tree must not reach the result - added after seeded change C15_r5_2, a per-node cache of the agnostic text)
                    from kernpy.core.tokenizers import Encoding as _Enc
                    for e_ in _Enc:
                        call(lambda: kp.dumps(src, encoding=e_))
                d_rt = ''.join(list(d))          # equal to 'up' / 'down', built at run time (not the interned literal)
                def run():
                    t = src.to_transposed(n, d_rt)
                    return t
                r = call(run)
                nt = n != 'P1' and len(notes) >= 2
                if 'ok' not in r:
                    model = {'err': mr['err']} if 'err' in mr else {'ok': True}
                    ctx.check({**inp, 'clause': 'tie: failure'}, {'err': r['err']}, model, None, nontrivial=nt, what='transposition outcome differs from the model')
                    # allowed only when some result is not spellable with at most two accidentals
                    if is_core and all(s['spec'] is not None for s in specs):
                        ctx.fail({**inp, 'clause': 'may fail only when unspellable'}, 'transposition raises although every result is spellable with two accidentals', impl=r)
                    continue
                tdoc = r['ok']
                out = call(lambda: kp.dumps(tdoc))
                after = call(lambda: kp.dumps(src))
                model = mr.get('ok', mr)
                ctx.check({**inp, 'clause': 'tie: result and source after the call'}, {'result': out, 'source_after': after}, model, None, nontrivial=nt,
                          what='result / state of the source after the call differ from the model')
                tie_ok = {'result': out, 'source_after': after} == model
                # source unchanged
                if after != base:
                    ctx.fail({**inp, 'clause': 'source unchanged'}, "the source document's export is changed by the call", impl=after, expected=base,
                             core=False, finding='F14c-source-mutated', tie_ok=tie_ok)
                # expected export: the grid with only the pitch letters replaced
                if is_core and all(s['spec'] is not None for s in specs):
                    repl = {}
                    for c, s in zip(notes, specs):
                        repl[id(c)] = s['spec']['ok']
                    lines = []
                    for row in case.adoc['rows']:
                        if row['kind'] != 'cells':
                            continue
                        cells = []
                        for c in row['cells']:
                            v0 = c['_v']['ok']
                            if id(c) in repl:
                                v0 = v0.replace(c['pitch'], repl[id(c)], 1) if c['pitch'] in v0 else v0
                            cells.append(v0)
                        if cells and not all(x in ('.', '*', '') for x in cells):
                            lines.append('\t'.join(cells))
                    exp = {'ok': ''.join(l + '\n' for l in lines)}
                    if out != exp:
                        ctx.fail({**inp, 'clause': 'pitches moved, nothing else'}, 'the transposed export is not the source export with only the pitch letters replaced by the C09 result',
                                 impl=out, expected=exp)
                    # the transposed document is the document of the transposed text: in every encoding and for every range of measures its export
                    # is the export of the imported expected text (pitch letters moved, nothing else - also not the tree the ranges walk over)
                    if 'ok' in out and out == exp:
                        from kernpy.core.tokenizers import Encoding
                        refdoc = kp.loads(exp['ok'])[0]
                        M_ = len(refdoc.measure_start_tree_stages)
                        kws = [{'encoding': Encoding.agnosticKern}, {'encoding': Encoding.agnosticExtendedKern}, {'encoding': Encoding.eKern}, {'encoding': Encoding.bEkern}]
                        kws += [{'from_measure': a_} for a_ in range(1, M_ + 1)][:3] + ([{'from_measure': 1, 'to_measure': 1}, {'from_measure': M_, 'to_measure': M_, 'encoding': Encoding.agnosticKern}] if M_ else [])
                        for kw in kws:
                            got_t = call(lambda: kp.dumps(tdoc, **kw))
                            got_r = call(lambda: kp.dumps(refdoc, **kw))
                            ctx.seen({**inp, 'clause': 'transposed document under other options', 'options': sorted(kw)}, nt)
                            if got_t != got_r:
                                # finding F14d: the accidental a transposition produces stays inside the PITCH part, so the extended encodings
                                # print no separator in front of it; attributed only when that is the whole difference
                                import re
                                ext = kw.get('encoding') in (Encoding.eKern, Encoding.bEkern, Encoding.agnosticExtendedKern)
                                only_sep = ext and 'ok' in got_t and 'ok' in got_r and (re.sub(r'@(?=[#n-])', '', got_r['ok']) == re.sub(r'@(?=[#n-])', '', got_t['ok']) or
                                                                                        # the new accidental followed by a signifier that the re-import reads as its display suffix (`EE-` + `X`): still only separators differ
                                                                                        re.sub('[@\u00b7]', '', got_r['ok']) == re.sub('[@\u00b7]', '', got_t['ok']))
                                ctx.fail({**inp, 'clause': 'transposed document = document of the transposed text, under every encoding and range',
                                          'options': {k: str(v) for k, v in kw.items()}},
                                         'an export of the transposed document (other encoding / measure range) is not the export of the imported transposed text',
                                         impl=got_t, expected=got_r, core=not only_sep, finding='F14d-accidental-inside-pitch-part' if only_sep else None, tie_ok=True)
                                if not only_sep:
                                    break
                    # transposing back restores the export
                    back = call(lambda: kp.dumps(tdoc.to_transposed(n, 'down' if d == 'up' else 'up')))
                    if back != base:
                        ctx.fail({**inp, 'clause': 'transposing back'}, 'transposing the result back does not restore the source export', impl=back, expected=base)
                elif not is_core:
                    # frontier: accidentals are not merged (F14a), chord notes are not transposed (F14b): compare with the oracle including those notes
                    if has_chord and n != 'P1' and 'ok' in out:
                        chord_texts = [c['_v']['ok'] for c in gen.all_cells(case.adoc) if c['k'] == 'chord']
                        if any(ct in out['ok'] for ct in chord_texts):
                            ctx.fail({**inp, 'clause': 'chord notes transposed'}, 'the notes of a chord are not transposed', impl=None,
                                     core=False, finding='F14b-chords-not-transposed', tie_ok=tie_ok)
                    if has_acc and n not in ('P1', 'octave') and 'ok' in out:
                        ctx.fail({**inp, 'clause': 'accidentals merged'}, 'a note with an explicit accidental keeps its old accidental next to the transposed pitch', impl=None,
                                 core=False, finding='F14a-accidental-not-merged', tie_ok=tie_ok)
    # a long score (more lines than the interpreter's recursion limit): the same statement, on a single spine of plain notes
    import sys
    nrows = 2 * sys.getrecursionlimit() + 300
    letters = ['c', 'd', 'e', 'f', 'g', 'a', 'b', 'cc', 'C', 'G']
    long_lines = ['**kern', '*clefG2']
    long_notes = []
    for i in range(nrows):
        if i % 8 == 0:
            long_lines.append('=%d' % (i // 8 + 1))
        p = letters[(i * 7) % len(letters)]
        long_notes.append(p)
        long_lines.append('4' + p)
    long_lines.append('*-')
    long_text = '\n'.join(long_lines) + '\n'
    for (n, d) in (('M2', 'up'), ('P5', 'down')):
        v = dict(ivs)[n]
        specs = ctx.driver.ask([{'op': 'c09.case', 'l': decode(p)[0], 'a': 0, 'o': decode(p)[1], 'iv': v, 'ivname': n, 'dir': d} for p in letters])
        table = {p: s['spec']['ok'] for p, s in zip(letters, specs)}
        def run_long():
            src = kp.loads(long_text)[0]
            return kp.dumps(src.to_transposed(n, d))
        got = call(run_long)
        exp_lines = []
        k = 0
        for ln in long_lines:
            if ln.startswith('4'):
                exp_lines.append('4' + table[long_notes[k]]); k += 1
            elif ln.startswith('='):
                exp_lines.append('=')
            else:
                exp_lines.append(ln)
        exp = {'ok': '\n'.join(exp_lines) + '\n'}
        ctx.seen({'clause': 'long score', 'rows': nrows, 'interval': n, 'direction': d}, True)
        if got != exp:
            ctx.fail({'clause': 'long score', 'rows': nrows, 'interval': n, 'direction': d, 'text_head': long_text[:80]},
                     'transposing a long single-spine score of plain notes is not the score with its pitch letters replaced by the C09 result',
                     impl=str(got)[:300], expected=exp['ok'][:300])
    # bad arguments
    d0, _ = kp.loads('**kern\n*clefG2\n4c\n*-\n')
    for n, d in (('M99', 'up'), ('M2', 'sideways'), ('', 'up')):
        r = call(lambda: d0.to_transposed(n, d))
        m = ctx.driver.ask([{'op': 'doc.transpose', 'text': '**kern\n*clefG2\n4c\n*-\n', 'oracle': impl.oracle_for_text('**kern\n*clefG2\n4c\n*-\n'), 'iv': n, 'dir': d}])[0]
        ctx.check({'interval': n, 'direction': d, 'clause': 'bad arguments'}, {'err': r.get('err')}, {'err': m.get('err')}, {'err': 'ValueError'}, nontrivial=False,
                  what='an unknown interval / direction is not rejected with ValueError')


def replay(ctx, payload):
    explore(ctx, 'quick')


def reproduce(ctx, key, w):
    import kernpy as kp
    d, _ = kp.loads(w['input']['text'])
    before = kp.dumps(d)
    t = d.to_transposed(w['input']['interval'], w['input']['direction'])
    if key == 'F14c-source-mutated':
        return kp.dumps(d) != before
    if key == 'F14d-accidental-inside-pitch-part':
        from kernpy.core.tokenizers import Encoding
        return kp.dumps(t, encoding=Encoding.eKern) == w['impl'] and kp.dumps(kp.loads(kp.dumps(t))[0], encoding=Encoding.eKern) == w['expected']
    return kp.dumps(t) == w['impl']
