"""C14 — The read-only API is pure and history-independent."""
from __future__ import annotations
import copy, itertools, os, shutil, tempfile
from .util import call

ID = 'C14'
LEAN_MODULE = 'KernProofs.C14'
THEOREMS = ['KM.C14.C14_step_pure', 'KM.C14.C14_pure', 'KM.C14.C14_two_imports', 'KM.C14.C14_write_sites']
FINGERPRINTS = ['exporter.Exporter.export_string', 'exporter.Exporter.append_row', 'exporter.Exporter.export_token', 'exporter.ExportOptions', 'document.Document',
                'document.TokensTraversal', 'document.MetacommentsTraversal', 'generic.Generic', 'public', 'tokens.NoteRestToken.export',
                'tokenizers.TokenizerFactory.create', 'tokens.TokenCategoryHierarchyMapper.valid']
RULE = ('generated documents (quick 12 / thorough 120) x random sequences of 12 read-only operations (dumps with arbitrary options incl. ones that raise, '
        'token / unique / frequency / metacomment queries, spine_types, is_monophonic, iteration, measures_count, first measure, graph export): after every '
        'call a deep snapshot of the tree (tokens, sub-tokens, links, signature dicts, cancelled stages, measure index, header stage) and of the module '
        'constants (HEADERS, CORE_HEADERS, SPINE_OPERATIONS, BEKERN_CATEGORIES, NON_CORE_CATEGORIES, the hierarchy, Chromas, Intervals, '
        'ExportOptions.default()) is compared with the one taken before, and every result with the result of the same call on a second, fresh import '
        'of the same text; non-trivial = a history containing a raising call and a filtered export; distinct = (document, history)')
ASSUMPTIONS = ['the write-site inventory covers direct attribute / subscript assignments and mutating method calls whose receiver is not a local of the function',
               'the pure model cannot exhibit hidden mutation: that part rests on the inventory theorem and the snapshots']


class ArgumentMutated(BaseException):
    pass


def constants():
    from kernpy.core import tokens as T, pitch_models as P, transposer as TR
    from kernpy.core.exporter import ExportOptions
    d = ExportOptions.default()
    return copy.deepcopy({
        'HEADERS': sorted(T.HEADERS), 'CORE_HEADERS': sorted(T.CORE_HEADERS), 'SPINE_OPERATIONS': sorted(T.SPINE_OPERATIONS),
        'BEKERN': sorted(c.name for c in T.BEKERN_CATEGORIES), 'NON_CORE': sorted(c.name for c in T.NON_CORE_CATEGORIES),
        'hierarchy': repr(T.TokenCategoryHierarchyMapper.hierarchy), 'Chromas': dict(P.Chromas), 'ByValue': dict(P.ChromasByValue), 'Intervals': dict(TR.Intervals),
        'default_options': [sorted(d.spine_types), [c.name for c in d.token_categories], d.from_measure, d.to_measure, d.kern_type.value, d.instruments,
                            d.show_measure_numbers, d.spine_ids],
    })


def make_ops(rng, case, tmpdir, fixed=False):
    import kernpy as kp
    from kernpy.core.tokens import TokenCategory as TC
    from kernpy.core.tokenizers import Encoding
    cats = list(TC)
    hs = case.adoc['headers']
    M = 6

    def dumps_op():
        kw = {}
        if rng.random() < 0.5:
            kw['spine_types'] = rng.sample(sorted(set(hs)) + ['**none'], rng.randint(0, len(set(hs))))
        if rng.random() < 0.4:
            kw['spine_ids'] = rng.sample(range(len(hs) + 1), rng.randint(0, len(hs)))
        from kernpy.core import tokens as T
        if rng.random() < 0.6:
            # also the shared category sets themselves, passed the way the documentation does (kp.BEKERN_CATEGORIES)
            kw['include'] = rng.choice([rng.sample(cats, rng.randint(1, 6)), set(rng.sample(cats, 3)), TC.CORE, 'not-a-category',
                                        T.BEKERN_CATEGORIES, T.NON_CORE_CATEGORIES])
        if rng.random() < 0.5:
            kw['exclude'] = rng.choice([rng.sample(cats, rng.randint(0, 4)), TC.DECORATION, {TC.DURATION}, T.NON_CORE_CATEGORIES])
        if 'spine_types' in kw and rng.random() < 0.3:
            kw['spine_types'] = T.HEADERS if rng.random() < 0.5 else T.CORE_HEADERS
        if rng.random() < 0.7:
            kw['encoding'] = rng.choice(list(Encoding.__members__.values()))
        if rng.random() < 0.4:
            kw['from_measure'] = rng.randint(-1, M)
        if rng.random() < 0.4:
            kw['to_measure'] = rng.randint(-1, M + 1)
        desc = 'dumps(' + ', '.join('%s=%s' % (k, _short(v)) for k, v in sorted(kw.items())) + ')'

        def run(d):
            before = copy.deepcopy(kw)
            try:
                return kp.dumps(d, **kw)
            finally:
                if kw != before:
                    raise ArgumentMutated('dumps modified an argument object passed by the caller: %s' % sorted(k for k in kw if kw[k] != before[k]))
        return desc, run
    pool = [
        lambda: ('get_all_tokens()', lambda d: [(t.encoding, t.category.name) for t in d.get_all_tokens()]),
        lambda: (lambda f: ('get_all_tokens(%s)' % _short(f), lambda d: [(t.encoding, t.category.name) for t in d.get_all_tokens(filter_by_categories=f)]))(rng.sample(cats, rng.randint(0, 4))),
        lambda: (lambda f: ('get_unique_tokens(%s)' % _short(f), lambda d: [(t.encoding, t.category.name) for t in d.get_unique_tokens(filter_by_categories=f)]))(rng.sample(cats, rng.randint(1, 4))),
        lambda: ('get_unique_token_encodings()', lambda d: d.get_unique_token_encodings()),
        lambda: ('frequencies()', lambda d: d.frequencies()),
        lambda: (lambda f: ('frequencies(%s)' % _short(f), lambda d: d.frequencies(token_categories=f)))(rng.sample(cats, 2)),
        lambda: ('get_metacomments()', lambda d: d.get_metacomments()),
        lambda: ('get_metacomments(COM, clear)', lambda d: d.get_metacomments(KeyComment='COM', clear=True)),
        lambda: ('spine_types()', lambda d: kp.spine_types(d)),
        lambda: (lambda t: ('spine_types(%s)' % t, lambda d: kp.spine_types(d, headers=t)))(rng.choice([['**kern'], [], ['**text', '**kern']])),
        lambda: ('is_monophonic', lambda d: kp.is_monophonic(d)),
        lambda: ('list(doc)', lambda d: list(d)),
        lambda: ('next(doc)', lambda d: d.__next__()),
        lambda: ('measures_count', lambda d: d.measures_count()),
        lambda: ('get_first_measure', lambda d: d.get_first_measure()),
        lambda: ('get_spine_ids', lambda d: d.get_spine_ids()),
        lambda: ('get_voices', lambda d: [t.encoding for t in d.get_voices()]),
        lambda: ('graph', lambda d: (kp.graph(d, os.path.join(tmpdir, 'g.dot')), open(os.path.join(tmpdir, 'g.dot')).read().count('->'))[1]),
        lambda: ('hash/str of tokens', lambda d: [str(t) for t in d.get_all_tokens()][:50]),
        lambda: ('iteration left with break', lambda d: [m for m in itertools.islice(iter(d), 1)]),
        lambda: ('nested iteration', lambda d: [(a, b) for a in itertools.islice(iter(d), 50) for b in itertools.islice(iter(d), 50)]),
        lambda: ('zip(doc, doc)', lambda d: list(itertools.islice(zip(d, d), 50))),
        lambda: ('iterator held across another iteration', lambda d: (lambda it: (next(it, None), list(itertools.islice(iter(d), 50)), list(itertools.islice(it, 50))))(iter(d))),
        lambda: ('graph to a directory that does not exist', lambda d: kp.graph(d, os.path.join(tmpdir, 'missing', 'g.dot'))),
        lambda: ('graph to a path that is a directory', lambda d: kp.graph(d, tmpdir)),
        lambda: ('graph text', lambda d: (kp.graph(d, os.path.join(tmpdir, 'g2.dot')), _canon_dot(open(os.path.join(tmpdir, 'g2.dot')).read()))[1]),
    ]
    if fixed:
        # one fixed history per document: failing graph exports before successful ones, every form of iteration before next(doc)
        order = [23, 25, 24, 17, 11, 12, 19, 12, 20, 21, 22, 12, 25]
        return [pool[k]() for k in order] + [dumps_op()]
    ops = []
    for _ in range(12):
        ops.append(dumps_op() if rng.random() < 0.5 else rng.choice(pool)())
    return ops


def _canon_dot(text):
    """node names are object addresses: numbered by first appearance"""
    import re
    seen = {}
    return re.sub(r'node\d+', lambda m: seen.setdefault(m.group(0), 'n%d' % len(seen)), re.sub(r'#\d+', '#', text))


def _short(v):
    if isinstance(v, (list, tuple, set)):
        return '[' + ','.join(sorted(_short(x) for x in v)) + ']'
    return getattr(v, 'name', None) or getattr(v, 'value', None) and str(v.value) or str(v)


def explore(ctx, depth):
    import docrun, impl
    import kernpy as kp
    rng = ctx.rng
    cases = docrun.make_cases(ctx, 12 if depth == 'quick' else 120, max_measures=4)
    # documents with a spine of a type the library has no importer for (the default spine-type set does not contain it)
    cases += docrun.make_cases(ctx, 4 if depth == 'quick' else 30, max_measures=3, unknown=True)
    docrun.reuse_objects(ctx, cases, steps=120)
    tmpdir = tempfile.mkdtemp(prefix='kernverif_c14_')
    try:
        for case in cases:
            if case.doc is None:
                continue
            # an absolute reference that does not pass through the library: the Lean specification of dumps(loads(text)) for two option sets
            from kernpy.core.tokenizers import Encoding
            ref = docrun.model_exports(ctx, [case], [[{'cats': docrun.ALLC, 'enc': 'kern'}, {'cats': docrun.ALLC, 'enc': 'ekern'}]])[0]
            refs = list(zip(('kern', 'ekern'), ref.get('spec') or [])) if ref.get('wf') else []
            for h in range(2 if depth == 'quick' else 3):
                ops = make_ops(rng, case, tmpdir, fixed=(h == 0))
                doc = kp.loads(case.text)[0]
                snap0 = impl.doc_obs(doc, [])
                const0 = constants()
                hist = []
                raised = False
                firsts = []
                completed = False
                for desc, fn in ops:
                    hist.append(desc)
                    try:
                        r = call(lambda: fn(doc))
                    except ArgumentMutated as e:
                        ctx.fail({'text': case.text, 'history': list(hist), 'clause': 'arguments unchanged'}, str(e))
                        break
                    firsts.append(r)
                    raised |= 'err' in r
                    fresh = kp.loads(case.text)[0]
                    r2 = call(lambda: fn(fresh))
                    inp = {'text': case.text, 'history': list(hist)}
                    ctx.seen(inp, raised)
                    if r != r2:
                        ctx.fail({**inp, 'clause': 'same result as on a fresh import'}, 'after a history of read-only calls a call returns something else than on a freshly imported copy',
                                 impl=_clip(r), expected=_clip(r2))
                        break
                    snap = impl.doc_obs(doc, [])
                    if snap != snap0:
                        ctx.fail({**inp, 'clause': 'document unchanged'}, 'a read-only call changed the document (tree, tokens, signature dicts, measure index)')
                        break
                    c1 = constants()
                    if c1 != const0:
                        ctx.fail({**inp, 'clause': 'shared defaults unchanged'}, 'a read-only call modified a module constant or the default options',
                                 impl=[k for k in c1 if c1[k] != const0[k]])
                        break
                else:
                    completed = True
                if completed:
                    # second pass: the same calls again, after the whole history, on the same document AND on a fresh import: each must give
                    # what it gave the first time (a fresh import in the same process shares every module-level cache, so "same as on a fresh
                    # import" alone cannot see state that lives in the library rather than in the document)
                    fresh2 = kp.loads(case.text)[0]
                    for k, (desc, fn) in enumerate(ops):
                        if desc.startswith('next('):
                            continue
                        try:
                            again = call(lambda: fn(doc))
                            again_fresh = call(lambda: fn(fresh2))
                        except ArgumentMutated:
                            continue
                        if again != firsts[k] or again_fresh != firsts[k]:
                            ctx.fail({'text': case.text, 'history': list(hist), 'repeated_call': desc, 'clause': 'the same call later in the same process'},
                                     'a call gives another result when it is repeated after other read-only calls (on the same document or on a fresh import)',
                                     impl=_clip(again if again != firsts[k] else again_fresh), expected=_clip(firsts[k]))
                            break
                # after the history the plain exports are still what the specification says (state that lives in the library - caches, shared
                # option objects - is invisible to comparisons between two documents of the same process)
                for enc, want in refs:
                    if want is None:
                        continue
                    now = call(lambda: kp.dumps(doc, encoding=Encoding(enc)))
                    ctx.seen({'text': case.text, 'history': list(hist), 'clause': 'export after the history', 'enc': enc}, True)
                    if now != want:
                        ctx.fail({'text': case.text, 'history': list(hist), 'encoding': enc, 'clause': 'export after the history = specification'},
                                 'after a history of read-only calls the plain export is no longer what the specification of dumps(loads(text)) says',
                                 impl=_clip(now), expected=_clip(want))
                        break
                ctx.count('histories')
            # two imports are indistinguishable
            a, b = kp.loads(case.text)[0], kp.loads(case.text)[0]
            if impl.doc_obs(a, []) != impl.doc_obs(b, []) or call(lambda: kp.dumps(a)) != call(lambda: kp.dumps(b)):
                ctx.fail({'text': case.text, 'clause': 'two imports'}, 'two imports of the same text differ')
    finally:
        shutil.rmtree(tmpdir, ignore_errors=True)


def _clip(x):
    s = str(x)
    return s if len(s) < 600 else s[:600] + '...'


def replay(ctx, payload):
    explore(ctx, 'quick')


def reproduce(ctx, key, w):
    return False
