#!/bin/sh
# Runs every registered check once (tier $1, default quick) on the current /repo tree and prints one line per check.
# Used to regenerate evidence/*.json on the clean tree before committing.
cd "$(dirname "$0")/.." || exit 2
tier=${1:-quick}
rc_all=0
for id in $(/venv/bin/python -c "import json; print(' '.join(c['property_id'] for c in json.load(open('MANIFEST.json'))['checks']))"); do
  out=$(./check "$id" "$tier" 2>&1); rc=$?
  echo "$out" | grep -E "^(VIOLATION|$id $tier|TIMEOUT|INFRA)" | head -3
  [ $rc -ne 0 ] && rc_all=1
done
exit $rc_all
