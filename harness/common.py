"""
Shared machinery of the checks: paths, lake build (under a lock), audits, the Lean driver process,
verdict logic, known findings, evidence and replay files.

Exit codes: 0 = property held on everything explored (theorems + tie check), 1 = VIOLATION printed,
2 = infrastructure problem / timeout (never a verdict).
"""
from __future__ import annotations
import fcntl, hashlib, json, os, random, re, shutil, signal, subprocess, sys, tempfile, time
from pathlib import Path

VERIF = Path(__file__).resolve().parent.parent
REPO = Path(os.environ.get('KERNPY_REPO', '/repo'))
LEAN = VERIF / 'lean'
DRIVER = LEAN / '.lake' / 'build' / 'bin' / 'kerndriver'
EVIDENCE = VERIF / 'evidence'
REPLAYS = VERIF / 'replays'
FINDINGS_FILE = VERIF / 'KNOWN_FINDINGS.txt'
BASELINE_FP = VERIF / 'harness' / 'fingerprints_baseline.json'
ALLOWED_AXIOMS = {'propext', 'Classical.choice', 'Quot.sound'}
FORBIDDEN = re.compile(r'\b(sorry|admit|native_decide|bv_decide|implemented_by|unsafe)\b|^\s*axiom\s|maxHeartbeats\s+0\b', re.M)

TRUSTED_BASE = [
    'Lean 4.33 kernel (thorough tier: additionally leanchecker on the compiled proofs)',
    'axioms: at most propext, Classical.choice, Quot.sound (audited with #print axioms on every run)',
    "Lean compiler for the native driver (the theorems never depend on it)",
    'harness/extract.py (translator of literal tables) and the correspondence harness with its canonicalisation',
    'CPython, the ANTLR runtime and the generated kernSpine parser (modelled as a parameter / by correspondence)',
]


class Infra(Exception):
    pass


def sh(cmd, cwd=None, timeout=None, env=None):
    e = dict(os.environ)
    if env:
        e.update(env)
    p = subprocess.run(cmd, cwd=cwd, stdout=subprocess.PIPE, stderr=subprocess.STDOUT, text=True, timeout=timeout, env=e)
    return p.returncode, p.stdout


class LakeLock:
    def __enter__(self):
        (LEAN / '.lake').mkdir(exist_ok=True)
        self.f = open(LEAN / '.lake' / 'verif.lock', 'w')
        fcntl.flock(self.f, fcntl.LOCK_EX)
        return self

    def __exit__(self, *a):
        fcntl.flock(self.f, fcntl.LOCK_UN)
        self.f.close()


def lake_build(targets, timeout=3000):
    with LakeLock():
        rc, out = sh(['lake', 'build', *targets], cwd=LEAN, timeout=timeout)
    return rc, out


# ------------------------------------------------------------------ audits
def strip_lean_comments(s: str) -> str:
    out = []
    i, n, depth = 0, len(s), 0
    in_str = False
    while i < n:
        if depth == 0 and not in_str and s.startswith('--', i):
            j = s.find('\n', i)
            i = n if j < 0 else j
            continue
        if not in_str and s.startswith('/-', i):
            depth += 1; i += 2; continue
        if depth > 0 and s.startswith('-/', i):
            depth -= 1; i += 2; continue
        if depth > 0:
            if s[i] == '\n':
                out.append('\n')
            i += 1; continue
        c = s[i]
        if c == '"' and (i == 0 or s[i - 1] != '\\'):
            in_str = not in_str
        out.append(c)
        i += 1
    return ''.join(out)


def textual_audit():
    """forbidden constructs anywhere in model / proofs / driver, outside comments"""
    hits = []
    for sub in ('KernModel', 'KernProofs', 'KernDriver'):
        for p in sorted((LEAN / sub).rglob('*.lean')):
            txt = strip_lean_comments(p.read_text(encoding='utf-8'))
            # string literals may legitimately contain words; drop them
            txt = re.sub(r'"(?:[^"\\]|\\.)*"', '""', txt)
            for m in FORBIDDEN.finditer(txt):
                line = txt.count('\n', 0, m.start()) + 1
                hits.append(f'{p.relative_to(LEAN)}:{line}: {m.group(0).strip()}')
    return hits


def axiom_audit(module: str, theorems: list[str], timeout=900, extra_modules=()):
    """#print axioms for every property theorem; returns (per-theorem axioms dict, problems)"""
    d = LEAN / '.lake' / 'audit'
    d.mkdir(parents=True, exist_ok=True)
    f = d / (module.replace('.', '_') + '.lean')
    f.write_text(''.join(f'import {m}\n' for m in [module, *extra_modules]) + ''.join(f'#print axioms {t}\n' for t in theorems))
    with LakeLock():
        rc, out = sh(['lake', 'env', 'lean', str(f)], cwd=LEAN, timeout=timeout)
    res, problems = {}, []
    flat = re.sub(r'\s+', ' ', out)
    for t in theorems:
        m = re.search(r"'" + re.escape(t) + r"' depends on axioms: \[([^\]]*)\]", flat)
        if m:
            ax = [a.strip() for a in m.group(1).split(',') if a.strip()]
            res[t] = ax
            bad = [a for a in ax if a not in ALLOWED_AXIOMS]
            if bad:
                problems.append(f'{t} depends on disallowed axioms {bad}')
        elif re.search(r"'" + re.escape(t) + r"' does not depend on any axioms", flat):
            res[t] = []
        else:
            problems.append(f'{t}: no #print axioms result (theorem missing or does not check)')
    if rc != 0 and not problems:
        problems.append('audit file failed: ' + out[-400:])
    return res, problems


# ------------------------------------------------------------------ driver
class Driver:
    def __init__(self):
        self.available = DRIVER.exists()
        self.calls = 0

    def ask(self, requests: list[dict], timeout=1800) -> list[dict]:
        if not self.available:
            raise Infra('driver not built')
        if not requests:
            return []
        self.calls += len(requests)
        data = ''.join(json.dumps(r, ensure_ascii=False, separators=(',', ':')) + '\n' for r in requests)
        p = subprocess.run([str(DRIVER)], input=data.encode('utf-8'), stdout=subprocess.PIPE, stderr=subprocess.PIPE, timeout=timeout)
        lines = p.stdout.decode('utf-8').splitlines()
        if len(lines) != len(requests):
            raise Infra(f'driver answered {len(lines)} lines for {len(requests)} requests; stderr={p.stderr.decode()[-300:]}')
        out = [json.loads(l) for l in lines]
        for r, o in zip(requests, out):
            if isinstance(o, dict) and 'driver_error' in o:
                raise Infra(f'driver error {o["driver_error"]} on {json.dumps(r)[:300]}')
        return out


# ------------------------------------------------------------------ known findings
def load_findings():
    open_, fixed = [], []
    if FINDINGS_FILE.exists():
        for line in FINDINGS_FILE.read_text(encoding='utf-8').splitlines():
            line = line.strip()
            if line.startswith('finding:'):
                kv = dict(re.findall(r'(\w+)=(\S+)', line))
                rest = line.split('witness=' + kv.get('witness', ''), 1)[-1].strip() if 'witness' in kv else line
                open_.append(dict(property=kv.get('property'), key=kv.get('key'), witness=kv.get('witness'), what=rest))
            elif line.startswith('fixed:'):
                kv = dict(re.findall(r'(\w+)=(\S+)', line))
                fixed.append(dict(property=kv.get('property'), line=line))
    return open_, fixed


# ------------------------------------------------------------------ context / verdict
class Ctx:
    def __init__(self, prop_id, tier, seed):
        self.prop_id, self.tier, self.seed = prop_id, tier, seed
        self.rng = random.Random(seed)
        self.t0 = time.time()
        self.driver = Driver()
        self.evaluations = 0
        self.nontrivial = set()
        self.samples = []
        self.disagreements = []      # impl != model (tie broken)
        self.failures = []           # property fails on the implementation (not attributed to a known finding)
        self.known_hits = {}         # finding key -> count of explored inputs attributed to it
        self.hist = {}
        self.exhaustive = None
        self.notes = []
        self.broken = []             # proof / audit / translator problems (strings)
        open_, fixed = load_findings()
        self.open_findings = [f for f in open_ if f['property'] == prop_id]
        self.fixed_findings = [f for f in fixed if f['property'] == prop_id]
        self.escalated = False

    # -- bookkeeping
    def count(self, key, n=1):
        self.hist[key] = self.hist.get(key, 0) + n

    def sample(self, x, limit=6):
        if len(self.samples) < limit:
            self.samples.append(x)

    def seen(self, x, nontrivial=True):
        self.evaluations += 1
        if nontrivial:
            h = hashlib.blake2b(json.dumps(x, sort_keys=True, ensure_ascii=False, default=str).encode(), digest_size=8).digest()
            self.nontrivial.add(h)

    def check(self, inp, impl, model, spec, *, core=True, finding=None, what='', nontrivial=True):
        """one explored input: correspondence (impl vs model) and property (impl vs spec).
        `spec is None` means the property says nothing about this observation (only the tie is checked)."""
        self.seen(inp, nontrivial)
        self.sample({'input': inp, 'impl': impl})
        ok_tie = (model is None) or impl == model
        ok_prop = (spec is None) or impl == spec
        if not ok_prop:
            attributed = None
            if finding is not None and ok_tie and not core:
                if any(f['key'] == finding for f in self.open_findings):
                    attributed = finding
            if attributed:
                self.known_hits[attributed] = self.known_hits.get(attributed, 0) + 1
            else:
                self.failures.append(dict(input=inp, impl=impl, expected=spec, model=model, core=core, what=what))
        if not ok_tie:
            self.disagreements.append(dict(input=inp, impl=impl, model=model, what=what))
        return ok_prop and ok_tie

    def fail(self, inp, what, impl=None, expected=None, core=True, finding=None, tie_ok=True):
        """a property clause evaluated directly on the implementation failed"""
        if finding is not None and tie_ok and not core and any(f['key'] == finding for f in self.open_findings):
            self.known_hits[finding] = self.known_hits.get(finding, 0) + 1
            return
        self.failures.append(dict(input=inp, impl=impl, expected=expected, core=core, what=what))
        # a violation is established by the first failing input; a few hundred are kept to pick the smallest replay from, then the exploration
        # stops (a broken implementation can fail on every input, and each failure costs a full evaluation)
        if len(self.failures) >= MAX_FAILURES or (len(self.failures) >= 25 and self.elapsed() > 300):
            raise EnoughFailures()

    def elapsed(self):
        return time.time() - self.t0


MAX_FAILURES = 400


class EnoughFailures(Exception):
    """raised by Ctx.fail once enough failing inputs have been collected"""


def write_replay(prop_id, payload) -> Path:
    d = REPLAYS / prop_id
    d.mkdir(parents=True, exist_ok=True)
    h = hashlib.blake2b(json.dumps(payload, sort_keys=True, ensure_ascii=False, default=str).encode(), digest_size=6).hexdigest()
    p = d / f'{h}.json'
    p.write_text(json.dumps(payload, indent=1, ensure_ascii=False, default=str), encoding='utf-8')
    return p


def size_of(x) -> int:
    return len(json.dumps(x, ensure_ascii=False, default=str))


def prop_modules(prop):
    """the Lean modules that hold a property's theorems"""
    return [prop.LEAN_MODULE] + list(getattr(prop, 'EXTRA_MODULES', []))


def write_evidence(ctx: Ctx, prop, obligations, discharged, axioms, violations, extra=None):
    EVIDENCE.mkdir(exist_ok=True)
    cov = {
        'obligations': max(1, len(obligations)),
        'discharged': discharged,
        'checker_cmd': f'cd lean && lake build {" ".join(prop_modules(prop))} && lake env lean .lake/audit/{prop.LEAN_MODULE.replace(".", "_")}.lean'
                       + (' && lake env leanchecker ' + ' '.join(prop_modules(prop)) if ctx.tier == 'thorough' else ''),
        'trusted_base': TRUSTED_BASE + list(getattr(prop, 'TRUSTED_EXTRA', [])),
        'theorems': [{'name': t, 'axioms': axioms.get(t)} for t in obligations],
        'evaluations': max(1, ctx.evaluations),
        'distinct_nontrivial': len(ctx.nontrivial),
        'rule': getattr(prop, 'RULE', ''),
        'samples': ctx.samples or [{'note': 'no input explored'}],
        'traces_validated_against_impl': ctx.evaluations,
        'correspondence_disagreements': len(ctx.disagreements),
        'property_failures_on_impl': len(ctx.failures),
        'known_finding_hits': ctx.known_hits,
        'histograms': ctx.hist,
        'driver_requests': ctx.driver.calls,
        'escalated_to_thorough_plan': ctx.escalated,
        'broken_obligations': ctx.broken,
        'notes': ctx.notes,
    }
    if ctx.exhaustive is not None:
        cov['exhaustive'] = bool(ctx.exhaustive)
    if extra:
        cov.update(extra)
    ev = {
        'property_id': ctx.prop_id,
        'tier': ctx.tier,
        'seed': ctx.seed,
        'level': 'proof',
        'coverage': cov,
        'assumptions': list(getattr(prop, 'ASSUMPTIONS', [])),
        'wall_s': round(ctx.elapsed(), 2),
        'violations': violations,
    }
    (EVIDENCE / f'{ctx.prop_id}.json').write_text(json.dumps(ev, indent=1, ensure_ascii=False, default=str), encoding='utf-8')
