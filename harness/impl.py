"""The real kernpy, in-process: document observations, the per-cell parser oracle, exports."""
from __future__ import annotations
import warnings
import tokobs

warnings.simplefilter('ignore')
_ORACLE = {}
SPINE_OPS = {'*-', '*+', '*^', '*v', '*x'}


def cell_oracle(header, cell):
    """what createImporter(header).import_token(cell) does on a *fresh* importer: observation or None (raised)"""
    key = header + '\x1f' + cell
    if key not in _ORACLE:
        from kernpy.core.importer_factory import createImporter
        try:
            t = createImporter(header).import_token(cell)
            _ORACLE[key] = tokobs.obs(t) if t is not None else None
        except Exception:  # noqa
            _ORACLE[key] = None
    return key, _ORACLE[key]


def oracle_for_text(text, headers=None):
    """oracle table for every (header, cell) that can meet in this text"""
    lines = text.splitlines()
    hs = set(headers or [])
    cells = set()
    for l in lines:
        for c in l.split('\t'):
            if c.startswith('**'):
                hs.add(c)
            elif c and not c.startswith('!') and c not in SPINE_OPS:
                cells.add(c)
    table = []
    for h in sorted(hs):
        for c in sorted(cells):
            table.append(list(cell_oracle(h, c)))
    return table


def coord_map(doc):
    m = {}
    for s, st in enumerate(doc.tree.stages):
        for i, n in enumerate(st):
            m[id(n)] = [s, i]
    return m


def doc_obs(doc, importer_errors):
    m = coord_map(doc)
    stages = []
    cancelled = []
    for s, st in enumerate(doc.tree.stages):
        row = []
        for i, n in enumerate(st):
            t = n.token
            row.append({
                'tok': tokobs.obs(t) if t is not None else None,
                'parent': m.get(id(n.parent)) if n.parent is not None else None,
                'hdr': m.get(id(n.header_node)) if n.header_node is not None else None,
                'sigs': [[k, m.get(id(v))] for k, v in n.last_signature_nodes.nodes.items()],
                'lastop': m.get(id(n.last_spine_operator_node)) if n.last_spine_operator_node is not None else None,
            })
            if t is not None and type(t).__name__ == 'SpineOperationToken' and t.cancelled_at_stage is not None:
                cancelled.append([[s, i], t.cancelled_at_stage])
        stages.append(row)
    return {'stages': stages, 'starts': list(doc.measure_start_tree_stages), 'header_stage': doc.header_stage,
            'cancelled': sorted(cancelled), 'errors': [[e.line, e.encoding] for e in importer_errors]}


def canon_model_doc(d):
    d = dict(d)
    d['cancelled'] = sorted(d.get('cancelled', []))
    for st in d['stages']:
        for n in st:
            if n['tok'] is not None and n['tok'].get('cls') == 'ErrorToken':
                pass
    return d


def import_text(text):
    import kernpy as kp
    from kernpy.core import Importer
    imp = Importer()
    doc = imp.import_string(text)
    return doc, imp.errors


def export(doc, o):
    """o: dict(types, ids, cats (category objects or None), from, to, enc) -> string, through the Exporter"""
    from kernpy.core import Exporter, ExportOptions
    from kernpy.core.tokenizers import Encoding
    from kernpy.core.tokens import TokenCategory as TC
    opts = ExportOptions.default()
    if o.get('types') is not None:
        opts.spine_types = list(o['types'])
    if o.get('ids') is not None:
        opts.spine_ids = list(o['ids'])
    cats = list(TC)
    opts.token_categories = set(cats[i] for i in o['cats'])
    opts.from_measure = o.get('from')
    opts.to_measure = o.get('to')
    opts.kern_type = Encoding(o.get('enc', 'kern'))
    return Exporter().export_string(doc, opts)
