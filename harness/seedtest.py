"""
Evaluate a seeded change:  seedtest.py <seed_dir> <worktree> [--keep <name>]

1. in the scratch worktree: demo passes on the clean tree, fails with the patch; the 276 pinned tests still pass with the patch;
2. in /repo: apply the patch, run ./check <prop> quick (then thorough if quick misses), always undo;
3. with --keep: copy patch.diff, demo.py, meta.json (+ what was run, which check caught it) to /verif/seeded/<name>/.
"""
import json, os, shutil, subprocess, sys, tempfile, xml.etree.ElementTree as ET
from pathlib import Path

V = Path(__file__).resolve().parent.parent


def sh(cmd, cwd=None, env=None, timeout=3600):
    e = dict(os.environ)
    e.update(env or {})
    p = subprocess.run(cmd, cwd=cwd, env=e, stdout=subprocess.PIPE, stderr=subprocess.STDOUT, text=True, timeout=timeout, shell=isinstance(cmd, str))
    return p.returncode, p.stdout


def suite_ok(wt):
    base = json.load(open('/root/.vp/BASELINE.json'))
    with tempfile.TemporaryDirectory() as d:
        x = os.path.join(d, 'j.xml')
        sh(['/venv/bin/python', '-m', 'pytest', '-q', '-p', 'no:cacheprovider', '--timeout=900', '--continue-on-collection-errors', f'--junitxml={x}'],
           cwd=wt, env={'PYTHONPATH': str(wt), 'PYTHONDONTWRITEBYTECODE': '1'})
        passed = set()
        for tc in ET.parse(x).getroot().iter('testcase'):
            if not any(ch.tag in ('failure', 'error', 'skipped') for ch in tc):
                passed.add(f"{tc.get('classname')}::{tc.get('name')}")
    missing = [t for t in base['stable_pass'] if t not in passed]
    return missing


def main():
    seed = Path(sys.argv[1]).resolve()
    wt = Path(sys.argv[2]).resolve()
    keep = sys.argv[sys.argv.index('--keep') + 1] if '--keep' in sys.argv else None
    meta = json.loads((seed / 'meta.json').read_text())
    prop = meta['property']
    patch = seed / 'patch.diff'
    env = {'PYTHONPATH': str(wt), 'PYTHONDONTWRITEBYTECODE': '1'}
    report = {'property': prop, 'seed': str(seed)}
    pre = seed / 'validated.json'
    if os.environ.get('SEEDTEST_VALIDATE_ONLY') or not pre.exists():
        pass
    else:
        # step 1 was done beforehand by `seedtest.py ... ` with SEEDTEST_VALIDATE_ONLY=1 (in the scratch worktree, in parallel with other seeds)
        v = json.loads(pre.read_text())
        rc0, rc1, missing, out1 = v['demo_clean_rc'], v['demo_patched_rc'], v['pinned_tests_missing'], ''
        print(f'{seed.name}: (validated beforehand) demo clean rc={rc0} patched rc={rc1}; pinned tests missing with patch: {len(missing)}')
        return after_validation(seed, wt, keep, meta, prop, patch, report, rc0, rc1, missing, out1)
    sh(['git', '-C', str(wt), 'checkout', '--', '.'])
    rc0, out0 = sh(['/venv/bin/python', str(seed / 'demo.py')], cwd=wt, env=env)
    rc, out = sh(['git', '-C', str(wt), 'apply', str(patch)])
    if rc != 0:
        print('patch does not apply in worktree:', out); return 2
    rc1, out1 = sh(['/venv/bin/python', str(seed / 'demo.py')], cwd=wt, env=env)
    missing = suite_ok(wt)
    sh(['git', '-C', str(wt), 'checkout', '--', '.'])
    if os.environ.get('SEEDTEST_VALIDATE_ONLY'):
        pre.write_text(json.dumps({'demo_clean_rc': rc0, 'demo_patched_rc': rc1, 'pinned_tests_missing': missing}))
        print(f'{seed.name}: validated: demo clean rc={rc0} patched rc={rc1}; pinned tests missing with patch: {len(missing)}')
        return 0
    return after_validation(seed, wt, keep, meta, prop, patch, report, rc0, rc1, missing, out1)


def after_validation(seed, wt, keep, meta, prop, patch, report, rc0, rc1, missing, out1):
    report.update(demo_clean_rc=rc0, demo_patched_rc=rc1, pinned_tests_missing=missing)
    print(f'{seed.name}: demo clean rc={rc0} patched rc={rc1}; pinned tests missing with patch: {len(missing)}')
    valid = rc0 == 0 and rc1 != 0 and not missing
    report['valid_seed'] = valid
    if not valid:
        print('  NOT a valid seed:', out1[-300:] if rc1 == 0 else missing[:3])
        print(json.dumps(report)); return 1
    # run the checks against /repo with the patch applied
    rc, out = sh(['git', '-C', '/repo', 'status', '--porcelain'])
    if out.strip():
        print('/repo is not clean, refusing'); return 2
    rc, out = sh(['git', '-C', '/repo', 'apply', str(patch)])
    if rc != 0:
        print('patch does not apply in /repo:', out); return 2
    caught = {}
    # the checks rewrite evidence/<id>.json: what a run against a patched tree writes must never end up committed
    ev = V / 'evidence' / f'{prop}.json'
    ev_backup = ev.read_bytes() if ev.exists() else None
    try:
        # SEEDTEST_QUICK_ONLY=1 (or the flag file) skips the thorough tier when the quick tier misses (used for the third round, to save time)
        for tier in (('quick',) if os.environ.get('SEEDTEST_QUICK_ONLY') or os.path.exists('/tmp/seedtest_quick_only') else ('quick', 'thorough')):
            rc, out = sh([str(V / 'check'), prop, tier], cwd=V, timeout=7200)
            vio = [l for l in out.splitlines() if l.startswith('VIOLATION')]
            caught[tier] = {'rc': rc, 'violation': vio[:1], 'tail': out.splitlines()[-4:]}
            print(f'  {tier}: rc={rc} {vio[:1]}')
            if rc == 1:
                if vio:
                    rp = vio[0].split('replay=')[1].split()[0]
                    try:
                        caught[tier]['replay'] = json.loads(Path(rp).read_text())
                    except Exception:
                        pass
                break
    finally:
        sh(['git', '-C', '/repo', 'checkout', '--', '.'])
        if ev_backup is not None:
            ev.write_bytes(ev_backup)
    report['checks'] = caught
    if keep:
        d = V / 'seeded' / keep
        d.mkdir(parents=True, exist_ok=True)
        shutil.copy(patch, d / 'patch.diff')
        shutil.copy(seed / 'demo.py', d / 'demo.py')
        meta.update(confirmed={'demo_passes_on_clean_tree': rc0 == 0, 'demo_fails_with_change': rc1 != 0, 'pinned_276_tests_still_pass': not missing},
                    ran=[f'./check {prop} {t}' for t in caught],
                    detected_by=next((t for t, c in caught.items() if c['rc'] == 1), None),
                    detection={t: {'rc': c['rc'], 'violation': c['violation'], 'replay_kind': (c.get('replay') or {}).get('kind'),
                                   'replay_what': (c.get('replay') or {}).get('what'), 'replay_input': (c.get('replay') or {}).get('input')} for t, c in caught.items()})
        (d / 'meta.json').write_text(json.dumps(meta, indent=1, ensure_ascii=False))
    print(json.dumps({k: v for k, v in report.items() if k != 'checks'}))
    return 0


if __name__ == '__main__':
    sys.exit(main())
