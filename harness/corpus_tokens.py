"""A corpus of cell texts covering every alternative of `field` in kern/kernSpineParser.g4, free text and damage."""
NOTES = ['4c', '8.dd#', '16ee-L', '2r', '4rr', '1C', '2.BB-', '4c 4e 4g', '8c 8r', 'qf', 'qqg#', '4%3c', '8pd', '8Pd', '(4c', '4c)', '[2c', '2c]', '2c_',
         '4cn', '4c#X', '4c-x', '4e--', '4f##', "4c'", '4c~', '4c^', '4c;', '4cJ', '4cLL', '4ck', '4cK', '4c/', '4c\\', '{4c', '4c}', '4cT', '4ct', '4cM', '4cm',
         '4cW', '4cw', '4cS', '4c$', '4c:', '4cO', '4cl', '4cV', '4cN', '4cj', '4cZ', '4ci', '4cxx', '4c?', '4cyy', '&(4c', '4c&)', '<4c', '4c>', '4..c', '16r;', '4ryy']
STRUCT = ['*staff1', '*staff1/2', '*staff+1']
SIGS = ['*clefG2', '*clefF4', '*clefC3', '*clefGv2', '*clefG^^2', '*clefC1', '*clefP', '*clefT', '*clefF3', '*M4/4', '*M3/8', '*M3+2/8', '*M2/4+3/8', '*M4/4:3/4',
        '*M2/4|3/4', '*M4/4%2', '*met(c)', '*met(c|)', '*met(O)', '*met(C|3/2)', '*M(c)', '*kcancel', '*k[f#c#]', '*k[]', '*k[b-]', '*k[f#]X', '*k[b-e-a-]']
CONTEXT = ['*8va', '*X8va', '*8ba', '*X8ba', '*C:', '*a:', '*F#:', '*b-:', '*c:dor', '*?:', '*C/a:', '*MM120', '*MM60.5', '*MM96-100']
BARS = ['=', '=1', '==', '=1-', '=-', '=:|!', '=!|:', '=||', '=|!', '=1a', '=2b', '=:|!|:', '=:!:', '=;', '=3;', '==:|!', '=|:', '=:||:', '=:!!:', '=12||', '=5|!:', '=1j', '=1.']
EMPTY = ['*', '.']
VISUAL = ['*above', '*below', '*below:2', '*below2', '*centered', '*cue', '*Xcue', '*tremolo', '*Xtremolo', '*rscale:2', '*rscale:1/2', '*ped', '*Xped', '*ped*', '*ela',
          '*tuplet', '*Xtuplet', '*tstart', '*tend']
NONVISUAL = ['*tb8', '*solo', '*accomp', '*strophe', '*part1', '*group2', '*Ipiano', '*I"Organo', '*mI"x', '*mIfoo', '*Trd1c2', '*ITrd-1c-2', '*>A', '*>[A,B]', '*>norep[A,B]',
             '*>1st ending', '*lh', '*rh', '*S/sic', '*S/ossia', '*S/fin', '*S-']
BBOX = ['*xywh-1:10,20,30,40', '*xywh-p2:0,0,5,5']
FREE = ['Ky-', 'ri-e', 'e', 'le', 'p', 'f', 'mf', 'cresc.', 'V7', 'I', '1 2', 'col·legi', 'a@b', 'señor', 'été', '"quoted"', 'x,y', 'Hal-', '-le-', 'lu-jah', 'ff', 'sfz', '<', '>',
        'Cmaj7', 'N.C.', '5', '1', '3 5', 'do re', 'a b c', '...', 'r', 'rr', '4', '!comment', '!LO:TX:a', '**kern', '*-', '*^', '*v', '*+', '*x', 'ß', '日本', 'Ω', ' ', '  ', ' ']
# text that is not in Unicode normal form, compatibility characters, combining sequences, bidi/zero-width characters
UNICODE = ['e\u0301', 'n\u0303o', 'u\u0308ber', '\u212b', '\u2126', 'a\u0323\u0308', 'a\u0308\u0323', '\ufb01n', '\u00e9', 'I\u0307', '\u1e9e', 'x\u200by', '\u00a0', 'A\u030a',
           '\u0041\u0300', '\uff21', '\u2160', 'c\u0327a', '\u1100\u1161', '\u0958']
DAMAGED = ['4zz#', '4c@', '*clefG2x', '=1@', '4', '#c4', 'c4', '4c  4e', '=x', '*k[f#', '*M4', '*M/4', '*clef', '4cc##--', '*MMx', '*xywh-1:1,2,3', '4c 4', 'r4', '8..', '**', '***', '*xywh-1:10,20,300', '*xywh-1,10,20,300,400', '*xywh-12:10,20;300,400', '*xywh-1', '8rL 8G', '16r 16r[', '4rL', '-ri-', ' 4zz', '4zz  ', '4zz  4e', '4zz\u00a04e', '4zz\u20094e', '  ', '*color:red', '*arpeg', '*MM=120', '*cresc']
DYNAMICS_LIKE = ['p', 'f', 'mf', 'I', 'V7', '1', '4e', 'do', 'e', 'c', 'r', 'Ky-', '4c', 'a', '2', 'ff']
ALL = NOTES + STRUCT + SIGS + CONTEXT + BARS + EMPTY + VISUAL + NONVISUAL + BBOX + FREE + UNICODE + DAMAGED
GROUPS = {'notes': NOTES, 'structural': STRUCT, 'signatures': SIGS, 'contextual': CONTEXT, 'barlines': BARS, 'empty': EMPTY, 'visual': VISUAL,
          'nonvisual': NONVISUAL, 'bbox': BBOX, 'free': FREE, 'unicode': UNICODE, 'damaged': DAMAGED}
LEXER_ALPHABET = '!%&@ABCDEFGHIJKLMNOPQRSTUVWXYZabcdefghijklmnopqrstuvwxyz0123456789*"\'[]{}#+-=.|`^~<>/\\_$():;,? áéñçÑ'
WIDE_ALPHABET = LEXER_ALPHABET + '\u0301\u0303\u0308\u0323\u212b\u2126\ufb01\u200b\u00a0\uff21\u0130\u00df\u1e9e\u03a9\u65e5'
