"""
Translator: regenerates every literal table / literal decision set the Lean model uses from
/repo's *current* working tree into lean/KernModel/Gen/*.lean, and fingerprints the modelled
functions.  Files are rewritten only when their content changes (keeps lake's cache warm).

Generated files contain only data (character lists, numbers, booleans), so they always compile:
the driver stays available for the failing-input search even when a table theorem fails.
A pattern that can no longer be found is reported in the returned `problems` list (a broken tie).
"""
from __future__ import annotations
import ast, hashlib, importlib, json, os, re, sys
from pathlib import Path

REPO = Path(os.environ.get('KERNPY_REPO', '/repo'))
VERIF = Path(__file__).resolve().parent.parent
GEN = VERIF / 'lean' / 'KernModel' / 'Gen'


# ------------------------------------------------------------------ Lean literal helpers
def lchar(c: str) -> str:
    o = ord(c)
    if c == "'":
        return "'\\''"
    if c == '\\':
        return "'\\\\'"
    if 32 <= o < 127:
        return f"'{c}'"
    return f"(Char.ofNat {o})"


def lstr(s: str) -> str:
    return '[' + ','.join(lchar(c) for c in s) + ']'


def llist(xs) -> str:
    return '[' + ', '.join(xs) + ']'


def lint(n: int) -> str:
    return f'({n} : Int)' if n < 0 else f'({n} : Int)'


def lbool(b: bool) -> str:
    return 'true' if b else 'false'


def gt(name: str, kids) -> str:
    return f'.node {lstr(name)} {llist([gt(k, v) for k, v in kids])}'


# ------------------------------------------------------------------ source helpers
def src(rel: str) -> str:
    return (REPO / rel).read_text(encoding='utf-8')


def parse(rel: str) -> ast.Module:
    return ast.parse(src(rel))


def find_def(tree: ast.AST, *path: str):
    """find nested class/function by names"""
    node = tree
    for name in path:
        nxt = None
        for ch in ast.walk(node) if node is tree and False else ast.iter_child_nodes(node):
            if isinstance(ch, (ast.FunctionDef, ast.ClassDef, ast.AsyncFunctionDef)) and ch.name == name:
                nxt = ch
                break
        if nxt is None:
            return None
        node = nxt
    return node


def fingerprint(node: ast.AST | None) -> str:
    if node is None:
        return 'MISSING'
    # drop docstrings
    class Strip(ast.NodeTransformer):
        def visit_FunctionDef(self, n):
            self.generic_visit(n)
            if n.body and isinstance(n.body[0], ast.Expr) and isinstance(getattr(n.body[0], 'value', None), ast.Constant) \
                    and isinstance(n.body[0].value.value, str):
                n.body = n.body[1:] or [ast.Pass()]
            return n
        visit_ClassDef = visit_FunctionDef
    import copy
    n2 = Strip().visit(copy.deepcopy(node))
    return hashlib.sha256(ast.dump(n2, include_attributes=False).encode()).hexdigest()[:16]


# ------------------------------------------------------------------ the individual tables
class Extraction:
    def __init__(self):
        self.files: dict[str, str] = {}
        self.problems: list[str] = []
        self.fingerprints: dict[str, str] = {}
        self.facts: dict = {}

    def problem(self, msg):
        self.problems.append(msg)


def fresh_import():
    """import kernpy from REPO (fresh modules so the working tree is what is read)"""
    for k in list(sys.modules):
        if k == 'kernpy' or k.startswith('kernpy.'):
            del sys.modules[k]
    if str(REPO) not in sys.path:
        sys.path.insert(0, str(REPO))
    import kernpy  # noqa
    return kernpy


def readme_tree() -> list:
    """the documented category tree printed in README.md, as nested (name, kids) pairs"""
    text = src('README.md')
    lines = [l for l in text.splitlines() if ('├──' in l or '└──' in l)]
    # take the first contiguous block
    block = []
    started = False
    for l in text.splitlines():
        if '├──' in l or '└──' in l:
            block.append(l); started = True
        elif started:
            break
    roots: list = []
    stack: list = []  # (depth, kids_list)
    for l in block:
        m = re.match(r'^((?:│   |    )*)(?:├── |└── )(\S+)\s*$', l)
        if not m:
            raise ValueError(f'unparsable README tree line: {l!r}')
        depth = len(m.group(1)) // 4
        name = m.group(2).split('.')[-1]
        node = (name, [])
        while stack and stack[-1][0] >= depth:
            stack.pop()
        (stack[-1][1][1] if stack else roots).append(node)
        stack.append((depth, node))
    return roots


def gen_cats(ex: Extraction, kp):
    from kernpy.core import tokens as T
    TC = T.TokenCategory
    cats = [(c.name, c.value) for c in TC]

    def conv(d):
        return [(k.name, conv(v)) for k, v in d.items()]
    hier = conv(T.TokenCategoryHierarchyMapper.hierarchy)
    try:
        rt = readme_tree()
    except Exception as e:  # noqa
        ex.problem(f'README tree: {e}')
        rt = []
    if not rt:
        ex.problem('README tree not found')
    body = []
    body.append('def categories : List (Str × Nat) := ' + llist([f'({lstr(n)}, {v})' for n, v in cats]))
    body.append('def hierarchy : List (RTree Str) := ' + llist([gt(k, v) for k, v in hier]))
    body.append('def readmeTree : List (RTree Str) := ' + llist([gt(k, v) for k, v in rt]))
    for nm in ('BEKERN_CATEGORIES', 'NON_CORE_CATEGORIES'):
        vals = sorted(getattr(T, nm), key=lambda c: c.value)
        body.append(f'def {nm[0].lower() + nm[1:].lower()} : List Str := ' + llist([lstr(c.name) for c in vals]))
    ex.files['Cats.lean'] = wrap(body)
    ex.facts['n_categories'] = len(cats)
    t = parse('kernpy/core/tokens.py')
    for fn in ('_is_child', 'is_child', 'children', '_nodes', '_find_subtree', 'nodes', 'valid', '_leaves', 'leaves',
               '_match', '_validate_include', '_validate_exclude', 'match', 'all'):
        ex.fingerprints[f'tokens.TokenCategoryHierarchyMapper.{fn}'] = fingerprint(find_def(t, 'TokenCategoryHierarchyMapper', fn))


def wrap(body: list[str]) -> str:
    return ('-- GENERATED by harness/extract.py from /repo — do not edit\n'
            'import KernModel.Basic\nnamespace KM.Gen\nopen KM\n\n' + '\n\n'.join(body) + '\n\nend KM.Gen\n')


GENERATORS = [gen_cats]


def run(write: bool = True) -> Extraction:
    ex = Extraction()
    try:
        kp = fresh_import()
    except Exception as e:  # the working tree does not import: nothing can be regenerated
        ex.problem(f'import kernpy failed: {type(e).__name__}: {e}')
        return ex
    for g in GENERATORS:
        try:
            g(ex, kp)
        except Exception as e:
            ex.problem(f'{g.__name__}: {type(e).__name__}: {e}')
    if write:
        GEN.mkdir(parents=True, exist_ok=True)
        for name, content in ex.files.items():
            p = GEN / name
            if not p.exists() or p.read_text(encoding='utf-8') != content:
                p.write_text(content, encoding='utf-8')
        (GEN / 'fingerprints.json').write_text(json.dumps(ex.fingerprints, indent=1, sort_keys=True))
    return ex




def gen_pitch(ex: Extraction, kp):
    from kernpy.core import pitch_models as P, transposer as TR, gkern as G
    body = []
    body.append('def chromas : List (Str × Int) := ' + llist([f'({lstr(k)}, {lint(v)})' for k, v in P.Chromas.items()]))
    body.append('def chromasByValue : List (Int × Str) := ' + llist([f'({lint(k)}, {lstr(v)})' for k, v in P.ChromasByValue.items()]))
    body.append('def intervals : List (Int × Str) := ' + llist([f'({lint(k)}, {lstr(v)})' for k, v in TR.Intervals.items()]))
    body.append('def intervalsByName : List (Str × Int) := ' + llist([f'({lstr(k)}, {lint(v)})' for k, v in TR.IntervalsByName.items()]))
    body.append('def availableIntervals : List Str := ' + llist([lstr(k) for k in TR.AVAILABLE_INTERVALS]))
    body.append('def pitches : List Str := ' + llist([lstr(k) for k in sorted(P.pitches)]))
    body.append('def letterToSemitones : List (Str × Int) := ' + llist([f'({lstr(k)}, {lint(v)})' for k, v in TR.LETTER_TO_SEMITONES.items()]))
    body.append('def gkernLetters : List Str := ' + llist([lstr(k) for k in G.LETTERS]))
    body.append(f'def c4Octave : Int := {lint(P.HumdrumPitchImporter.C4_OCATAVE)}')
    body.append(f'def c3Octave : Int := {lint(P.HumdrumPitchImporter.C3_OCATAVE)}')
    body.append(f'def expC4Octave : Int := {lint(P.HumdrumPitchExporter.C4_OCATAVE)}')
    body.append(f'def expC3Octave : Int := {lint(P.HumdrumPitchExporter.C3_OCATAVE)}')
    body.append(f'def dirUp : Str := {lstr(P.Direction.UP.value)}')
    body.append(f'def dirDown : Str := {lstr(P.Direction.DOWN.value)}')
    # compute_position's local LETTER_TO_INDEX literal
    t = parse('kernpy/core/gkern.py')
    cp = find_def(t, 'PitchPositionReferenceSystem', 'compute_position')
    l2i = None
    if cp is not None:
        for n in ast.walk(cp):
            if isinstance(n, ast.Assign) and any(isinstance(tg, ast.Name) and tg.id == 'LETTER_TO_INDEX' for tg in n.targets):
                try:
                    l2i = ast.literal_eval(n.value)
                except Exception:
                    pass
    if l2i is None:
        ex.problem('gkern.compute_position: LETTER_TO_INDEX literal not found')
        l2i = {}
    body.append('def letterToIndex : List (Str × Int) := ' + llist([f'({lstr(k)}, {lint(v)})' for k, v in l2i.items()]))
    # clefs: for every reachable (name, line) of ClefFactory.create_clef, the bottom line pitch
    clefs = []
    for enc in ['*clefG2', '*clefF3', '*clefF4', '*clefC1', '*clefC2', '*clefC3', '*clefC4']:
        try:
            c = G.ClefFactory.create_clef(enc)
            bl = c.bottom_line()
            clefs.append((enc[5:], bl.name, bl.octave))
        except Exception as e:  # noqa
            ex.problem(f'clef {enc}: {type(e).__name__}: {e}')
    body.append('def clefBottom : List (Str × Str × Int) := ' + llist([f'({lstr(n)}, {lstr(b)}, {lint(o)})' for n, b, o in clefs]))
    body.append(f'def lineChar : Str := {lstr(G.PositionInStaff.LINE_CHARACTER)}')
    body.append(f'def spaceChar : Str := {lstr(G.PositionInStaff.SPACE_CHARACTER)}')
    ex.files['Pitch.lean'] = wrap(body)
    pm = parse('kernpy/core/pitch_models.py')
    tr = parse('kernpy/core/transposer.py')
    for path in (('AgnosticPitch', 'name'), ('AgnosticPitch', 'octave'), ('AgnosticPitch', 'get_chroma'), ('AgnosticPitch', 'accidentals'),
                 ('AgnosticPitch', 'to_transposed'), ('HumdrumPitchImporter', 'import_pitch'), ('HumdrumPitchImporter', '_parse_pitch'),
                 ('HumdrumPitchExporter', 'export_pitch'), ('PitchImporterFactory', 'create'), ('PitchExporterFactory', 'create')):
        ex.fingerprints['pitch_models.' + '.'.join(path)] = fingerprint(find_def(pm, *path))
    # the name property has getter+setter with the same name: fingerprint the whole class too
    ex.fingerprints['pitch_models.AgnosticPitch'] = fingerprint(find_def(pm, 'AgnosticPitch'))
    for fn in ('transpose', 'transpose_agnostics', 'transpose_encoding_to_agnostic', 'transpose_agnostic_to_encoding'):
        ex.fingerprints['transposer.' + fn] = fingerprint(find_def(tr, fn))
    for path in (('PositionInStaff',), ('PitchPositionReferenceSystem', 'compute_position'), ('ClefFactory', 'create_clef'),
                 ('gkern_to_g_clef_pitch',), ('pitch_to_gkern_string',), ('GKernExporter',), ('Staff',)):
        ex.fingerprints['gkern.' + '.'.join(path)] = fingerprint(find_def(t, *path))
    # write sites of export_pitch (C16: exporting must not assign to the pitch it is given)
    ep = find_def(pm, 'HumdrumPitchExporter', 'export_pitch')
    sites = []
    if ep is not None:
        arg = ep.args.args[1].arg if len(ep.args.args) > 1 else 'pitch'
        for n in ast.walk(ep):
            tgts = []
            if isinstance(n, ast.Assign):
                tgts = n.targets
            elif isinstance(n, (ast.AugAssign, ast.AnnAssign)):
                tgts = [n.target]
            for tg in tgts:
                for sub in ast.walk(tg):
                    if isinstance(sub, ast.Attribute) and isinstance(sub.value, ast.Name) and sub.value.id in (arg, 'self'):
                        sites.append(f'{sub.value.id}.{sub.attr}')
    else:
        ex.problem('HumdrumPitchExporter.export_pitch not found')
    body2 = ['def exportPitchWriteSites : List Str := ' + llist([lstr(s) for s in sites])]
    ex.files['WriteSites.lean'] = wrap(body2)


GENERATORS.append(gen_pitch)



def _cat_name(node):
    """TokenCategory.X -> 'X'"""
    if isinstance(node, ast.Attribute) and isinstance(node.value, ast.Name) and node.value.id == 'TokenCategory':
        return node.attr
    return None


def _simple_token_return(ret):
    """`return SimpleToken(encoding, TokenCategory.X)` -> ('encoding', 'X')"""
    if not isinstance(ret, ast.Return) or not isinstance(ret.value, ast.Call):
        return None
    c = ret.value
    if not (isinstance(c.func, ast.Name) and c.func.id == 'SimpleToken' and len(c.args) == 2):
        return None
    a0 = c.args[0].id if isinstance(c.args[0], ast.Name) else None
    return a0, _cat_name(c.args[1])


def importer_record(ex, rel, cls):
    """(accepted, negated, fallback_exc, fallback_any) of a wrapping spine importer, or ('delegate', Class)"""
    t = parse(rel)
    fn = find_def(t, cls, 'import_token')
    ex.fingerprints[f'{rel.split("/")[-1][:-3]}.{cls}.import_token'] = fingerprint(fn)
    if fn is None:
        ex.problem(f'{cls}.import_token not found'); return None
    arg = fn.args.args[1].arg
    accepted = negated = fexc = fany = None
    verbatim = True
    kern_fresh = False
    for n in ast.walk(fn):
        if isinstance(n, ast.Assign) and any(isinstance(tg, ast.Name) and tg.id == 'ACCEPTED_CATEGORIES' for tg in n.targets):
            if isinstance(n.value, ast.Set):
                accepted = [_cat_name(e) for e in n.value.elts]
        if isinstance(n, ast.Try):
            for h in n.handlers:
                for st in h.body:
                    r = _simple_token_return(st)
                    if r:
                        verbatim &= (r[0] == arg); fexc = r[1]
            for st in ast.walk(n):
                if isinstance(st, ast.Call) and isinstance(st.func, ast.Name) and st.func.id == 'KernSpineImporter':
                    kern_fresh = True
        if isinstance(n, ast.If):
            test = n.test
            neg = False
            if isinstance(test, ast.UnaryOp) and isinstance(test.op, ast.Not):
                neg, test = True, test.operand
            if isinstance(test, ast.Call) and isinstance(test.func, ast.Name) and test.func.id == 'any':
                negated = neg
                for st in n.body:
                    r = _simple_token_return(st)
                    if r:
                        verbatim &= (r[0] == arg); fany = r[1]
    if accepted is None and fexc is None:
        # delegation: `x = Other(); return x.import_token(encoding)`
        for n in ast.walk(fn):
            if isinstance(n, ast.Assign) and isinstance(n.value, ast.Call) and isinstance(n.value.func, ast.Name) and n.value.func.id.endswith('SpineImporter'):
                return ('delegate', n.value.func.id)
        ex.problem(f'{cls}.import_token: neither the wrapping pattern nor a delegation was found'); return None
    last = fn.body[-1]
    returns_token = isinstance(last, ast.Return) and isinstance(last.value, ast.Name) and last.value.id == 'token'
    if None in (accepted or [None]) or negated is None or fexc is None or fany is None or not verbatim or not kern_fresh or not returns_token:
        ex.problem(f'{cls}.import_token: pattern incomplete (accepted={accepted}, negated={negated}, exc={fexc}, any={fany}, '
                   f'verbatim={verbatim}, fresh_kern={kern_fresh}, returns_token={returns_token})')
        return None
    return ('wrap', accepted, negated, fexc, fany)


def gen_importers(ex: Extraction, kp):
    from kernpy.core import importer_factory as IF
    files = {
        'TextSpineImporter': 'kernpy/core/text_spine_importer.py', 'DynamSpineImporter': 'kernpy/core/dynam_spine_importer.py',
        'DynSpineImporter': 'kernpy/core/dyn_importer.py', 'HarmSpineImporter': 'kernpy/core/harm_spine_importer.py',
        'MxhmSpineImporter': 'kernpy/core/mhxm_spine_importer.py', 'FingSpineImporter': 'kernpy/core/fing_spine_importer.py',
        'BasicSpineImporter': 'kernpy/core/basic_spine_importer.py',
    }
    recs = {}
    for cls, rel in files.items():
        recs[cls] = importer_record(ex, rel, cls)
    # resolve delegation (one level)
    for cls, r in list(recs.items()):
        if r and r[0] == 'delegate':
            recs[cls] = recs.get(r[1])
            if recs[cls] is None:
                ex.problem(f'{cls} delegates to {r[1]} which has no record')
    # dispatch chain of createImporter
    t = parse('kernpy/core/importer_factory.py')
    fn = find_def(t, 'createImporter')
    ex.fingerprints['importer_factory.createImporter'] = fingerprint(fn)
    chain, default = [], None
    node = fn.body[0] if fn is not None and fn.body else None
    while isinstance(node, ast.If):
        tst = node.test
        ok = (isinstance(tst, ast.Compare) and isinstance(tst.left, ast.Name) and len(tst.ops) == 1 and isinstance(tst.ops[0], ast.Eq)
              and isinstance(tst.comparators[0], ast.Constant))
        ret = node.body[0] if node.body else None
        if not ok or not (isinstance(ret, ast.Return) and isinstance(ret.value, ast.Call) and isinstance(ret.value.func, ast.Name)):
            ex.problem('createImporter: unexpected branch shape'); break
        chain.append((tst.comparators[0].value, ret.value.func.id))
        nxt = node.orelse
        if len(nxt) == 1 and isinstance(nxt[0], ast.If):
            node = nxt[0]
        else:
            for st in nxt:
                if isinstance(st, ast.Return) and isinstance(st.value, ast.Call) and isinstance(st.value.func, ast.Name):
                    default = st.value.func.id
            node = None
    if not chain or default is None:
        ex.problem('createImporter: dispatch chain not found')
    # sanity against the live function
    for h, cls in chain + [('**some-unknown-type', default)]:
        try:
            live = type(IF.createImporter(h)).__name__
            if live != cls:
                ex.problem(f'createImporter({h!r}) is {live}, AST says {cls}')
        except NotImplementedError:
            pass  # MensSpineImporter cannot be instantiated at all (outside every property)
        except Exception as e:  # noqa
            ex.problem(f'createImporter({h!r}) raised {e}')

    def rec_lean(cls):
        r = recs.get(cls)
        if cls == 'KernSpineImporter':
            return '.kern'
        if cls == 'RootSpineImporter':
            return '.root'
        if cls == 'MensSpineImporter':
            return '.mens'
        if not r:
            return '.unknownClass'
        _, acc, neg, fexc, fany = r
        return f'.wrap {llist([lstr(a) for a in acc])} {lbool(neg)} {lstr(fexc)} {lstr(fany)}'
    body = []
    body.append('def dispatch : List (Str × ImpRec) := ' + llist([f'({lstr(h)}, {rec_lean(cls)})' for h, cls in chain]))
    body.append('def dispatchDefault : ImpRec := ' + rec_lean(default or ''))
    # categories and token classes the kern listener can build
    lt = parse('kernpy/core/base_antlr_spine_parser_listener.py')
    cats = sorted({n.attr for n in ast.walk(lt) if _cat_name(n)})
    classes = sorted({n.func.id for n in ast.walk(lt) if isinstance(n, ast.Call) and isinstance(n.func, ast.Name) and n.func.id.endswith('Token')})
    body.append('def listenerCategoryLiterals : List Str := ' + llist([lstr(c) for c in cats]))
    body.append('def listenerTokenClasses : List Str := ' + llist([lstr(c) for c in classes]))
    ex.files['Importers.lean'] = wrap(body)
    ex.fingerprints['base_antlr_spine_parser_listener'] = fingerprint(lt)


GENERATORS.append(gen_importers)


def gen_misc(ex: Extraction, kp):
    from kernpy.core import tokens as T, tokenizers as TK, exporter as EX
    body = []
    body.append(f'def tokenSeparator : Str := {lstr(T.TOKEN_SEPARATOR)}')
    body.append(f'def decorationSeparator : Str := {lstr(T.DECORATION_SEPARATOR)}')
    body.append(f'def emptyToken : Str := {lstr(T.EMPTY_TOKEN)}')
    body.append(f'def terminator : Str := {lstr(T.TERMINATOR)}')
    body.append('def headers : List Str := ' + llist([lstr(h) for h in sorted(T.HEADERS)]))
    body.append('def coreHeaders : List Str := ' + llist([lstr(h) for h in sorted(T.CORE_HEADERS)]))
    body.append('def spineOperations : List Str := ' + llist([lstr(h) for h in sorted(T.SPINE_OPERATIONS)]))
    encs = []
    for name, member in TK.Encoding.__members__.items():
        try:
            pref = member.prefix()
        except Exception as e:  # noqa
            ex.problem(f'Encoding.{name}.prefix(): {e}'); pref = ''
        encs.append((name, member.value, pref))
    body.append('def encodings : List (Str × Str × Str) := ' + llist([f'({lstr(n)}, {lstr(v)}, {lstr(p)})' for n, v, p in encs]))
    # the exporter's nullish sets (literals inside export_string / empty_row)
    t = parse('kernpy/core/exporter.py')
    es = find_def(t, 'Exporter', 'export_string')
    nullish = None
    if es is not None:
        for n in ast.walk(es):
            if isinstance(n, ast.Assign) and any(isinstance(tg, ast.Name) and tg.id == 'nullish_tokens' for tg in n.targets):
                try:
                    nullish = sorted(ast.literal_eval(n.value))
                except Exception:
                    pass
    if nullish is None:
        ex.problem('exporter.export_string: nullish_tokens literal not found'); nullish = []
    body.append('def nullishTokens : List Str := ' + llist([lstr(x) for x in nullish]))
    er = find_def(t, 'empty_row')
    lits = sorted({n.value for n in ast.walk(er) if isinstance(n, ast.Constant) and isinstance(n.value, str)}) if er is not None else []
    if er is None:
        ex.problem('exporter.empty_row not found')
    body.append('def emptyRowTokens : List Str := ' + llist([lstr(x) for x in lits]))
    # option set of kern_to_ekern
    k2e = find_def(t, 'kern_to_ekern')
    k2e_opts = None
    if k2e is not None:
        for n in ast.walk(k2e):
            if isinstance(n, ast.Call) and isinstance(n.func, ast.Name) and n.func.id == 'ExportOptions':
                k2e_opts = {kw.arg: ast.unparse(kw.value) for kw in n.keywords}
    if k2e_opts is None:
        ex.problem('kern_to_ekern: ExportOptions(...) call not found'); k2e_opts = {}
    body.append('def kernToEkernOptions : List (Str × Str) := ' + llist([f'({lstr(k)}, {lstr(v)})' for k, v in sorted(k2e_opts.items())]))
    ex.files['Misc.lean'] = wrap(body)
    tk = parse('kernpy/core/tokenizers.py')
    for cls in ('KernTokenizer', 'EkernTokenizer', 'BekernTokenizer', 'BkernTokenizer', 'AEKernTokenizer', 'AKernTokenizer'):
        ex.fingerprints[f'tokenizers.{cls}.tokenize'] = fingerprint(find_def(tk, cls, 'tokenize'))
    ex.fingerprints['tokenizers.TokenizerFactory.create'] = fingerprint(find_def(tk, 'TokenizerFactory', 'create'))
    ex.fingerprints['tokenizers.Encoding.prefix'] = fingerprint(find_def(tk, 'Encoding', 'prefix'))
    tt = parse('kernpy/core/tokens.py')
    for cls in ('NoteRestToken', 'ChordToken', 'SimpleToken', 'ErrorToken', 'HeaderToken', 'CompoundToken', 'BoundingBoxToken', 'MHXMToken'):
        ex.fingerprints[f'tokens.{cls}.export'] = fingerprint(find_def(tt, cls, 'export'))
    for fn in ('export_string', 'export_token', 'append_row', 'compute_header_type', '_is_token_in_a_signature_row', '_retrieve_empty_token',
               'get_spine_types', 'export_options_validator', 'is_signature_cancelled'):
        ex.fingerprints[f'exporter.Exporter.{fn}'] = fingerprint(find_def(t, 'Exporter', fn))
    for fn in ('empty_row', 'get_kern_from_ekern', 'ekern_to_krn', 'kern_to_ekern'):
        ex.fingerprints[f'exporter.{fn}'] = fingerprint(find_def(t, fn))
    ex.fingerprints['exporter.HeaderTokenGenerator.new'] = fingerprint(find_def(t, 'HeaderTokenGenerator', 'new'))
    ex.fingerprints['exporter.ExportOptions'] = fingerprint(find_def(t, 'ExportOptions'))
    im = parse('kernpy/core/importer.py')
    ex.fingerprints['importer.Importer'] = fingerprint(find_def(im, 'Importer'))
    dm = parse('kernpy/core/document.py')
    for cls in ('SignatureNodes', 'Node', 'MultistageTree', 'Document', 'MetacommentsTraversal', 'TokensTraversal'):
        ex.fingerprints[f'document.{cls}'] = fingerprint(find_def(dm, cls))
    gm = parse('kernpy/core/generic.py')
    ex.fingerprints['generic.Generic'] = fingerprint(find_def(gm, 'Generic'))
    pm = parse('kernpy/io/public.py')
    ex.fingerprints['public'] = fingerprint(pm)
    ks = parse('kernpy/core/kern_spine_importer.py')
    ex.fingerprints['kern_spine_importer.KernSpineImporter.import_token'] = fingerprint(find_def(ks, 'KernSpineImporter', 'import_token'))
    el = parse('kernpy/core/error_listener.py')
    ex.fingerprints['error_listener.ErrorListener'] = fingerprint(find_def(el, 'ErrorListener'))


GENERATORS.append(gen_misc)


MUTATORS = {'append', 'extend', 'insert', 'update', 'add', 'pop', 'remove', 'clear', 'setdefault', 'sort', 'reverse', 'discard', 'popitem',
            '__setitem__', 'appendleft', 'put'}


def _root_name(node):
    while isinstance(node, (ast.Attribute, ast.Subscript, ast.Call)):
        node = node.value if not isinstance(node, ast.Call) else node.func
    return node.id if isinstance(node, ast.Name) else None


FRESH_CALLS = {'set', 'list', 'dict', 'tuple', 'sorted', 'frozenset', 'deepcopy', 'copy', 'str', 'int', 'len', 'range', 'enumerate', 'zip', 'reversed',
               'deque', 'defaultdict', 'Queue', 'sum', 'min', 'max', 'bool', 'float', 'repr', 'type', 'iter'}


def _is_fresh_expr(e):
    """does evaluating e certainly create a new object (never an alias of something the caller can see)?"""
    if isinstance(e, (ast.Constant, ast.List, ast.Set, ast.Dict, ast.Tuple, ast.ListComp, ast.SetComp, ast.DictComp, ast.GeneratorExp, ast.JoinedStr,
                      ast.BinOp, ast.UnaryOp, ast.Compare, ast.BoolOp if False else ast.Compare, ast.Lambda)):
        return True
    if isinstance(e, ast.Call):
        f = e.func
        name = f.id if isinstance(f, ast.Name) else (f.attr if isinstance(f, ast.Attribute) else None)
        if name in FRESH_CALLS:
            return True
        if isinstance(f, ast.Name) and name and name[:1].isupper():      # a class constructor
            return True
        if isinstance(f, ast.Attribute) and name in ('join', 'split', 'replace', 'strip', 'format', 'lower', 'upper', 'keys', 'values', 'items', 'get_all_tokens',
                                                      'export', 'tokenize', 'export_string', 'export_token', 'default', 'create', 'new', 'union', 'intersection',
                                                      'difference', 'startswith', 'endswith', 'count', 'index', 'getText', 'import_pitch', 'export_pitch', 'nodes',
                                                      'to_transposed', 'accidentals', 'prefix', 'clone'):
            return True
        return False
    if isinstance(e, ast.IfExp):
        return _is_fresh_expr(e.body) and _is_fresh_expr(e.orelse)
    return False


def write_sites_of(fn, qual):
    """writes whose receiver may be visible outside the call: parameters, self, globals, and locals that may alias them
    (a local counts as private only when every value assigned to it is certainly a new object)"""
    params = {a.arg for a in fn.args.args + fn.args.kwonlyargs} | ({fn.args.vararg.arg} if fn.args.vararg else set()) | ({fn.args.kwarg.arg} if fn.args.kwarg else set())
    assigned = {}
    for n in ast.walk(fn):
        if isinstance(n, ast.Assign):
            for t in n.targets:
                if isinstance(t, ast.Name):
                    assigned.setdefault(t.id, []).append(n.value)
                else:
                    for sub in ast.walk(t):
                        if isinstance(sub, ast.Name) and isinstance(sub.ctx, ast.Store):
                            assigned.setdefault(sub.id, []).append(None)       # tuple unpacking: unknown
        elif isinstance(n, ast.AnnAssign) and isinstance(n.target, ast.Name):
            assigned.setdefault(n.target.id, []).append(n.value)
        elif isinstance(n, (ast.For, ast.comprehension)):
            for sub in ast.walk(n.target):
                if isinstance(sub, ast.Name):
                    assigned.setdefault(sub.id, []).append(None)               # loop variables alias the elements iterated
        elif isinstance(n, ast.With):
            for it in n.items:
                if it.optional_vars is not None:
                    for sub in ast.walk(it.optional_vars):
                        if isinstance(sub, ast.Name):
                            assigned.setdefault(sub.id, []).append(it.context_expr)
    private = {k for k, vs in assigned.items() if k not in params and all(v is not None and _is_fresh_expr(v) for v in vs)}
    out = []
    for n in ast.walk(fn):
        tgts = []
        if isinstance(n, ast.Assign):
            tgts = n.targets
        elif isinstance(n, (ast.AugAssign, ast.AnnAssign)):
            tgts = [n.target]
        elif isinstance(n, ast.Delete):
            tgts = n.targets
        for t in tgts:
            for sub in ([t] if not isinstance(t, (ast.Tuple, ast.List)) else t.elts):
                if isinstance(sub, (ast.Attribute, ast.Subscript)):
                    r = _root_name(sub)
                    if r not in private:
                        out.append(f'{qual}: {ast.unparse(sub)} =')
        if isinstance(n, ast.AugAssign) and isinstance(n.target, ast.Name) and n.target.id not in private:
            # `x |= y`, `x += y` mutate x in place when x is a set / list / dict that may be shared
            out.append(f'{qual}: {n.target.id} {type(n.op).__name__}=')
        if isinstance(n, ast.Call):
            if isinstance(n.func, ast.Attribute) and n.func.attr in MUTATORS:
                r = _root_name(n.func.value)
                if r not in private:
                    out.append(f'{qual}: {ast.unparse(n.func)}()')
            if isinstance(n.func, ast.Name) and n.func.id in ('setattr', 'delattr'):
                r = _root_name(n.args[0]) if n.args else None
                if r not in private:
                    out.append(f'{qual}: {n.func.id}({ast.unparse(n.args[0]) if n.args else ""}, ...)')
    return out


READ_ONLY_SCOPE = {
    'kernpy/core/exporter.py': ['Exporter', 'ExportOptions', 'HeaderTokenGenerator', 'empty_row'],
    'kernpy/core/document.py': ['Document.get_header_stage', 'Document.get_leaves', 'Document.get_spine_count', 'Document.get_first_measure', 'Document.measures_count',
                                'Document.get_metacomments', 'Document.tokens_to_encodings', 'Document.get_all_tokens', 'Document.get_all_tokens_encodings',
                                'Document.get_unique_tokens', 'Document.get_unique_token_encodings', 'Document.get_voices', 'Document.get_header_nodes',
                                'Document.get_spine_ids', 'Document.frequencies', 'Document.match', 'Document.__iter__', 'Document.__next__',
                                'Node.dfs', 'Node.dfs_iterative', 'Node.count_nodes_by_stage', 'MultistageTree.dfs', 'MultistageTree.dfs_iterative',
                                'MetacommentsTraversal', 'TokensTraversal', 'TraversalFactory'],
    'kernpy/core/generic.py': ['Generic.export', 'Generic.get_spine_types', 'Generic.parse_options_to_ExportOptions', 'Generic.store_graph'],
    'kernpy/io/public.py': ['dumps', 'spine_types', 'is_monophonic', 'graph'],
    'kernpy/core/tokens.py': ['TokenCategory', 'TokenCategoryHierarchyMapper', 'SimpleToken.export', 'ErrorToken.export', 'HeaderToken.export', 'CompoundToken.export',
                              'NoteRestToken.export', 'ChordToken.export', 'BoundingBoxToken.export', 'MHXMToken.export', 'AbstractToken.__str__', 'AbstractToken.__hash__',
                              'SpineOperationToken.is_cancelled_at'],
    'kernpy/core/tokenizers.py': ['Encoding', 'Tokenizer', 'KernTokenizer', 'EkernTokenizer', 'BekernTokenizer', 'BkernTokenizer', 'AEKernTokenizer', 'AKernTokenizer',
                                  'TokenizerFactory'],
    'kernpy/core/graphviz_exporter.py': ['GraphvizExporter'],
    'kernpy/core/gkern.py': ['PositionInStaff', 'PitchPositionReferenceSystem', 'Clef', 'GClef', 'F3Clef', 'F4Clef', 'C1Clef', 'C2Clef', 'C3Clef', 'C4Clef', 'ClefFactory',
                             'Staff', 'GKernExporter', 'gkern_to_g_clef_pitch', 'pitch_to_gkern_string', 'DiatonicPitch'],
    'kernpy/core/pitch_models.py': ['AgnosticPitch', 'PitchImporter', 'HumdrumPitchImporter', 'PitchImporterFactory', 'PitchExporter', 'HumdrumPitchExporter',
                                    'PitchExporterFactory'],
}


def gen_write_sites(ex: Extraction, kp):
    sites = []
    for rel, names in READ_ONLY_SCOPE.items():
        t = parse(rel)
        mod = rel.split('/')[-1][:-3]
        for name in names:
            node = find_def(t, *name.split('.'))
            if node is None:
                ex.problem(f'read-only scope: {rel}:{name} not found')
                continue
            fns = [node] if isinstance(node, (ast.FunctionDef, ast.AsyncFunctionDef)) else \
                [n for n in ast.walk(node) if isinstance(n, (ast.FunctionDef, ast.AsyncFunctionDef))]
            for fn in fns:
                qual = f'{mod}.{name}' if fn is node else f'{mod}.{name}.{fn.name}'
                sites += write_sites_of(fn, qual)
    sites = sorted(set(sites))
    prev = ex.files.get('WriteSites.lean', '')
    body = ['def readOnlyWriteSites : List Str := ' + llist([lstr(x) for x in sites])]
    ex.files['WriteSites.lean'] = prev.replace('\nend KM.Gen\n', '\n' + '\n\n'.join(body) + '\n\nend KM.Gen\n')
    ex.facts['read_only_write_sites'] = sites


GENERATORS.append(gen_write_sites)


def gen_kern_importer(ex: Extraction, kp):
    """does KernSpineImporter.import_token start by forgetting the syntax errors of earlier tokens?  (C12)"""
    t = parse('kernpy/core/kern_spine_importer.py')
    fn = find_def(t, 'KernSpineImporter', 'import_token')
    resets = False
    reads_shared = False
    if fn is None:
        ex.problem('KernSpineImporter.import_token not found')
    else:
        # position of the first statement that uses the error listener for parsing, and of a reset before it
        for i, st in enumerate(fn.body):
            src_st = ast.unparse(st)
            is_reset = False
            if isinstance(st, ast.Assign):
                tgt = ast.unparse(st.targets[0])
                val = ast.unparse(st.value)
                if tgt == 'self.error_listener.errors' and val in ('[]', 'list()'):
                    is_reset = True
                if tgt == 'self.error_listener' and val.startswith('ErrorListener('):
                    is_reset = True
            if isinstance(st, ast.Expr) and isinstance(st.value, ast.Call) and ast.unparse(st.value.func) == 'self.error_listener.errors.clear':
                is_reset = True
            if is_reset and not reads_shared:
                resets = True
            if 'addErrorListener(self.error_listener)' in src_st or 'getNumberErrorsFound' in src_st:
                reads_shared = True
        if not reads_shared:
            # the shared listener is not used at all (e.g. a fresh one per call): history cannot leak through it
            if 'self.error_listener' not in ast.unparse(fn):
                resets = True
    body = [f'def kernImporterResetsErrors : Bool := {lbool(resets)}']
    # Importer.run: the except branch wraps the cell text and the row number into an ErrorToken and records it
    it = parse('kernpy/core/importer.py')
    run = find_def(it, 'Importer', 'run')
    wraps = False
    if run is not None:
        for n in ast.walk(run):
            if isinstance(n, ast.ExceptHandler):
                txt = ast.unparse(n)
                if 'ErrorToken(column, self._row_number' in txt and 'self.errors.append(token)' in txt:
                    wraps = True
    else:
        ex.problem('Importer.run not found')
    body.append(f'def importerWrapsRejectedCells : Bool := {lbool(wraps)}')
    ex.files['KernImporter.lean'] = wrap(body)


GENERATORS.append(gen_kern_importer)

# ---- keep this block last
if __name__ == '__main__':
    ex = run()
    print(json.dumps({'files': sorted(ex.files), 'problems': ex.problems, 'facts': ex.facts}, indent=1))
