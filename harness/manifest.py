"""Regenerates MANIFEST.json from the per-property registry below (keeps it schema-valid at all times)."""
import json, sys
from pathlib import Path
V = Path(__file__).resolve().parent.parent

CLAIMED = {
    # id: (technique, level text, level note, design ref)
    'C11': ('Lean 4 proof: kernel-decided tables (37, 37x37) lifted by list induction; translator-regenerated hierarchy + exhaustive correspondence',
            'Theorems C11_forest_each_once, C11_matches_documented_tree, C11_is_child/nodes/children/leaves (all 37 / 37x37 by decide +kernel) and '
            'C11_valid, C11_match, C11_set_semantics for arbitrary include/exclude lists of any of the four argument kinds, about a model whose '
            'hierarchy table is regenerated from tokens.py and README.md on every run; the Python functions are tied to the model by exhaustive '
            'correspondence (all categories, all ordered pairs, all include/exclude pairs of size <=1 quick / <=2 thorough).',
            'Trusted: Lean kernel, propext/Classical.choice/Quot.sound, extract.py, the correspondence harness (sets compared sorted). '
            'Modelled, not verified: the dictionary walks of TokenCategoryHierarchyMapper (hand-modelled, validated exhaustively).',
            'DESIGN.md §5 C11'),
    'C09': ('Lean 4 proof: finite base-40 core (7x5x40x2) by decide +kernel lifted to every octave by an omega octave-shift lemma; algebraic laws by lookup-table invariants; translator-regenerated tables + exhaustive 25 200-case correspondence',
            'Theorems C09_exact (every letter, alteration -2..2, octave in Z, all 40 generated intervals, both directions, against an independent '
            'letter/semitone specification derived from interval names), C09_inverse, C09_unison, C09_octave, C09_fourth_fifth, C09_compose, C09_failure '
            '(fails exactly on the unused chroma 22) and C09_inverse_spelling (string level), about a string-faithful model of _parse_pitch / name setter / '
            'to_transposed / export_pitch over tables regenerated from pitch_models.py and transposer.py on every run; tied to kernpy.transpose by the '
            'exhaustive grid of the property in both tiers (plus further octaves in thorough).',
            'Trusted: Lean kernel, the three standard axioms, extract.py, correspondence harness. Modelled not verified: the string functions of '
            'pitch_models.py (hand-modelled; ASCII only), validated exhaustively on the grid and on random ASCII strings for error classes.',
            'DESIGN.md §5 C09'),
    'C16': ('Lean 4 proof: list-level lemmas about replicate/filter for every octave in Z; write-site inventory theorem over translator output; exhaustive correspondence',
            'Theorems C16_import, C16_export, C16_roundtrip, C16_spell_injective (all letters, alterations -3..3, every octave in Z), C16_export_pure / '
            'C16_export_twice (every pitch object) and C16_no_write_sites (the regenerated list of attribute assignments inside export_pitch is empty), '
            'C16_rejects_four; tied by the exhaustive 7x7x11 grid, each pitch exported twice with before/after snapshots.',
            'Trusted: Lean kernel, standard axioms, extract.py (AST walk for write sites), harness. Purity of the real export_pitch is established by the '
            'write-site inventory plus snapshots, not by the (pure-by-construction) model alone.',
            'DESIGN.md §5 C16'),
    'C18': ('Lean 4 proof parametric in the kern parser; per-importer decision records and the createImporter chain regenerated from the AST on every run; kernel-decided record obligation; corpus correspondence',
            'Theorem C18_dispatch: for the six non-kern headers and every unknown header, every non-empty cell text and every outcome of the kern '
            'parser (token of any listener category, or an exception), import succeeds and yields the kern token itself when its category lies under the '
            'shared structure and otherwise SimpleToken(verbatim text, own category); C18_barlines (identical barline detection), C18_shared_identical, '
            'C18_verbatim, C18_empty_rejected; all_records_ok is the kernel-decided obligation that each importer record extracted from the source equals '
            'this single rule. Tied by correspondence on a grammar-covering token corpus x 9 headers with the kern outcome supplied by a fresh '
            'KernSpineImporter, and by whole documents imported under each header in turn.',
            'Trusted: Lean kernel, standard axioms, extract.py (AST pattern extraction of ACCEPTED_CATEGORIES, polarity, fallbacks, dispatch chain), harness. '
            'The ANTLR recogniser is a parameter of the theorem (nothing assumed beyond the set of categories the listener can build, which is generated and checked).',
            'DESIGN.md §5 C18'),
}

NOT_YET = {}


def main():
    props = [json.loads(l) for l in (V / 'properties.jsonl').read_text().splitlines() if l.strip()]
    checks = []
    na = []
    for p in props:
        pid = p['id']
        if pid in CLAIMED:
            tech, text, note, ref = CLAIMED[pid]
            checks.append({
                'property_id': pid,
                'quick_cmd': f'./check {pid} quick',
                'thorough_cmd': f'./check {pid} thorough',
                'evidence_file': f'/verif/evidence/{pid}.json',
                'replay_cmd_template': f'./check {pid} quick --replay {{path}}',
                'engine': 'lean4-kernmodel',
                'level_claimed': {'category': 'proof', 'text': text, 'design_ref': ref},
                'level_note': note,
                'technique': tech,
            })
        else:
            na.append({'property_id': pid, 'reason': NOT_YET.get(pid, 'not claimed yet: the Lean model and theorems for this property are still being built (see DESIGN.md §8 order of work); no check is registered until both the theorem and the tie exist')})
    m = {
        'version': 1,
        'setup_cmd': 'cd /verif && ./check --setup',
        'hooks': {
            'guard': 'KERNPY_VERIF',
            'enable': 'no hook is needed: every observation is available through the public API and object attributes; checks import /repo as installed (editable) in /venv',
            'baseline_off_cmd': 'cd /verif && /venv/bin/python harness/baseline.py',
            'source_commits': [],
            'add_only': True,
        },
        'engines': [{
            'name': 'lean4-kernmodel',
            'path': '/verif/lean',
            'serves_properties': sorted(CLAIMED),
            'kind_free_text': 'Lean 4.33 model (KernModel, core only), theorems (KernProofs), native JSON line-protocol driver (kerndriver); '
                              'harness/extract.py regenerates literal tables from /repo on every run; harness/props/*.py run the correspondence',
        }],
        'checks': checks,
        'notes': 'All checks: ./check <id> quick|thorough. Exit 0 held / 1 VIOLATION / 2 infrastructure or timeout. Known findings: KNOWN_FINDINGS.txt.',
        'not_applicable': na,
    }
    (V / 'MANIFEST.json').write_text(json.dumps(m, indent=1) + '\n')


if __name__ == '__main__':
    main()
