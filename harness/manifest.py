"""Regenerates MANIFEST.json from the per-property registry below (keeps it schema-valid at all times)."""
import json, sys
from pathlib import Path
V = Path(__file__).resolve().parent.parent

CLAIMED = {
    # id: (technique, level text, level note, design ref)
    'C11': ('Lean 4 proof: kernel-decided tables (37, 37x37) lifted by list induction; translator-regenerated hierarchy + exhaustive correspondence',
            'Theorems C11_forest_each_once, C11_matches_documented_tree, C11_is_child/nodes/children/leaves (all 37 / 37x37 by decide +kernel) and '
            'C11_valid, C11_match, C11_set_semantics for arbitrary include/exclude lists of any of the four argument kinds, about a model whose '
            'hierarchy table is regenerated from tokens.py and README.md on every run; the Python functions are tied to the model by exhaustive '
            'correspondence (all categories, all ordered pairs, all include/exclude pairs of size <=1 quick / <=2 thorough).',
            'Trusted: Lean kernel, propext/Classical.choice/Quot.sound, extract.py, the correspondence harness (sets compared sorted). '
            'Modelled, not verified: the dictionary walks of TokenCategoryHierarchyMapper (hand-modelled, validated exhaustively).',
            'DESIGN.md §5 C11'),
    'C09': ('Lean 4 proof: finite base-40 core (7x5x40x2) by decide +kernel lifted to every octave by an omega octave-shift lemma; algebraic laws by lookup-table invariants; translator-regenerated tables + exhaustive 25 200-case correspondence',
            'Theorems C09_exact (every letter, alteration -2..2, octave in Z, all 40 generated intervals, both directions, against an independent '
            'letter/semitone specification derived from interval names), C09_inverse, C09_unison, C09_octave, C09_fourth_fifth, C09_compose, C09_failure '
            '(fails exactly on the unused chroma 22) and C09_inverse_spelling (string level), about a string-faithful model of _parse_pitch / name setter / '
            'to_transposed / export_pitch over tables regenerated from pitch_models.py and transposer.py on every run; tied to kernpy.transpose by the '
            'exhaustive grid of the property in both tiers (plus further octaves in thorough).',
            'Trusted: Lean kernel, the three standard axioms, extract.py, correspondence harness. Modelled not verified: the string functions of '
            'pitch_models.py (hand-modelled; ASCII only), validated exhaustively on the grid and on random ASCII strings for error classes.',
            'DESIGN.md §5 C09'),
    'C16': ('Lean 4 proof: list-level lemmas about replicate/filter for every octave in Z; write-site inventory theorem over translator output; exhaustive correspondence',
            'Theorems C16_import, C16_export, C16_roundtrip, C16_spell_injective (all letters, alterations -3..3, every octave in Z), C16_export_pure / '
            'C16_export_twice (every pitch object) and C16_no_write_sites (the regenerated list of attribute assignments inside export_pitch is empty), '
            'C16_rejects_four; tied by the exhaustive 7x7x11 grid, each pitch exported twice with before/after snapshots.',
            'Trusted: Lean kernel, standard axioms, extract.py (AST walk for write sites), harness. Purity of the real export_pitch is established by the '
            'write-site inventory plus snapshots, not by the (pure-by-construction) model alone.',
            'DESIGN.md §5 C16'),
    'C18': ('Lean 4 proof parametric in the kern parser; per-importer decision records and the createImporter chain regenerated from the AST on every run; kernel-decided record obligation; corpus correspondence',
            'Theorem C18_dispatch: for the six non-kern headers and every unknown header, every non-empty cell text and every outcome of the kern '
            'parser (token of any listener category, or an exception), import succeeds and yields the kern token itself when its category lies under the '
            'shared structure and otherwise SimpleToken(verbatim text, own category); C18_barlines (identical barline detection), C18_shared_identical, '
            'C18_verbatim, C18_empty_rejected; all_records_ok is the kernel-decided obligation that each importer record extracted from the source equals '
            'this single rule. Tied by correspondence on a grammar-covering token corpus x 9 headers with the kern outcome supplied by a fresh '
            'KernSpineImporter, and by whole documents imported under each header in turn.',
            'Trusted: Lean kernel, standard axioms, extract.py (AST pattern extraction of ACCEPTED_CATEGORIES, polarity, fallbacks, dispatch chain), harness. '
            'The ANTLR recogniser is a parameter of the theorem (nothing assumed beyond the set of categories the listener can build, which is generated and checked).',
            'DESIGN.md §5 C18'),
    'C04': ('Lean 4 proof over token values: list lemmas on split/join/filter (splitOnC_joinSep, bekernNote_noteText); translator-regenerated separators and prefix table; correspondence on parsed generated cells and documents',
            'Theorems C04_kern_is_stripped_ekern / C04_akern_is_stripped_aekern / C04_bkern_is_stripped_bekern (every token, category list, clef), C04_bekern_notewise '
            '(every chord of any number of notes with grammar sub-tokens and every category selection keeping a pitch/duration sub-token of each note: bekern = ekern '
            'of the same token with each note\'s decorations removed, so no note is lost), C04_header (all six prefixes from the regenerated table), '
            'C04_nonnote_identical (cells free of the separator characters). Tied by tokenising real parser output of generated abstract cells in the six encodings '
            'and by whole documents against the abstract-grid oracle.',
            'Trusted: Lean kernel, standard axioms, extract.py, harness. Modelled not verified: the six tokenizers and NoteRestToken.export (hand-modelled, validated by '
            'correspondence); the ANTLR listener (tokOf tie checked in the same run). Open finding F10 (separator characters inside free text) is outside the hypotheses.',
            'DESIGN.md §5 C04'),
    'C10': ('Lean 4 proof: staff-position arithmetic for every octave in Z by omega over kernel-decided tables (clef bottom lines, LETTERS, LETTER_TO_INDEX regenerated); clef-mark lemma by list induction; exhaustive grid correspondence + documents with clef tracking',
            'Theorems C10_position (one characterisation: the agnostic spelling is the Humdrum spelling of index(pitch) - index(bottom line) + index(E4) with the same accidental, '
            'every letter/alteration/octave/clef), C10_G2_identity, C10_translation (k diatonic steps), C10_bottom_is_e, C10_all_clefs, C10_marks_ignored (any number of ^/v marks). '
            'Tied by the exhaustive clef x marks x letter x accidental x octave grid; the document-level clause (agnostic export = kern export with only pitch letters converted '
            'under the clef in force) is checked on generated documents against an oracle that tracks clefs along spine paths on the source grid, and against the model.',
            'Trusted: Lean kernel, standard axioms, extract.py, harness; decimal formatting of the staff position is not modelled. The document-level clause is established by '
            'correspondence with the document model (export_token reads last_signature_nodes), not by a separate theorem.',
            'DESIGN.md §5 C10'),
    'C14': ('Lean 4 proof (thin, by construction) of history independence over a state-machine model + kernel-decided equality of the regenerated write-site inventory with a reviewed allow-list; snapshot histories on the real code',
            'Theorems C14_pure / C14_two_imports (any operation sequence leaves the state unchanged and returns what a fresh import returns) hold in the pure model by construction; '
            'the substantive obligation is C14_write_sites: the list of attribute/subscript assignments and mutating calls on non-local receivers in everything reachable from the '
            'read-only API, regenerated from the AST on every run, equals a reviewed allow-list of 35 sites that all act on objects created during the call. Histories of 12 random '
            'read-only calls (including raising ones) are run on the real code with deep snapshots of tree, tokens and module constants and compared with a fresh import.',
            'Partial by nature: hidden Python mutation / aliasing cannot be exhibited by a pure model; it is covered only by the inventory (syntactic, direct writes) and the sampled histories.',
            'DESIGN.md §5 C14'),
    'C20': ('Lean 4 proof by induction that the csv record splitter and str.splitlines agree on texts whose only boundaries are LF/CR/CRLF (with a kernel-decided counterexample outside); real files and subprocesses for the rest',
            'Theorems C20_readers and C20_same_document (every text with LF, CRLF or CR line ends, with or without final newline, any other characters: import_file and import_string '
            'see the same rows, hence build the same document for every cell parser), C20_domain_is_needed. dump = dumps, the converter functions and real `python -m kernpy` '
            'subprocesses (single file, directory, recursive) are compared byte for byte with the API on generated documents; ekern -> kern -> ekern on the converter output.',
            'Partial by nature: file system, locale default encoding of open(), argparse and glob order are not modelled; they are exercised as they are in this sandbox.',
            'DESIGN.md §5 C20'),
    'C01': ('Lean 4 proof at cell level (sorted-set canonicity via Perm.eq_of_pairwise over a proved total order on strings; idempotent normal form); document-level fixed point decided by correspondence chains',
            'Theorems C01_canon / C01_canon_export (every note or rest of the abstract grammar: the exported cell depends only on duration, pitch, accidental/display and the SET of '
            'signifiers - not on order, position or repetition), C01_export_is_render_canon (the exported text is again a cell of the grammar), C01_cell_fixed_point, canon_idem. '
            'The document-level statements (loads(dumps(d)) has no errors and re-exports identically; the extended chain through get_kern_from_ekern) are decided on generated '
            'documents of the full grammar by correspondence with the real code and the model, plus a corpus of all single/paired signifier placements.',
            'Partial: the document-level fixed point is not a Lean theorem (it needs the ANTLR parser, a parameter here, to read render(canon e) as tokOf(canon e) - checked by '
            'correspondence - and the C02 grid refinement). Trusted: Lean kernel, standard axioms, extract.py, harness, generator coverage.',
            'DESIGN.md §5 C01'),
    'C03': ('Lean 4 proof: export of the listener token of every abstract note/rest = duration marks + pitch + accidental + sorted set of signifiers (sorting uniqueness, strip/join lemmas); grid structure lemma; abstract-document oracle',
            'Theorems C03_element / C03_single (every well-formed note or rest, any duration form, any signifiers in the four positions: kern text of the token the listener builds = '
            'duration marks in grammar order, pitch letters, accidental+display, sorted set of its own signifiers), C03_other_verbatim, C03_barline (type and fermata kept, number lost), '
            'C03_grid (one row per stage, one cell per node). Tied: tokOf vs the real parser on every generated cell; default export of generated documents vs the text computed '
            'from the generator\'s own abstract description, and vs the model.',
            'Trusted: Lean kernel, standard axioms, extract.py, harness. ANTLR parser = parameter (tokOf tie by correspondence). Chords are covered by the oracle and the model, the '
            'Lean cell theorem is stated for single notes/rests. Open findings: F10 (separator characters in free text), F16 (hidden barlines) are outside the hypotheses.',
            'DESIGN.md §5 C03'),
    'C05': ('Lean 4 proof: sort/filter commutation for the sub-token lists (Perm.eq_of_pairwise with an antisymmetric key; stable sort of category-ordered lists), placeholder clauses of cellBody, selected set = C11; exhaustive singles/pairs on fixed documents',
            'Theorems C05_note_text (filtered note = unfiltered sorted parts with exactly the unselected ones deleted, nothing altered or reordered), C05_decorations, C05_pitch_duration, '
            'C05_placeholder / C05_placeholder_text (unselected non-note tokens, chords included, become * or .), C05_selected, C05_identity, C05_selected_set (= C11_valid), '
            'C05_null_rows_dropped. Tied by every single category and every (include, exclude) pair of singles on a fixed document set, random larger sets on random documents, '
            'against the abstract-grid oracle and the model.',
            'Trusted: Lean kernel, standard axioms, extract.py, harness. What is printed when every part of a note is deleted (*) or only decorations remain (leading separator) is '
            'part of model and oracle, as the statement leaves it open.',
            'DESIGN.md §5 C05'),
    'C06': ('Lean 4 proof by list induction: a stage row = cells of the nodes of selected spines (filter then mapM), projection of the full row by zip/filter, null-row absorption; every subset of ids/types by correspondence',
            'Theorems C06_export_rows, C06_row_is_selected_cells (rowOfStage = filterMap id . mapM cellBody . filter selected, the cell text not depending on the selection), '
            'C06_row_projection (with any selection the row is exactly the sub-list of the fully exported cells at the selected nodes: unchanged, in order), C06_null_rows_absorbed, '
            'C06_selection_by_header. Tied by every subset of spine ids and of occurring types on generated documents with nested splits, against the projection computed on the '
            'source grid (generator\'s live sub-spine tracking) and the model; spine_types query vs header line.',
            'Trusted: Lean kernel, standard axioms, extract.py, harness. That header_node is the live spine of the source grid (C02) is established by correspondence.',
            'DESIGN.md §5 C06'),
    'C13': ('Lean 4 proof: export row = filterMap id . mapM (cellBody V X) . filter (selected S); select-then-view = view-then-select; explicit defaults by rfl and C11; product of options by correspondence incl. text-level compositions',
            'Theorems C13_select_then_view, C13_view_then_select, C13_independent_arguments, C13_default_spine_types / _encoding / _exclude (rfl on the parse_options model), '
            'C13_default_include (include=all selects the same set as None, via C11_valid). Tied on generated documents x random spine selections x include/exclude x six encodings '
            'against the grid oracle and the model, plus text-level compositions on the implementation\'s own outputs (projection of the filtered export; stripping the extended export) '
            'and 13 explicit-default variants.',
            'Trusted: Lean kernel, standard axioms, extract.py, harness. The composition theorem is thin where the model is compositional by construction; the weight is on the tie.',
            'DESIGN.md §5 C13'),
    'C07': ('Lean 4 proof: validator rejection by case analysis, body of a range = bodyRows between the a-th measure start and the closing stage (unfolding the structured exporter), interval partition lemma by induction on a strictly increasing index; every pair a <= b by correspondence',
            'Theorems C07_reject_negative_start / _end_beyond / _end_before_start (ValueError, not clamped), C07_valid_pair, C07_start_stage, C07_stop_stage, C07_body (for every valid pair the '
            'body rows are exactly the rows of the stages from the a-th measure start to the barline opening measure b+1, or the end for b = M, each row computed as in the full export: '
            'C07_rows_unmodified), C07_partition (with a strictly increasing measure index every non-start stage after the first start lies in exactly one single-measure interval), '
            'C07_iterate. Tied on generated **kern documents x every pair a <= b and out-of-range pairs: data lines of the range vs data lines of the full export within the measure '
            'boundaries computed from the abstract document, bounding barlines, partition, iteration, and every export vs the model.',
            'Trusted: Lean kernel, standard axioms, extract.py, harness. That the measure index built by the importer is strictly increasing is a hypothesis of C07_partition, validated by '
            'correspondence (model = implementation on every explored document). Open finding F15-signature-mismatch (uneven signatures make a valid range raise) is outside the proved part.',
            'DESIGN.md §5 C07'),
    'C19': ('Lean 4 proof by induction over the fragment list (pairs consecutive from 0, one per fragment, last = measure count of the import of the joined text), fold lemma runRows_append, C07_body for the addressed stages; every cut set by correspondence',
            'Theorems C19_indexes (for every cell parser, fragment list and separator: the document is the import of the joined text, there is one pair per fragment, pairs are consecutive '
            'starting at 0, the last `to` is the measure count), pairsFrom_spec, C19_empty, runRows_append, C19_pair_addresses_stages (via C07_body). Tied on generated scores cut at every '
            'set of barline lines into 1..6 fragments with both separators: same document, pairs, and the data lines each pair exports vs the fragment\'s own data lines (grid oracle); '
            'concat vs the model.',
            'Trusted: Lean kernel, standard axioms, extract.py, harness. "The measure index of a prefix is a prefix of the measure index" is established by correspondence, not as a theorem.',
            'DESIGN.md §5 C19'),
    'C17': ('Lean 4 proof: explicit-stack DFS = preorder for every rose tree (induction with the stack as invariant), filtered listing = filter of the listing by closure (C11), unique-listing and frequency lemmas by list induction; grid-order oracle by correspondence',
            'Theorems C17_dfs_is_preorder (every rose tree, any branching, unbounded depth), C17_filtered_is_subsequence + C17_filter_is_closure (filtered listing = sub-sequence whose '
            'category lies in the closure of the filter; empty filter lists nothing), C17_unique (sub-list, no repeated encoding, covers every encoding = first occurrences), '
            'C17_frequencies_sum, C17_metacomments_by_key. Tied on generated documents with comments before/inside/after and nested splits: the listing vs the spine-path order computed '
            'from the source grid alone, every single-category filter, random sets, unique/frequency/comment queries, is_monophonic, and listing/unique/comments/measures/spine types vs the model.',
            'Trusted: Lean kernel, standard axioms, extract.py, harness. That the importer\'s tree is the spine-path tree of the grid is C02\'s subject (correspondence); is_monophonic is decided by '
            'correspondence with the model and the grid oracle only.',
            'DESIGN.md §5 C17'),
    'C02': ('Lean 4 proof: importer invariants by exhaustive branch analysis of the cell step lifted by induction over cells and rows (stage count, strictly increasing measure index, frame conditions), reader round trip by list induction, surplus-cell rejection; global spine-path refinement by exhaustive-layout correspondence',
            'Theorems C02_one_stage_per_line (every parser, every row list: 1 + number of non-empty rows stages), C02_measure_index_ok, C02_reader_literal (reading the rendering of any grid '
            'whose cells are free of TAB / line boundaries gives the grid back: quotes, commas, spaces are ordinary characters), C02_surplus_data / _operator / _comment and '
            'C02_surplus_row_rejected (a row with a data token beyond the live spine paths makes the import fail, whatever the other cells are), C02_row_error_propagates, '
            'C02_data_cell_node (one node per cell, parent = the node above on the path, header node inherited), C02_split_and_end. Tied by the exhaustive enumeration of every '
            'spine-operator layout (<= 2 spines, <= 4 paths, <= 2/3 operator rows), generated documents, special-character cells and surplus cells of each kind against an independent '
            'spine-path tracker on the source grid and the model (whole tree compared).',
            'Partial: the refinement across rows (the parents list equals the reference tracker on the whole grid, including the *v collapse rule) is not a Lean theorem; it is decided by '
            'the exhaustive-layout correspondence. Trusted: Lean kernel, standard axioms, extract.py, harness.',
            'DESIGN.md §5 C02'),
    'C08': ('Lean 4 proof of the provable part (terminator arithmetic, body = rows of the full score) plus a kernel-evaluated NEGATIVE theorem on a literal document inside the claimed core; core/frontier streams by correspondence with known-finding attribution',
            'Theorems C08_terminator_count / _not_doubled / _cells / C08_no_terminator_without_range, C08_body_is_full_score_rows (via C07_body), and C08_nested_split_witness: the model\'s '
            'excerpt of measure 2 of a literal score whose split has both branches split again is **kern / *^ / *clefG2 / ... - the property is false inside its own claimed core (finding F15d). '
            'The check runs a core stream (signatures before the first measure and even, splits re-joined and not nested) where every clause must hold, and a frontier stream '
            '(mid-score signatures, nested splits, starts inside splits, non-kern spines) whose failures are attributed to the known findings F15a-d only when the model predicts exactly the '
            'same output; every excerpt is compared with the model.',
            'Partial: well-formedness and same-governing-signatures of the excerpt on the core are established by correspondence (text-level trackers), not by a Lean theorem. '
            'Trusted: Lean kernel, standard axioms, extract.py, harness.',
            'DESIGN.md §5 C08'),
    'C12': ('Lean 4 proof: state machine of the shared ErrorListener (reset fact regenerated from the AST) gives history independence by induction over the cell sequence; per-cell isolation theorems by unfolding the importer step; damage placements and importer histories by correspondence',
            'Theorems resets_errors (translator fact), C12_state_independent, C12_history (every raw parser, every sequence of cells fed to one importer: each outcome is the fresh-importer '
            'outcome), C12_order_irrelevant, C12_rejected_cell (import goes on; one node at the token\'s place with an ErrorToken holding the verbatim text; exactly one error with the current '
            'line number appended; nothing else changes), C12_accepted_cell (no error added), C12_exported_verbatim. Tied by generated documents with 1..3 damaged cells (errors = exactly those '
            'cells in order with line and text, all other tokens and links identical to the undamaged import, exported in place), all importer histories up to length 3/5 over a 12-token '
            'alphabet, and the silent-shortening clause on a token corpus.',
            'Partial: the document-level statement over several damaged cells is decided by correspondence. "No cell is silently shortened" depends on the ANTLR grammar alone (open finding F3); '
            'separator characters inside a malformed cell are stripped by the plain encodings (open finding F10). Trusted: Lean kernel, standard axioms, extract.py (AST facts), harness.',
            'DESIGN.md §5 C12'),
    'C15': ('Lean 4 proof about the model of to_transposed (structure kept, only PITCH sub-tokens rewritten by the C09 arithmetic) plus NEGATIVE theorems on literal witnesses for the three classes the code violates; 40 intervals x 2 directions by correspondence',
            'Theorems C15_links_kept, C15_non_notes_unchanged (chords included), C15_note (decorations identical, same length, categories kept, every non-PITCH sub-token unchanged, every PITCH '
            'sub-token = transpose(pitch)), C15_pitch_is_C09 (exactly the letter/semitone specification for pitches without accidental), C15_bad_arguments; negative: C15_source_is_modified '
            '(the source after the call is the result: F14c), C15_accidental_not_merged (e- up M2 gives f#-: F14a), C15_chords_not_transposed (F14b). Tied on a core stream (single notes without '
            'accidental: export of the result = source grid with only the pitch letters replaced by the C09 result, transposing back restores it) and a frontier stream, all compared with the '
            'model, which returns the result AND the source after the call.',
            'Partial: the property as stated is violated by the code in three classes named in the property itself; they are tracked as known findings F14a-c. '
            'Trusted: Lean kernel, standard axioms, extract.py, harness.',
            'DESIGN.md §5 C15'),
}

NOT_YET = {}


# document-level theorems added in the last third of the build: appended to the level text / replacing notes that went stale
EXTRA_TEXT = {
    'C01': ' Text level (C01Norm, partial): C01_normal_form_fixed_point / C01_normalForm_idem - for every text, parser and class of cells whose exported texts round-trip, replacing every '
           'data cell by the exported text of its token keeps the spine paths and is idempotent; C01Text: C01_export_of_normal_form / C01_dumps_of_normal_form - the export of the normal form '
           'is the export of the text; C01Plain: C01_plain_export / C01_fixed_point_plain - for plain texts (no global comments, supported spine types, no all-null line) the export is the '
           'rendering of the normal form and dumps(loads(dumps(loads(text)))) = dumps(loads(text)) (all statements are also evaluated on the real library with the Lean normal form). '
           'Not proved: that deleting comment lines, all-null lines and unsupported columns keeps the paths.',
    'C04': ' Document level (C04Doc): C04_cell_view / C04_line_view - in the text specification of the export every line of a plain encoding is, cell by cell and with the same cells present, '
           'the view (separators removed, null token when nothing remains) of the same line of its extended counterpart.',
    'C18': ' Inside documents (C18Doc): C18_cell_in_document - with the importer\'s cell parser instantiated by the spine-importer dispatch every data cell of a non-kern spine carries the token of '
           'the single rule for (its own header, its own text); C18_same_text_two_spines.',
    'C02': ' Document level (C02Tree, C02Tok): C02_tree - for every cell parser and every text without surplus cells a successful import has exactly the skeleton of an '
           'independent spine-path tracker (one stage per non-empty line, one node per cell, parent = the cell above on the same spine path, header = the ** cell of its spine); '
           'C02_import_succeeds (such texts without *x always import); C02_tokens (every node carries the token its own spine\'s importer makes of its own cell). The harness '
           'compares the real tree with the Lean tracker run on the text. C02Surplus: C02_surplus_text (a line with a cell beyond the live spine paths makes the import of the whole text raise).',
    'C03': ' Chords and every cell of the grammar: C03_chord, C03_cell. Document level (C03Doc): C03_export_of_text - dumps(loads(text)) is the grid of the text with each cell '
           'replaced by the kern text of the token its own spine\'s importer made of it, unsupported spine types, global comments and all-null lines removed - a function of the '
           'text through the tracker alone; the real export is compared with this Lean specification on every explored document.',
    'C05': ' Document level: C13D.C13_export_of_text / C05_selection_keeps_grid (a category selection changes the text of cells, never which cells there are).',
    'C06': ' Document level: C13D.C06_cell_projection, C06D.C06_spine_types_of_text (the spine-type query as a function of the text).',
    'C07': ' Document level (C07Doc, C07Text): C07_measure_index - for every parser and text the measure index is the list of stages holding a barline token (first: a CORE token); '
           'C07_range_of_text - the body of every valid range export is the text specification of the rows over the stage interval the measure index assigns to a..b.',
    'C08': ' C08Prefix: C08_excerpt_from_start - an excerpt that starts at the beginning of the score is the full export cut after its end stage plus the synthetic terminator. C08Range: C08_preamble_flat / C08_excerpt_flat / C08_excerpt_spec - for a later excerpt (from_measure >= 1) above whose first line no spine path is split, joined, added or ended and below which no signature of a class in force is declared again, the recovered preamble is exactly the header line followed by the signatures in force on every spine path (the entries of last_signature_nodes, by C10_sigs_recurrence the nearest signatures above), the body is the lines of the measures, then the terminator; the executable specification KernModel/Spec/Excerpt.lean is compared with the real export on every explored excerpt in that core (counted as lean_excerpt_spec in the evidence).',
    'C15': ' Document level (C15Doc): C15_same_skeleton, C15_export - the transposed document has the skeleton of the source and its default export is the text specification over the source '
           'skeleton and the transposed tokens. C15Round: C15_roundtrip - for documents whose single notes are spelled with at most two accidentals, a successful transposition can be '
           'transposed back by the same interval in the opposite direction and the default export of what comes back is the default export of the source.',
    'C10': ' Document level (C10Doc, C10Text): C10_sigs_recurrence (every node\'s signature table is its parent\'s, updated with itself when it is a signature), C10_clef_in_force, '
           'clef_is_nearest (the clef the exporter uses = the nearest clef token at or above the cell on its spine path) and C10_export_of_text: every export without a measure range in '
           'ALL SIX encodings is a function of the text (tracker skeleton + tokens + clef in force); compared with the real export on every explored option set.',
    'C12': ' Document level (C12Doc, C12Iso): C12_errors_are_error_nodes (the error list = the error tokens of the tree in reading order with line and verbatim text), '
           'C12_import_isolates, C12_isolation / C12_same_skeleton / TT_run_congr (texts that differ only in data cells have the same spine paths, skeleton and header table: a '
           'damaged cell changes no other token).',
    'C13': ' Document level (C13Doc): C13_export_of_text (all option sets without a range, the four clef-independent encodings; all six in C10T.C10_export_of_text) and '
           'C13_cell_factorises (whether a cell survives depends on the spine selection alone; its text on categories and encoding alone).',
    'C17': ' Document level (C17Tree): C17_listing_exactly_once - for every parser and every text without surplus cells the traversal of get_all_tokens visits every node of the tree '
           'exactly once; C17_listing_length.',
}
NOTE_OVERRIDE = {
    'C03': 'Trusted: Lean kernel, standard axioms, extract.py, harness. ANTLR parser = parameter (tokOf tie by correspondence). Open findings: F10 (separator characters in free text), '
           'F16 (hidden barlines), F21 (the extended trill TT is read as two T; found with the full signifier alphabet, oracle written from the statement) are outside the hypotheses. Hypothesis of the document theorems: no surplus cells (wf, decidable, reported by the driver for every explored text).',
    'C10': 'Trusted: Lean kernel, standard axioms, extract.py, harness; decimal formatting of the staff position is not modelled. Hypothesis on the parser\'s tokens (checked on every '
           'explored document): a signature token is neither a barline nor a CORE token.',
    'C02': 'Trusted: Lean kernel, standard axioms, extract.py, harness. Surplus cells are proved rejected when the previous line left live paths; after a line that terminates every '
           'spine the code keeps the stale list (texts with cells below it are excluded by wf and by the property). Rows shorter than the live paths are accepted by code and tracker alike.',
}


def main():
    props = [json.loads(l) for l in (V / 'properties.jsonl').read_text().splitlines() if l.strip()]
    checks = []
    na = []
    for p in props:
        pid = p['id']
        if pid in CLAIMED:
            tech, text, note, ref = CLAIMED[pid]
            text = text + EXTRA_TEXT.get(pid, '')
            note = NOTE_OVERRIDE.get(pid, note)
            checks.append({
                'property_id': pid,
                'quick_cmd': f'./check {pid} quick',
                'thorough_cmd': f'./check {pid} thorough',
                'evidence_file': f'/verif/evidence/{pid}.json',
                'replay_cmd_template': f'./check {pid} quick --replay {{path}}',
                'engine': 'lean4-kernmodel',
                'level_claimed': {'category': 'proof', 'text': text, 'design_ref': ref},
                'level_note': note,
                'technique': tech,
            })
        else:
            na.append({'property_id': pid, 'reason': NOT_YET.get(pid, 'not claimed yet: the Lean model and theorems for this property are still being built (see DESIGN.md §8 order of work); no check is registered until both the theorem and the tie exist')})
    m = {
        'version': 1,
        'setup_cmd': 'cd /verif && ./check --setup',
        'hooks': {
            'guard': 'KERNPY_VERIF',
            'enable': 'no hook is needed: every observation is available through the public API and object attributes; checks import /repo as installed (editable) in /venv',
            'baseline_off_cmd': 'cd /verif && /venv/bin/python harness/baseline.py',
            'source_commits': [],
            'add_only': True,
        },
        'engines': [{
            'name': 'lean4-kernmodel',
            'path': '/verif/lean',
            'serves_properties': sorted(CLAIMED),
            'kind_free_text': 'Lean 4.33 model (KernModel, core only), theorems (KernProofs), native JSON line-protocol driver (kerndriver); '
                              'harness/extract.py regenerates literal tables from /repo on every run; harness/props/*.py run the correspondence',
        }],
        'checks': checks,
        'notes': 'All checks: ./check <id> quick|thorough. Exit 0 held / 1 VIOLATION / 2 infrastructure or timeout. Known findings: KNOWN_FINDINGS.txt.',
        'not_applicable': na,
    }
    (V / 'MANIFEST.json').write_text(json.dumps(m, indent=1) + '\n')


if __name__ == '__main__':
    main()
