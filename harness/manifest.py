"""Regenerates MANIFEST.json from the per-property registry below (keeps it schema-valid at all times)."""
import json, sys
from pathlib import Path
V = Path(__file__).resolve().parent.parent

CLAIMED = {
    # id: (technique, level text, level note, design ref)
    'C11': ('Lean 4 proof: kernel-decided tables (37, 37x37) lifted by list induction; translator-regenerated hierarchy + exhaustive correspondence',
            'Theorems C11_forest_each_once, C11_matches_documented_tree, C11_is_child/nodes/children/leaves (all 37 / 37x37 by decide +kernel) and '
            'C11_valid, C11_match, C11_set_semantics for arbitrary include/exclude lists of any of the four argument kinds, about a model whose '
            'hierarchy table is regenerated from tokens.py and README.md on every run; the Python functions are tied to the model by exhaustive '
            'correspondence (all categories, all ordered pairs, all include/exclude pairs of size <=1 quick / <=2 thorough).',
            'Trusted: Lean kernel, propext/Classical.choice/Quot.sound, extract.py, the correspondence harness (sets compared sorted). '
            'Modelled, not verified: the dictionary walks of TokenCategoryHierarchyMapper (hand-modelled, validated exhaustively).',
            'DESIGN.md §5 C11'),
}

NOT_YET = {}


def main():
    props = [json.loads(l) for l in (V / 'properties.jsonl').read_text().splitlines() if l.strip()]
    checks = []
    na = []
    for p in props:
        pid = p['id']
        if pid in CLAIMED:
            tech, text, note, ref = CLAIMED[pid]
            checks.append({
                'property_id': pid,
                'quick_cmd': f'./check {pid} quick',
                'thorough_cmd': f'./check {pid} thorough',
                'evidence_file': f'/verif/evidence/{pid}.json',
                'replay_cmd_template': f'./check {pid} quick --replay {{path}}',
                'engine': 'lean4-kernmodel',
                'level_claimed': {'category': 'proof', 'text': text, 'design_ref': ref},
                'level_note': note,
                'technique': tech,
            })
        else:
            na.append({'property_id': pid, 'reason': NOT_YET.get(pid, 'not claimed yet: the Lean model and theorems for this property are still being built (see DESIGN.md §8 order of work); no check is registered until both the theorem and the tie exist')})
    m = {
        'version': 1,
        'setup_cmd': 'cd /verif && ./check --setup',
        'hooks': {
            'guard': 'KERNPY_VERIF',
            'enable': 'no hook is needed: every observation is available through the public API and object attributes; checks import /repo as installed (editable) in /venv',
            'baseline_off_cmd': 'cd /verif && /venv/bin/python harness/baseline.py',
            'source_commits': [],
            'add_only': True,
        },
        'engines': [{
            'name': 'lean4-kernmodel',
            'path': '/verif/lean',
            'serves_properties': sorted(CLAIMED),
            'kind_free_text': 'Lean 4.33 model (KernModel, core only), theorems (KernProofs), native JSON line-protocol driver (kerndriver); '
                              'harness/extract.py regenerates literal tables from /repo on every run; harness/props/*.py run the correspondence',
        }],
        'checks': checks,
        'notes': 'All checks: ./check <id> quick|thorough. Exit 0 held / 1 VIOLATION / 2 infrastructure or timeout. Known findings: KNOWN_FINDINGS.txt.',
        'not_applicable': na,
    }
    (V / 'MANIFEST.json').write_text(json.dumps(m, indent=1) + '\n')


if __name__ == '__main__':
    main()
