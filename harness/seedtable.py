"""Prints the table of seeded changes (DESIGN.md section 11) from seeded/*/meta.json."""
import json, glob, os, sys

V = os.path.dirname(os.path.dirname(os.path.abspath(__file__)))


def short(s, n):
    s = (s or '').replace('\n', ' ').replace('|', '/').strip()
    return s if len(s) <= n else s[:n - 1] + '…'


def main():
    rows = []
    for d in sorted(glob.glob(os.path.join(V, 'seeded', '*'))):
        m = json.load(open(os.path.join(d, 'meta.json')))
        name = os.path.basename(d)
        det = m.get('detection', {})
        t = m.get('detected_by')
        dd = det.get(t, {}) if t else {}
        vio = (dd.get('violation') or [''])[0]
        kind = 'no-failing-input-found' if 'no-failing-input-found' in vio else 'replay = failing input'
        what = short(dd.get('replay_what'), 100)
        files = ', '.join(os.path.basename(f) for f in (m.get('files') or [m.get('file', '')]) if f)
        rows.append('| %s | %s (%s) | %s | %s%s | %s |' % (name, short(m.get('summary'), 170), files, t or '**missed**', kind if t else '', (': ' + what) if what else '',
                                                      'first missed - see `history` in meta.json' if m.get('history') else ''))
    print('| change | what was changed (file) | caught by | what the check reported | note |')
    print('|---|---|---|---|---|')
    print('\n'.join(rows))
    print()
    print('%d changes; caught in the quick tier: %d; only in the thorough tier: %d; strengthened after a first miss: %d' % (
        len(rows), sum('| quick |' in r for r in rows), sum('| thorough |' in r for r in rows), sum('first missed' in r for r in rows)))


if __name__ == '__main__':
    main()
