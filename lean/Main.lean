import KernDriver
def main : IO Unit := KD.main
