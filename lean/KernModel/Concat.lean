/-
  KernModel.Concat — `Generic.concat(contents, separator)` (kernpy/core/generic.py): the fragments are appended one
  by one (each preceded by the separator, the first one too), every prefix is imported from scratch, and the number of
  measures of the prefix closes the pair of that fragment.
-/
import KernModel.Doc
namespace KM
namespace Concat

/-- the text after appending the fragments `cs` to `raw` -/
def joined (sep : Str) (raw : Str) (cs : List Str) : Str := cs.foldl (fun r c => r ++ sep ++ c) raw

/-- the loop `for content in contents` from the state (raw text so far, next low index) -/
def pairsFrom (P : CellParser) (sep : Str) : Str → Nat → List Str → Except Err (List (Nat × Nat))
  | _, _, [] => .ok []
  | raw, low, c :: cs => do
    let raw' := raw ++ sep ++ c
    let d ← Importer.importString P raw'
    let high := d.starts.length
    let rest ← pairsFrom P sep raw' (high + 1) cs
    pure ((low, high) :: rest)

/-- `concat(contents, separator)`: the last imported document and one pair per fragment -/
def concat (P : CellParser) (contents : List Str) (sep : Str) : Except Err (Doc × List (Nat × Nat)) :=
  if contents.isEmpty then .error .valueError
  else do
    let pairs ← pairsFrom P sep [] 0 contents
    let d ← Importer.importString P (joined sep [] contents)
    pure (d, pairs)

end Concat
end KM
