/-
  KernModel.KernImporter — `KernSpineImporter.import_token` as a state machine over the `ErrorListener` it keeps
  for its whole life (kernpy/core/kern_spine_importer.py, error_listener.py).

  The ANTLR lexer/parser/listener is a parameter: `R cell` = (number of syntax errors it reports, token the listener
  ends up with).  Whether `import_token` starts by forgetting earlier errors is read from the source by the
  translator (`Gen.kernImporterResetsErrors`).
-/
import KernModel.Token
import KernModel.Gen.KernImporter
namespace KM
namespace KernImporter

/-- the shared listener: how many errors it currently holds -/
structure Listener where
  errors : Nat
  deriving DecidableEq, Repr

abbrev RawParser := Str → Nat × Option Tok

/-- one `import_token(cell)`: new listener state and the outcome (`none` = it raised) -/
def importToken (R : RawParser) (l : Listener) (cell : Str) : Listener × Option Tok :=
  let l0 : Listener := if Gen.kernImporterResetsErrors then ⟨0⟩ else l
  let r := R cell
  let l1 : Listener := ⟨l0.errors + r.1⟩
  (l1, if l1.errors > 0 then none else r.2)

/-- a fresh importer -/
def fresh (R : RawParser) (cell : Str) : Option Tok := (importToken R ⟨0⟩ cell).2

/-- the outcomes of a sequence of cells fed to ONE importer -/
def run (R : RawParser) : Listener → List Str → List (Option Tok)
  | _, [] => []
  | l, c :: cs => let r := importToken R l c; r.2 :: run R r.1 cs

end KernImporter
end KM
