/-
  KernModel.Options — `Generic.parse_options_to_ExportOptions` (generic.py) behind `dumps` / `dump` (public.py):
  start from `ExportOptions.default()`, compute the categories with `valid(include, exclude)`, then overwrite
  every field whose keyword is not `None`.
-/
import KernModel.Export
namespace KM
namespace Options

/-- the keyword arguments of `dumps`; `none` = omitted (or passed as `None`) -/
structure RawOpts where
  spineTypes : Option (List Str) := none
  incl : Hier.Arg := .none
  excl : Hier.Arg := .none
  fromM : Option Int := none
  toM : Option Int := none
  enc : Option Encoding := none
  spineIds : Option (List Nat) := none

def resolve (raw : RawOpts) : Except Err Opts := do
  let cats ← Hier.valid hierarchy raw.incl raw.excl
  pure { spineTypes := raw.spineTypes.getD Gen.headers, cats := cats, fromM := raw.fromM, toM := raw.toM,
         enc := raw.enc.getD .kern, spineIds := raw.spineIds }

/-- `dumps(document, **kwargs)` -/
def dumps (d : Doc) (raw : RawOpts) : Except Err Str := do
  let o ← resolve raw
  Export.exportString d o

end Options
end KM
