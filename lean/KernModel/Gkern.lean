/-
  KernModel.Gkern — model of kernpy/core/gkern.py: clef factory, staff position, graphic-kern pitch.
  The bottom-line table, LETTERS and LETTER_TO_INDEX are generated from the source.
  Decimal formatting / parsing of the position number (`str(int)` then `int(...)`) is not modelled:
  the position travels as an integer (trusted: `int(str(n)) = n`).
-/
import KernModel.Pitch
namespace KM

inductive Clef where | G2 | F3 | F4 | C1 | C2 | C3 | C4
  deriving DecidableEq, Repr, Inhabited

namespace Clef
def all : List Clef := [G2, F3, F4, C1, C2, C3, C4]
/-- key into the generated bottom-line table -/
def key : Clef → Str
  | G2 => ['G','2'] | F3 => ['F','3'] | F4 => ['F','4']
  | C1 => ['C','1'] | C2 => ['C','2'] | C3 => ['C','3'] | C4 => ['C','4']
end Clef

namespace Gkern

/-- `s.replace(pat, '')`: leftmost, non-overlapping (the counter skips the rest of a matched occurrence). -/
def removeSubAux (pat : Str) : Nat → Str → Str
  | _, [] => []
  | n + 1, _ :: cs => removeSubAux pat n cs
  | 0, c :: cs =>
    if pat ≠ [] ∧ pat.isPrefixOf (c :: cs) then removeSubAux pat (pat.length - 1) cs
    else c :: removeSubAux pat 0 cs

def removeSub (pat : Str) (s : Str) : Str := removeSubAux pat 0 s

def clefPrefix : Str := ['*','c','l','e','f']

def isClefName (c : Char) : Bool := c == 'G' || c == 'F' || c == 'C'
def isDigitC (c : Char) : Bool := 48 ≤ c.toNat && c.toNat ≤ 57

/-- `ClefFactory.create_clef(encoding)`.  `[...][0]` on an empty list is an `IndexError` (`Err.other`). -/
def createClef (encoding : Str) : Except Err Clef :=
  let e := removeSub clefPrefix encoding
  match e.filter isClefName, e.filter isDigitC with
  | name :: _, d :: _ =>
    let line := d.toNat - 48
    if name == 'G' then .ok .G2
    else if name == 'F' then
      (if line == 3 then .ok .F3 else if line == 4 then .ok .F4 else .error .valueError)
    else  -- 'C'
      (if line == 1 then .ok .C1 else if line == 2 then .ok .C2 else if line == 3 then .ok .C3
       else if line == 4 then .ok .C4 else .error .valueError)
  | _, _ => .error .other

/-- `clef.bottom_line()` from the generated table. -/
def bottomLine (c : Clef) : Option APitch :=
  match lookup c.key Gen.clefBottom with
  | some (n, o) => some ⟨n, o⟩
  | none => none

/-- `letter(p)` inside `compute_position`, then the `LETTER_TO_INDEX` subscription. -/
def letterIndex (p : APitch) : Except Err Int :=
  match Pitch.setName (removeC '-' (removeC '+' p.name)) with
  | .error e => .error e
  | .ok n => match lookup n Gen.letterToIndex with
    | some i => .ok i
    | none => .error .keyError

/-- `PitchPositionReferenceSystem.compute_position`: diatonic steps above the bottom line. -/
def computePosition (base pitch : APitch) : Except Err Int := do
  let bi ← letterIndex base
  let ti ← letterIndex pitch
  pure ((pitch.octave - base.octave) * 7 + (ti - bi))

/-- `PositionInStaff.__str__`: (is a space?, printed number). -/
def positionStr (lineSpace : Int) : Bool × Int :=
  if lineSpace % 2 == 0 then (false, lineSpace / 2 + 1) else (true, (lineSpace - 1) / 2 + 1)

/-- `gkern_to_g_clef_pitch` on the parsed token. -/
def gkernOfPosition (pos : Bool × Int) : Except Err Str :=
  let distance := 2 * pos.2 + (if pos.1 then 1 else 0)
  let idx := distance % 7
  let octs := distance / 7
  match Gen.gkernLetters[idx.toNat]? with
  | none => .error .other
  | some letter =>
    if distance > 0 then .ok (Pitch.repeatS letter (octs + 1))
    else if distance < 0 then .ok (Pitch.repeatS (upperS letter) (-octs))
    else .ok ['c']

/-- `pitch_to_gkern_string(pitch, clef)`. -/
def pitchToGkern (p : APitch) (c : Clef) : Except Err Str := do
  match bottomLine c with
  | none => .error .other
  | some b =>
    let steps ← computePosition b p
    let g ← gkernOfPosition (positionStr steps)
    pure (g ++ Pitch.accidentals p)

end Gkern
end KM
