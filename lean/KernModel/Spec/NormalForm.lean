/-
  KernModel.Spec.NormalForm — the cell-wise normal form of a text (C01's specification at text level): every data cell replaced by the
  exported text of the token its own spine's importer makes of it, everything else (lines, `**` cells, spine operators, comments) kept.
  `KernProofs/C01Norm.lean` proves it idempotent with unchanged spine paths, `KernProofs/C01Text.lean` that exporting it gives the export of
  the text; the harness evaluates both statements on the real library (driver op `doc.norm`).
-/
import KernModel.Spec.TextExport
namespace KM.C01N
open KM Importer
open KM.Spec.Track
open KM.C02K KM.C03D

/-- a data cell: neither a `**` cell nor a spine operator -/
def dataCell (c : Str) : Bool := !isHeaderCell c && !isSpineOp c

/-- the exported text of a token (`cellOfTok`, total) -/
def outText (t : Tok) : Str := match cellOfTok t with | .ok s => s | .error _ => []

/-- the normal form of one cell at column `i` under header text `h` -/
def normCell (P : CellParser) (h : Option Str) (i : Nat) (c : Str) : Str :=
  if dataCell c then outText (cellTok P h i c) else c

/-- lines that are processed cell by cell (not empty, not a global comment) -/
def cellRow (r : List Str) : Bool := match r with | [] => false | c0 :: _ => !startsWith ['!', '!'] c0

def normRow (P : CellParser) (tt : TT) (r : List Str) : List Str :=
  if cellRow r then r.zipIdx.map (fun ci => normCell P (specHdr tt ci.2) ci.2 ci.1) else r

/-- the cell-wise normal form of a text -/
def normRows (P : CellParser) : TT → List (List Str) → List (List Str)
  | _, [] => []
  | tt, r :: rs => normRow P tt r :: normRows P (tt.step P r) rs

/-- the normal form of a whole text -/
def normalForm (P : CellParser) (rows : List (List Str)) : List (List Str) := normRows P TT.init rows

end KM.C01N
