/-
  KernModel.Spec.TextExport — the specification of `dumps(loads(text), options)` as a function of the text: what every cell of the export is,
  read off the rows of the text with the spine-path tracker (`Spec.Track`), the per-cell parser and the options alone.  No importer state,
  no tree, no exporter loop.  `KernProofs/C02Tok, C03Doc, C13Doc, C10Text` prove that the model of the code computes exactly this; the
  harness compares the real `kernpy.dumps(kernpy.loads(text), …)` with it (driver op `doc.spec`).

  (The definitions keep the namespaces of the proof files that first introduced them.)
-/
import KernModel.Export
import KernModel.Spec.Tracker

namespace KM.C02K
open KM Importer
open KM.Spec.Track

/-- the token a cell gets, given the text of the `**` cell of its spine -/
def cellTok (P : CellParser) (hdrEnc : Option Str) (i : Nat) (col : Str) : Tok :=
  if startsWith ['*', '*'] col then .header col i
  else if isSpineOp col then .simple .SpineOperationToken col .SPINE_OPERATION false
  else if startsWith ['!'] col then .simple .FieldCommentToken col .FIELD_COMMENTS false
  else match hdrEnc with
    | some h => (match P h col with
      | some t => t
      | none => .simple .ErrorToken col .ERROR false)
    | none => .simple .ErrorToken col .ERROR false

structure TT where
  t : T
  hdrs : List (Coord × Str)            -- coordinate of every `**` cell seen so far, with its text
  toks : List (List (Option Tok))

def TT.init : TT := ⟨Spec.Track.init, [], [[none]]⟩

/-- the text of the `**` cell of the spine a cell at column `i` belongs to -/
def specHdr (tt : TT) (i : Nat) : Option Str := (tt.t.live[i]?).bind (fun p => lookup p.2 tt.hdrs)

def TT.step (P : CellParser) (tt : TT) (row : List Str) : TT :=
  match row with
  | [] => tt
  | c0 :: _ =>
    let stage := tt.t.skel.length
    if startsWith ['!', '!'] c0 then
      ⟨Spec.Track.step tt.t row, tt.hdrs, tt.toks ++ [[some (.simple .MetacommentToken (stripS c0) .LINE_COMMENTS false)]]⟩
    else
      ⟨Spec.Track.step tt.t row,
       tt.hdrs ++ row.zipIdx.filterMap (fun ci => if isHeaderCell ci.1 then some ((stage, ci.2), ci.1) else none),
       tt.toks ++ [row.zipIdx.map (fun ci => some (cellTok P (specHdr tt ci.2) ci.2 ci.1))]⟩

def TT.run (P : CellParser) (rows : List (List Str)) : TT := rows.foldl (TT.step P) TT.init

end KM.C02K

namespace KM.C03D
open KM Importer Export Tokz
open KM.Spec.Track KM.C02K

/-- the null cell a token is replaced by -/
def phOf (t : Tok) : Str := if Hier.isChild hierarchy .SIGNATURES t.cat then ['*'] else ['.']

/-- a header token as the default encoding prints it -/
def hdrAdj (t : Tok) : Tok := match t with | .header e i => Tokz.headerFor .kern e i | t => t

/-- **what the default export prints for a token**: a function of the token alone -/
def cellOfTok (t : Tok) : Except Err Str :=
  if t.hidden then .ok (phOf t)
  else (Tokz.tokenize .kern Cat.all none (hdrAdj t)).map (fun s => if s.isEmpty then phOf t else s)

def hdrTokAt (toks : List (List (Option Tok))) (c : Coord) : Option Tok :=
  match (toks[c.1]?).bind (·[c.2]?) with
  | some (some t) => some t
  | _ => none

/-- the header token that decides whether a cell is exported -/
def hdrOfCell (toks : List (List (Option Tok))) (sk : Skel) (t : Tok) : Option Tok :=
  match t with
  | .header e i => some (.header e i)
  | _ => sk.2.bind (hdrTokAt toks)

def selectedHdr (types : List Str) : Option Tok → Bool
  | some (.header e _) => types.contains e
  | _ => false

def cellSpec (toks : List (List (Option Tok))) (sk : Skel) (ot : Option Tok) : Except Err (Option Str) :=
  match ot with
  | none => .ok none
  | some t => if selectedHdr Gen.headers (hdrOfCell toks sk t) then (cellOfTok t).map some else .ok none

def rowSpec (toks : List (List (Option Tok))) (sks : List Skel) (ots : List (Option Tok)) : Except Err (List Str) :=
  ((sks.zip ots).mapM (fun p => cellSpec toks p.1 p.2)).map (·.filterMap id)

/-- the rows of the default export, from the skeleton and the tokens of the tree alone -/
def specBody (sk : List (List Skel)) (tk : List (List (Option Tok))) : Except Err (List (Nat × List Str)) := do
  let rows ← ((List.range (sk.length - 1 + 1 - 0)).map (· + 0)).mapM (fun s => do
    let r ← rowSpec tk (sk[s]?.getD []) (tk[s]?.getD [])
    pure (s, r))
  pure (rows.filter (fun (sr : Nat × List Str) => !sr.2.isEmpty && !(sr.2.all isNullish)))

def specExport (sk : List (List Skel)) (tk : List (List (Option Tok))) : Except Err Str :=
  (specBody sk tk).map (fun b => renderRows (b.map (·.2)))

end KM.C03D

namespace KM.C13D
open KM Importer Export Tokz
open KM.Spec.Track KM.C02K KM.C03D

def clefFree (e : Encoding) : Bool := match e with | .akern | .aekern => false | _ => true

def hdrAdjE (enc : Encoding) (t : Tok) : Tok := match t with | .header e i => Tokz.headerFor enc e i | t => t

/-- **what the export prints for a token** under a category selection and an encoding: a function of the token alone -/
def cellOfTokO (cats : List Cat) (enc : Encoding) (t : Tok) : Except Err Str :=
  if t.hidden || !(t.isComplex || cats.contains t.cat) then .ok (phOf t)
  else (Tokz.tokenize enc cats none (hdrAdjE enc t)).map (fun s => if s.isEmpty then phOf t else s)

/-- the spine test: the `**` cell of the cell's spine is of a selected type and (when ids are given) at a selected column -/
def selectedHdrO (types : List Str) (ids : Option (List Nat)) : Option Tok → Bool
  | some (.header e i) => types.contains e && (match ids with | none => true | some l => l.contains i)
  | _ => false

def cellSpecO (o : Opts) (toks : List (List (Option Tok))) (sk : Skel) (ot : Option Tok) : Except Err (Option Str) :=
  match ot with
  | none => .ok none
  | some t => if selectedHdrO o.spineTypes o.spineIds (hdrOfCell toks sk t) then (cellOfTokO o.cats o.enc t).map some else .ok none

def rowSpecO (o : Opts) (toks : List (List (Option Tok))) (sks : List Skel) (ots : List (Option Tok)) : Except Err (List Str) :=
  ((sks.zip ots).mapM (fun p => cellSpecO o toks p.1 p.2)).map (·.filterMap id)

def specBodyO (o : Opts) (sk : List (List Skel)) (tk : List (List (Option Tok))) : Except Err (List (Nat × List Str)) := do
  let rows ← ((List.range (sk.length - 1 + 1 - 0)).map (· + 0)).mapM (fun s => do
    let r ← rowSpecO o tk (sk[s]?.getD []) (tk[s]?.getD [])
    pure (s, r))
  pure (rows.filter (fun (sr : Nat × List Str) => !sr.2.isEmpty && !(sr.2.all isNullish)))

def specExportO (o : Opts) (sk : List (List Skel)) (tk : List (List (Option Tok))) : Except Err Str :=
  (specBodyO o sk tk).map (fun b => renderRows (b.map (·.2)))

end KM.C13D

namespace KM.C10T
open KM Importer Export Tokz
open KM.Spec.Track KM.C02K KM.C03D KM.C13D

def parentAt (sk : List (List Skel)) (c : Coord) : Option Coord := ((sk[c.1]?).bind (·[c.2]?)).bind (·.1)

/-- the nearest clef token at or above `c`, following the parent links (`fuel` > line number suffices) -/
def clefCoord (sk : List (List Skel)) (tk : List (List (Option Tok))) : Nat → Coord → Option Coord
  | 0, _ => none
  | f + 1, c =>
    match hdrTokAt tk c with
    | some t => if t.cls == .ClefToken then some c else (parentAt sk c).bind (clefCoord sk tk f)
    | none => (parentAt sk c).bind (clefCoord sk tk f)

/-- the clef text the exporter converts under, from skeleton and tokens -/
def clefTextAt (sk : List (List Skel)) (tk : List (List (Option Tok))) (c : Coord) : Option Str :=
  ((clefCoord sk tk (c.1 + 1) c).bind (hdrTokAt tk)).map (·.enc)

/-- what the export prints for a token under a category selection, an encoding and the clef in force -/
def cellOfTokC (cats : List Cat) (enc : Encoding) (clef : Option Str) (t : Tok) : Except Err Str :=
  if t.hidden || !(t.isComplex || cats.contains t.cat) then .ok (phOf t)
  else (Tokz.tokenize enc cats clef (hdrAdjE enc t)).map (fun s => if s.isEmpty then phOf t else s)

def cellSpecA (o : Opts) (sk : List (List Skel)) (tk : List (List (Option Tok))) (c : Coord) (skc : Skel) (ot : Option Tok) :
    Except Err (Option Str) :=
  match ot with
  | none => .ok none
  | some t =>
    if selectedHdrO o.spineTypes o.spineIds (hdrOfCell tk skc t) then (cellOfTokC o.cats o.enc (clefTextAt sk tk c) t).map some
    else .ok none

def rowSpecA (o : Opts) (sk : List (List Skel)) (tk : List (List (Option Tok))) (s : Nat) : Except Err (List Str) :=
  ((((sk[s]?.getD []).zip (tk[s]?.getD [])).zipIdx).mapM (fun p => cellSpecA o sk tk (s, p.2) p.1.1 p.1.2)).map (·.filterMap id)

def specBodyA (o : Opts) (sk : List (List Skel)) (tk : List (List (Option Tok))) : Except Err (List (Nat × List Str)) := do
  let rows ← ((List.range (sk.length - 1 + 1 - 0)).map (· + 0)).mapM (fun s => do
    let r ← rowSpecA o sk tk s
    pure (s, r))
  pure (rows.filter (fun (sr : Nat × List Str) => !sr.2.isEmpty && !(sr.2.all isNullish)))

def specExportA (o : Opts) (sk : List (List Skel)) (tk : List (List (Option Tok))) : Except Err Str :=
  (specBodyA o sk tk).map (fun b => renderRows (b.map (·.2)))

/-- the body rows of ANY stage interval (hence of any measure range, `C07_body`) as a function of the text -/
def specBodyRange (o : Opts) (sk : List (List Skel)) (tk : List (List (Option Tok))) (f t : Nat) : Except Err (List (Nat × List Str)) := do
  let rows ← ((List.range (t + 1 - f)).map (· + f)).mapM (fun s => do
    let r ← rowSpecA o sk tk s
    pure (s, r))
  pure (rows.filter (fun (sr : Nat × List Str) => !sr.2.isEmpty && !(sr.2.all isNullish)))

end KM.C10T
