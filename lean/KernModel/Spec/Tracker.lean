/-
  KernModel.Spec.Tracker — the independent spine-path tracker (C02's specification).

  It reads the rows of a Humdrum text and follows the live spine paths the way the Humdrum syntax defines them:
  a `**` cell opens a spine; `*^` / `*+` give the next line two cells below this one; `*-` none; of a run of
  adjacent `*v` cells that belong to the same spine only the first one continues; every other cell continues
  straight down.  It never looks at the importer's state: no stage counter, no `_prev/_next_stage_parents`, no
  node objects.  What it produces is the *skeleton* the property speaks of: for every non-empty line one stage,
  for every cell one entry `(parent, header)` — coordinates `(stage, column)` of the cell directly above on the
  same spine path and of the `**` cell that opened the spine.

  `KernProofs/C02Tree.lean` proves that every successful import has exactly this skeleton.
-/
import KernModel.Doc
namespace KM.Spec.Track
open KM.Importer (isSpineOp startsWith)

/-- a live spine path: the cell directly above the next line's cell, and the `**` cell of its spine -/
abbrev Path := Coord × Coord
/-- what the property says about one cell: (parent, header) -/
abbrev Skel := Option Coord × Option Coord

structure T where
  live : List Path
  lastPre : Coord                -- the last global comment (or the root): header cells and global comments hang from it
  skel : List (List Skel)

def init : T := ⟨[], (0, 0), [[(none, none)]]⟩

def isHeaderCell (col : Str) : Bool := startsWith ['*', '*'] col

/-- the paths one cell at coordinate `c` on spine `hdr` hands to the next line; `left` = the cell to its left and that cell's spine -/
def emit (left : Option (Str × Coord)) (col : Str) (hdr c : Coord) : List Path :=
  if isSpineOp col then
    if col == ['*', '-'] then []
    else if col == ['*', '+'] || col == ['*', '^'] then [(c, hdr), (c, hdr)]
    else if col == ['*', 'v'] then
      match left with
      | some (lc, lh) => if lc == ['*', 'v'] && lh == hdr then [] else [(c, hdr)]
      | none => [(c, hdr)]
    else []                          -- `*x`: the importer rejects it
  else [(c, hdr)]

def left (row : List Str) (live : List Path) (i : Nat) : Option (Str × Coord) :=
  if i = 0 then none
  else match row[i - 1]?, live[i - 1]? with
    | some c, some q => some (c, q.2)
    | _, _ => none

def cellSkel (t : T) (stage i : Nat) (col : Str) : Skel :=
  if isHeaderCell col then (some t.lastPre, some (stage, i))
  else match t.live[i]? with
    | some p => (some p.1, some p.2)
    | none => (none, none)            -- a surplus cell: excluded by `wf`, rejected by the importer

def cellNext (t : T) (stage : Nat) (row : List Str) (i : Nat) (col : Str) : List Path :=
  if isHeaderCell col then [((stage, i), (stage, i))]
  else match t.live[i]? with
    | some p => emit (left row t.live i) col p.2 (stage, i)
    | none => []

def step (t : T) (row : List Str) : T :=
  match row with
  | [] => t
  | c0 :: _ =>
    let stage := t.skel.length
    if startsWith ['!', '!'] c0 then ⟨t.live, (stage, 0), t.skel ++ [[(some t.lastPre, none)]]⟩
    else ⟨row.zipIdx.flatMap (fun ci => cellNext t stage row ci.2 ci.1), t.lastPre,
          t.skel ++ [row.zipIdx.map (fun ci => cellSkel t stage ci.2 ci.1)]⟩

def run (rows : List (List Str)) : T := rows.foldl step init

/-- no surplus cells: every cell that is not a `**` cell stands below a live path -/
def rowWF (t : T) (row : List Str) : Bool :=
  match row with
  | [] => true
  | c0 :: _ => startsWith ['!', '!'] c0 || row.zipIdx.all (fun ci => isHeaderCell ci.1 || decide (ci.2 < t.live.length))

def wfFrom : T → List (List Str) → Bool
  | _, [] => true
  | t, r :: rs => rowWF t r && wfFrom (step t r) rs

def wf (rows : List (List Str)) : Bool := wfFrom init rows

end KM.Spec.Track
