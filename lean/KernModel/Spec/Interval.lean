/-
  KernModel.Spec.Interval — an independent letter / semitone model of named intervals.
  (diatonic steps, semitones) are derived from the interval *name* (quality + number), so a wrong
  entry of the base-40 `Intervals` table cannot hide behind itself.
-/
import KernModel.Pitch
namespace KM.Spec
open KM

structure Iv where
  steps : Int
  semis : Int
  deriving DecidableEq, Repr

/-- semitone size of the major / perfect interval of number `k` (1..7) -/
def majorSemis : Nat → Option Int
  | 1 => some 0 | 2 => some 2 | 3 => some 4 | 4 => some 5 | 5 => some 7 | 6 => some 9 | 7 => some 11
  | _ => none

def isPerfectClass (k : Nat) : Bool := k == 1 || k == 4 || k == 5

/-- offset of a quality relative to major / perfect -/
def qualityOffset (q : Str) (perfect : Bool) : Option Int :=
  if q == ['P'] then (if perfect then some 0 else none)
  else if q == ['M'] then (if perfect then none else some 0)
  else if q == ['m'] then (if perfect then none else some (-1))
  else if q == ['A'] then some 1
  else if q == ['A','A'] then some 2
  else if q == ['d'] then some (if perfect then -1 else -2)
  else if q == ['d','d'] then some (if perfect then -2 else -3)
  else none

def digit? (c : Char) : Option Nat :=
  if 48 ≤ c.toNat ∧ c.toNat ≤ 57 then some (c.toNat - 48) else none

/-- `'M3'` ↦ (2 steps, 4 semitones), `'octave'` ↦ (7, 12), … -/
def intervalOfName (n : Str) : Option Iv :=
  if n == ['o','c','t','a','v','e'] then some ⟨7, 12⟩
  else match n.reverse with
    | [] => none
    | d :: qrev => do
      let k ← digit? d
      let base ← majorSemis k
      let off ← qualityOffset qrev.reverse (isPerfectClass k)
      pure ⟨(k : Int) - 1, base + off⟩

/-- Move the letter by the diatonic size and the sounding pitch by the semitone size. -/
def transposeSpec (l : Letter) (a o : Int) (iv : Iv) (sign : Int) : Letter × Int × Int :=
  let d := 7 * o + l.idx + sign * iv.steps
  let l' := Letter.ofIdx (d % 7)
  let o' := d / 7
  let a' := (12 * o + l.semis + a + sign * iv.semis) - (12 * o' + l'.semis)
  (l', a', o')

end KM.Spec
