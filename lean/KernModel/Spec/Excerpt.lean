/-
  KernModel.Spec.Excerpt — C08's specification of a later excerpt (`from_measure ≥ 1`) on the core the property names: every split
  above the excerpt is closed again before it starts and every signature stands above it.  Executable tests on the document
  (`flatCore`) and the text the excerpt must be (`specExcerpt`).  Theorem `KM.C08R.C08_excerpt_spec` (KernProofs/C08Range.lean).
-/
import KernModel.Export
namespace KM.C08R
open KM Export

/-- neither a `**` cell nor a spine operator -/
def quietNode (n : Node) : Bool := !isHeaderNode n && !isOpNode n

/-- the coordinates of a line of `n` cells -/
def rowCoords (s n : Nat) : List Coord := (List.range n).map (fun i => (s, i))

/-- the line holds a spine operator -/
def rowHasOp (d : Doc) (cs : List Coord) : Bool :=
  cs.any (fun c => match Doc.nodeAt d.stages c with | some nd => isOpNode nd | none => false)

/-- a cell on the way up that leaves nothing in the excerpt: not a `**` cell; on a line without operators anything else; on a line with
    operators either an operator that is closed again before the excerpt (or the join that closes it), or a cell that prints a null token -/
def silentCell (d : Doc) (o : Opts) (fs : Nat) (op : Bool) (c : Coord) : Bool :=
  match Doc.nodeAt d.stages c with
  | none => false
  | some nd => !isHeaderNode nd && nd.parent.isSome &&
      (if op then
        (closedOp d fs c nd || (match exportToken d o nd with | .ok s => emptyRow [s] | .error _ => false))
       else true)

def silentRow (d : Doc) (o : Opts) (fs : Nat) (cs : List Coord) : Bool := cs.all (silentCell d o fs (rowHasOp d cs))

/-- the cells the cells of a line hang from -/
def parentsOf (d : Doc) (cs : List Coord) : List Coord := cs.filterMap (fun c => (Doc.nodeAt d.stages c).bind (·.parent))

/-- from the first line of the excerpt up to the line `h` of the `**` cells, following the parent links of its cells: every line on the
    way is silent, and the walk arrives at all `n` `**` cells at once -/
def walkUp (d : Doc) (o : Opts) (fs n h : Nat) : Nat → List Coord → Bool
  | 0, cs => cs == rowCoords h n
  | k + 1, cs => cs == rowCoords h n ||
      (match cs with
       | [] => false
       | c0 :: _ => decide (h < c0.1) && silentRow d o fs cs && walkUp d o fs n h k (parentsOf d cs))

/-- what the `**` cells hang from (global comments, then the root): nothing there is a `**` cell or an operator -/
def quietChain (d : Doc) : Nat → Coord → Bool
  | 0, c => c == (0, 0)
  | k + 1, c => c == (0, 0) || (match Doc.nodeAt d.stages c with
      | some nd => quietNode nd && (match nd.parent with | some p => quietChain d k p | none => false)
      | none => false)

/-- line `h` consists of `n` `**` cells of selected types that all hang from `c0` -/
def headerLine (d : Doc) (o : Opts) (n h : Nat) (c0 : Coord) : Bool :=
  (List.range n).all (fun i => match Doc.nodeAt d.stages (h, i) with
    | some nd => (match nd.tok with
        | some (.header e _) => o.spineTypes.contains e
        | _ => false) && nd.parent == some c0
    | none => false)

def isSelHeader (o : Opts) (n : Node) : Bool :=
  match n.tok with
  | some (.header e _) => o.spineTypes.contains e
  | _ => false

def nodesOf (d : Doc) (s n : Nat) : List Node := (List.range n).map (fun i => (Doc.nodeAt d.stages (s, i)).getD Doc.rootNode)

/-- no token of class `k` stands at or below line `s0` -/
def noSigFrom (d : Doc) (k : TokClass) (s0 : Nat) : Bool :=
  (d.stages.drop s0).all (fun st => st.all (fun nd => match nd.tok with | some t => !(t.cls == k) | none => true))

/-- every parent link points to an earlier line -/
def parentsEarlier (d : Doc) : Bool :=
  d.stages.zipIdx.all (fun (sts : List Node × Nat) => sts.1.all (fun nd => match nd.parent with | some p => decide (p.1 < sts.2) | none => true))

/-- the columns of signatures, with nothing cancelled -/
def sigColumnAll (d : Doc) (o : Opts) (nd : Node) : Except Err (List Str) :=
  nd.sigs.mapM (fun (kc : TokClass × Coord) => match Doc.nodeAt d.stages kc.2 with
    | some sn => exportToken d o sn
    | none => .error .other)

/-- every class in the tables of the first line of the excerpt stays undeclared from that line on -/
def sigsSettled (d : Doc) (fs : Nat) : Bool :=
  (d.stages[fs]?.getD []).all (fun nd => nd.sigs.all (fun kc => noSigFrom d kc.1 fs))

/-- the core on which the theorem speaks, as one executable test: `n` spine paths on the first line `fs` of the excerpt, `**` cells on
    line `h` hanging from `c0`; on the way up from line `fs` to line `h` every operator is a split that is closed again before line `fs`
    or the join that closes it; every signature named in the tables of line `fs` stays undeclared from there on -/
def flatCore (d : Doc) (o : Opts) (fs n h : Nat) (c0 : Coord) : Bool :=
  decide (0 < n) && decide (0 < h) && decide (fs < d.stages.length) && ((d.stages[fs]?.getD []).length == n) &&
  walkUp d o fs n h d.stages.length (rowCoords fs n) && headerLine d o n h c0 && quietChain d d.stages.length c0 &&
  sigsSettled d fs && parentsEarlier d

/-- the parameters of `flatCore` read off the document -/
def coreParams (d : Doc) (fs : Nat) : Nat × Nat × Coord :=
  let n := (d.stages[fs]?.getD []).length
  let h := d.headerStage.getD 0
  let c0 := ((Doc.nodeAt d.stages (h, 0)).bind (·.parent)).getD (0, 0)
  (n, h, c0)

def flatCoreOf (d : Doc) (o : Opts) (fs : Nat) : Bool :=
  let p := coreParams d fs
  flatCore d o fs p.1 p.2.1 p.2.2

/-- the signature lines of the excerpt: per spine path the signatures in force on the first line, in the order of the table -/
def sigRowsAll (d : Doc) (o : Opts) (fs : Nat) : Except Err (List (List Str)) := do
  let cols ← (d.stages[fs]?.getD []).mapM (sigColumnAll d o)
  sigTranspose cols

/-- what a later excerpt must be on the core: the header line, the signatures in force on every spine path, the lines of the
    measures as the full export prints them, the synthetic terminator; `none` outside the core (or when a cell cannot be printed) -/
def specExcerpt (d : Doc) (o : Opts) : Option Str :=
  if !hasFrom o then none else
  match validate d o, startStageOf d o with
  | .ok (), .ok fs =>
    if !flatCoreOf d o fs then none else
    let p := coreParams d fs
    match (nodesOf d p.2.1 p.1).mapM (exportToken d o), sigRowsAll d o fs, bodyRows d o fs (toStageOf d o) with
    | .ok H, .ok sig, .ok body =>
      if body.isEmpty then none else
      let pre := [H.filter (fun s => !s.isEmpty)] ++ sig
      some (renderRows (pre ++ body.map (·.2) ++ terminatorFor o (pre ++ body.map (·.2))))
    | _, _, _ => none
  | _, _ => none

end KM.C08R
