/-
  KernModel.Spec.CatTree — the documented category tree (README.md, "Category hierarchy") as a
  hand-transcribed parent function, and the set-level specification of descendant / closure.
  Independent of `TokenCategoryHierarchyMapper`: no dictionaries, no traversal.
-/
import KernModel.Cat
namespace KM.Spec
open KM Cat

/-- Parent of each category in the documented tree (`none` = top level). -/
def parent : Cat → Option Cat
  | HEADER | SPINE_OPERATION => some STRUCTURAL
  | NOTE_REST | CHORD | EMPTY | ERROR => some CORE
  | DURATION | NOTE | REST => some NOTE_REST
  | PITCH | DECORATION | ALTERATION => some NOTE
  | CLEF | TIME_SIGNATURE | METER_SYMBOL | KEY_SIGNATURE | KEY_TOKEN => some SIGNATURES
  | FIELD_COMMENTS | LINE_COMMENTS => some COMMENTS
  | BOUNDING_BOXES | LINE_BREAK => some IMAGE_ANNOTATIONS
  | _ => none

/-- Strict ancestors of `c`, nearest first (the tree has depth 4; the fuel is generous). -/
def ancestorsFuel : Nat → Cat → List Cat
  | 0, _ => []
  | n + 1, c => match parent c with
    | none => []
    | some p => p :: ancestorsFuel n p

def ancestors (c : Cat) : List Cat := ancestorsFuel 37 c

/-- `b` is `a` or lies below `a`. -/
def isDescOrSelf (a b : Cat) : Bool := a == b || (ancestors b).contains a

/-- strict descendants of `a` -/
def desc (a : Cat) : List Cat := Cat.all.filter (fun x => (ancestors x).contains a)

def childrenOf (a : Cat) : List Cat := Cat.all.filter (fun x => parent x == some a)

def isLeaf (x : Cat) : Bool := Cat.all.all (fun y => parent y != some x)

def leavesOf (a : Cat) : List Cat := (desc a).filter isLeaf

/-- `x` is selected by the set `S`: some member of `S` is `x` or an ancestor of `x`. -/
def inClosure (S : List Cat) (x : Cat) : Bool := S.any (fun s => isDescOrSelf s x)

def closure (S : List Cat) : List Cat := Cat.all.filter (inClosure S)

/-- The selected set of the property: include with descendants minus exclude with descendants;
    `none` = everything / nothing. -/
def selected (inc exc : Option (List Cat)) : List Cat :=
  Cat.all.filter (fun x =>
    (match inc with | none => true | some S => inClosure S x) &&
    !(match exc with | none => false | some S => inClosure S x))

/-- `match` of the property: the category or one of its descendants is selected. -/
def matchSel (c : Cat) (inc exc : Option (List Cat)) : Bool :=
  (selected inc exc).any (fun y => isDescOrSelf c y)

end KM.Spec
