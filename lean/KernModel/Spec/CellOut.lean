/-
  KernModel.Spec.CellOut — what the default (**kern) export and the agnostic export of a cell must be,
  written from the *abstract description* of the cell alone (no token model, no sorting of sub-token
  objects): the oracle of C03 / C01 / C10 that is independent of kernpy's parser.
-/
import KernModel.Abstract
import KernModel.Tokenize
namespace KM.Spec
open KM Abs

/-- insert into a strictly increasing list of strings (set semantics) -/
def insertStr (s : Str) : List Str → List Str
  | [] => [s]
  | x :: r => if s == x then x :: r else if strLe s x then s :: x :: r else x :: insertStr s r

/-- the sorted set of a list of signifiers -/
def sortedSet (l : List Str) : List Str := l.foldr insertStr []

/-- signifiers of an element as the listener keeps them -/
def keptSigs : AElem → List Str := decsOf

/-- the exported text of one element: duration marks in grammar order, pitch letters (converted by `conv`),
    accidental with its display suffix, then the sorted set of signifiers `sigs` -/
def elemOut (conv : Str → Except Err Str) (durInForce : Option ADur) (sigs : List Str) : AElem → Except Err Str
  | .note n => do
    let p ← conv n.pitch
    pure (renderDur durInForce ++ p ++ n.acc ++ n.disp ++ flat (sortedSet sigs))
  | .rest _ => pure (renderDur durInForce ++ ['r'] ++ flat (sortedSet sigs))

/-- durations in force along a chord (an element without its own duration prints the previous one's) -/
def chordDurs (prev : Option ADur) : List AElem → List (Option ADur)
  | [] => []
  | e :: r =>
    let d := match elemDur e with | some x => some x | none => prev
    d :: chordDurs d r

def zipWith3 {α β γ} (f : α → β → γ) : List α → List β → List γ
  | a :: as, b :: bs => f a b :: zipWith3 f as bs
  | _, _ => []

/-- expected export of a cell; `conv` is the identity for **kern and the clef translation for **akern -/
def cellOut (conv : Str → Except Err Str) : ACell → Except Err Str
  | .elem e => elemOut conv (elemDur e) (keptSigs e) e
  | .chord es => do
    let parts ← (zipWith3 (fun d e => elemOut conv d (keptSigs e) e) (chordDurs none es) es).mapM id
    pure (joinSpace parts)
  | .bar b => pure (barText b)
  | .other _ t => pure t

def cellOutKern (c : ACell) : Except Err Str := cellOut (fun p => .ok p) c

/-- the agnostic view: only the pitch letters change, to the spelling on the same line/space under G2 -/
def cellOutAkern (clef : Clef) (c : ACell) : Except Err Str :=
  cellOut (fun p => do
    let q ← Pitch.importHumdrum p
    Gkern.pitchToGkern q clef) c

end KM.Spec
