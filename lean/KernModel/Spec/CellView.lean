/-
  KernModel.Spec.CellView — the exported text of a cell for every encoding and category selection,
  written from the abstract description of the cell (no token objects, no sorting of objects):
  the oracle behind C03, C04, C05, C10 (document level) and C13.
-/
import KernModel.Spec.CellOut
import KernModel.Spec.CatTree
namespace KM.Spec
open KM Abs

/-- the parts of one element in export order, with their categories; `durInForce` is the duration that prints
    (a chord note without its own duration prints the previous one's) -/
def elemParts (durInForce : Option ADur) : AElem → List (Str × Cat)
  | .note n =>
    (durSubs durInForce).map (fun s => (s.enc, Cat.DURATION)) ++ [(n.pitch, .PITCH)] ++
      (if n.acc.isEmpty then [] else [(n.acc ++ n.disp, .ALTERATION)])
  | .rest _ => (durSubs durInForce).map (fun s => (s.enc, Cat.DURATION)) ++ [(['r'], .REST)]

def isExtended : Encoding → Bool | .ekern | .bekern | .aekern => true | _ => false
def isBasic : Encoding → Bool | .bkern | .bekern => true | _ => false
def isAgnostic : Encoding → Bool | .akern | .aekern => true | _ => false

/-- one element under (encoding, selected categories, clef); `sigs` = signifiers the element carries -/
def elemView (e : Encoding) (V : List Cat) (clef : Option Clef) (durInForce : Option ADur) (sigs : List Str)
    (el : AElem) : Except Err Str := do
  let parts := (elemParts durInForce el).filter (fun p => V.contains p.2)
  let decs := if V.contains .DECORATION && !isBasic e then sortedSet sigs else []
  let sepT : Str := if isExtended e then ['@'] else []
  let sepD : Str := if isExtended e then [Char.ofNat 183] else []
  -- agnostic encodings: pitch letters converted, the alteration glued to them, durations first
  let pdTexts : List Str ← (if isAgnostic e && parts.any (fun p => p.2 == .PITCH) then do
      let pitchTxt := (parts.filter (fun p => p.2 == .PITCH)).flatMap (·.1)
      let altTxt := (parts.filter (fun p => p.2 == .ALTERATION)).flatMap (·.1)
      let g ← (match clef with
        | none => .error .valueError
        | some c => do
          let q ← Pitch.importHumdrum pitchTxt
          Gkern.pitchToGkern q c : Except Err Str)
      pure (((parts.filter (fun p => p.2 == .DURATION)).map (·.1)) ++ [g ++ altTxt])
    else pure (parts.map (·.1)) : Except Err (List Str))
  let pd := joinSep sepT pdTexts
  let content := if decs.isEmpty then pd else pd ++ sepD ++ joinSep sepD decs
  -- the basic encodings cut at the first decoration separator, so nothing of the decorations is left;
  -- an element with nothing left prints the null token `*`; in bekern/bkern an element of which only decorations
  -- were selected prints the empty string (a corner the property leaves open: the oracle follows the code)
  pure (if content.isEmpty then (if isBasic e && V.contains .DECORATION && !(sortedSet sigs).isEmpty then [] else ['*']) else content)

/-- placeholder of a non-note cell whose category is not selected -/
def placeholderOf (c : Cat) : Str := if isDescOrSelf .SIGNATURES c then ['*'] else ['.']

def otherCat (k : OtherKind) : Cat := (otherClass k).2

/-- the cell under (encoding, categories, clef in force); `none` = nothing is known about this cell kind -/
def cellView (e : Encoding) (V : List Cat) (clef : Option Clef) : ACell → Except Err Str
  | .elem el => do
    -- a cell that exports to the empty string gets the exporter's placeholder (inside a chord the empty note text stays)
    let s ← elemView e V clef (elemDur el) (keptSigs el) el
    pure (if s.isEmpty then ['.'] else s)
  | .chord es =>
    if !V.contains .CHORD then pure ['.']
    else do
      let parts ← (zipWith3 (fun d el => elemView e V clef d (keptSigs el) el) (chordDurs none es) es).mapM id
      pure (joinSpace parts)
  | .bar b => pure (if b.hidden then ['.'] else if V.contains .BARLINES then barText b else ['.'])
  | .other k t => pure (if V.contains (otherCat k) then (if t.isEmpty then placeholderOf (otherCat k) else t) else placeholderOf (otherCat k))

end KM.Spec
