/-
  KernModel.Pitch — model of kernpy/core/pitch_models.py and the string-level `transpose` of
  kernpy/core/transposer.py (Humdrum notation).

  Strings are handled exactly as the Python does (character filters, `upper`, `replace`, `*`), for
  ASCII input; the literal tables (`Chromas`, `ChromasByValue`, `Intervals`, …) are generated.
  Mutation is modelled in state-passing style: `exportPitch` returns the string *and* the pitch object
  as it is after the call.
-/
import KernModel.Basic
import KernModel.Gen.Pitch
namespace KM

/-- Python `str.upper()` / `str.lower()` on ASCII letters; every other character is unchanged
    (the model's domain is ASCII; see DESIGN §3.5). -/
def upperC (c : Char) : Char :=
  if 97 ≤ c.toNat ∧ c.toNat ≤ 122 then Char.ofNat (c.toNat - 32) else c
def lowerC (c : Char) : Char :=
  if 65 ≤ c.toNat ∧ c.toNat ≤ 90 then Char.ofNat (c.toNat + 32) else c
def isLowerC (c : Char) : Bool := 97 ≤ c.toNat && c.toNat ≤ 122
def isUpperC (c : Char) : Bool := 65 ≤ c.toNat && c.toNat ≤ 90

def upperS (s : Str) : Str := s.map upperC
def lowerS (s : Str) : Str := s.map lowerC

/-- `s.replace(a, b)` for one-character `a`, `b`. -/
def replaceC (a b : Char) (s : Str) : Str := s.map (fun c => if c == a then b else c)
/-- `s.replace(a, '')` for a one-character `a`. -/
def removeC (a : Char) (s : Str) : Str := s.filter (fun c => c != a)

/-- `AgnosticPitch`: the (already normalised) name and the octave. -/
structure APitch where
  name : Str
  octave : Int
  deriving DecidableEq, Repr

namespace Pitch

/-- The `name` setter of `AgnosticPitch`: returns the stored name or raises `ValueError`. -/
def setName (name : Str) : Except Err Str :=
  let accidentals := name.filter (fun c => c == '-' || c == '+')
  let name := upperS name
  let name := replaceC 'b' '-' (replaceC '#' '+' name)
  let checkName := removeC '-' (removeC '+' name)
  if !(Gen.pitches.contains checkName) then .error .valueError
  else if accidentals.length > 3 then .error .valueError
  else .ok name

/-- `AgnosticPitch(name, octave)`; `octave = none` stands for a non-int (`None`). -/
def mk (name : Str) (octave : Option Int) : Except Err APitch := do
  let n ← setName name
  match octave with
  | none => .error .valueError
  | some o => pure ⟨n, o⟩

/-- `HumdrumPitchImporter._parse_pitch`. An empty remainder makes `encoding[0]` raise `IndexError`. -/
def parseHumdrum (encoding : Str) : Except Err (Str × Option Int) :=
  let accidentals := encoding.filter (fun c => c == '#' || c == '-')
  let accidentals := replaceC '#' '+' accidentals
  let encoding := removeC '-' (removeC '#' encoding)
  match encoding with
  | [] => .error .other
  | c0 :: _ =>
    let pitch := lowerC c0
    let octave : Option Int :=
      if isLowerC c0 then some (Gen.c4Octave + ((encoding.length : Int) - 1))
      else if isUpperC c0 then some (Gen.c3Octave - ((encoding.length : Int) - 1))
      else none
    .ok (pitch :: accidentals, octave)

/-- `HumdrumPitchImporter.import_pitch`. -/
def importHumdrum (encoding : Str) : Except Err APitch := do
  let (n, o) ← parseHumdrum encoding
  mk n o

/-- `get_chroma` (`KeyError` when the name is not a key of `Chromas`). -/
def getChroma (p : APitch) : Except Err Int :=
  match lookup p.name Gen.chromas with
  | some c => .ok (40 * p.octave + c)
  | none => .error .keyError

/-- `AgnosticPitch.to_transposed(pitch, raw_interval, direction)` with `delta` already signed. -/
def toTransposedDelta (p : APitch) (delta : Int) : Except Err APitch := do
  let chroma := (← getChroma p) + delta
  match lookup (chroma % 40) Gen.chromasByValue with
  | none => .error .keyError
  | some name => mk name (some (chroma / 40))

/-- direction is compared with `Direction.UP.value`; anything else means down -/
def signedDelta (rawInterval : Int) (direction : Str) : Int :=
  if direction == Gen.dirUp then rawInterval else -rawInterval

def toTransposed (p : APitch) (rawInterval : Int) (direction : Str) : Except Err APitch :=
  toTransposedDelta p (signedDelta rawInterval direction)

/-- `str * n` -/
def repeatS (s : Str) (n : Int) : Str := (List.replicate n.toNat s).flatten

/-- `len(accidentals) * accidentals[0] if len(accidentals) > 0 else ''` -/
def accOutOf (accidentals : Str) : Str :=
  match accidentals with
  | [] => []
  | a :: _ => List.replicate accidentals.length a

/-- `HumdrumPitchExporter.export_pitch`, state-passing: the returned pitch is the argument object
    after the call (the code works on a local copy of the name, so it is unchanged). -/
def exportHumdrum (p : APitch) : Str × APitch :=
  let accidentals := p.name.filter (fun c => c == '-' || c == '+')
  let accidentals := replaceC '+' '#' accidentals
  let accOut : Str := accOutOf accidentals
  let name := removeC '-' (removeC '+' p.name)
  let s := if p.octave ≥ Gen.expC4Octave
    then repeatS (lowerS name) (p.octave - Gen.expC4Octave + 1) ++ accOut
    else repeatS (upperS name) (Gen.expC3Octave - p.octave + 1) ++ accOut
  (s, p)

/-- `transposer.transpose(input_encoding, interval, 'kern', 'kern', direction)`. -/
def transpose (encoding : Str) (interval : Int) (direction : Str) : Except Err Str := do
  let p ← importHumdrum encoding
  let q ← toTransposed p interval direction
  pure (exportHumdrum q).1

/-- `AgnosticPitch.accidentals()` -/
def accidentals (p : APitch) : Str :=
  p.name.filterMap (fun c => if c == '+' then some '#' else if c == '-' then some '-' else none)

end Pitch

/-! ### The seven letters and canonical spellings (used by specifications and theorems) -/

inductive Letter where | C | D | E | F | G | A | B
  deriving DecidableEq, Repr, Inhabited

namespace Letter
def all : List Letter := [C, D, E, F, G, A, B]
def idx : Letter → Int | C => 0 | D => 1 | E => 2 | F => 3 | G => 4 | A => 5 | B => 6
def semis : Letter → Int | C => 0 | D => 2 | E => 4 | F => 5 | G => 7 | A => 9 | B => 11
def upper : Letter → Char | C => 'C' | D => 'D' | E => 'E' | F => 'F' | G => 'G' | A => 'A' | B => 'B'
def lower : Letter → Char | C => 'c' | D => 'd' | E => 'e' | F => 'f' | G => 'g' | A => 'a' | B => 'b'
def ofIdx (i : Int) : Letter :=
  match i % 7 with | 0 => C | 1 => D | 2 => E | 3 => F | 4 => G | 5 => A | _ => B
end Letter

/-- accidental part of a Humdrum spelling: `a` sharps or `-a` flats -/
def accKern (a : Int) : Str := if a ≥ 0 then List.replicate a.toNat '#' else List.replicate (-a).toNat '-'
/-- accidental part of an agnostic name -/
def accName (a : Int) : Str := if a ≥ 0 then List.replicate a.toNat '+' else List.replicate (-a).toNat '-'

/-- the Humdrum spelling of (letter, alteration, octave): the letter repeated for the octave, lower
    case from octave 4 up, upper case below, then the accidentals -/
def spell (l : Letter) (a : Int) (o : Int) : Str :=
  (if o ≥ 4 then List.replicate (o - 3).toNat l.lower else List.replicate (4 - o).toNat l.upper) ++ accKern a

/-- the `AgnosticPitch` a spelling denotes -/
def pitchOf (l : Letter) (a : Int) (o : Int) : APitch := ⟨l.upper :: accName a, o⟩

end KM
