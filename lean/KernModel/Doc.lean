/-
  KernModel.Doc — the document tree (`MultistageTree`, `Node`, `SignatureNodes`, `Document`) and
  `Importer.run` / `import_string` (kernpy/core/importer.py, document.py).

  The mutable node graph becomes stages of immutable nodes addressed by `(stage, index)`.
  The one field the importer writes into an *earlier* token (`cancelled_at_stage`) is kept as a
  separate association list that is passed along (state-passing).  Node ids are never observed.

  The per-cell parser is a parameter: `P header cell` is what `createImporter(header).import_token(cell)`
  does — a token, or `none` when it raises (the importer then builds an `ErrorToken`).
-/
import KernModel.Token
import KernModel.Gen.Misc
namespace KM

abbrev Coord := Nat × Nat

/-- the ANTLR side, as a parameter -/
abbrev CellParser := Str → Str → Option Tok

structure Node where
  tok : Option Tok                       -- `none` only for the root
  parent : Option Coord
  hdr : Option Coord                     -- `header_node`
  sigs : List (TokClass × Coord)         -- `last_signature_nodes.nodes` (insertion-ordered dict: class ↦ node)
  lastOp : Option Coord                  -- `last_spine_operator_node`
  deriving DecidableEq, Repr

structure Doc where
  stages : List (List Node)
  starts : List Nat                      -- `measure_start_tree_stages`
  headerStage : Option Nat
  cancelled : List (Coord × Nat)         -- `SpineOperationToken.cancelled_at_stage`, by operator node
  errors : List (Nat × Str)              -- `Importer.errors`: (line, text)
  deriving Repr

namespace Doc

def nodeAt (stages : List (List Node)) (c : Coord) : Option Node := (stages[c.1]?).bind (·[c.2]?)

def rootNode : Node := ⟨none, none, none, [], none⟩

/-- children of a node, in creation order (stage major, then column) -/
def children (stages : List (List Node)) (c : Coord) : List Coord :=
  (stages.zipIdx).flatMap (fun (st, s) => (st.zipIdx).filterMap (fun (n, i) => if n.parent == some c then some (s, i) else none))

def cancelledAt (d : Doc) (c : Coord) : Option Nat := lookup c d.cancelled

end Doc

/-! ### the line reader -/

/-- the characters `str.splitlines()` breaks at (besides the pair `\r\n`) -/
def isLineBoundary (c : Char) : Bool :=
  c == '\n' || c == '\r' || c.toNat == 0x0b || c.toNat == 0x0c || c.toNat == 0x1c || c.toNat == 0x1d ||
  c.toNat == 0x1e || c.toNat == 0x85 || c.toNat == 0x2028 || c.toNat == 0x2029

/-- `text.splitlines()`: no trailing empty line; `\r\n` is one boundary (`afterCR`: the previous character
    was a `\r` that already closed a line) -/
def splitLinesAux : Bool → Str → Str → List Str
  | _, [], cur => if cur.isEmpty then [] else [cur.reverse]
  | afterCR, c :: r, cur =>
    if c == '\n' && afterCR then splitLinesAux false r cur
    else if isLineBoundary c then cur.reverse :: splitLinesAux (c == '\r') r []
    else splitLinesAux false r (c :: cur)

def splitLines (text : Str) : List Str := splitLinesAux false text []

/-- one record of `csv.reader(lines, delimiter='\t', quoting=csv.QUOTE_NONE)`: an empty line is an empty row -/
def splitRow (line : Str) : List Str := if line.isEmpty then [] else splitOnC '\t' line

/-- rows the importer sees for `import_string(text)` -/
def readRows (text : Str) : List (List Str) := (splitLines text).map splitRow

/-! ### `Importer.run` -/

structure ImpState where
  stages : List (List Node)
  starts : List Nat
  headerStage : Option Nat
  cancelled : List (Coord × Nat)
  errors : List (Nat × Str)
  prev : Option (List Coord)          -- `_prev_stage_parents`
  next : List Coord                   -- `_next_stage_parents`
  lastPre : Coord                     -- `_last_node_previous_to_header`
  rowNo : Nat                         -- `_row_number`
  deriving Repr

namespace Importer

def init : ImpState :=
  ⟨[[Doc.rootNode]], [], none, [], [], none, [], (0, 0), 1⟩

/-- `MultistageTree.add_node` at the stage being built (`stage = len(stages)` for the first node of a row) -/
def addNode (stages : List (List Node)) (stage : Nat) (n : Node) : List (List Node) × Coord :=
  if stage == stages.length then (stages ++ [[n]], (stage, 0))
  else match stages[stage]? with
    | some st => (stages.set stage (st ++ [n]), (stage, st.length))
    | none => (stages, (stage, 0))       -- unreachable (`stage > len(stages)` raises in the code)

/-- `dict.update` on the insertion-ordered `nodes` dict -/
def sigsUpdate (sigs : List (TokClass × Coord)) (k : TokClass) (c : Coord) : List (TokClass × Coord) :=
  if sigs.any (fun e => e.1 == k) then sigs.map (fun e => if e.1 == k then (k, c) else e) else sigs ++ [(k, c)]

def assocSet {α β} [BEq α] (l : List (α × β)) (k : α) (v : β) : List (α × β) :=
  if l.any (fun e => e.1 == k) then l.map (fun e => if e.1 == k then (k, v) else e) else l ++ [(k, v)]

/-- `get_last_spine_operator(parent)` -/
def lastOpOf (stages : List (List Node)) (pc : Coord) : Option Coord :=
  match Doc.nodeAt stages pc with
  | none => none
  | some p => match p.tok with
    | some t => if t.cls == .SpineOperationToken then some pc else p.lastOp
    | none => p.lastOp

def isSpineOp (cell : Str) : Bool := Gen.spineOperations.contains cell

def startsWith (p s : Str) : Bool := p.isPrefixOf s

/-- `str.strip()` (whitespace: space, \t\n\r\v\f and the other line boundaries are whitespace too) -/
def isSpaceC (c : Char) : Bool := c == ' ' || c == '\t' || isLineBoundary c || c.toNat == 0x1f || c.toNat == 0xa0
def stripS (s : Str) : Str := ((s.dropWhile isSpaceC).reverse.dropWhile isSpaceC).reverse

/-- state while the cells of one row are processed -/
structure RowAcc where
  st : ImpState
  isBar : Bool

/-- one cell of a non-`!!` row (the body of `for icolumn, column in enumerate(row)`) -/
def cellStep (P : CellParser) (row : List Str) (stage : Nat) (acc : RowAcc) (i : Nat) (col : Str) : Except Err RowAcc := do
  let st := acc.st
  if startsWith ['*', '*'] col then
    -- `_compute_header_token`
    let n : Node := ⟨some (.header col i), some st.lastPre, none, [], none⟩
    let (stages, c) := addNode st.stages stage n
    -- `node.header_node = node`
    let stages := stages.set c.1 ((stages[c.1]?.getD []).set c.2 { n with hdr := some c })
    pure { acc with st := { st with stages := stages, headerStage := some stage, next := st.next ++ [c] } }
  else if isSpineOp col then
    -- `_compute_spine_operator_token`
    match st.prev with
    | none => .error .other
    | some prev =>
      match prev[i]? with
      | none => .error .other
      | some pc =>
        match Doc.nodeAt st.stages pc with
        | none => .error .other
        | some p =>
          let lo := lastOpOf st.stages pc
          let n : Node := ⟨some (.simple .SpineOperationToken col .SPINE_OPERATION false), some pc, p.hdr, p.sigs, lo⟩
          let (stages, c) := addNode st.stages stage n
          let st := { st with stages := stages }
          if col == ['*', '-'] then
            let canc := match lo with | some l => assocSet st.cancelled l stage | none => st.cancelled
            pure { acc with st := { st with cancelled := canc } }
          else if col == ['*', '+'] || col == ['*', '^'] then
            pure { acc with st := { st with next := st.next ++ [c, c] } }
          else if col == ['*', 'v'] then
            let canc := match lo with | some l => assocSet st.cancelled l stage | none => st.cancelled
            let leftHdr := (prev[i - 1]?).bind (fun q => (Doc.nodeAt st.stages q).bind (·.hdr))
            let keep := i == 0 || row[i - 1]? != some ['*', 'v'] || leftHdr != p.hdr
            pure { acc with st := { st with cancelled := canc, next := if keep then st.next ++ [c] else st.next } }
          else .error .other
  else
    -- a field comment or a token of the spine's importer
    let isFc := startsWith ['!'] col
    let checked : Except Err (Tok × Bool) :=
      if isFc then .ok (.simple .FieldCommentToken col .FIELD_COMMENTS false, false)
      else match st.prev with
        | none => .error .valueError
        | some prev =>
          if i ≥ prev.length then .error .valueError
          else match prev[i]? with
            | none => .error .valueError
            | some pc => match Doc.nodeAt st.stages pc with
              | none => .error .other
              | some p => match p.hdr with
                | none => .error .other
                | some hc => match (Doc.nodeAt st.stages hc).bind (·.tok) with
                  | none => .error .other
                  | some ht => match P ht.enc col with
                    | some t => .ok (t, false)
                    | none => .ok (.simple .ErrorToken col .ERROR false, true)
    let (tok, isErr) ← checked
    match st.prev with
    | none => .error .other
    | some prev =>
      match prev[i]? with
      | none => .error .other
      | some pc =>
        match Doc.nodeAt st.stages pc with
        | none => .error .other
        | some p =>
          let n : Node := ⟨some tok, some pc, p.hdr, p.sigs, lastOpOf st.stages pc⟩
          let (stages, c) := addNode st.stages stage n
          let errors := if isErr then st.errors ++ [(st.rowNo, col)] else st.errors
          let st := { st with stages := stages, errors := errors, next := st.next ++ [c] }
          if tok.cat == .BARLINES || (Hier.isChild hierarchy .CORE tok.cat && st.starts.isEmpty) then
            pure { st := st, isBar := true }
          else if tok.cls == .BoundingBoxToken then
            pure { acc with st := st }
          else if tok.cls.isSignature then
            let stages := st.stages.set c.1 ((st.stages[c.1]?.getD []).set c.2 { n with sigs := sigsUpdate n.sigs tok.cls c })
            pure { acc with st := { st with stages := stages } }
          else pure { acc with st := st }

def cellsLoop (P : CellParser) (row : List Str) (stage : Nat) : RowAcc → Nat → List Str → Except Err RowAcc
  | acc, _, [] => .ok acc
  | acc, i, col :: rest => do
    let acc' ← cellStep P row stage acc i col
    cellsLoop P row stage acc' (i + 1) rest

/-- one row of the reader (the body of `for row in reader`) -/
def rowStep (P : CellParser) (st : ImpState) (row : List Str) : Except Err ImpState :=
  match row with
  | [] => .ok st                                       -- empty row: ignored, the row counter does not move
  | c0 :: _ =>
    let stage := st.stages.length                       -- `_tree_stage + 1`
    let st := { st with prev := if st.next.isEmpty then st.prev else some st.next, next := [] }
    if startsWith ['!', '!'] c0 then
      -- `_compute_metacomment_token` (`_header_row_number` is never assigned: always the first branch)
      let n : Node := ⟨some (.simple .MetacommentToken (stripS c0) .LINE_COMMENTS false), some st.lastPre, none, [], none⟩
      let (stages, c) := addNode st.stages stage n
      .ok { st with stages := stages, lastPre := c, rowNo := st.rowNo + 1 }
    else do
      let acc ← cellsLoop P row stage ⟨st, false⟩ 0 row
      let st := acc.st
      let st := if acc.isBar then { st with starts := st.starts ++ [stage] } else st
      pure { st with rowNo := st.rowNo + 1 }

def runRows (P : CellParser) : ImpState → List (List Str) → Except Err ImpState
  | st, [] => .ok st
  | st, r :: rs => do
    let st' ← rowStep P st r
    runRows P st' rs

def toDoc (st : ImpState) : Doc := ⟨st.stages, st.starts, st.headerStage, st.cancelled, st.errors⟩

/-- `Importer().import_string(text)` with `importer.errors` -/
def importString (P : CellParser) (text : Str) : Except Err Doc :=
  (runRows P init (readRows text)).map toDoc

def importRows (P : CellParser) (rows : List (List Str)) : Except Err Doc :=
  (runRows P init rows).map toDoc

end Importer
end KM
