/-
  KernModel.SpineImporters — `createImporter` and the `import_token` of the non-kern spine importers
  (text, dynam, dyn, harm, mxhm, fing, basic), as one function of the record the translator extracts
  from each importer's source, parametric in the outcome of a *fresh* `KernSpineImporter` on the cell.
-/
import KernModel.Token
import KernModel.Gen.Importers
namespace KM
namespace SpineImp

/-- outcome of `KernSpineImporter().import_token(cell)` on a fresh importer: a token, or it raised -/
abbrev KernOutcome := Option Tok

/-- `createImporter(spine_type)`: the if/elif chain on literal header names, else the basic importer. -/
def createImporter (header : Str) : ImpRec :=
  match lookup header Gen.dispatch with
  | some r => r
  | none => Gen.dispatchDefault

def catOf (n : Str) : Cat := (Cat.ofName? n).getD .OTHER

/-- `import_token(encoding)` of a wrapping importer. `kern` is what a fresh kern importer does with the cell. -/
def importWrapped (accepted : List Str) (negated : Bool) (fExc fAny : Str) (cell : Str) (kern : KernOutcome) :
    Except Err Tok :=
  if cell = [] then .error .valueError
  else match kern with
    | none => .ok (Tok.mkSimple cell (catOf fExc))
    | some tok =>
      let hit := accepted.any (fun a => Hier.isChild hierarchy (catOf a) tok.cat)
      if (if negated then !hit else hit) then .ok (Tok.mkSimple cell (catOf fAny)) else .ok tok

/-- `createImporter(header).import_token(cell)` for every importer class (`kern`/`root` return the kern
    outcome or raise; `mens` raises `NotImplementedError`). -/
def importToken (header cell : Str) (kern : KernOutcome) : Except Err Tok :=
  match createImporter header with
  | .wrap acc neg fe fa => importWrapped acc neg fe fa cell kern
  | .kern | .root => if cell = [] then .error .valueError else match kern with
    | some t => .ok t
    | none => .error .other
  | .mens | .unknownClass => .error .other

end SpineImp
end KM
