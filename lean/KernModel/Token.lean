/-
  KernModel.Token — the token objects of kernpy/core/tokens.py as immutable values.

  `TokClass` is the Python class (observable through `isinstance`, `__class__` comparisons and
  `type(token).__name__`).  A chord holds `NoteRestToken`s.
-/
import KernModel.Cat
namespace KM

inductive TokClass where
  | SimpleToken | ErrorToken | MetacommentToken | InstrumentToken | FieldCommentToken | HeaderToken
  | SpineOperationToken | BarToken | SignatureToken | ClefToken | TimeSignatureToken | MeterSymbolToken
  | KeySignatureToken | KeyToken | BoundingBoxToken | MHXMToken | NoteRestToken | ChordToken
  deriving DecidableEq, Repr, Inhabited

namespace TokClass
def name : TokClass → Str
  | SimpleToken => "SimpleToken".toList | ErrorToken => "ErrorToken".toList
  | MetacommentToken => "MetacommentToken".toList | InstrumentToken => "InstrumentToken".toList
  | FieldCommentToken => "FieldCommentToken".toList | HeaderToken => "HeaderToken".toList
  | SpineOperationToken => "SpineOperationToken".toList | BarToken => "BarToken".toList
  | SignatureToken => "SignatureToken".toList | ClefToken => "ClefToken".toList
  | TimeSignatureToken => "TimeSignatureToken".toList | MeterSymbolToken => "MeterSymbolToken".toList
  | KeySignatureToken => "KeySignatureToken".toList | KeyToken => "KeyToken".toList
  | BoundingBoxToken => "BoundingBoxToken".toList | MHXMToken => "MHXMToken".toList
  | NoteRestToken => "NoteRestToken".toList | ChordToken => "ChordToken".toList

/-- `isinstance(token, SignatureToken)` -/
def isSignature : TokClass → Bool
  | SignatureToken | ClefToken | TimeSignatureToken | MeterSymbolToken | KeySignatureToken | KeyToken => true
  | _ => false
end TokClass

/-- `Subtoken(encoding, category)` -/
structure Sub where
  enc : Str
  cat : Cat
  deriving DecidableEq, Repr

/-- the data of a `NoteRestToken` -/
structure Note where
  enc : Str
  pd : List Sub          -- pitch_duration_subtokens
  dec : List Sub         -- decoration_subtokens
  deriving DecidableEq, Repr

inductive Tok where
  /-- every `SimpleToken` subclass without extra observable data (and `BoundingBoxToken`, `MHXMToken`) -/
  | simple (cls : TokClass) (enc : Str) (cat : Cat) (hidden : Bool)
  | header (enc : Str) (spineId : Nat)
  | noteRest (n : Note)
  | chord (enc : Str) (notes : List Note)
  deriving DecidableEq, Repr

namespace Tok
def cls : Tok → TokClass
  | simple c _ _ _ => c
  | header _ _ => .HeaderToken
  | noteRest _ => .NoteRestToken
  | chord _ _ => .ChordToken
def enc : Tok → Str
  | simple _ e _ _ => e
  | header e _ => e
  | noteRest n => n.enc
  | chord e _ => e
def cat : Tok → Cat
  | simple _ _ c _ => c
  | header _ _ => .HEADER
  | noteRest _ => .NOTE_REST
  | chord _ _ => .CHORD
def hidden : Tok → Bool
  | simple _ _ _ h => h
  | _ => false
/-- `isinstance(token, ComplexToken)` -/
def isComplex : Tok → Bool
  | noteRest _ => true
  | _ => false
/-- `SimpleToken(encoding, category)` -/
def mkSimple (enc : Str) (cat : Cat) : Tok := .simple .SimpleToken enc cat false
end Tok

end KM
