/-
  KernModel.Transpose — `Document.clone` and `Document.to_transposed` (kernpy/core/document.py).

  `clone()` copies the tree object *shallowly*: the clone's stages hold the very same node objects as the
  source.  `to_transposed` then assigns `node.token = NoteRestToken(...)` on those shared nodes.  In
  state-passing style the function therefore returns the result **and the source document as it is after
  the call**; in this model they are the same tree.
  Only `PITCH` sub-tokens are rewritten; `ChordToken`s are not `NoteRestToken`s and are skipped.
-/
import KernModel.Doc
import KernModel.Pitch
namespace KM
namespace Transpose

/-- the new `NoteRestToken` of one node -/
def transposeNote (iv : Int) (dir : Str) (n : Note) : Except Err Note := do
  let pd ← n.pd.mapM (fun s =>
    if s.cat == .PITCH then do
      let tp ← Pitch.transpose s.enc iv dir
      pure (⟨tp, s.cat⟩ : Sub)
    else pure s)
  -- `encoding=transposed_pitch_encoding`: the last transposed pitch, `None` (here: empty) for a rest
  let enc := ((pd.filter (fun s => s.cat == .PITCH)).getLast?).map (·.enc) |>.getD []
  pure ⟨enc, pd, n.dec⟩

def transposeTok (iv : Int) (dir : Str) : Tok → Except Err Tok
  | .noteRest n => do pure (.noteRest (← transposeNote iv dir n))
  | t => pure t

/-- `to_transposed(interval, direction)`: (result, source afterwards) -/
def toTransposed (d : Doc) (ivName dir : Str) : Except Err (Doc × Doc) := do
  if !Gen.availableIntervals.contains ivName then .error .valueError
  else if !(dir == Gen.dirUp || dir == Gen.dirDown) then .error .valueError
  else match lookup ivName Gen.intervalsByName with
    | none => .error .keyError
    | some iv => do
      let stages ← d.stages.mapM (fun st => st.mapM (fun n => do
        match n.tok with
        | some t => do pure { n with tok := some (← transposeTok iv dir t) }
        | none => pure n))
      let r : Doc := { d with stages := stages }
      pure (r, r)

end Transpose
end KM
