/-
  KernModel.Basic — shared conventions of the kernpy model.

  * Python `str` is `List Char` (`Str`); ordering is code-point lexicographic.
  * Literal tables regenerated from /repo by harness/extract.py use `GT` (a rose tree of names).
  * Errors the real code raises are values of `Err`.
-/
namespace KM

abbrev Str := List Char

/-- Rose tree; the shape of `TokenCategoryHierarchyMapper.hierarchy` (a dict of dicts). -/
inductive RTree (α : Type) where
  | node : α → List (RTree α) → RTree α
  deriving Repr

/-- The small enum of exception classes the model distinguishes. -/
inductive Err where
  | valueError      -- Python `ValueError`
  | keyError        -- Python `KeyError`
  | other           -- any other exception class
  deriving DecidableEq, Repr, Inhabited

deriving instance DecidableEq for Except

/-- What the translator extracts from a `*SpineImporter.import_token`: the kern / root / mens importers, or a
    wrapper around a fresh kern importer with its literal decision data. -/
inductive ImpRec where
  | kern | root | mens | unknownClass
  | wrap (accepted : List Str) (negated : Bool) (fallbackExc fallbackAny : Str)
  deriving Repr

namespace RTree
def root {α} : RTree α → α | .node a _ => a
def kids {α} : RTree α → List (RTree α) | .node _ cs => cs
end RTree

/-- association-list lookup = Python dict subscription (first match; keys of a dict are unique) -/
def lookup {α β} [BEq α] (k : α) : List (α × β) → Option β
  | [] => none
  | (k', v) :: r => if k' == k then some v else lookup k r

/-- `sep.join(parts)` -/
def joinSep (sep : Str) : List Str → Str
  | [] => []
  | [x] => x
  | x :: y :: r => x ++ sep ++ joinSep sep (y :: r)

/-- `s.split(c)` for a one-character separator: always at least one field -/
def splitOnC (c : Char) : Str → List Str
  | [] => [[]]
  | x :: xs =>
    if x == c then [] :: splitOnC c xs
    else match splitOnC c xs with
      | [] => [[x]]      -- unreachable: `splitOnC` never returns []
      | f :: fs => (x :: f) :: fs

/-- `first some` over a list (the Python `for … if r is not None: return r`). -/
def firstSome {α β} (f : α → Option β) : List α → Option β
  | [] => none
  | x :: xs => match f x with
    | some r => some r
    | none => firstSome f xs

/-- Python's floor division and modulo for a positive modulus coincide with Lean's
    `Int.ediv`/`Int.emod` (`/` and `%` on `Int`). -/
def pyMod (a : Int) (m : Int) : Int := a % m
def pyDiv (a : Int) (m : Int) : Int := a / m

end KM
