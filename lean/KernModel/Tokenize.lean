/-
  KernModel.Tokenize — `Token.export` (tokens.py) and the six tokenizers (tokenizers.py),
  `HeaderTokenGenerator.new` and `Exporter.export_token`'s tokenizer call (exporter.py).

  `sorted(..., key=...)` is `List.mergeSort` (stable, like Python's).  Python `str` comparison is
  code-point lexicographic (`strLe`).
-/
import KernModel.Token
import KernModel.Gkern
import KernModel.Gen.Misc
namespace KM

/-- `a <= b` on Python strings -/
def strLe : Str → Str → Bool
  | [], _ => true
  | _ :: _, [] => false
  | a :: as, b :: bs =>
    if a.toNat < b.toNat then true
    else if b.toNat < a.toNat then false
    else strLe as bs

inductive Encoding where | kern | ekern | bkern | bekern | akern | aekern
  deriving DecidableEq, Repr, Inhabited

namespace Encoding
def all : List Encoding := [kern, ekern, bkern, bekern, akern, aekern]
/-- `Encoding.<member>.value` -/
def value : Encoding → Str
  | kern => "kern".toList | ekern => "ekern".toList | bkern => "bkern".toList
  | bekern => "bekern".toList | akern => "akern".toList | aekern => "aekern".toList
/-- `prefix()` from the generated member table (looked up by value) -/
def pfx (e : Encoding) : Str :=
  match Gen.encodings.find? (fun x => x.2.1 == e.value) with
  | some x => x.2.2
  | none => []
def extended : Encoding → Encoding
  | kern => ekern | bkern => bekern | akern => aekern | e => e
end Encoding

namespace Tokz

def tokSep : Char := Gen.tokenSeparator.headD '@'
def decSep : Char := Gen.decorationSeparator.headD (Char.ofNat 183)

/-- sort key of the pitch/duration part: the category value only (stable, so sub-tokens of one category
    keep the order in which the grammar read them) -/
def pdLe (a b : Sub) : Bool := a.cat.value ≤ b.cat.value
/-- sort key of the decorations: `(category.value, encoding)` -/
def decLe (a b : Sub) : Bool :=
  a.cat.value < b.cat.value || (a.cat.value == b.cat.value && strLe a.enc b.enc)

/-- the optional `convert_pitch_to_agnostic` callback: `none` when the keyword is absent -/
abbrev Convert := Option (Str → Except Err Str)

/-- `content if len(content) > 0 else EMPTY_TOKEN` -/
def orEmpty (s : Str) : Str := if s.isEmpty then Gen.emptyToken else s

/-- `content = pd_part; if decoration_part: content += '·' + decoration_part` -/
def withDec (p d : Str) : Str := if d.isEmpty then p else p ++ [decSep] ++ d

/-- `NoteRestToken.export(filter_categories=…, convert_pitch_to_agnostic=…)` -/
def exportNote (filter : Cat → Bool) (convert : Convert) (n : Note) : Except Err Str := do
  let pd := (n.pd.filter (fun s => filter s.cat)).mergeSort pdLe
  let dec := (n.dec.filter (fun s => filter s.cat)).mergeSort decLe
  let agn : Option Str ← match convert with
    | none => pure none
    | some f =>
      let pitches := pd.filter (fun s => s.cat == .PITCH)
      let alts := pd.filter (fun s => s.cat == .ALTERATION)
      if pitches.isEmpty then pure none
      else do
        let g ← f (pitches.flatMap (·.enc))
        pure (some (g ++ alts.flatMap (·.enc)))
  let pdPart : Str := match agn with
    | some g =>
      let durs := (pd.filter (fun s => s.cat == .DURATION)).map (·.enc)
      let durPart := joinSep [tokSep] durs
      if durPart.isEmpty then g else durPart ++ [tokSep] ++ g
    | none => joinSep [tokSep] (pd.map (·.enc))
  let decPart := joinSep [decSep] (dec.map (·.enc))
  pure (orEmpty (withDec pdPart decPart))

/-- `ChordToken.export(**kwargs)`: the notes' exports joined by one space -/
def exportChord (filter : Cat → Bool) (convert : Convert) (ns : List Note) : Except Err Str := do
  let parts ← ns.mapM (exportNote filter convert)
  pure (joinSep [' '] parts)

/-- `token.export(**kwargs)` for every token class the importer can put in a node -/
def exportTok (filter : Cat → Bool) (convert : Convert) : Tok → Except Err Str
  | .noteRest n => exportNote filter convert n
  | .chord _ ns => exportChord filter convert ns
  | t => .ok t.enc

/-- `s.replace('@', '').replace('·', '')` -/
def strip (s : Str) : Str := removeC decSep (removeC tokSep s)

/-- `if s.endswith(c): s = s[:-1]` -/
def dropTrailing (c : Char) (s : Str) : Str := if s.getLast? == some c then s.dropLast else s

/-- one note of `BekernTokenizer.tokenize`: everything from the first `·` on is dropped, then one trailing `@` -/
def bekernNote (s : Str) : Str := dropTrailing tokSep ((splitOnC decSep s).headD [])

/-- `BekernTokenizer.tokenize` on the eKern text: note by note (space separated) -/
def bekernOf (ekern : Str) : Str :=
  if !ekern.contains decSep then ekern
  else joinSep [' '] ((splitOnC ' ' ekern).map bekernNote)

/-- the callback `AEKernTokenizer.tokenize` builds; the clef is created eagerly, before any token is looked at -/
def agnosticConvert (clef : Option Clef) : Str → Except Err Str := fun pitch =>
  match clef with
  | none => .error .valueError
  | some c => do
    let p ← Pitch.importHumdrum pitch
    Gkern.pitchToGkern p c

def aekern (cats : List Cat) (lastClef : Option Str) (t : Tok) : Except Err Str := do
  let clef : Option Clef ← match lastClef with
    | none => pure none
    | some txt => do pure (some (← Gkern.createClef txt))
  exportTok (fun c => cats.contains c) (some (agnosticConvert clef)) t

/-- `TokenizerFactory.create(encoding.value, token_categories=cats, last_clef_reference=clef).tokenize(token)` -/
def tokenize (e : Encoding) (cats : List Cat) (lastClef : Option Str) (t : Tok) : Except Err Str :=
  let ek := exportTok (fun c => cats.contains c) none t
  match e with
  | .ekern => ek
  | .kern => ek.map strip
  | .bekern => ek.map bekernOf
  | .bkern => ek.map (fun s => removeC tokSep (bekernOf s))
  | .aekern => aekern cats lastClef t
  | .akern => (aekern cats lastClef t).map strip

/-- `HeaderTokenGenerator.new(token=header, type=encoding)`: `'**' + prefix + encoding[2:]` -/
def headerFor (e : Encoding) (enc : Str) (spineId : Nat) : Tok :=
  .header (['*', '*'] ++ e.pfx ++ enc.drop 2) spineId

end Tokz
end KM
