/-
  KernModel.Export — `Exporter.export_string` (kernpy/core/exporter.py) with `export_token`,
  `append_row`, the measure-range block, `is_signature_cancelled`, `export_options_validator`,
  `get_spine_types`, and `parse_options_to_ExportOptions` (generic.py).
-/
import KernModel.Doc
import KernModel.Tokenize
namespace KM

/-- `ExportOptions` after `parse_options_to_ExportOptions` -/
structure Opts where
  spineTypes : List Str                 -- `spine_types`
  cats : List Cat                       -- `token_categories` (already the valid set)
  fromM : Option Int := none
  toM : Option Int := none
  enc : Encoding := .kern
  spineIds : Option (List Nat) := none
  deriving Repr

namespace Export

def defaultOpts : Opts := { spineTypes := Gen.headers, cats := Cat.all }

/-- `nullish_tokens` / `empty_row`: cells that do not keep a row alive -/
def isNullish (s : Str) : Bool := Gen.nullishTokens.contains s
def emptyRow (row : List Str) : Bool := row.all (fun c => Gen.emptyRowTokens.contains c)

def clefOf (d : Doc) (n : Node) : Option Str :=
  match lookup TokClass.ClefToken n.sigs with
  | some c => ((Doc.nodeAt d.stages c).bind (·.tok)).map (·.enc)
  | none => none

/-- `export_token(node, options)` -/
def exportToken (d : Doc) (o : Opts) (n : Node) : Except Err Str :=
  match n.tok with
  | none => .error .other
  | some t =>
    let t' := match t with
      | .header e i => Tokz.headerFor o.enc e i
      | t => t
    Tokz.tokenize o.enc o.cats (clefOf d n) t'

/-- `_retrieve_empty_token(node)` -/
def placeholder (n : Node) : Str :=
  match n.tok with
  | none => []
  | some t => if Hier.isChild hierarchy .SIGNATURES t.cat then ['*'] else ['.']

def headerTok (d : Doc) (n : Node) : Option Tok :=
  match n.tok with
  | some (.header e i) => some (.header e i)
  | _ => (n.hdr.bind (Doc.nodeAt d.stages)).bind (·.tok)

def spineSelected (d : Doc) (o : Opts) (n : Node) : Bool :=
  match headerTok d n with
  | some (.header e i) => o.spineTypes.contains e && (match o.spineIds with | none => true | some ids => ids.contains i)
  | _ => false

/-- `append_row`: the cell this node contributes, or nothing when its spine is filtered out -/
def appendRow (d : Doc) (o : Opts) (n : Node) : Except Err (Option Str) :=
  if !spineSelected d o n then .ok none
  else match n.tok with
    | none => .ok none
    | some t =>
      if t.hidden || !(t.isComplex || o.cats.contains t.cat) then .ok (some (placeholder n))
      else do
        let s ← exportToken d o n
        pure (some (if s.isEmpty then placeholder n else s))

def rowOfStage (d : Doc) (o : Opts) (st : List Node) : Except Err (List Str) := do
  let cells ← st.mapM (appendRow d o)
  pure (cells.filterMap id)

/-- `export_options_validator` -/
def validate (d : Doc) (o : Opts) : Except Err Unit :=
  let m : Int := d.starts.length
  match o.fromM, o.toM with
  | some f, _ => if f < 0 then .error .valueError else
      (match o.toM with
       | some t => if t > m then .error .valueError else if t < f then .error .valueError else .ok ()
       | none => .ok ())
  | none, some t => if t > m then .error .valueError else .ok ()
  | none, none => .ok ()

/-- `is_signature_cancelled(signature_node, node, from_stage, to_stage)`; returns Python truthiness
    (the function falls off its end with `None` when `from_stage >= to_stage`) -/
def sigCancelled (d : Doc) (sigCls : TokClass) : Nat → Coord → Nat → Nat → Bool
  | 0, _, _, _ => false
  | fuel + 1, c, fs, ts =>
    match Doc.nodeAt d.stages c with
    | none => false
    | some n =>
      match n.tok with
      | none => false
      | some t =>
        if t.cls == sigCls then true
        else if t.cls == .NoteRestToken then false
        else if fs < ts then (Doc.children d.stages c).any (fun ch => sigCancelled d sigCls fuel ch (fs + 1) ts)
        else false

def isHeaderNode (n : Node) : Bool := match n.tok with | some (.header _ _) => true | _ => false
def isOpNode (n : Node) : Bool := match n.tok with | some t => t.cls == .SpineOperationToken | none => false

/-- one step of the backwards walk that recovers headers and the open spine operators -/
def preambleRow (d : Doc) (o : Opts) (fromStage : Nat) (coords : List Coord) : Except Err (List Str × Bool × List (Option Coord)) := do
  let nodes := coords.filterMap (fun c => (Doc.nodeAt d.stages c).map (fun n => (c, n)))
  let opRow := nodes.any (fun cn => isOpNode cn.2)
  let cells ← nodes.mapM (fun (cn : Coord × Node) => do
    let (c, n) := cn
    match n.tok with
    | some (.header e _) =>
      if o.spineTypes.contains e then do
        let s ← exportToken d o n
        pure (s, true)
      else if opRow then do
        let s ← exportToken d o n
        pure (s, true)
      else pure (([] : Str), false)
    | _ =>
      if opRow then
        let cancelledBefore := isOpNode n && (match d.cancelledAt c with | some s => decide (s < fromStage) | none => false)
        let joinsHere := isOpNode n && (match n.lastOp with
          | some l => d.cancelledAt l == some c.1
          | none => false)
        if cancelledBefore || joinsHere then pure (['*'], false)
        else do
          let s ← exportToken d o n
          pure (s, true)
      else pure (([] : Str), false))
  let row := (cells.map (·.1)).filter (fun s => !s.isEmpty)
  pure (row, cells.any (·.2), nodes.map (fun cn => cn.2.parent))

/-- the `while next_nodes …` loop (fuel = number of stages) -/
def preambleLoop (d : Doc) (o : Opts) (fromStage : Nat) : Nat → List Coord → List (List Str) → Except Err (List (List Str))
  | 0, _, rows => .ok rows
  | fuel + 1, coords, rows =>
    match coords with
    | [] => .ok rows
    | c0 :: _ =>
      if c0 == (0, 0) then .ok rows
      else do
        let (row, keep, parents) ← preambleRow d o fromStage coords
        let rows := if keep then row :: rows else rows
        -- `new_next_nodes.append(node.parent)`; a `None` parent ends the walk at the next test
        match parents.mapM id with
        | none => .ok rows
        | some ps => preambleLoop d o fromStage fuel ps rows

/-- the signature rows in force at `fromStage` -/
def signatureRows (d : Doc) (o : Opts) (fromStage toStage : Nat) : Except Err (List (List Str)) := do
  let st := d.stages[fromStage]?.getD []
  let cols ← (st.zipIdx).mapM (fun (ni : Node × Nat) => do
    let (n, i) := ni
    let live := n.sigs.filter (fun (kc : TokClass × Coord) => !sigCancelled d kc.1 (d.stages.length + 1) (fromStage, i) fromStage toStage)
    live.mapM (fun (kc : TokClass × Coord) => match Doc.nodeAt d.stages kc.2 with
      | some sn => exportToken d o sn
      | none => .error .other))
  let cols := cols.filter (fun c => !c.isEmpty)
  match cols with
  | [] => pure []
  | c0 :: _ =>
    if cols.any (fun c => c.length != c0.length) then .error .other     -- "Node signature mismatch"
    else pure ((List.range c0.length).map (fun r => cols.map (fun c => c[r]?.getD [])))

def renderRows (rows : List (List Str)) : Str :=
  (rows.filter (fun r => !emptyRow r)).flatMap (fun r => joinSep ['\t'] r ++ ['\n'])

/-- `Exporter.export_string(document, options)` -/
def exportString (d : Doc) (o : Opts) : Except Err Str := do
  validate d o
  let nStages := d.stages.length
  let nStarts := d.starts.length
  let toStage : Nat := match o.toM with
    | some t =>
      if t < (nStarts : Int) then d.starts[t.toNat]?.getD (nStages - 1)
      else nStages - 1
    | none => nStages - 1
  let hasFrom : Bool := match o.fromM with | some f => f != 0 | none => false
  let (fromStage, pre) ← (if hasFrom then do
      let f := (o.fromM.getD 0)
      -- Python list indexing: a negative index counts from the end, an index past the end raises
      let idx : Int := f - 1
      let fromStage ← (match d.starts[idx.toNat]? with
        | some s => if idx < 0 then .error .other else pure s
        | none => .error .other : Except Err Nat)
      let coords := (List.range ((d.stages[fromStage]?.getD []).length)).map (fun i => (fromStage, i))
      let rows ← preambleLoop d o fromStage (nStages + 1) coords []
      let sigRows ← signatureRows d o fromStage toStage
      pure (fromStage, rows ++ sigRows)
    else pure (0, []) : Except Err (Nat × List (List Str)))
  let body ← ((List.range (toStage + 1 - fromStage)).map (· + fromStage)).mapM (fun s => rowOfStage d o (d.stages[s]?.getD []))
  let body := body.filter (fun r => !r.isEmpty && !(r.all isNullish))
  let rows := pre ++ body
  let rows := match o.toM, rows.getLast? with
    | some _, some last =>
      if last.head? != some ['*', '-'] then
        let n := last.length + (last.filter (· == ['*', '^'])).length - (last.filter (· == ['*', 'v'])).length
        rows ++ [List.replicate n ['*', '-']]
      else rows
    | _, _ => rows
  pure (renderRows rows)

/-- `Exporter.get_spine_types(document, spine_types)` -/
def getSpineTypes (d : Doc) (spineTypes : Option (List Str)) : Except Err (List Str) :=
  match spineTypes with
  | some [] => .ok []
  | _ => do
    let o : Opts := { spineTypes := spineTypes.getD Gen.headers, cats := [.HEADER] }
    let content ← exportString d o
    let first := (splitOnC '\n' content).headD []
    let toks := splitOnC '\t' first
    pure (if toks == [[]] then [] else toks)

end Export
end KM
