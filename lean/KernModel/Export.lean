/-
  KernModel.Export — `Exporter.export_string` (kernpy/core/exporter.py) with `export_token`,
  `append_row`, the measure-range block, `is_signature_cancelled`, `export_options_validator`,
  `get_spine_types`, and `parse_options_to_ExportOptions` (generic.py).
-/
import KernModel.Doc
import KernModel.Tokenize
namespace KM

/-- `ExportOptions` after `parse_options_to_ExportOptions` -/
structure Opts where
  spineTypes : List Str                 -- `spine_types`
  cats : List Cat                       -- `token_categories` (already the valid set)
  fromM : Option Int := none
  toM : Option Int := none
  enc : Encoding := .kern
  spineIds : Option (List Nat) := none
  deriving Repr

namespace Export

def defaultOpts : Opts := { spineTypes := Gen.headers, cats := Cat.all }

/-- `nullish_tokens` / `empty_row`: cells that do not keep a row alive -/
def isNullish (s : Str) : Bool := Gen.nullishTokens.contains s
def emptyRow (row : List Str) : Bool := row.all (fun c => Gen.emptyRowTokens.contains c)

def clefOf (d : Doc) (n : Node) : Option Str :=
  match lookup TokClass.ClefToken n.sigs with
  | some c => ((Doc.nodeAt d.stages c).bind (·.tok)).map (·.enc)
  | none => none

/-- `export_token(node, options)`: depends on the options only through the encoding and the categories -/
def exportTokenCE (d : Doc) (cats : List Cat) (enc : Encoding) (n : Node) : Except Err Str :=
  match n.tok with
  | none => .error .other
  | some t =>
    let t' := match t with
      | .header e i => Tokz.headerFor enc e i
      | t => t
    Tokz.tokenize enc cats (clefOf d n) t'

def exportToken (d : Doc) (o : Opts) (n : Node) : Except Err Str := exportTokenCE d o.cats o.enc n

/-- `_retrieve_empty_token(node)` -/
def placeholder (n : Node) : Str :=
  match n.tok with
  | none => []
  | some t => if Hier.isChild hierarchy .SIGNATURES t.cat then ['*'] else ['.']

def headerTok (d : Doc) (n : Node) : Option Tok :=
  match n.tok with
  | some (.header e i) => some (.header e i)
  | _ => (n.hdr.bind (Doc.nodeAt d.stages)).bind (·.tok)

/-- the spine test of `append_row`: header type selected and (no id selection or id selected) -/
def spineSelectedBy (types : List Str) (ids : Option (List Nat)) (d : Doc) (n : Node) : Bool :=
  match headerTok d n with
  | some (.header e i) => types.contains e && (match ids with | none => true | some l => l.contains i)
  | _ => false

def spineSelected (d : Doc) (o : Opts) (n : Node) : Bool := spineSelectedBy o.spineTypes o.spineIds d n

/-- what a node of a selected spine contributes: its exported text, or a placeholder when it is hidden, not
    selected by category, or exports to the empty string; nothing for the root -/
def cellBody (d : Doc) (cats : List Cat) (enc : Encoding) (n : Node) : Except Err (Option Str) :=
  match n.tok with
  | none => .ok none
  | some t =>
    if t.hidden || !(t.isComplex || cats.contains t.cat) then .ok (some (placeholder n))
    else do
      let s ← exportTokenCE d cats enc n
      pure (some (if s.isEmpty then placeholder n else s))

/-- `append_row`: the cell this node contributes, or nothing when its spine is filtered out -/
def appendRow (d : Doc) (o : Opts) (n : Node) : Except Err (Option Str) :=
  if !spineSelected d o n then .ok none else cellBody d o.cats o.enc n

def rowOfStage (d : Doc) (o : Opts) (st : List Node) : Except Err (List Str) := do
  let cells ← st.mapM (appendRow d o)
  pure (cells.filterMap id)

/-- `export_options_validator` -/
def validate (d : Doc) (o : Opts) : Except Err Unit :=
  let m : Int := d.starts.length
  match o.fromM, o.toM with
  | some f, _ => if f < 0 then .error .valueError else
      (match o.toM with
       | some t => if t > m then .error .valueError else if t < f then .error .valueError else .ok ()
       | none => .ok ())
  | none, some t => if t > m then .error .valueError else .ok ()
  | none, none => .ok ()

/-- `is_signature_cancelled(signature_node, node, from_stage, to_stage)`; returns Python truthiness
    (the function falls off its end with `None` when `from_stage >= to_stage`) -/
def sigCancelled (d : Doc) (sigCls : TokClass) : Nat → Coord → Nat → Nat → Bool
  | 0, _, _, _ => false
  | fuel + 1, c, fs, ts =>
    match Doc.nodeAt d.stages c with
    | none => false
    | some n =>
      match n.tok with
      | none => false
      | some t =>
        if t.cls == sigCls then true
        else if t.cls == .NoteRestToken then false
        else if fs < ts then (Doc.children d.stages c).any (fun ch => sigCancelled d sigCls fuel ch (fs + 1) ts)
        else false

def isHeaderNode (n : Node) : Bool := match n.tok with | some (.header _ _) => true | _ => false
def isOpNode (n : Node) : Bool := match n.tok with | some t => t.cls == .SpineOperationToken | none => false

/-- a spine operator that prints as `*` in the recovered preamble: a split that is closed again before the excerpt starts
    (`is_cancelled_at(from_stage)`), or the join / terminator that closes it (`last_spine_operator_node.token.cancelled_at_stage == node.stage`) -/
def closedOp (d : Doc) (fromStage : Nat) (c : Coord) (n : Node) : Bool :=
  let cancelledBefore := isOpNode n && (match d.cancelledAt c with | some s => decide (s < fromStage) | none => false)
  let joinsHere := isOpNode n && (match n.lastOp with
    | some l => d.cancelledAt l == some c.1
    | none => false)
  cancelledBefore || joinsHere

/-- what one node of a line of the backwards walk contributes: its text and whether it keeps the line (`opRow`: the line holds a spine operator) -/
def preambleCell (d : Doc) (o : Opts) (fromStage : Nat) (opRow : Bool) (cn : Coord × Node) : Except Err (Str × Bool) :=
  match cn.2.tok with
  | some (.header e _) =>
    if o.spineTypes.contains e then do
      let s ← exportToken d o cn.2
      pure (s, true)
    else if opRow then do
      let s ← exportToken d o cn.2
      pure (s, true)
    else pure (([] : Str), false)
  | _ =>
    if opRow then
      if closedOp d fromStage cn.1 cn.2 then pure (['*'], false)
      else do
        let s ← exportToken d o cn.2
        pure (s, true)
    else pure (([] : Str), false)

/-- one step of the backwards walk that recovers headers and the open spine operators -/
def preambleRow (d : Doc) (o : Opts) (fromStage : Nat) (coords : List Coord) : Except Err (List Str × Bool × List (Option Coord)) := do
  let nodes := coords.filterMap (fun c => (Doc.nodeAt d.stages c).map (fun n => (c, n)))
  let opRow := nodes.any (fun cn => isOpNode cn.2)
  let cells ← nodes.mapM (preambleCell d o fromStage opRow)
  let row := (cells.map (·.1)).filter (fun s => !s.isEmpty)
  pure (row, cells.any (·.2), nodes.map (fun cn => cn.2.parent))

/-- the `while next_nodes …` loop (fuel = number of stages) -/
def preambleLoop (d : Doc) (o : Opts) (fromStage : Nat) : Nat → List Coord → List (List Str) → Except Err (List (List Str))
  | 0, _, rows => .ok rows
  | fuel + 1, coords, rows =>
    match coords with
    | [] => .ok rows
    | c0 :: _ =>
      if c0 == (0, 0) then .ok rows
      else do
        let (row, keep, parents) ← preambleRow d o fromStage coords
        let rows := if keep then row :: rows else rows
        -- `new_next_nodes.append(node.parent)`: the next test looks at the first entry only; when that is not the root and some entry is
        -- `None` (the parent of the root: columns of different depth, possible only with `**` cells below the first line), `node.token`
        -- raises AttributeError
        match parents.mapM id with
        | none => if parents.head? == some (some (0, 0)) then .ok rows else .error .other
        | some ps => preambleLoop d o fromStage fuel ps rows

/-- the signatures one node of the first line of the excerpt brings along: those of its table that are not declared again before the
    first note below it -/
def sigColumn (d : Doc) (o : Opts) (fromStage toStage : Nat) (ni : Node × Nat) : Except Err (List Str) := do
  let live := ni.1.sigs.filter (fun (kc : TokClass × Coord) => !sigCancelled d kc.1 (d.stages.length + 1) (fromStage, ni.2) fromStage toStage)
  live.mapM (fun (kc : TokClass × Coord) => match Doc.nodeAt d.stages kc.2 with
    | some sn => exportToken d o sn
    | none => .error .other)

/-- columns of signatures to lines (`"Node signature mismatch"` when the columns differ in length) -/
def sigTranspose (cols : List (List Str)) : Except Err (List (List Str)) :=
  let cols := cols.filter (fun c => !c.isEmpty)
  match cols with
  | [] => pure []
  | c0 :: _ =>
    if cols.any (fun c => c.length != c0.length) then .error .other     -- "Node signature mismatch"
    else pure ((List.range c0.length).map (fun r => cols.map (fun c => c[r]?.getD [])))

/-- the signature rows in force at `fromStage` -/
def signatureRows (d : Doc) (o : Opts) (fromStage toStage : Nat) : Except Err (List (List Str)) := do
  let st := d.stages[fromStage]?.getD []
  let cols ← (st.zipIdx).mapM (sigColumn d o fromStage toStage)
  sigTranspose cols

def renderRows (rows : List (List Str)) : Str :=
  (rows.filter (fun r => !emptyRow r)).flatMap (fun r => joinSep ['\t'] r ++ ['\n'])

/-- `to_stage`: the start stage of the measure after `to_measure`, else the last stage -/
def toStageOf (d : Doc) (o : Opts) : Nat :=
  match o.toM with
  | some t =>
    if t < (d.starts.length : Int) then d.starts[t.toNat]?.getD (d.stages.length - 1)
    else d.stages.length - 1
  | none => d.stages.length - 1

/-- `if options.from_measure:` — `None` and `0` mean "from the beginning" -/
def hasFrom (o : Opts) : Bool := match o.fromM with | some f => f != 0 | none => false

/-- the rows of the stages `fromStage .. toStage`, each with its stage number, all-null rows dropped -/
def bodyRows (d : Doc) (o : Opts) (fromStage toStage : Nat) : Except Err (List (Nat × List Str)) := do
  let rows ← ((List.range (toStage + 1 - fromStage)).map (· + fromStage)).mapM (fun s => do
    let r ← rowOfStage d o (d.stages[s]?.getD [])
    pure (s, r))
  pure (rows.filter (fun sr => !sr.2.isEmpty && !(sr.2.all isNullish)))

/-- the terminator row added to a range export whose last row does not terminate the spines -/
def terminatorFor (o : Opts) (rows : List (List Str)) : List (List Str) :=
  match o.toM, rows.getLast? with
  | some _, some last =>
    if last.head? != some ['*', '-'] then
      [List.replicate (last.length + (last.filter (· == ['*', '^'])).length - (last.filter (· == ['*', 'v'])).length) ['*', '-']]
    else []
  | _, _ => []

/-- the three parts of an export: recovered preamble (headers, open operators, signatures in force),
    body rows with their stage, synthetic terminator -/
structure Parts where
  pre : List (List Str)
  body : List (Nat × List Str)
  term : List (List Str)

/-- `from_stage = measure_start_tree_stages[from_measure - 1]` (Python list indexing: an index past the end raises) -/
def startStageOf (d : Doc) (o : Opts) : Except Err Nat :=
  let idx : Int := (o.fromM.getD 0) - 1
  match d.starts[idx.toNat]? with
  | some s => if idx < 0 then .error .other else .ok s
  | none => .error .other

/-- the recovered preamble of a range export: headers and open operators (backwards walk), then the signatures in force -/
def preambleOf (d : Doc) (o : Opts) (fromStage toStage : Nat) : Except Err (List (List Str)) := do
  let coords := (List.range ((d.stages[fromStage]?.getD []).length)).map (fun i => (fromStage, i))
  let rows ← preambleLoop d o fromStage (d.stages.length + 1) coords []
  let sigRows ← signatureRows d o fromStage toStage
  pure (rows ++ sigRows)

/-- start stage and preamble: `(0, [])` when the export starts at the beginning -/
def fromPart (d : Doc) (o : Opts) : Except Err (Nat × List (List Str)) :=
  if hasFrom o then do
    let fs ← startStageOf d o
    let pre ← preambleOf d o fs (toStageOf d o)
    pure (fs, pre)
  else pure (0, [])

def exportParts (d : Doc) (o : Opts) : Except Err Parts := do
  validate d o
  let fp ← fromPart d o
  let body ← bodyRows d o fp.1 (toStageOf d o)
  pure ⟨fp.2, body, terminatorFor o (fp.2 ++ body.map (·.2))⟩

def Parts.rows (p : Parts) : List (List Str) := p.pre ++ p.body.map (·.2) ++ p.term

/-- `Exporter.export_string(document, options)` -/
def exportString (d : Doc) (o : Opts) : Except Err Str := (exportParts d o).map (fun p => renderRows p.rows)

/-- `Exporter.get_spine_types(document, spine_types)` -/
def getSpineTypes (d : Doc) (spineTypes : Option (List Str)) : Except Err (List Str) :=
  match spineTypes with
  | some [] => .ok []
  | _ => do
    let o : Opts := { spineTypes := spineTypes.getD Gen.headers, cats := [.HEADER] }
    let content ← exportString d o
    let first := (splitOnC '\n' content).headD []
    let toks := splitOnC '\t' first
    pure (if toks == [[]] then [] else toks)

end Export
end KM
