/-
  KernModel.FileIO — the byte-level contract of the file path (kernpy/core/importer.py `import_file`,
  `_io._write`, the converters of exporter.py and the handlers of `__main__`).

  `import_file` opens the file with `newline=''` and lets `csv.reader` split the records itself: csv breaks a
  record at `\n`, `\r` and `\r\n` only, and yields an empty record for an empty line.  `import_string` uses
  `str.splitlines()`, which also breaks at VT, FF, FS, GS, RS, NEL, LS and PS.
  Not modelled: the filesystem, the locale encoding of the converters' `open()`, argparse, glob order.
-/
import KernModel.Doc
namespace KM
namespace FileIO

/-- records of `csv.reader(file, delimiter='\t', quoting=QUOTE_NONE)` on the decoded text -/
def csvLinesAux : Bool → Str → Str → List Str
  | _, [], cur => if cur.isEmpty then [] else [cur.reverse]
  | afterCR, c :: r, cur =>
    if c == '\n' && afterCR then csvLinesAux false r cur
    else if c == '\n' || c == '\r' then cur.reverse :: csvLinesAux (c == '\r') r []
    else csvLinesAux false r (c :: cur)

def csvRows (text : Str) : List (List Str) := (csvLinesAux false text []).map splitRow

/-- the text has no line boundary other than LF / CR (so: LF, CRLF or CR line ends) -/
def OnlyLfCr (text : Str) : Prop := ∀ c ∈ text, isLineBoundary c = true → (c == '\n' || c == '\r') = true

/-- converter contract: `handle_*` writes, for each selected file, the conversion of its content under the
    same name with the suffix replaced -/
def withSuffix (name suffix : Str) : Str :=
  let rev := name.reverse
  match rev.dropWhile (· != '.') with
  | [] => name ++ suffix
  | _ :: base => base.reverse ++ suffix

end FileIO
end KM
