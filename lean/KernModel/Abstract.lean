/-
  KernModel.Abstract — abstract syntax of the cells of the supported grammar (C01's quantifier),
  `render : ACell → text`, and `tokOf : ACell → Tok`: what `KernSpineListener` builds for the rendered
  text (parser ∘ render).  That the real ANTLR parser + listener agree with `tokOf` on `render a` is
  checked by correspondence only (DESIGN §3.4).
-/
import KernModel.Token
namespace KM

/-- a duration: number, optional `%`-rational, augmentation dots, grace / appoggiatura mark -/
structure ADur where
  num : Str
  rat : Option Str := none
  dots : Nat := 0
  grace : Str := []          -- "", "q", "qq", "p" or "P"
  deriving DecidableEq, Repr

/-- a note with its signifiers in the four positions the grammar allows -/
structure ANote where
  pre : List Str := []       -- before the duration
  dur : Option ADur := none
  mid : List Str := []       -- between duration and pitch
  pitch : Str                -- the letter repeated for the octave
  post1 : List Str := []     -- between pitch and accidental
  acc : Str := []            -- "", "#", "##", "###", "-", "--", "---" or "n"
  disp : Str := []           -- accidental display suffix (only with an accidental)
  post2 : List Str := []     -- after everything
  deriving DecidableEq, Repr

structure ARest where
  pre : List Str := []
  dur : Option ADur := none
  rr : Str := ['r']          -- "r" or "rr"
  post : List Str := []
  deriving DecidableEq, Repr

inductive AElem where
  | note (n : ANote)
  | rest (r : ARest)
  deriving DecidableEq, Repr

/-- a barline: `=`/`==`, number with repetition letters, hidden mark, type, fermata, trailing marks -/
structure ABar where
  double : Bool := false
  number : Str := []         -- digits then optional `a` / `b`
  hidden : Bool := false     -- `-`
  type : Str := []           -- one `barLineType` alternative, or empty
  fermata : Bool := false    -- `;`
  tail : Str := []           -- `j`, `.`, `?`… (kept by neither the token nor the export)
  deriving DecidableEq, Repr

/-- the verbatim kinds: every cell whose token carries the cell text itself -/
inductive OtherKind where
  | clef | timeSig | meter | keySig | contextual | staff | empty | visual | nonvisual | bbox
  | lyrics | dynamics | harmony | fingering | otherText       -- free text of a non-kern spine
  | fieldComment
  deriving DecidableEq, Repr

inductive ACell where
  | elem (e : AElem)
  | chord (es : List AElem)
  | bar (b : ABar)
  | other (k : OtherKind) (text : Str)
  deriving DecidableEq, Repr

namespace Abs

def flat (l : List Str) : Str := l.flatMap id

def renderDur : Option ADur → Str
  | none => []
  | some d => d.num ++ (match d.rat with | some r => '%' :: r | none => []) ++ List.replicate d.dots '.' ++ d.grace

def renderElem : AElem → Str
  | .note n => flat n.pre ++ renderDur n.dur ++ flat n.mid ++ n.pitch ++ flat n.post1 ++ n.acc ++ n.disp ++ flat n.post2
  | .rest r => flat r.pre ++ renderDur r.dur ++ r.rr ++ flat r.post

def renderBar (b : ABar) : Str :=
  (if b.double then ['=', '='] else ['=']) ++ b.number ++ (if b.hidden then ['-'] else []) ++ b.type ++
    (if b.fermata then [';'] else []) ++ b.tail

def joinSpace : List Str → Str
  | [] => []
  | [x] => x
  | x :: y :: r => x ++ ' ' :: joinSpace (y :: r)

def render : ACell → Str
  | .elem e => renderElem e
  | .chord es => joinSpace (es.map renderElem)
  | .bar b => renderBar b
  | .other _ t => t

/-- `exitDuration` -/
def durSubs : Option ADur → List Sub
  | none => []
  | some d =>
    ⟨d.num ++ (match d.rat with | some r => '%' :: r | none => []), .DURATION⟩ ::
      (List.replicate d.dots ⟨['.'], .DURATION⟩ ++ (if d.grace.isEmpty then [] else [⟨d.grace, .DURATION⟩]))

/-- `_add_decoration` over a sequence: first occurrences, in order, on top of what is already there -/
def addDecs (acc : List Sub) : List Str → List Sub
  | [] => acc
  | s :: r => if acc.any (fun d => d.enc == s) then addDecs acc r else addDecs (acc ++ [⟨s, .DECORATION⟩]) r

/-- the decorations an element contributes, in the order the listener sees them -/
def decsOf : AElem → List Str
  | .note n => n.pre ++ n.mid ++ n.post1 ++ n.post2
  | .rest r => (r.pre ++ r.post).filter (fun s => s != ['/'] && s != ['\\'])

/-- pitch/duration sub-tokens of an element, given the duration sub-tokens in force
    (`self.duration_subtokens` is only overwritten when the element has its own duration) -/
def pdOf (durs : List Sub) : AElem → List Sub
  | .note n => durs ++ [⟨n.pitch, .PITCH⟩] ++ (if n.acc.isEmpty then [] else [⟨n.acc ++ n.disp, .ALTERATION⟩])
  | .rest _ => durs ++ [⟨['r'], .REST⟩]

def elemDur : AElem → Option ADur
  | .note n => n.dur
  | .rest r => r.dur

/-- walk the elements of a chord: duration sub-tokens in force carry over; returns (text, pd) per note -/
def chordWalk (durs : List Sub) : List AElem → List (Str × List Sub)
  | [] => []
  | e :: r =>
    let d := match elemDur e with | some _ => durSubs (elemDur e) | none => durs
    (renderElem e, pdOf d e) :: chordWalk d r

def barText (b : ABar) : Str :=
  (if b.double then ['=', '='] else ['=']) ++ b.type ++ (if b.fermata then [';'] else [])

def otherClass : OtherKind → TokClass × Cat
  | .clef => (.ClefToken, .CLEF) | .timeSig => (.TimeSignatureToken, .TIME_SIGNATURE)
  | .meter => (.MeterSymbolToken, .METER_SYMBOL) | .keySig => (.KeySignatureToken, .KEY_SIGNATURE)
  | .contextual => (.SimpleToken, .OTHER_CONTEXTUAL) | .staff => (.SimpleToken, .STRUCTURAL)
  | .empty => (.SimpleToken, .EMPTY) | .visual => (.SimpleToken, .ENGRAVED_SYMBOLS)
  | .nonvisual => (.SimpleToken, .OTHER) | .bbox => (.BoundingBoxToken, .BOUNDING_BOXES)
  | .lyrics => (.SimpleToken, .LYRICS) | .dynamics => (.SimpleToken, .DYNAMICS)
  | .harmony => (.SimpleToken, .HARMONY) | .fingering => (.SimpleToken, .FINGERING)
  | .otherText => (.SimpleToken, .OTHER) | .fieldComment => (.FieldCommentToken, .FIELD_COMMENTS)

def zipNotes : List (Str × List Sub) → List (List Sub) → List Note
  | tp :: r, d :: ds => ⟨tp.1, tp.2, d⟩ :: zipNotes r ds
  | _, _ => []

/-- **what the listener builds** for `render a` -/
def tokOf : ACell → Tok
  | .elem e => .noteRest ⟨renderElem e, pdOf (durSubs (elemDur e)) e, addDecs [] (decsOf e)⟩
  | .chord es =>
    .chord (joinSpace (es.map renderElem))
      (zipNotes (chordWalk [] es) (es.map (fun e => addDecs [] (decsOf e))))   -- each note owns its decorations
  | .bar b => .simple .BarToken (barText b) .BARLINES (b.hidden || (renderBar b).contains '-')
  | .other k t => .simple (otherClass k).1 t (otherClass k).2 false

end Abs
end KM
