/-
  KernModel.ReadOnly — the read-only API as a state machine over (module constants, document).
  Every operation is a pure function of the state and its arguments; the state is returned unchanged.
  (What a pure model cannot exhibit — hidden Python mutation or aliasing — is covered by the write-site
  inventory `C14_write_sites` and by snapshot histories on the real code.)
-/
import KernModel.Export
namespace KM
namespace ReadOnly

/-- module-level constants the API must not modify -/
structure Globals where
  headers : List Str
  bekern : List Str
  hierarchy : Forest
  deriving Repr

def globals0 : Globals := ⟨Gen.headers, Gen.bekern_categories, hierarchy⟩

structure State where
  g : Globals
  d : Doc

inductive Op where
  | dumps (o : Opts)
  | spineTypes (types : Option (List Str))
  | listing (filter : Option (List Cat))
  | unique (filter : Option (List Cat))
  | metacomments (key : Option Str)
  | measuresCount
  | iterate
  | isMonophonic

inductive Out where
  | text (r : Except Err Str)
  | strs (r : Except Err (List Str))
  | toks (r : List Tok)
  | nat (r : Except Err Nat)
  | nats (r : Except Err (List Nat))
  | bool (r : Except Err Bool)

/-- preorder listing by an explicit stack with fuel (`dfs_iterative`) -/
def dfsFuel (stages : List (List Node)) : Nat → List Coord → List Coord → List Coord
  | 0, _, acc => acc
  | _, [], acc => acc
  | n + 1, c :: rest, acc => dfsFuel stages n (Doc.children stages c ++ rest) (acc ++ [c])

def nodeCount (stages : List (List Node)) : Nat := (stages.map List.length).sum

def listingCoords (d : Doc) : List Coord := dfsFuel d.stages (nodeCount d.stages + 1) [(0, 0)] []

/-- `get_all_tokens(filter_by_categories)`: the valid set of the filter, tokens in traversal order -/
def listing (d : Doc) (filter : Option (List Cat)) : List Tok :=
  let cats := match filter with
    | none => Cat.all
    | some f => Hier.validSets hierarchy f []
  (listingCoords d).filterMap (fun c => (Doc.nodeAt d.stages c).bind (fun n => n.tok.bind (fun t => if cats.contains t.cat then some t else none)))

/-- `get_unique_tokens`: first occurrences by encoding -/
def uniqueToks : List Tok → List Str → List Tok
  | [], _ => []
  | t :: r, seen => if seen.contains t.enc then uniqueToks r seen else t :: uniqueToks r (seen ++ [t.enc])

def metacomments (d : Doc) (key : Option Str) : List Str :=
  ((listingCoords d).filterMap (fun c => (Doc.nodeAt d.stages c).bind (fun n => n.tok.bind (fun t =>
    if t.cls == .MetacommentToken then some t.enc else none)))).filter (fun e => match key with
      | none => true
      | some k => (['!', '!', '!'] ++ k).isPrefixOf e)

def measuresCount (d : Doc) : Except Err Nat := if d.starts.isEmpty then .error .other else .ok d.starts.length

def outOf (s : State) : Op → Out
  | .dumps o => .text (Export.exportString s.d o)
  | .spineTypes t => .strs (Export.getSpineTypes s.d t)
  | .listing f => .toks (listing s.d f)
  | .unique f => .toks (uniqueToks (listing s.d f) [])
  | .metacomments k => .strs (.ok (metacomments s.d k))
  | .measuresCount => .nat (measuresCount s.d)
  | .iterate => .nats ((measuresCount s.d).map (fun m => (List.range m).map (· + 1)))
  | .isMonophonic => .bool (do
      let k ← Export.getSpineTypes s.d (some [['*','*','k','e','r','n']])
      pure (k.length == 1 && (listing s.d (some [.CHORD])).isEmpty && !(listing s.d (some [.NOTE_REST])).isEmpty))

/-- one read-only call: new state and result -/
def step (s : State) (op : Op) : State × Out := (s, outOf s op)

def runOps (s : State) : List Op → State × List Out
  | [] => (s, [])
  | op :: r =>
    let (s1, o) := step s op
    let (s2, os) := runOps s1 r
    (s2, o :: os)

end ReadOnly
end KM
