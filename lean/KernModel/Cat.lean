/-
  KernModel.Cat — model of `TokenCategory` and `TokenCategoryHierarchyMapper` (kernpy/core/tokens.py).

  The hierarchy itself is *generated* (`Gen.hierarchy`, names as character lists); the functions below
  are written the way the Python computes them (dictionary walks), over an arbitrary forest, and are
  instantiated at the generated forest.  Python sets are lists compared up to membership.
-/
import KernModel.Basic
import KernModel.Gen.Cats
namespace KM

inductive Cat where
  | STRUCTURAL | HEADER | SPINE_OPERATION | CORE | ERROR | NOTE_REST | NOTE | DURATION | PITCH
  | ALTERATION | DECORATION | REST | CHORD | EMPTY | SIGNATURES | CLEF | TIME_SIGNATURE
  | METER_SYMBOL | KEY_SIGNATURE | KEY_TOKEN | ENGRAVED_SYMBOLS | OTHER_CONTEXTUAL | BARLINES
  | COMMENTS | FIELD_COMMENTS | LINE_COMMENTS | DYNAMICS | HARMONY | FINGERING | LYRICS
  | INSTRUMENTS | IMAGE_ANNOTATIONS | BOUNDING_BOXES | LINE_BREAK | OTHER | MHXM | ROOT
  deriving DecidableEq, Repr, Inhabited

namespace Cat

def all : List Cat :=
  [STRUCTURAL, HEADER, SPINE_OPERATION, CORE, ERROR, NOTE_REST, NOTE, DURATION, PITCH,
   ALTERATION, DECORATION, REST, CHORD, EMPTY, SIGNATURES, CLEF, TIME_SIGNATURE,
   METER_SYMBOL, KEY_SIGNATURE, KEY_TOKEN, ENGRAVED_SYMBOLS, OTHER_CONTEXTUAL, BARLINES,
   COMMENTS, FIELD_COMMENTS, LINE_COMMENTS, DYNAMICS, HARMONY, FINGERING, LYRICS,
   INSTRUMENTS, IMAGE_ANNOTATIONS, BOUNDING_BOXES, LINE_BREAK, OTHER, MHXM, ROOT]

def name : Cat → Str
  | STRUCTURAL => ['S','T','R','U','C','T','U','R','A','L']
  | HEADER => ['H','E','A','D','E','R']
  | SPINE_OPERATION => ['S','P','I','N','E','_','O','P','E','R','A','T','I','O','N']
  | CORE => ['C','O','R','E']
  | ERROR => ['E','R','R','O','R']
  | NOTE_REST => ['N','O','T','E','_','R','E','S','T']
  | NOTE => ['N','O','T','E']
  | DURATION => ['D','U','R','A','T','I','O','N']
  | PITCH => ['P','I','T','C','H']
  | ALTERATION => ['A','L','T','E','R','A','T','I','O','N']
  | DECORATION => ['D','E','C','O','R','A','T','I','O','N']
  | REST => ['R','E','S','T']
  | CHORD => ['C','H','O','R','D']
  | EMPTY => ['E','M','P','T','Y']
  | SIGNATURES => ['S','I','G','N','A','T','U','R','E','S']
  | CLEF => ['C','L','E','F']
  | TIME_SIGNATURE => ['T','I','M','E','_','S','I','G','N','A','T','U','R','E']
  | METER_SYMBOL => ['M','E','T','E','R','_','S','Y','M','B','O','L']
  | KEY_SIGNATURE => ['K','E','Y','_','S','I','G','N','A','T','U','R','E']
  | KEY_TOKEN => ['K','E','Y','_','T','O','K','E','N']
  | ENGRAVED_SYMBOLS => ['E','N','G','R','A','V','E','D','_','S','Y','M','B','O','L','S']
  | OTHER_CONTEXTUAL => ['O','T','H','E','R','_','C','O','N','T','E','X','T','U','A','L']
  | BARLINES => ['B','A','R','L','I','N','E','S']
  | COMMENTS => ['C','O','M','M','E','N','T','S']
  | FIELD_COMMENTS => ['F','I','E','L','D','_','C','O','M','M','E','N','T','S']
  | LINE_COMMENTS => ['L','I','N','E','_','C','O','M','M','E','N','T','S']
  | DYNAMICS => ['D','Y','N','A','M','I','C','S']
  | HARMONY => ['H','A','R','M','O','N','Y']
  | FINGERING => ['F','I','N','G','E','R','I','N','G']
  | LYRICS => ['L','Y','R','I','C','S']
  | INSTRUMENTS => ['I','N','S','T','R','U','M','E','N','T','S']
  | IMAGE_ANNOTATIONS => ['I','M','A','G','E','_','A','N','N','O','T','A','T','I','O','N','S']
  | BOUNDING_BOXES => ['B','O','U','N','D','I','N','G','_','B','O','X','E','S']
  | LINE_BREAK => ['L','I','N','E','_','B','R','E','A','K']
  | OTHER => ['O','T','H','E','R']
  | MHXM => ['M','H','X','M']
  | ROOT => ['R','O','O','T']

/-- Position in the enum, 0-based. -/
def idx (c : Cat) : Nat := c.ctorIdx

/-- `TokenCategory.<X>.value` (`auto()` numbering starts at 1). -/
def value (c : Cat) : Nat := c.idx + 1

def ofName? (s : Str) : Option Cat := all.find? (fun c => c.name == s)

def ofIdx? (i : Nat) : Option Cat := all[i]?

end Cat

abbrev Forest := List (RTree Cat)

/- Convert a generated forest of names; a name that is not one of the 37 constructors makes the
    conversion fail (the table theorem `hierarchy_wellformed` then no longer holds). -/
mutual
def convTree : RTree Str → Option (RTree Cat)
  | .node n ks => match Cat.ofName? n, convForest ks with
    | some c, some ks' => some (.node c ks')
    | _, _ => none
def convForest : List (RTree Str) → Option Forest
  | [] => some []
  | t :: ts => match convTree t, convForest ts with
    | some t', some ts' => some (t' :: ts')
    | _, _ => none
end

/-- The hierarchy the model computes with = the one in the source right now. -/
def hierarchy : Forest := (convForest Gen.hierarchy).getD []
def readmeForest : Forest := (convForest Gen.readmeTree).getD []

namespace Hier

/-- `tree.get(parent)` on the dict at hand: subtree of a top-level key. -/
def lookupTop (p : Cat) (f : Forest) : Option Forest :=
  match f.find? (fun t => t.root == p) with
  | some t => some t.kids
  | none => none

/- `TokenCategoryHierarchyMapper._nodes(tree)` (keys first, then each subtree). -/
mutual
def nodesT : RTree Cat → List Cat
  | .node _ ks => nodesF ks
def nodesF : Forest → List Cat
  | [] => []
  | t :: ts => t.root :: (nodesT t ++ nodesF ts)
end

/- `_find_subtree(tree, parent)`: the parent's children dict, looked up at this level first and then
    depth-first in every subtree. -/
mutual
def findInTree (p : Cat) : RTree Cat → Option Forest
  | .node _ sub => match lookupTop p sub with
    | some s => some s
    | none => findInKids p sub
def findInKids (p : Cat) : Forest → Option Forest
  | [] => none
  | t :: ts => match findInTree p t with
    | some r => some r
    | none => findInKids p ts
end

def findSubtree (f : Forest) (p : Cat) : Option Forest :=
  match lookupTop p f with
  | some s => some s
  | none => findInKids p f

/-- `nodes(parent)`: all nodes of the parent's subtree (strict descendants). -/
def nodes (f : Forest) (p : Cat) : List Cat :=
  match findSubtree f p with
  | some s => nodesF s
  | none => []

/-- `children(parent)`: direct children. -/
def children (f : Forest) (p : Cat) : List Cat :=
  match findSubtree f p with
  | some s => s.map RTree.root
  | none => []

/-- `is_child(parent, child)`: equal, or a strict descendant. -/
def isChild (f : Forest) (parent child : Cat) : Bool :=
  parent == child || (nodes f parent).contains child

/- `_leaves(tree)`. -/
mutual
def leavesT : RTree Cat → List Cat
  | .node _ ks => leavesF ks
def leavesF : Forest → List Cat
  | [] => []
  | t :: ts => (if t.kids.isEmpty then [t.root] else []) ++ leavesT t ++ leavesF ts
end

/-- `leaves(target)` (`_leaves(None)` is the empty set). -/
def leaves (f : Forest) (p : Cat) : List Cat :=
  match findSubtree f p with
  | some s => leavesF s
  | none => []

/-- `all()` = `_nodes(hierarchy)`. -/
def allNodes (f : Forest) : List Cat := nodesF f

/-- The four kinds of `include=` / `exclude=` argument the validators accept; an element that is not a
    `TokenCategory` is `none`. -/
inductive Arg where
  | none                              -- Python `None`
  | single (c : Option Cat)           -- a bare value
  | list (cs : List (Option Cat))
  | tuple (cs : List (Option Cat))
  | set (cs : List (Option Cat))
  deriving Repr

def Arg.elems : Arg → List (Option Cat)
  | .none => []
  | .single c => [c]
  | .list cs | .tuple cs | .set cs => cs

/-- `_validate_include`. -/
def validateInclude (f : Forest) : Arg → Except Err (List Cat)
  | .none => .ok (allNodes f)
  | a => if a.elems.all Option.isSome then .ok (a.elems.filterMap id) else .error .valueError

/-- `_validate_exclude`. -/
def validateExclude : Arg → Except Err (List Cat)
  | .none => .ok []
  | a => if a.elems.all Option.isSome then .ok (a.elems.filterMap id) else .error .valueError

/-- `set.union(*[(nodes(cat) | {cat}) for cat in S])`, or `S` itself when empty. -/
def expand (f : Forest) (s : List Cat) : List Cat :=
  s.flatMap (fun c => c :: nodes f c)

/-- `valid(include, exclude)` on already validated sets. -/
def validSets (f : Forest) (inc exc : List Cat) : List Cat :=
  (expand f inc).filter (fun x => !(expand f exc).contains x)

def valid (f : Forest) (inc exc : Arg) : Except Err (List Cat) := do
  let i ← validateInclude f inc
  let e ← validateExclude exc
  pure (validSets f i e)

/-- `match(category, include, exclude)`. -/
def «match» (f : Forest) (c : Cat) (inc exc : Arg) : Except Err Bool := do
  let i ← validateInclude f inc
  let e ← validateExclude exc
  let v := validSets f i e
  pure ((c :: nodes f c).any (fun x => v.contains x))

end Hier
end KM
