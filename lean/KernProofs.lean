import KernProofs.C11
import KernProofs.C16
import KernProofs.C09
import KernProofs.C10
import KernProofs.C18
import KernProofs.C14
import KernProofs.C20
