import KernProofs.C11
import KernProofs.C16
import KernProofs.C09
