import KernProofs.C11
