import KernDriver.Json
import KernDriver.C11
import KernDriver.Pitch
import KernDriver.Tokens
import KernDriver.C18
import KernDriver.Abstract
import KernDriver.Doc
namespace KD
open Lean

def dispatch (j : Json) : Except String Json := do
  let op ← (← j.getObjVal? "op").getStr?
  if op.startsWith "c11." then KD.C11.handle op j
  else if op.startsWith "pitch." || op.startsWith "c16." || op.startsWith "c09." then KD.PitchOps.handle op j
  else if op.startsWith "abs." || op.startsWith "tok." then KD.AbsOps.handle op j
  else if op.startsWith "doc." then KD.DocOps.handle op j
  else if op.startsWith "c18." then KD.C18.handle op j
  else if op.startsWith "c10." then KD.GkernOps.handle op j
  else throw s!"unknown op {op}"

partial def loop (h : IO.FS.Stream) (out : IO.FS.Stream) : IO Unit := do
  let line ← h.getLine
  if line.isEmpty then return ()
  let resp := match Json.parse line with
    | .ok j => match dispatch j with
      | .ok r => r
      | .error e => Json.mkObj [("driver_error", Json.str e)]
    | .error e => Json.mkObj [("driver_error", Json.str s!"json: {e}")]
  out.putStrLn (Json.compress resp)
  loop h out

def main : IO Unit := do
  loop (← IO.getStdin) (← IO.getStdout)

end KD
