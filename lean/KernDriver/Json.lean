/- JSON glue shared by the driver ops (not part of the model; trusted as part of the harness). -/
import Lean.Data.Json
import KernModel
namespace KD
open Lean KM

def strOf (s : Str) : String := String.ofList s
def jstr (s : Str) : Json := Json.str (strOf s)

def getStr (j : Json) (k : String) : Except String Str := do
  let v ← j.getObjVal? k
  let s ← v.getStr?
  pure s.toList

def getNat (j : Json) (k : String) : Except String Nat := do
  let v ← j.getObjVal? k
  v.getNat?

def getInt (j : Json) (k : String) : Except String Int := do
  let v ← j.getObjVal? k
  v.getInt?

def getArr (j : Json) (k : String) : Except String (Array Json) := do
  let v ← j.getObjVal? k
  v.getArr?

def getBool (j : Json) (k : String) : Except String Bool := do
  let v ← j.getObjVal? k
  v.getBool?

def jnats (l : List Nat) : Json := Json.arr (l.map (fun n => Json.num (JsonNumber.fromNat n))).toArray
def jints (l : List Int) : Json := Json.arr (l.map (fun n => Json.num (JsonNumber.fromInt n))).toArray

def errName : Err → String
  | .valueError => "ValueError"
  | .keyError => "KeyError"
  | .other => "Exception"

def jexcept {α} (f : α → Json) : Except Err α → Json
  | .ok a => Json.mkObj [("ok", f a)]
  | .error e => Json.mkObj [("err", Json.str (errName e))]

def catOfJson (j : Json) : Except String (Option Cat) :=
  match j with
  | .null => pure none
  | _ => do
    let n ← j.getNat?
    match Cat.ofIdx? n with
    | some c => pure (some c)
    | none => throw s!"bad category index {n}"

def catsJson (l : List Cat) : Json := jnats (l.map Cat.idx)

end KD
