import KernDriver.Tokens
namespace KD.C18
open Lean KM KD KD.TokOps SpineImp

def shared : List Cat := [.STRUCTURAL, .SIGNATURES, .EMPTY, .BARLINES, .IMAGE_ANNOTATIONS, .COMMENTS]
def underShared (c : Cat) : Bool := shared.any (fun s => Spec.isDescOrSelf s c)
def ownTable : List (Str × Cat) :=
  [("**text".toList, .LYRICS), ("**dynam".toList, .DYNAMICS), ("**dyn".toList, .DYNAMICS),
   ("**harm".toList, .HARMONY), ("**mxhm".toList, .HARMONY), ("**fing".toList, .FINGERING)]

def handle (op : String) (j : Json) : Except String Json := do
  match op with
  | "c18.import" =>
    let header ← getStr j "header"
    let cell ← getStr j "cell"
    let kj ← j.getObjVal? "kern"
    let kern : Option Tok ← match kj with
      | .null => pure none
      | _ => do pure (some (← tokOfJson kj))
    let m := importToken header cell kern
    let inDomain := (lookup header ownTable).isSome || (lookup header Gen.dispatch).isNone
    let own := (lookup header ownTable).getD .OTHER
    let spec : Json :=
      if !inDomain then Json.null
      else if cell.isEmpty then Json.mkObj [("err", "ValueError")]
      else match kern with
        | some t => if underShared t.cat then Json.mkObj [("ok", jtok t)] else Json.mkObj [("ok", jtok (Tok.mkSimple cell own))]
        | none => Json.mkObj [("ok", jtok (Tok.mkSimple cell own))]
    pure (Json.mkObj [("model", jexcept jtok m), ("spec", spec)])
  | _ => throw s!"unknown op {op}"
end KD.C18
