import KernDriver.Tokens
import KernDriver.Abstract
import KernModel.Spec.Tracker
import KernModel.Spec.TextExport
import KernModel.Spec.NormalForm
import KernModel.Spec.Excerpt
namespace KD.DocOps
open Lean KM KD KD.TokOps

def jcoord (c : Coord) : Json := Json.arr #[Json.num (JsonNumber.fromNat c.1), Json.num (JsonNumber.fromNat c.2)]
def jocoord : Option Coord → Json
  | some c => jcoord c
  | none => Json.null

def jnode (n : Node) : Json :=
  Json.mkObj [("tok", match n.tok with | some t => jtok t | none => Json.null),
    ("parent", jocoord n.parent), ("hdr", jocoord n.hdr),
    ("sigs", Json.arr (n.sigs.map (fun (k, c) => Json.arr #[Json.str (strOf k.name), jcoord c])).toArray),
    ("lastop", jocoord n.lastOp)]

def jdoc (d : Doc) : Json :=
  Json.mkObj [("stages", Json.arr (d.stages.map (fun st => Json.arr (st.map jnode).toArray)).toArray),
    ("starts", jnats d.starts),
    ("header_stage", match d.headerStage with | some s => Json.num (JsonNumber.fromNat s) | none => Json.null),
    ("cancelled", Json.arr (d.cancelled.map (fun (c, s) => Json.arr #[jcoord c, Json.num (JsonNumber.fromNat s)])).toArray),
    ("errors", Json.arr (d.errors.map (fun (l, t) => Json.arr #[Json.num (JsonNumber.fromNat l), jstr t])).toArray)]

def oracleMiss : Tok := .simple .ErrorToken "<<ORACLE-MISS>>".toList .ERROR false

/-- the per-cell parser from the table the harness sends: key = header ++ U+001F ++ cell -/
def parserOf (table : List (String × Option Tok)) : CellParser := fun h c =>
  let key := strOf h ++ "\u001f" ++ strOf c
  match table.find? (fun e => e.1 == key) with
  | some (_, r) => r
  | none => some oracleMiss

def oracleOfJson (j : Json) : Except String (List (String × Option Tok)) := do
  let a ← j.getArr?
  a.toList.mapM (fun e => do
    let k ← (← e.getArrVal? 0).getStr?
    let v ← e.getArrVal? 1
    match v with
    | .null => pure (k, none)
    | _ => do pure (k, some (← tokOfJson v)))

def optsOfJson (j : Json) : Except String Opts := do
  let types : List Str := match j.getObjVal? "types" with
    | .ok (.arr a) => a.toList.filterMap (fun x => match x with | .str s => some s.toList | _ => none)
    | _ => Gen.headers
  let ids : Option (List Nat) := match j.getObjVal? "ids" with
    | .ok (.arr a) => some (a.toList.filterMap (fun x => x.getNat?.toOption))
    | _ => none
  let cats ← KD.AbsOps.catsOfJson j "cats"
  let fromM : Option Int := match j.getObjVal? "from" with | .ok (.num n) => some n.mantissa | _ => none
  let toM : Option Int := match j.getObjVal? "to" with | .ok (.num n) => some n.mantissa | _ => none
  let enc ← KD.AbsOps.encodingOfName (← (← j.getObjVal? "enc").getStr?)
  pure { spineTypes := types, cats := cats, fromM := fromM, toM := toM, enc := enc, spineIds := ids }

def handle (op : String) (j : Json) : Except String Json := do
  match op with
  | "doc.run" =>
    let text ← getStr j "text"
    let table ← oracleOfJson (← j.getObjVal? "oracle")
    let P := parserOf table
    let exports ← (← getArr j "exports").toList.mapM optsOfJson
    let wantTree := (getBool j "tree").toOption.getD true
    match Importer.importString P text with
    | .error e => pure (Json.mkObj [("import", Json.mkObj [("err", Json.str (errName e))])])
    | .ok d =>
      let ex := exports.map (fun o => jexcept jstr (Export.exportString d o))
      -- the specification of dumps(loads(text), options) as a function of the text (KernModel.Spec.TextExport; theorem C10_export_of_text):
      -- for the option sets without a measure range
      let rows := readRows text
      let sk := (KM.Spec.Track.run rows).skel
      let tk := (KM.C02K.TT.run P rows).toks
      let sp := exports.map (fun o => if o.fromM.isNone && o.toM.isNone then jexcept jstr (KM.C10T.specExportA o sk tk) else Json.null)
      -- C08: the specification of a later excerpt on the core where no spine path above it is split or joined (KernModel.Spec.Excerpt;
      -- theorem C08_excerpt_spec); null outside that core
      let sp08 := exports.map (fun o => match KM.C08R.specExcerpt d o with | some r => Json.mkObj [("ok", jstr r)] | none => Json.null)
      pure (Json.mkObj [("import", Json.mkObj [("ok", if wantTree then jdoc d else Json.mkObj [("starts", jnats d.starts),
          ("errors", Json.arr (d.errors.map (fun (l, t) => Json.arr #[Json.num (JsonNumber.fromNat l), jstr t])).toArray),
          ("n_stages", Json.num (JsonNumber.fromNat d.stages.length))])]),
        ("exports", Json.arr ex.toArray), ("spec", Json.arr sp.toArray), ("spec08", Json.arr sp08.toArray), ("wf", Json.bool (KM.Spec.Track.wf rows))])
  | "doc.transpose" =>
    let text ← getStr j "text"
    let table ← oracleOfJson (← j.getObjVal? "oracle")
    let iv ← getStr j "iv"
    let dir ← getStr j "dir"
    match Importer.importString (parserOf table) text with
    | .error e => pure (Json.mkObj [("err", Json.str (errName e))])
    | .ok d =>
      match Transpose.toTransposed d iv dir with
      | .error e => pure (Json.mkObj [("err", Json.str (errName e))])
      | .ok (r, src) =>
        pure (Json.mkObj [("ok", Json.mkObj [("result", jexcept jstr (Export.exportString r Export.defaultOpts)),
          ("source_after", jexcept jstr (Export.exportString src Export.defaultOpts))])])
  | "doc.listing" =>
    let text ← getStr j "text"
    let table ← oracleOfJson (← j.getObjVal? "oracle")
    let filters ← (← getArr j "filters").toList.mapM (fun f => match f with
      | .null => pure (none : Option (List Cat))
      | _ => do
        let a ← f.getArr?
        let cs ← a.toList.mapM catOfJson
        pure (some (cs.filterMap id)))
    match Importer.importString (parserOf table) text with
    | .error e => pure (Json.mkObj [("err", Json.str (errName e))])
    | .ok d =>
      let jl (l : List Tok) : Json := Json.arr (l.map (fun t => Json.arr #[jstr t.enc, Json.num (JsonNumber.fromNat t.cat.idx)])).toArray
      pure (Json.mkObj [("ok", Json.mkObj [
        ("listings", Json.arr (filters.map (fun f => jl (ReadOnly.listing d f))).toArray),
        ("uniques", Json.arr (filters.map (fun f => jl (ReadOnly.uniqueToks (ReadOnly.listing d f) []))).toArray),
        ("metacomments", Json.arr ((ReadOnly.metacomments d none).map jstr).toArray),
        ("measures", jexcept (fun n => Json.num (JsonNumber.fromNat n)) (ReadOnly.measuresCount d)),
        ("spine_types", jexcept (fun l => Json.arr (l.map jstr).toArray) (Export.getSpineTypes d none))])])
  | "doc.concat" =>
    let frags ← (← getArr j "frags").toList.mapM (fun x => do pure (← x.getStr?).toList)
    let sep ← getStr j "sep"
    let table ← oracleOfJson (← j.getObjVal? "oracle")
    match Concat.concat (parserOf table) frags sep with
    | .error e => pure (Json.mkObj [("err", Json.str (errName e))])
    | .ok (d, pairs) =>
      pure (Json.mkObj [("ok", Json.mkObj [
        ("pairs", Json.arr (pairs.map (fun (a, b) => Json.arr #[Json.num (JsonNumber.fromNat a), Json.num (JsonNumber.fromNat b)])).toArray),
        ("starts", jnats d.starts),
        ("export", jexcept jstr (Export.exportString d Export.defaultOpts))])])
  | "doc.track" =>
    -- the independent spine-path tracker (C02's specification) on the rows of a text
    let text ← getStr j "text"
    let rows := readRows text
    let t := KM.Spec.Track.run rows
    pure (Json.mkObj [("wf", Json.bool (KM.Spec.Track.wf rows)),
      ("skel", Json.arr (t.skel.map (fun st => Json.arr (st.map (fun s => Json.arr #[jocoord s.1, jocoord s.2])).toArray)).toArray)])
  | "doc.norm" =>
    -- the cell-wise normal form of a text (C01's text-level specification), with the per-cell parser from the harness's table
    let text ← getStr j "text"
    let table ← oracleOfJson (← j.getObjVal? "oracle")
    let rows := readRows text
    let n := KM.C01N.normalForm (parserOf table) rows
    pure (Json.mkObj [("rows", Json.arr (n.map (fun r => Json.arr (r.map jstr).toArray)).toArray)])
  | "doc.rows" =>
    let text ← getStr j "text"
    pure (Json.arr ((readRows text).map (fun r => Json.arr (r.map jstr).toArray)).toArray)
  | _ => throw s!"unknown op {op}"
end KD.DocOps
