import KernDriver.Tokens
namespace KD.AbsOps
open Lean KM KD KD.TokOps Abs

def getStrs (j : Json) (k : String) : Except String (List Str) := do
  let a ← getArr j k
  a.toList.mapM (fun x => do pure (← x.getStr?).toList)

def durOfJson (j : Json) : Except String (Option ADur) :=
  match j with
  | .null => pure none
  | _ => do
    let num ← getStr j "num"
    let rat ← match j.getObjVal? "rat" with
      | .ok (.str s) => pure (some s.toList)
      | _ => pure none
    let dots ← getNat j "dots"
    let grace ← getStr j "grace"
    pure (some ⟨num, rat, dots, grace⟩)

def elemOfJson (j : Json) : Except String AElem := do
  let k ← (← j.getObjVal? "k").getStr?
  match k with
  | "note" =>
    pure (.note { pre := ← getStrs j "pre", dur := ← durOfJson (← j.getObjVal? "dur"), mid := ← getStrs j "mid",
                  pitch := ← getStr j "pitch", post1 := ← getStrs j "post1", acc := ← getStr j "acc",
                  disp := ← getStr j "disp", post2 := ← getStrs j "post2" })
  | "rest" =>
    pure (.rest { pre := ← getStrs j "pre", dur := ← durOfJson (← j.getObjVal? "dur"), rr := ← getStr j "rr", post := ← getStrs j "post" })
  | _ => throw s!"bad element kind {k}"

def kindOfName (s : String) : OtherKind :=
  match s with
  | "clef" => .clef | "timeSig" => .timeSig | "meter" => .meter | "keySig" => .keySig | "contextual" => .contextual
  | "staff" => .staff | "empty" => .empty | "visual" => .visual | "nonvisual" => .nonvisual | "bbox" => .bbox
  | "lyrics" => .lyrics | "dynamics" => .dynamics | "harmony" => .harmony | "fingering" => .fingering
  | "fieldComment" => .fieldComment | _ => .otherText

def cellOfJson (j : Json) : Except String ACell := do
  let k ← (← j.getObjVal? "k").getStr?
  match k with
  | "note" | "rest" => pure (.elem (← elemOfJson j))
  | "chord" => pure (.chord (← (← getArr j "es").toList.mapM elemOfJson))
  | "bar" =>
    pure (.bar { double := ← getBool j "double", number := ← getStr j "number", hidden := ← getBool j "hidden",
                 type := ← getStr j "type", fermata := ← getBool j "fermata", tail := ← getStr j "tail" })
  | "other" => pure (.other (kindOfName (← (← j.getObjVal? "kind").getStr?)) (← getStr j "text"))
  | _ => throw s!"bad cell kind {k}"

def encodingOfName (s : String) : Except String Encoding :=
  match s with
  | "kern" => pure .kern | "ekern" => pure .ekern | "bkern" => pure .bkern | "bekern" => pure .bekern
  | "akern" => pure .akern | "aekern" => pure .aekern | _ => throw s!"bad encoding {s}"

def catsOfJson (j : Json) (k : String) : Except String (List Cat) := do
  let a ← getArr j k
  let cs ← a.toList.mapM catOfJson
  pure (cs.filterMap id)

def handle (op : String) (j : Json) : Except String Json := do
  match op with
  | "abs.tokof" =>
    let c ← cellOfJson (← j.getObjVal? "cell")
    pure (Json.mkObj [("text", jstr (render c)), ("tok", jtok (tokOf c))])
  | "abs.expect" =>
    -- expected kern / akern text of an abstract cell, from its abstract description alone
    let c ← cellOfJson (← j.getObjVal? "cell")
    let clef : Option Str := match j.getObjVal? "clef" with
      | .ok (.str s) => some s.toList
      | _ => none
    let ak : Json := match clef with
      | none => Json.null
      | some txt => match Gkern.createClef txt with
        | .error _ => Json.null
        | .ok cl => jexcept jstr (Spec.cellOutAkern cl c)
    pure (Json.mkObj [("text", jstr (render c)), ("kern", jexcept jstr (Spec.cellOutKern c)), ("akern", ak)])
  | "abs.view" =>
    -- the cell under (encoding, categories, clef) from its abstract description
    let c ← cellOfJson (← j.getObjVal? "cell")
    let e ← encodingOfName (← (← j.getObjVal? "enc").getStr?)
    let cats ← catsOfJson j "cats"
    let clef : Option Clef := match j.getObjVal? "clef" with
      | .ok (.str s) => (Gkern.createClef s.toList).toOption
      | _ => none
    pure (Json.mkObj [("view", jexcept jstr (Spec.cellView e cats clef c))])
  | "tok.tokenize" =>
    let e ← encodingOfName (← (← j.getObjVal? "enc").getStr?)
    let cats ← catsOfJson j "cats"
    let clef : Option Str := match j.getObjVal? "clef" with
      | .ok (.str s) => some s.toList
      | _ => none
    let t ← tokOfJson (← j.getObjVal? "tok")
    pure (Json.mkObj [("model", jexcept jstr (Tokz.tokenize e cats clef t))])
  | _ => throw s!"unknown op {op}"
end KD.AbsOps
