import KernDriver.Json
namespace KD.PitchOps
open Lean KM KD Pitch

def letterOfNat (n : Nat) : Letter := (Letter.all[n]?).getD .C

def jpitch (p : APitch) : Json := Json.mkObj [("name", jstr p.name), ("octave", Json.num (JsonNumber.fromInt p.octave))]

def handle (op : String) (j : Json) : Except String Json := do
  match op with
  | "pitch.import" =>
    let enc ← getStr j "enc"
    pure (Json.mkObj [("model", jexcept jpitch (importHumdrum enc))])
  | "pitch.export" =>
    let name ← getStr j "name"
    let o ← getInt j "octave"
    let r := exportHumdrum ⟨name, o⟩
    pure (Json.mkObj [("model", jstr r.1), ("after", jpitch r.2)])
  | "c16.case" =>
    let l := letterOfNat (← getNat j "l")
    let a ← getInt j "a"
    let o ← getInt j "o"
    let s := spell l a o
    let imp := importHumdrum s
    let exp := match imp with
      | .ok p => let r := exportHumdrum p; let r2 := exportHumdrum r.2
                 Json.mkObj [("first", jstr r.1), ("second", jstr r2.1), ("after", jpitch r2.2)]
      | .error _ => Json.null
    pure (Json.mkObj [("spell", jstr s), ("import", jexcept jpitch imp), ("export", exp),
      ("spec_import", if a.natAbs ≤ 3 then Json.mkObj [("ok", jpitch (pitchOf l a o))] else Json.mkObj [("err", "ValueError")])])
  | "c09.case" =>
    let l := letterOfNat (← getNat j "l")
    let a ← getInt j "a"
    let o ← getInt j "o"
    let iv ← getInt j "iv"
    let ivname ← getStr j "ivname"
    let dir ← getStr j "dir"
    let s := spell l a o
    let m := transpose s iv dir
    let sign : Int := if dir == Gen.dirUp then 1 else -1
    let spec := match Spec.intervalOfName ivname with
      | none => Json.null
      | some ivs =>
        let (l', a', o') := Spec.transposeSpec l a o ivs sign
        if a'.natAbs ≤ 2 then Json.mkObj [("ok", jstr (spell l' a' o'))] else Json.null
    pure (Json.mkObj [("spell", jstr s), ("model", jexcept jstr m), ("spec", spec)])
  | "c09.transpose" =>
    let enc ← getStr j "enc"
    let iv ← getInt j "iv"
    let dir ← getStr j "dir"
    pure (Json.mkObj [("model", jexcept jstr (transpose enc iv dir))])
  | "c09.intervals" =>
    pure (Json.arr (Gen.intervals.map (fun (v, n) => Json.mkObj [
      ("value", Json.num (JsonNumber.fromInt v)), ("name", jstr n),
      ("spec", match Spec.intervalOfName n with
        | some iv => jints [iv.steps, iv.semis]
        | none => Json.null)])).toArray)
  | _ => throw s!"unknown op {op}"

end KD.PitchOps
