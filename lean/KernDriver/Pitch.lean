import KernDriver.Json
namespace KD.PitchOps
open Lean KM KD Pitch

def letterOfNat (n : Nat) : Letter := (Letter.all[n]?).getD .C

def jpitch (p : APitch) : Json := Json.mkObj [("name", jstr p.name), ("octave", Json.num (JsonNumber.fromInt p.octave))]

def handle (op : String) (j : Json) : Except String Json := do
  match op with
  | "pitch.import" =>
    let enc ← getStr j "enc"
    pure (Json.mkObj [("model", jexcept jpitch (importHumdrum enc))])
  | "pitch.export" =>
    let name ← getStr j "name"
    let o ← getInt j "octave"
    let r := exportHumdrum ⟨name, o⟩
    pure (Json.mkObj [("model", jstr r.1), ("after", jpitch r.2)])
  | "c16.case" =>
    let l := letterOfNat (← getNat j "l")
    let a ← getInt j "a"
    let o ← getInt j "o"
    let s := spell l a o
    let imp := importHumdrum s
    let exp := match imp with
      | .ok p => let r := exportHumdrum p; let r2 := exportHumdrum r.2
                 Json.mkObj [("first", jstr r.1), ("second", jstr r2.1), ("after", jpitch r2.2)]
      | .error _ => Json.null
    pure (Json.mkObj [("spell", jstr s), ("import", jexcept jpitch imp), ("export", exp),
      ("spec_import", if a.natAbs ≤ 3 then Json.mkObj [("ok", jpitch (pitchOf l a o))] else Json.mkObj [("err", "ValueError")])])
  | "c09.case" =>
    let l := letterOfNat (← getNat j "l")
    let a ← getInt j "a"
    let o ← getInt j "o"
    let iv ← getInt j "iv"
    let ivname ← getStr j "ivname"
    let dir ← getStr j "dir"
    let s := spell l a o
    let m := transpose s iv dir
    let sign : Int := if dir == Gen.dirUp then 1 else -1
    let spec := match Spec.intervalOfName ivname with
      | none => Json.null
      | some ivs =>
        let (l', a', o') := Spec.transposeSpec l a o ivs sign
        if a'.natAbs ≤ 2 then Json.mkObj [("ok", jstr (spell l' a' o'))] else Json.null
    pure (Json.mkObj [("spell", jstr s), ("model", jexcept jstr m), ("spec", spec)])
  | "c09.transpose" =>
    let enc ← getStr j "enc"
    let iv ← getInt j "iv"
    let dir ← getStr j "dir"
    pure (Json.mkObj [("model", jexcept jstr (transpose enc iv dir))])
  | "c09.intervals" =>
    pure (Json.arr (Gen.intervals.map (fun (v, n) => Json.mkObj [
      ("value", Json.num (JsonNumber.fromInt v)), ("name", jstr n),
      ("spec", match Spec.intervalOfName n with
        | some iv => jints [iv.steps, iv.semis]
        | none => Json.null)])).toArray)
  | _ => throw s!"unknown op {op}"

end KD.PitchOps

namespace KD.GkernOps
open Lean KM KD Pitch Gkern

def clefName : Clef → String
  | .G2 => "G2" | .F3 => "F3" | .F4 => "F4" | .C1 => "C1" | .C2 => "C2" | .C3 => "C3" | .C4 => "C4"

def decodeBottom (c : Clef) : Option (Letter × Int) :=
  match bottomLine c with
  | none => none
  | some p => (Letter.all.find? (fun l => p.name == [l.upper])).map (fun l => (l, p.octave))

def handle (op : String) (j : Json) : Except String Json := do
  match op with
  | "c10.case" =>
    let clefText ← getStr j "clef"
    let l := KD.PitchOps.letterOfNat (← getNat j "l")
    let a ← getInt j "a"
    let o ← getInt j "o"
    let cl := createClef clefText
    let model := match cl with
      | .error e => Except.error e
      | .ok c => pitchToGkern (pitchOf l a o) c
    let spec := match cl with
      | .error _ => Json.null
      | .ok c => match decodeBottom c with
        | none => Json.null
        | some (bl, bo) =>
          let d := 7 * o + l.idx - (7 * bo + bl.idx) + 30
          Json.mkObj [("ok", jstr (spell (Letter.ofIdx (d % 7)) a (d / 7)))]
    pure (Json.mkObj [("clef", jexcept (fun c => Json.str (clefName c)) cl), ("model", jexcept jstr model), ("spec", spec)])
  | "c10.gkern" =>
    -- arbitrary pitch object and clef text (tie only)
    let clefText ← getStr j "clef"
    let name ← getStr j "name"
    let o ← getInt j "octave"
    let model := match createClef clefText with
      | .error e => Except.error e
      | .ok c => match Pitch.mk name (some o) with
        | .error e => Except.error e
        | .ok p => pitchToGkern p c
    pure (Json.mkObj [("model", jexcept jstr model)])
  | _ => throw s!"unknown op {op}"
end KD.GkernOps
