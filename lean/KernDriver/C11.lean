import KernDriver.Json
namespace KD.C11
open Lean KM KD Hier

def argOfJson (j : Json) : Except String Arg :=
  match j with
  | .null => pure .none
  | _ => do
    let k ← (← j.getObjVal? "k").getStr?
    let v ← (← j.getObjVal? "v").getArr?
    let cs ← v.toList.mapM catOfJson
    match k, cs with
    | "single", [c] => pure (.single c)
    | "list", cs => pure (.list cs)
    | "tuple", cs => pure (.tuple cs)
    | "set", cs => pure (.set cs)
    | _, _ => throw s!"bad arg kind {k}"

def argCats? : Arg → Option (List Cat)
  | .none => none
  | a => some (a.elems.filterMap id)

def mask (l : List Cat) : Nat := (Cat.all.filter (fun c => l.contains c)).foldl (fun m c => m ||| (1 <<< c.idx)) 0

/-- the 704 sets of size ≤ 2 in a fixed order: ∅, singles by index, pairs i<j lexicographic -/
def smallSets : List (List Cat) :=
  [[]] ++ Cat.all.map (fun c => [c]) ++
    Cat.all.flatMap (fun a => (Cat.all.filter (fun b => a.idx < b.idx)).map (fun b => [a, b]))

def handle (op : String) (j : Json) : Except String Json := do
  match op with
  | "c11.tables" =>
    pure (Json.mkObj [
      ("all", catsJson (allNodes hierarchy)),
      ("children", Json.arr (Cat.all.map (fun c => catsJson (children hierarchy c))).toArray),
      ("nodes", Json.arr (Cat.all.map (fun c => catsJson (nodes hierarchy c))).toArray),
      ("leaves", Json.arr (Cat.all.map (fun c => catsJson (leaves hierarchy c))).toArray),
      ("is_child", Json.arr (Cat.all.map (fun p => Json.arr (Cat.all.map (fun c => Json.bool (isChild hierarchy p c))).toArray)).toArray),
      ("spec_children", Json.arr (Cat.all.map (fun c => catsJson (Spec.childrenOf c))).toArray),
      ("spec_nodes", Json.arr (Cat.all.map (fun c => catsJson (Spec.desc c))).toArray),
      ("spec_leaves", Json.arr (Cat.all.map (fun c => catsJson (Spec.leavesOf c))).toArray),
      ("spec_is_child", Json.arr (Cat.all.map (fun p => Json.arr (Cat.all.map (fun c => Json.bool (Spec.isDescOrSelf p c))).toArray)).toArray),
      ("names", Json.arr (Cat.all.map (fun c => jstr c.name)).toArray)])
  | "c11.valid" =>
    let inc ← argOfJson (← j.getObjVal? "inc")
    let exc ← argOfJson (← j.getObjVal? "exc")
    let wt := inc.elems.all Option.isSome && exc.elems.all Option.isSome
    pure (Json.mkObj [
      ("model", jexcept catsJson (valid hierarchy inc exc)),
      ("spec", if wt then Json.mkObj [("ok", catsJson (Spec.selected (argCats? inc) (argCats? exc)))]
               else Json.mkObj [("err", "ValueError")])])
  | "c11.match" =>
    let inc ← argOfJson (← j.getObjVal? "inc")
    let exc ← argOfJson (← j.getObjVal? "exc")
    let wt := inc.elems.all Option.isSome && exc.elems.all Option.isSome
    let res := Cat.all.map (fun c => («match» hierarchy c inc exc, Spec.matchSel c (argCats? inc) (argCats? exc)))
    pure (Json.mkObj [
      ("model", Json.arr (res.map (fun r => jexcept Json.bool r.1)).toArray),
      ("spec", if wt then Json.arr (res.map (fun r => Json.bool r.2)).toArray else Json.str "ValueError")])
  | "c11.gridrow" =>
    -- one row of the 704×704 grid: include = smallSets[i], every exclude; model and spec masks
    let i ← getNat j "i"
    let inc := smallSets[i]?.getD []
    let rowM := smallSets.map (fun exc => mask (validSets hierarchy inc exc))
    let rowS := smallSets.map (fun exc => mask (Spec.selected (some inc) (some exc)))
    pure (Json.mkObj [("model", jnats rowM), ("spec", jnats rowS)])
  | _ => throw s!"unknown op {op}"

end KD.C11
