import KernDriver.Json
namespace KD.TokOps
open Lean KM KD

def clsOfName (n : String) : TokClass :=
  match n with
  | "SimpleToken" => .SimpleToken | "ErrorToken" => .ErrorToken | "MetacommentToken" => .MetacommentToken
  | "InstrumentToken" => .InstrumentToken | "FieldCommentToken" => .FieldCommentToken | "HeaderToken" => .HeaderToken
  | "SpineOperationToken" => .SpineOperationToken | "BarToken" => .BarToken | "SignatureToken" => .SignatureToken
  | "ClefToken" => .ClefToken | "TimeSignatureToken" => .TimeSignatureToken | "MeterSymbolToken" => .MeterSymbolToken
  | "KeySignatureToken" => .KeySignatureToken | "KeyToken" => .KeyToken | "BoundingBoxToken" => .BoundingBoxToken
  | "MHXMToken" => .MHXMToken | "NoteRestToken" => .NoteRestToken | "ChordToken" => .ChordToken
  | _ => .SimpleToken

def subOfJson (j : Json) : Except String Sub := do
  let e ← getStr j "e"
  let c ← catOfJson (← j.getObjVal? "c")
  pure ⟨e, c.getD .OTHER⟩

def noteOfJson (j : Json) : Except String Note := do
  let e ← getStr j "enc"
  let pd ← (← getArr j "pd").toList.mapM subOfJson
  let dec ← (← getArr j "dec").toList.mapM subOfJson
  pure ⟨e, pd, dec⟩

/-- token observation sent by the harness -> model token -/
def tokOfJson (j : Json) : Except String Tok := do
  let cls ← (← j.getObjVal? "cls").getStr?
  let enc ← getStr j "enc"
  match cls with
  | "NoteRestToken" => pure (.noteRest (← noteOfJson j))
  | "ChordToken" =>
    let notes ← (← getArr j "notes").toList.mapM noteOfJson
    pure (.chord enc notes)
  | "HeaderToken" => pure (.header enc (← getNat j "spine"))
  | _ =>
    let c ← catOfJson (← j.getObjVal? "cat")
    let hidden := (getBool j "hidden").toOption.getD false
    pure (.simple (clsOfName cls) enc (c.getD .OTHER) hidden)

def jsub (s : Sub) : Json := Json.mkObj [("e", jstr s.enc), ("c", Json.num (JsonNumber.fromNat s.cat.idx))]
def jnote (n : Note) : Json := Json.mkObj [("enc", jstr n.enc), ("pd", Json.arr (n.pd.map jsub).toArray), ("dec", Json.arr (n.dec.map jsub).toArray)]

def jtok (t : Tok) : Json :=
  match t with
  | .noteRest n => Json.mkObj [("cls", "NoteRestToken"), ("cat", Json.num (JsonNumber.fromNat Cat.NOTE_REST.idx)), ("enc", jstr n.enc),
      ("pd", Json.arr (n.pd.map jsub).toArray), ("dec", Json.arr (n.dec.map jsub).toArray)]
  | .chord e ns => Json.mkObj [("cls", "ChordToken"), ("cat", Json.num (JsonNumber.fromNat Cat.CHORD.idx)), ("enc", jstr e), ("notes", Json.arr (ns.map jnote).toArray)]
  | .header e i => Json.mkObj [("cls", "HeaderToken"), ("cat", Json.num (JsonNumber.fromNat Cat.HEADER.idx)), ("enc", jstr e), ("spine", Json.num (JsonNumber.fromNat i))]
  | .simple c e k h => Json.mkObj [("cls", Json.str (strOf c.name)), ("cat", Json.num (JsonNumber.fromNat k.idx)), ("enc", jstr e), ("hidden", Json.bool h)]

end KD.TokOps
