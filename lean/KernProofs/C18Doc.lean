/-
  C18 (inside documents) — with the cell parser of the importer instantiated by the spine-importer dispatch (`SpineImp.importToken`, what
  `createImporter(header).import_token(cell)` does given the kern parser's outcome), every data cell of a non-kern spine of an imported
  document carries exactly what the single rule of C18 says for (its own header, its own text): `C02_tokens` + `C18_dispatch`.
-/
import KernProofs.C18
import KernProofs.C02Tok
namespace KM.C18D
open KM SpineImp
open KM.C02K KM.C18

/-- the cell parser of `Importer.run`, built from the kern parser's outcome `K header cell` -/
def parserOf (K : Str → Str → KernOutcome) : CellParser := fun h c => (importToken h c (K h c)).toOption

/-- **C18 inside a document.**  A data cell (not a `**` cell, not a spine operator, not a field comment, not empty) in a spine whose header
    is one of the lyrics / dynamics / harmony / fingering types or unknown gets the token of the single rule: the kern token itself when its
    category is shared structure, otherwise the verbatim text under the spine's own category — whatever was parsed before it in the document,
    since `cellTok` depends on nothing but the header text and the cell text. -/
theorem C18_cell_in_document (K : Str → Str → KernOutcome) (h c : Str) (i : Nat)
    (hnh : Importer.startsWith ['*', '*'] c = false) (hno : Importer.isSpineOp c = false) (hnc : Importer.startsWith ['!'] c = false)
    (hne : c ≠ []) (hh : h ∈ nonKernHeaders ∨ lookup h Gen.dispatch = none)
    (hk : ∀ t, K h c = some t → t.cat ∈ listenerCats) :
    cellTok (parserOf K) (some h) i c = rule (ownCat h) c (K h c) := by
  unfold cellTok parserOf
  simp only [hnh, hno, hnc, Bool.false_eq_true, if_false]
  rw [C18_dispatch h c (K h c) hne hh hk]
  rfl

/-- hence two cells with the same text under two such headers differ at most by the spine's own category, and not at all when the kern token
    is shared structure (barlines, clefs, null tokens, …): a line is a barline line in one spine iff it is in the other -/
theorem C18_same_text_two_spines (K : Str → Str → KernOutcome) (h₁ h₂ c : Str) (i j : Nat) (t : Tok)
    (hnh : Importer.startsWith ['*', '*'] c = false) (hno : Importer.isSpineOp c = false) (hnc : Importer.startsWith ['!'] c = false)
    (hne : c ≠ []) (hh₁ : h₁ ∈ nonKernHeaders ∨ lookup h₁ Gen.dispatch = none) (hh₂ : h₂ ∈ nonKernHeaders ∨ lookup h₂ Gen.dispatch = none)
    (hK₁ : K h₁ c = some t) (hK₂ : K h₂ c = some t) (hl : t.cat ∈ listenerCats) (hs : underShared t.cat = true) :
    cellTok (parserOf K) (some h₁) i c = t ∧ cellTok (parserOf K) (some h₂) j c = t := by
  rw [C18_cell_in_document K h₁ c i hnh hno hnc hne hh₁ (fun t' ht' => by rw [hK₁] at ht'; cases ht'; exact hl),
      C18_cell_in_document K h₂ c j hnh hno hnc hne hh₂ (fun t' ht' => by rw [hK₂] at ht'; cases ht'; exact hl), hK₁, hK₂]
  exact C18_shared_identical h₁ h₂ c t hs
end KM.C18D
