/-
  C02 — surplus cells, at document level: a line that has a cell (of any kind but a `**` cell) at a column beyond the live spine paths the
  tracker computes for the lines before it makes the import raise — nothing is silently mis-aligned.
-/
import KernProofs.C02
import KernProofs.C02Tree
import KernProofs.C19
import KernProofs.C02Tok
namespace KM.C02S
open KM Importer
open KM.Spec.Track
open KM.C02T

/-- a cell that is not a `**` cell, beyond the live paths: the cell loop fails there whatever it is (data token / null token: `ValueError`;
    operator or field comment: an exception) -/
theorem surplus_cell_fails (P : CellParser) (row : List Str) (stage : Nat) (acc : RowAcc) (i : Nat) (col : Str) (prev : List Coord)
    (hnh : startsWith ['*', '*'] col = false) (hp : acc.st.prev = some prev) (hi : i ≥ prev.length) :
    ∃ e, cellStep P row stage acc i col = .error e := by
  by_cases ho : isSpineOp col = true
  · exact ⟨_, C02.C02_surplus_operator P row stage acc i col prev hnh ho hp hi⟩
  · have ho' : isSpineOp col = false := by simpa using ho
    by_cases hc : startsWith ['!'] col = true
    · exact ⟨_, C02.C02_surplus_comment P row stage acc i col prev hnh ho' hc hp hi⟩
    · exact ⟨_, C02.C02_surplus_data P row stage acc i col prev hnh ho' (by simpa using hc) hp hi⟩

theorem surplus_row_fails (P : CellParser) (st : ImpState) (pre : List Str) (col : Str) (post : List Str) (prev : List Coord)
    (hrow : ∀ c0, (pre ++ col :: post).head? = some c0 → startsWith ['!', '!'] c0 = false)
    (hnh : startsWith ['*', '*'] col = false)
    (hp : (if st.next.isEmpty then st.prev else some st.next) = some prev) (hi : pre.length ≥ prev.length) :
    ∃ e, rowStep P st (pre ++ col :: post) = .error e := by
  have hne : pre ++ col :: post ≠ [] := by simp
  cases hrw : pre ++ col :: post with
  | nil => exact absurd hrw hne
  | cons c0 cs =>
    have hm : startsWith ['!', '!'] c0 = false := hrow c0 (by rw [hrw]; rfl)
    unfold rowStep
    simp only [hm, Bool.false_eq_true, if_false, bind, Except.bind]
    rw [← hrw]
    have key : ∀ acc : RowAcc, acc.st.prev = some prev → ∃ e, cellStep P (pre ++ col :: post) st.stages.length acc pre.length col = .error e :=
      fun acc ha => surplus_cell_fails P _ _ acc _ col prev hnh ha hi
    have loop : ∀ (k : Nat) (p : List Str) (acc : RowAcc), acc.st.prev = some prev → k + p.length = pre.length →
        ∃ e, cellsLoop P (pre ++ col :: post) st.stages.length acc k (p ++ col :: post) = .error e := by
      intro k p
      induction p generalizing k with
      | nil =>
        intro acc ha hk
        simp only [List.length_nil, Nat.add_zero] at hk
        obtain ⟨e, he⟩ := key acc ha
        exact ⟨e, by simp [cellsLoop, hk, he, bind, Except.bind]⟩
      | cons c cs ih =>
        intro acc ha hk
        simp only [List.cons_append, cellsLoop, bind, Except.bind]
        cases hc : cellStep P (pre ++ col :: post) st.stages.length acc k c with
        | error e => exact ⟨e, rfl⟩
        | ok a1 =>
          have hf := (cellStep_frame P _ _ acc a1 k c hc).1
          exact ih (k + 1) a1 (hf.trans ha) (by simp only [List.length_cons] at hk; omega)
    obtain ⟨e, he⟩ := loop 0 pre ⟨{ st with prev := if st.next.isEmpty then st.prev else some st.next, next := [] }, false⟩ hp (by simp)
    exact ⟨e, by rw [he]⟩

/-- **C02, a line with more cells than there are spine paths raises.**  `good` are the lines before it (no surplus cells, no `*x`), the
    tracker leaves `live` paths after them (at least one), and the next line — not a global comment — has a cell that is not a `**` cell at
    a column index ≥ the number of live paths: the import of the whole text fails, whatever follows and whatever the parser does. -/
theorem C02_surplus_text (P : CellParser) (good : List (List Str)) (pre : List Str) (col : Str) (post : List Str) (rest : List (List Str))
    (hwf : wf good = true) (hs : ∀ r ∈ good, rowStrict r = true)
    (hlive : (run good).live ≠ [])
    (hrow : ∀ c0, (pre ++ col :: post).head? = some c0 → startsWith ['!', '!'] c0 = false)
    (hnh : startsWith ['*', '*'] col = false) (hi : pre.length ≥ (run good).live.length) :
    ∃ e, importRows P (good ++ (pre ++ col :: post) :: rest) = .error e := by
  obtain ⟨st, hst⟩ := runRows_ok P good Importer.init Spec.Track.init inv_init hwf hs
  have hinv := runRows_track P good _ _ _ inv_init hwf hst
  have hprev := hinv.prev hlive
  have hprev' : (if st.next.isEmpty then st.prev else some st.next) = some ((run good).live.map (·.1)) := hprev
  obtain ⟨e, he⟩ := surplus_row_fails P st pre col post ((run good).live.map (·.1)) hrow hnh hprev' (by simpa using hi)
  refine ⟨e, ?_⟩
  unfold importRows
  rw [C19.runRows_append, hst]
  simp only [Except.bind]
  rw [C02.C02_row_error_propagates P st _ rest e he]
  rfl

/-! non-vacuity: two spines; the third line has a third cell -/
example : (importRows C02K.toyP [[['*', '*', 'a'], ['*', '*', 'b']], [['1'], ['2']], [['3'], ['4'], ['5']]]).toOption = none := by decide +kernel
end KM.C02S
