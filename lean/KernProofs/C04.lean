/-
  C04 — The six encodings are consistent views of one document.   (token level; property theorems)

  * each plain encoding is its extended counterpart with the two separators removed;
  * the basic encodings are the full ones with the decorations removed *note by note* (no chord note is lost);
  * headers are `**` + prefix + type; non-note cells are identical in all six.
-/
import KernModel.Tokenize
import KernProofs.Lemmas.SplitJoin
namespace KM.C04
open KM Tokz

/-! ### plain = extended with the separators removed -/

theorem C04_kern_is_stripped_ekern (cats : List Cat) (clef : Option Str) (t : Tok) :
    tokenize .kern cats clef t = (tokenize .ekern cats clef t).map strip := rfl

theorem C04_akern_is_stripped_aekern (cats : List Cat) (clef : Option Str) (t : Tok) :
    tokenize .akern cats clef t = (tokenize .aekern cats clef t).map strip := rfl

theorem head_splitOnC_noSep (c : Char) (s : Str) : ∀ x ∈ (splitOnC c s).headD [], (x == c) = false := by
  induction s with
  | nil => simp [splitOnC]
  | cons y ys ih =>
    by_cases hy : (y == c) = true
    · unfold splitOnC; simp [hy]
    · have hy' : (y == c) = false := by simpa using hy
      cases hs : splitOnC c ys with
      | nil => exact absurd hs (splitOnC_ne_nil c ys)
      | cons f fs =>
        rw [splitOnC_cons_ne c y ys f fs hy' hs]
        rw [hs] at ih
        intro x hx
        simp only [List.headD_cons, List.mem_cons] at hx ih
        rcases hx with rfl | hx
        · exact hy'
        · exact ih x hx

theorem bekernNote_noDecSep (s : Str) : ∀ x ∈ bekernNote s, (x == decSep) = false := by
  intro x hx
  unfold bekernNote dropTrailing at hx
  have h := head_splitOnC_noSep decSep s
  by_cases hl : (((splitOnC decSep s).headD []).getLast? == some tokSep) = true
  · rw [if_pos hl] at hx; exact h x (List.dropLast_subset _ hx)
  · rw [if_neg hl] at hx; exact h x hx

theorem bekernOf_noDecSep (s : Str) : ∀ x ∈ bekernOf s, (x == decSep) = false := by
  intro x hx
  unfold bekernOf at hx
  by_cases hc : s.contains decSep = true
  · simp only [hc, Bool.not_true, Bool.false_eq_true, if_false] at hx
    rcases mem_joinSep _ _ _ hx with h | ⟨f, hf, hxf⟩
    · simp only [List.mem_singleton] at h; subst h; decide
    · obtain ⟨g, _, rfl⟩ := List.mem_map.mp hf
      exact bekernNote_noDecSep g x hxf
  · have hc' : s.contains decSep = false := by simpa using hc
    simp only [hc', Bool.not_false, if_true] at hx
    cases hxd : (x == decSep)
    · rfl
    · have : x = decSep := by simpa using hxd
      subst this
      have : s.contains decSep = true := by simpa using hx
      rw [this] at hc'; cases hc'

/-- bkern is bekern with *both* separators removed (bekern never contains `·`) -/
theorem C04_bkern_is_stripped_bekern (cats : List Cat) (clef : Option Str) (t : Tok) :
    tokenize .bkern cats clef t = (tokenize .bekern cats clef t).map strip := by
  unfold tokenize
  simp only
  cases exportTok (fun c => cats.contains c) none t with
  | error e => rfl
  | ok s =>
    simp only [Except.map, strip]
    rw [removeC_noSep decSep _ (by
      intro x hx
      have : x ∈ bekernOf s := by unfold removeC at hx; exact (List.mem_filter.mp hx).1
      exact bekernOf_noDecSep s x this)]

/-! ### basic = full with the decorations removed note by note -/

/-- a sub-token the grammar can produce: non-empty, free of the two separators and of the chord space -/
def SubOk (s : Sub) : Prop := s.enc ≠ [] ∧ ∀ x ∈ s.enc, (x == tokSep) = false ∧ (x == decSep) = false ∧ (x == ' ') = false

def NoteOk (n : Note) : Prop := (∀ s ∈ n.pd, SubOk s) ∧ (∀ s ∈ n.dec, SubOk s)

def dropDec (n : Note) : Note := { n with dec := [] }

/-- the pitch/duration part -/
def pdText (filter : Cat → Bool) (n : Note) : Str :=
  joinSep [tokSep] (((n.pd.filter (fun s => filter s.cat)).mergeSort pdLe).map (·.enc))

def decText (filter : Cat → Bool) (n : Note) : Str :=
  joinSep [decSep] (((n.dec.filter (fun s => filter s.cat)).mergeSort decLe).map (·.enc))

/-- the text `NoteRestToken.export` returns without a pitch converter -/
def noteText (filter : Cat → Bool) (n : Note) : Str := orEmpty (withDec (pdText filter n) (decText filter n))

theorem exportNote_none (filter : Cat → Bool) (n : Note) : exportNote filter none n = .ok (noteText filter n) := rfl

theorem orEmpty_of_ne (s : Str) (h : s ≠ []) : orEmpty s = s := by
  unfold orEmpty
  have : s.isEmpty = false := by simpa using h
  simp [this]

theorem withDec_cases (p d : Str) : withDec p d = p ∨ withDec p d = p ++ decSep :: d := by
  unfold withDec
  by_cases h : d.isEmpty = true
  · left; simp [h]
  · right; simp [h]

theorem withDec_ne (p d : Str) (hp : p ≠ []) : withDec p d ≠ [] := by
  rcases withDec_cases p d with h | h <;> rw [h]
  · exact hp
  · simp

theorem dropTrailing_of_ne (c : Char) (s : Str) (h : s.getLast? ≠ some c) : dropTrailing c s = s := by
  unfold dropTrailing
  have : ¬ ((s.getLast? == some c) = true) := by simpa using h
  rw [if_neg this]

theorem joinSep_ne_nil (sep : Str) (xs : List Str) (hne : xs ≠ []) (h : ∀ f ∈ xs, f ≠ []) : joinSep sep xs ≠ [] := by
  cases xs with
  | nil => exact absurd rfl hne
  | cons f fs =>
    cases fs with
    | nil => simp only [joinSep]; exact h f List.mem_cons_self
    | cons g gs =>
      simp only [joinSep]
      have := h f List.mem_cons_self
      intro hc
      simp only [List.append_eq_nil_iff] at hc
      exact this hc.1.1

theorem getLast?_joinSep (sep : Str) (xs : List Str) (hne : xs ≠ []) (h : ∀ f ∈ xs, f ≠ []) :
    ∃ f ∈ xs, (joinSep sep xs).getLast? = f.getLast? := by
  induction xs with
  | nil => exact absurd rfl hne
  | cons f fs ih =>
    cases fs with
    | nil => exact ⟨f, List.mem_cons_self, rfl⟩
    | cons g gs =>
      obtain ⟨f', hf', hl⟩ := ih (by simp) (fun x hx => h x (List.mem_cons_of_mem _ hx))
      refine ⟨f', List.mem_cons_of_mem _ hf', ?_⟩
      simp only [joinSep]
      have hne' : joinSep sep (g :: gs) ≠ [] := joinSep_ne_nil sep _ (by simp) (fun x hx => h x (List.mem_cons_of_mem _ hx))
      rw [List.getLast?_append, hl]
      cases hg : (joinSep sep (g :: gs)).getLast? with
      | none => exact absurd (List.getLast?_eq_none_iff.mp hg) hne'
      | some v => rw [← hl, hg]; rfl

theorem mem_sorted_filter {le : Sub → Sub → Bool} (l : List Sub) (p : Sub → Bool) (s : Sub)
    (hs : s ∈ (l.filter p).mergeSort le) : s ∈ l := by
  have := (List.mergeSort_perm (l.filter p) le).mem_iff.mp hs
  exact (List.mem_filter.mp this).1

/-- facts about the pitch/duration part of a well-formed note some of whose pd sub-tokens are kept -/
theorem pdText_facts (filter : Cat → Bool) (n : Note) (hn : NoteOk n)
    (hpd : n.pd.filter (fun s => filter s.cat) ≠ []) :
    pdText filter n ≠ [] ∧ (∀ x ∈ pdText filter n, (x == decSep) = false ∧ (x == ' ') = false) ∧
    (pdText filter n).getLast? ≠ some tokSep := by
  unfold pdText
  have hne : ((n.pd.filter (fun s => filter s.cat)).mergeSort pdLe).map (·.enc) ≠ [] := by
    intro h
    have h1 : (n.pd.filter (fun s => filter s.cat)).mergeSort pdLe = [] := List.map_eq_nil_iff.mp h
    have := (List.mergeSort_perm (n.pd.filter (fun s => filter s.cat)) pdLe).length_eq
    rw [h1] at this
    exact hpd (List.length_eq_zero_iff.mp this.symm)
  have hall : ∀ f ∈ ((n.pd.filter (fun s => filter s.cat)).mergeSort pdLe).map (·.enc), f ≠ [] ∧
      ∀ x ∈ f, (x == tokSep) = false ∧ (x == decSep) = false ∧ (x == ' ') = false := by
    intro f hf
    obtain ⟨s, hs, rfl⟩ := List.mem_map.mp hf
    exact hn.1 s (mem_sorted_filter _ _ s hs)
  refine ⟨joinSep_ne_nil _ _ hne (fun f hf => (hall f hf).1), ?_, ?_⟩
  · intro x hx
    rcases mem_joinSep _ _ _ hx with h | ⟨f, hf, hxf⟩
    · simp only [List.mem_singleton] at h; subst h; exact ⟨by decide, by decide⟩
    · exact ⟨((hall f hf).2 x hxf).2.1, ((hall f hf).2 x hxf).2.2⟩
  · obtain ⟨f, hf, hl⟩ := getLast?_joinSep [tokSep] _ hne (fun f hf => (hall f hf).1)
    rw [hl]
    intro hc
    have hm : tokSep ∈ f := List.mem_of_getLast? hc
    have := ((hall f hf).2 tokSep hm).1
    simp at this

theorem noteText_dropDec (filter : Cat → Bool) (n : Note) (hn : NoteOk n)
    (hpd : n.pd.filter (fun s => filter s.cat) ≠ []) : noteText filter (dropDec n) = pdText filter n := by
  have h := (pdText_facts filter n hn hpd).1
  have hp : pdText filter (dropDec n) = pdText filter n := rfl
  have hd : decText filter (dropDec n) = [] := by simp [decText, dropDec, joinSep]
  unfold noteText
  rw [hp, hd]
  have : withDec (pdText filter n) [] = pdText filter n := by simp [withDec]
  rw [this, orEmpty_of_ne _ h]

/-- shape of an exported note: its pitch/duration part, optionally followed by `·` and the decorations -/
theorem noteText_shape (filter : Cat → Bool) (n : Note) (hn : NoteOk n)
    (hpd : n.pd.filter (fun s => filter s.cat) ≠ []) :
    noteText filter n = pdText filter n ∨ noteText filter n = pdText filter n ++ decSep :: decText filter n := by
  have hne := (pdText_facts filter n hn hpd).1
  unfold noteText
  rw [orEmpty_of_ne _ (withDec_ne _ _ hne)]
  exact withDec_cases _ _

/-- **one note**: everything from the first `·` on is the decoration part; cutting there leaves the note -/
theorem bekernNote_noteText (filter : Cat → Bool) (n : Note) (hn : NoteOk n)
    (hpd : n.pd.filter (fun s => filter s.cat) ≠ []) :
    bekernNote (noteText filter n) = noteText filter (dropDec n) := by
  rw [noteText_dropDec filter n hn hpd]
  obtain ⟨hne, hfree, hlast⟩ := pdText_facts filter n hn hpd
  have hsep : ∀ x ∈ pdText filter n, (x == decSep) = false := fun x hx => (hfree x hx).1
  unfold bekernNote
  rcases noteText_shape filter n hn hpd with h | h
  · rw [h, splitOnC_noSep decSep _ hsep]
    exact dropTrailing_of_ne _ _ hlast
  · rw [h, splitOnC_append_sep decSep _ _ hsep]
    exact dropTrailing_of_ne _ _ hlast

theorem mem_joinSep_of_mem (sep : Str) (xs : List Str) (g : Str) (hg : g ∈ xs) (x : Char) (hx : x ∈ g) :
    x ∈ joinSep sep xs := by
  induction xs with
  | nil => cases hg
  | cons a l ih =>
    cases l with
    | nil => simp only [List.mem_singleton] at hg; subst hg; simpa [joinSep] using hx
    | cons b l' =>
      simp only [joinSep, List.mem_append]
      rcases List.mem_cons.mp hg with rfl | hg'
      · exact Or.inl (Or.inl hx)
      · exact Or.inr (ih hg')

/-- no chord space inside one exported note -/
theorem noteText_noSpace (filter : Cat → Bool) (n : Note) (hn : NoteOk n)
    (hpd : n.pd.filter (fun s => filter s.cat) ≠ []) :
    ∀ x ∈ noteText filter n, (x == ' ') = false := by
  have hp : ∀ x ∈ pdText filter n, (x == ' ') = false := fun x hx => ((pdText_facts filter n hn hpd).2.1 x hx).2
  have hdec : ∀ x ∈ decText filter n, (x == ' ') = false := by
    intro x hx
    unfold decText at hx
    rcases mem_joinSep _ _ _ hx with h | ⟨f, hf, hxf⟩
    · simp only [List.mem_singleton] at h; subst h; decide
    · obtain ⟨s, hs, rfl⟩ := List.mem_map.mp hf
      exact ((hn.2 s (mem_sorted_filter _ _ s hs)).2 x hxf).2.2
  intro x hx
  rcases noteText_shape filter n hn hpd with h | h
  · rw [h] at hx; exact hp x hx
  · rw [h] at hx
    simp only [List.mem_append, List.mem_cons] at hx
    rcases hx with hx | rfl | hx
    · exact hp x hx
    · decide
    · exact hdec x hx

theorem mapM_exportNote (f : Cat → Bool) (l : List Note) :
    l.mapM (exportNote f none) = .ok (l.map (noteText f)) := by
  induction l with
  | nil => rfl
  | cons a l ih =>
    rw [List.mapM_cons]
    simp only [exportNote_none, ih, bind, Except.bind, pure, Except.pure, List.map_cons]

/-- the chord text, note by note -/
theorem bekernOf_chordText (f : Cat → Bool) (ns : List Note) (hne : ns ≠ [])
    (hn : ∀ n ∈ ns, NoteOk n) (hpd : ∀ n ∈ ns, n.pd.filter (fun s => f s.cat) ≠ []) :
    bekernOf (joinSep [' '] (ns.map (noteText f))) = joinSep [' '] (ns.map (noteText f ∘ dropDec)) := by
  have hfields : ∀ g ∈ ns.map (noteText f), ∀ x ∈ g, (x == ' ') = false := by
    intro g hg
    obtain ⟨n, hnm, rfl⟩ := List.mem_map.mp hg
    exact noteText_noSpace f n (hn n hnm) (hpd n hnm)
  have hmap : (ns.map (noteText f)).map bekernNote = ns.map (noteText f ∘ dropDec) := by
    rw [List.map_map]
    apply List.map_congr_left
    intro n hnm
    exact bekernNote_noteText f n (hn n hnm) (hpd n hnm)
  unfold bekernOf
  by_cases hc : (joinSep [' '] (ns.map (noteText f))).contains decSep = true
  · simp only [hc, Bool.not_true, Bool.false_eq_true, if_false]
    rw [splitOnC_joinSep ' ' _ (by simpa using hne) hfields, hmap]
  · have hc' : (joinSep [' '] (ns.map (noteText f))).contains decSep = false := by simpa using hc
    simp only [hc', Bool.not_false, if_true]
    -- no `·` anywhere: every note is already its own pitch/duration part
    have hsame : ∀ n ∈ ns, noteText f n = (noteText f ∘ dropDec) n := by
      intro n hnm
      simp only [Function.comp]
      rw [noteText_dropDec f n (hn n hnm) (hpd n hnm)]
      rcases noteText_shape f n (hn n hnm) (hpd n hnm) with h | h
      · exact h
      · exfalso
        have hm : decSep ∈ noteText f n := by rw [h]; simp
        have := mem_joinSep_of_mem [' '] (ns.map (noteText f)) _ (List.mem_map.mpr ⟨n, hnm, rfl⟩) decSep hm
        have : (joinSep [' '] (ns.map (noteText f))).contains decSep = true := by simpa using this
        rw [this] at hc'; cases hc'
    rw [List.map_congr_left hsame]

/-- **C04, basic encodings.** For every note, rest or chord whose sub-tokens are grammar sub-tokens and every
    category selection that keeps some pitch/duration sub-token of each note: the bekern text is the ekern text of
    the same token with every note's decorations removed, note by note — a chord keeps all its notes. -/
theorem C04_bekern_notewise (cats : List Cat) (clef : Option Str) (enc : Str) (ns : List Note) (hne : ns ≠ [])
    (hn : ∀ n ∈ ns, NoteOk n) (hpd : ∀ n ∈ ns, n.pd.filter (fun s => cats.contains s.cat) ≠ []) :
    tokenize .bekern cats clef (.chord enc ns) = tokenize .ekern cats clef (.chord enc (ns.map dropDec)) := by
  unfold tokenize
  simp only [exportTok, exportChord, mapM_exportNote, bind, Except.bind, pure, Except.pure, Except.map, List.map_map]
  congr 1
  exact bekernOf_chordText (fun c => cats.contains c) ns hne hn hpd

/-- a single note or rest is the one-note case -/
theorem C04_bekern_single (cats : List Cat) (clef : Option Str) (n : Note) (hn : NoteOk n)
    (hpd : n.pd.filter (fun s => cats.contains s.cat) ≠ []) :
    tokenize .bekern cats clef (.noteRest n) = tokenize .ekern cats clef (.noteRest (dropDec n)) := by
  have := bekernOf_chordText (fun c => cats.contains c) [n] (by simp) (by simpa using hn) (by simpa using hpd)
  simp only [List.map_cons, List.map_nil, joinSep, Function.comp] at this
  unfold tokenize
  simp only [exportTok, exportNote_none, Except.map, this]

/-! ### headers and non-note cells -/

theorem prefix_table :
    Encoding.all.map Encoding.pfx = [[], ['e'], ['b'], ['b','e'], ['a'], ['a','e']] := by decide +kernel

/-- every spine header is `**` + encoding prefix + original type -/
theorem C04_header (e : Encoding) (type : Str) (id : Nat) :
    (headerFor e (['*', '*'] ++ type) id).enc = ['*', '*'] ++ e.pfx ++ type := by
  simp [headerFor, Tok.enc]

/-- the clef text in force is one the clef factory accepts (or there is none) -/
def ClefOk (lastClef : Option Str) : Prop :=
  lastClef = none ∨ ∃ txt c, lastClef = some txt ∧ Gkern.createClef txt = .ok c

/-- all non-note cells are identical in the six encodings (for cells free of the separator characters) -/
theorem C04_nonnote_identical (e : Encoding) (cats : List Cat) (clef : Option Str) (t : Tok)
    (ht : t.isComplex = false ∧ t.cls ≠ .ChordToken) (hc : ClefOk clef)
    (hfree : ∀ x ∈ t.enc, (x == tokSep) = false ∧ (x == decSep) = false) :
    tokenize e cats clef t = .ok t.enc := by
  have hs : strip t.enc = t.enc := by
    unfold strip
    rw [removeC_noSep tokSep _ (fun x hx => (hfree x hx).1), removeC_noSep decSep _ (fun x hx => (hfree x hx).2)]
  have hb : bekernOf t.enc = t.enc := by
    unfold bekernOf
    have : t.enc.contains decSep = false := by
      cases h : t.enc.contains decSep
      · rfl
      · have : decSep ∈ t.enc := by simpa using h
        have := (hfree decSep this).2
        simp at this
    simp only [this, Bool.not_false, if_true]
  have hx : ∀ cv, exportTok (fun c => cats.contains c) cv t = .ok t.enc := by
    intro cv
    cases t with
    | simple _ _ _ _ => rfl
    | header _ _ => rfl
    | noteRest n => simp [Tok.isComplex] at ht
    | chord _ _ => simp [Tok.cls] at ht
  have ha : aekern cats clef t = .ok t.enc := by
    unfold aekern
    rcases hc with h | ⟨txt, c, h, hcl⟩
    · subst h; simp only [hx, bind, Except.bind, pure, Except.pure]
    · subst h; simp only [hcl, hx, bind, Except.bind, pure, Except.pure]
  cases e <;> simp only [tokenize, hx, ha, Except.map, hs, hb]
  rw [removeC_noSep tokSep _ (fun x hx => (hfree x hx).1)]

/-! non-vacuity -/
example : NoteOk ⟨['4','c','L'], [⟨['4'], .DURATION⟩, ⟨['c'], .PITCH⟩], [⟨['L'], .DECORATION⟩]⟩ := by
  refine ⟨?_, ?_⟩ <;> intro s hs <;> simp at hs <;> (try rcases hs with rfl | rfl) <;> (try subst hs) <;>
    exact ⟨by simp, by decide⟩
example : ([⟨['4'], .DURATION⟩, ⟨['c'], .PITCH⟩] : List Sub).filter (fun s => Cat.all.contains s.cat) ≠ [] := by decide
example : ClefOk (some ['*','c','l','e','f','G','2']) := Or.inr ⟨_, .G2, rfl, by decide +kernel⟩

end KM.C04
