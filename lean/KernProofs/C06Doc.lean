/-
  C06 (document level) — the spine-type query as a function of the text: the header line of the export restricted to the selected types.
-/
import KernProofs.C10Text
namespace KM.C06D
open KM Importer Export
open KM.Spec.Track
open KM.C02K KM.C10T

/-- what `get_spine_types` makes of an exported text: the cells of its first line -/
def firstLineCells (r : Except Err Str) : Except Err (List Str) :=
  r.map (fun content =>
    let first := (splitOnC '\n' content).headD []
    let toks := splitOnC '\t' first
    if toks == [[]] then [] else toks)

/-- **C06, the spine-type query**: for every text without surplus cells that imports, `spine_types(doc, types)` is the first line of the
    export that keeps only the header cells of the spines of the selected types — computed from the text by the tracker alone -/
theorem C06_spine_types_of_text (P : CellParser) (rows : List (List Str)) (d : Doc) (h : importRows P rows = .ok d) (hwf : wf rows = true)
    (hwc : AllWC d) (types : List Str) (hne : types ≠ []) :
    getSpineTypes d (some types) =
      firstLineCells (specExportA { spineTypes := types, cats := [.HEADER] } (run rows).skel (TT.run P rows).toks) := by
  unfold getSpineTypes firstLineCells
  cases types with
  | nil => exact absurd rfl hne
  | cons t ts =>
    simp only [Option.getD_some]
    rw [C10_export_of_text P rows d h hwf hwc { spineTypes := t :: ts, cats := [.HEADER] } rfl rfl]
    cases specExportA { spineTypes := t :: ts, cats := [.HEADER] } (run rows).skel (TT.run P rows).toks with
    | error e => rfl
    | ok content => rfl

/-- and with no selection: all supported types -/
theorem C06_spine_types_default (P : CellParser) (rows : List (List Str)) (d : Doc) (h : importRows P rows = .ok d) (hwf : wf rows = true)
    (hwc : AllWC d) :
    getSpineTypes d none =
      firstLineCells (specExportA { spineTypes := Gen.headers, cats := [.HEADER] } (run rows).skel (TT.run P rows).toks) := by
  unfold getSpineTypes firstLineCells
  simp only [Option.getD_none]
  rw [C10_export_of_text P rows d h hwf hwc { spineTypes := Gen.headers, cats := [.HEADER] } rfl rfl]
  cases specExportA { spineTypes := Gen.headers, cats := [.HEADER] } (run rows).skel (TT.run P rows).toks with
  | error e => rfl
  | ok content => rfl

/-! non-vacuity: the text of `C03Doc` has a supported and an unsupported spine -/
example : firstLineCells (specExportA { spineTypes := Gen.headers, cats := [.HEADER] } (run C03D.toyRows).skel (TT.run C03D.toyP C03D.toyRows).toks)
    = .ok ["**kern".toList] := by decide +kernel
end KM.C06D
