/-
  C03, chords — the **kern text exported for a chord is, note by note (joined by single spaces): the duration marks of the duration
  in force (a chord note without its own duration prints the previous note's), the pitch letters with accidental and display
  suffix (or `r`), then the sorted set of that note's own signifiers.   Completes `C03_single` for every cell of the grammar.
-/
import KernProofs.C03
namespace KM.C03
open KM Tokz Abs Spec

/-- the notes the listener builds for a chord are `noteOf` of each element under its duration in force -/
theorem zipNotes_chordWalk (prev : Option ADur) (es : List AElem) :
    zipNotes (chordWalk (durSubs prev) es) (es.map (fun e => addDecs [] (decsOf e)))
      = zipWith3 noteOf (chordDurs prev es) es := by
  induction es generalizing prev with
  | nil => rfl
  | cons e r ih =>
    simp only [chordWalk, chordDurs, List.map_cons, zipNotes, zipWith3]
    cases hd : elemDur e with
    | none =>
      simp only
      rw [ih prev]
      rfl
    | some x =>
      simp only
      rw [ih (some x)]
      rfl

theorem joinSep_space (l : List Str) : joinSep [' '] l = joinSpace l := by
  induction l with
  | nil => rfl
  | cons x r ih =>
    cases r with
    | nil => rfl
    | cons y r' =>
      simp only [joinSep, joinSpace]
      rw [ih]
      simp

theorem strip_joinSpace (l : List Str) : strip (joinSpace l) = joinSpace (l.map strip) := by
  induction l with
  | nil => rfl
  | cons x r ih =>
    cases r with
    | nil => rfl
    | cons y r' =>
      simp only [joinSpace, List.map_cons]
      have : x ++ ' ' :: joinSpace (y :: r') = x ++ ([' '] ++ joinSpace (y :: r')) := by simp
      rw [this, strip_append, strip_append, ih]
      have hs : strip [' '] = [' '] := by decide
      rw [hs]
      simp

theorem mapM_ok {α β} (f : α → β) (l : List α) : l.mapM (fun a => (Except.ok (f a) : Except Err β)) = .ok (l.map f) := by
  induction l with
  | nil => rfl
  | cons a r ih => simp [List.mapM_cons, ih, bind, Except.bind, pure, Except.pure]

/-- all elements of a chord are well formed, hence so is every duration in force -/
theorem chordDurs_ok (prev : Option ADur) (hp : DurOk prev) (es : List AElem) (he : ∀ e ∈ es, ElemOk e) :
    ∀ d ∈ chordDurs prev es, DurOk d := by
  induction es generalizing prev with
  | nil => intro d hd; simp [chordDurs] at hd
  | cons e r ih =>
    intro d hd
    have hee := he e (by simp)
    have hown : DurOk (elemDur e) := by
      cases e with
      | note n => exact hee.1
      | rest rr => exact hee.1
    simp only [chordDurs, List.mem_cons] at hd
    have hcur : DurOk (match elemDur e with | some x => some x | none => prev) := by
      cases hx : elemDur e with
      | none => simpa using hp
      | some x => simpa [hx] using hown
    rcases hd with rfl | hd
    · exact hcur
    · exact ih _ hcur (fun e' he' => he e' (by simp [he'])) d hd

theorem zipWith3_map {α β γ δ} (f : α → β → γ) (g : γ → δ) (as : List α) (bs : List β) :
    (zipWith3 f as bs).map g = zipWith3 (fun a b => g (f a b)) as bs := by
  induction as generalizing bs with
  | nil => cases bs <;> rfl
  | cons a r ih =>
    cases bs with
    | nil => rfl
    | cons b bs' => simp [zipWith3, ih]

theorem zipWith3_congr {α β γ} (f g : α → β → γ) (as : List α) (bs : List β)
    (h : ∀ a ∈ as, ∀ b ∈ bs, f a b = g a b) : zipWith3 f as bs = zipWith3 g as bs := by
  induction as generalizing bs with
  | nil => cases bs <;> rfl
  | cons a r ih =>
    cases bs with
    | nil => rfl
    | cons b bs' =>
      simp only [zipWith3]
      rw [h a (by simp) b (by simp), ih bs' (fun a' ha' b' hb' => h a' (by simp [ha']) b' (by simp [hb']))]

/-- **C03, a chord.** -/
theorem C03_chord (es : List AElem) (he : ∀ e ∈ es, ElemOk e) :
    tokenize .kern Cat.all none (tokOf (.chord es)) = cellOutKern (.chord es) := by
  have hd := chordDurs_ok none trivial es he
  -- the specification side
  have h1 : cellOutKern (.chord es) = .ok (joinSpace (zipWith3 elemText (chordDurs none es) es)) := by
    simp only [cellOutKern, cellOut]
    have : zipWith3 (fun d e => elemOut (fun p => Except.ok p) d (keptSigs e) e) (chordDurs none es) es
        = (zipWith3 elemText (chordDurs none es) es).map (fun s => (Except.ok s : Except Err Str)) := by
      rw [zipWith3_map]
      exact zipWith3_congr _ _ _ _ (fun d _ e _ => elemOut_eq d e)
    rw [this, List.mapM_map]
    have := mapM_ok (fun s : Str => s) (zipWith3 elemText (chordDurs none es) es)
    have hf : (id ∘ fun s : Str => (Except.ok s : Except Err Str)) = fun a => Except.ok a := rfl
    rw [hf, this]
    simp [bind, Except.bind, pure, Except.pure]
  -- the token side
  have h2 : tokenize .kern Cat.all none (tokOf (.chord es))
      = .ok (strip (joinSpace ((zipWith3 noteOf (chordDurs none es) es).map (C04.noteText allF)))) := by
    have hz := zipNotes_chordWalk none es
    simp only [durSubs] at hz
    simp only [tokenize, tokOf, exportTok, exportChord, hz]
    have : (zipWith3 noteOf (chordDurs none es) es).mapM (exportNote (fun c => Cat.all.contains c) none)
        = .ok ((zipWith3 noteOf (chordDurs none es) es).map (C04.noteText allF)) := by
      have := mapM_ok (C04.noteText allF) (zipWith3 noteOf (chordDurs none es) es)
      exact this
    rw [this]
    simp [bind, Except.bind, pure, Except.pure, Except.map, joinSep_space]
  rw [h1, h2, strip_joinSpace, List.map_map, zipWith3_map]
  congr 2
  apply zipWith3_congr
  intro d hdm e hem
  exact C03_element d e (hd d hdm) (he e hem)

/-- every cell of the grammar: single elements, chords, barlines and verbatim kinds -/
theorem C03_cell (a : ACell)
    (h : match a with
      | .elem e => ElemOk e
      | .chord es => ∀ e ∈ es, ElemOk e
      | .bar b => ∀ x ∈ b.type, (x == tokSep) = false ∧ (x == decSep) = false
      | .other _ t => ∀ x ∈ t, (x == tokSep) = false ∧ (x == decSep) = false) :
    tokenize .kern Cat.all none (tokOf a) = cellOutKern a := by
  cases a with
  | elem e =>
    have hown : DurOk (elemDur e) := by
      cases e with
      | note n => exact h.1
      | rest rr => exact h.1
    exact C03_single e h hown
  | chord es => exact C03_chord es h
  | bar b => rw [(C03_barline b h).1, (C03_barline b h).2]
  | other k t => rw [(C03_other_verbatim k t h).1, (C03_other_verbatim k t h).2]

end KM.C03
