/-
  C02 — Import builds a spine tree that mirrors the text cell for cell.   (property theorems; partial)

  Proved for every cell parser `P` and every text / row list:
  * **one stage per non-empty line** (`C02_one_stage_per_line`: after a successful import the tree has 1 + #non-empty rows
    stages; empty rows do not count) and the measure index is strictly increasing with entries inside the tree
    (`C02_measure_index_ok`);
  * the line reader takes cells literally: reading the rendering of a grid gives the grid back, for cells free of TAB and
    line-boundary characters — quotes, commas, spaces, non-ASCII are ordinary characters (`C02_reader_literal`);
  * **surplus cells are rejected**: a data token at a column index beyond the live spine paths raises `ValueError`, a
    spine operator or a field comment there raises too (`C02_surplus_*`), and an error in any cell makes the import of the
    whole text fail (`C02_row_error_propagates`);
  * **one cell, one node, in the place of the cell above**: a data cell at column `i` creates exactly one node, appended to
    the current stage, whose parent is the `i`-th parent of the previous spine row and which carries that parent's header
    node (`C02_data_cell_node`); a `*^` hands its node to two columns of the next row, a `*-` to none (`C02_split_and_end`).
  Not proved in Lean: the global statement that the list of parents equals the reference spine-path tracker run on the
  whole grid (the refinement across rows, including the `*v` rule).  That part is decided by correspondence: the exhaustive
  operator layouts and the generated documents are compared with an independent tracker on the source grid.
-/
import KernModel.Doc
import KernProofs.C02Tree
import KernProofs.Lemmas.ImporterInv
import KernProofs.Lemmas.SplitJoin
namespace KM.C02
open KM Importer

/-! ### stages and measure index -/

theorem C02_one_stage_per_line (P : CellParser) (rows : List (List Str)) (d : Doc) (h : importRows P rows = .ok d) :
    d.stages.length = 1 + (rows.filter (fun r => !r.isEmpty)).length := by
  unfold importRows at h
  cases hr : runRows P init rows with
  | error e => rw [hr] at h; cases h
  | ok st =>
    rw [hr] at h
    simp only [Except.map, Except.ok.injEq] at h
    subst h
    have := runRows_stageCount P init st rows hr
    simpa [toDoc, init] using this

theorem C02_measure_index_ok (P : CellParser) (rows : List (List Str)) (d : Doc) (h : importRows P rows = .ok d) :
    d.starts.Pairwise (· < ·) ∧ ∀ s ∈ d.starts, s < d.stages.length := by
  unfold importRows at h
  cases hr : runRows P init rows with
  | error e => rw [hr] at h; cases h
  | ok st =>
    rw [hr] at h
    simp only [Except.map, Except.ok.injEq] at h
    subst h
    exact runRows_startsOk P init st rows ⟨by simp [init], by simp [init]⟩ hr

/-! ### the line reader is literal -/

def cellOk (c : Str) : Prop := ∀ x ∈ c, (x == '\t') = false ∧ isLineBoundary x = false

def renderLine (cells : List Str) : Str := joinSep ['\t'] cells

def renderGrid : List (List Str) → Str
  | [] => []
  | r :: rs => renderLine r ++ '\n' :: renderGrid rs

theorem splitLinesAux_line (l rest cur : Str) (hl : ∀ x ∈ l, isLineBoundary x = false) :
    splitLinesAux false (l ++ '\n' :: rest) cur = (cur.reverse ++ l) :: splitLinesAux false rest [] := by
  induction l generalizing cur with
  | nil =>
    simp only [List.nil_append, List.append_nil]
    conv => lhs; unfold splitLinesAux
    have : isLineBoundary '\n' = true := by decide
    simp [this]
  | cons x xs ih =>
    have hx : isLineBoundary x = false := hl x List.mem_cons_self
    have hxn : (x == '\n') = false := by
      cases h : (x == '\n')
      · rfl
      · have : x = '\n' := by simpa using h
        subst this; revert hx; decide
    simp only [List.cons_append]
    conv => lhs; unfold splitLinesAux
    simp only [hxn, Bool.false_and, Bool.false_eq_true, if_false, hx]
    rw [ih (x :: cur) (fun y hy => hl y (List.mem_cons_of_mem _ hy))]
    simp

/-- a row the reader can give back: at least one cell, cells free of TAB and line boundaries, not the single empty cell -/
def rowOk (r : List Str) : Prop := r ≠ [] ∧ (∀ c ∈ r, cellOk c) ∧ renderLine r ≠ []

theorem line_boundary_free (r : List Str) (h : ∀ c ∈ r, cellOk c) : ∀ x ∈ renderLine r, isLineBoundary x = false := by
  intro x hx
  rcases mem_joinSep _ _ _ hx with h1 | ⟨c, hc, hxc⟩
  · simp only [List.mem_singleton] at h1; subst h1; decide
  · exact (h c hc x hxc).2

theorem splitRow_renderLine (r : List Str) (h : rowOk r) : splitRow (renderLine r) = r := by
  unfold splitRow
  have : (renderLine r).isEmpty = false := by simpa using h.2.2
  simp only [this, Bool.false_eq_true, if_false]
  exact splitOnC_joinSep '\t' r h.1 (fun c hc x hx => (h.2.1 c hc x hx).1)

/-- **C02, reader.** Reading the text of a grid gives back the grid, cell text taken literally. -/
theorem C02_reader_literal (g : List (List Str)) (h : ∀ r ∈ g, rowOk r) : readRows (renderGrid g) = g := by
  unfold readRows splitLines
  induction g with
  | nil => rfl
  | cons r rs ih =>
    simp only [renderGrid]
    rw [splitLinesAux_line _ _ [] (line_boundary_free r (h r List.mem_cons_self).2.1)]
    simp only [List.reverse_nil, List.nil_append, List.map_cons]
    rw [splitRow_renderLine r (h r List.mem_cons_self), ih (fun r' hr' => h r' (List.mem_cons_of_mem _ hr'))]

/-! ### surplus cells -/

/-- a data token beyond the live spine paths: `ValueError` -/
theorem C02_surplus_data (P : CellParser) (row : List Str) (stage : Nat) (acc : RowAcc) (i : Nat) (col : Str) (prev : List Coord)
    (hnh : startsWith ['*', '*'] col = false) (hno : isSpineOp col = false) (hnc : startsWith ['!'] col = false)
    (hp : acc.st.prev = some prev) (hi : i ≥ prev.length) :
    cellStep P row stage acc i col = .error .valueError := by
  unfold cellStep
  simp [hnh, hno, hnc, hp, hi, bind, Except.bind]

/-- a spine operator beyond the live spine paths: an exception -/
theorem C02_surplus_operator (P : CellParser) (row : List Str) (stage : Nat) (acc : RowAcc) (i : Nat) (col : Str) (prev : List Coord)
    (hnh : startsWith ['*', '*'] col = false) (hop : isSpineOp col = true)
    (hp : acc.st.prev = some prev) (hi : i ≥ prev.length) :
    cellStep P row stage acc i col = .error .other := by
  unfold cellStep
  have : prev[i]? = none := List.getElem?_eq_none_iff.mpr hi
  simp [hnh, hop, hp, this]

/-- a field comment beyond the live spine paths: an exception -/
theorem C02_surplus_comment (P : CellParser) (row : List Str) (stage : Nat) (acc : RowAcc) (i : Nat) (col : Str) (prev : List Coord)
    (hnh : startsWith ['*', '*'] col = false) (hno : isSpineOp col = false) (hc : startsWith ['!'] col = true)
    (hp : acc.st.prev = some prev) (hi : i ≥ prev.length) :
    cellStep P row stage acc i col = .error .other := by
  unfold cellStep
  have : prev[i]? = none := List.getElem?_eq_none_iff.mpr hi
  simp [hnh, hno, hc, hp, this, bind, Except.bind]

/-- an error in one cell makes the loop over the row fail, whatever comes before and after -/
theorem cellsLoop_error (P : CellParser) (row : List Str) (stage : Nat) (pre : List Str) (col : Str) (post : List Str)
    (hbad : ∀ acc : RowAcc, ∃ e, cellStep P row stage acc (pre.length) col = .error e) :
    ∀ acc, ∃ e, cellsLoop P row stage acc 0 (pre ++ col :: post) = .error e := by
  suffices H : ∀ (k : Nat) (pre : List Str), (∀ acc : RowAcc, ∃ e, cellStep P row stage acc (k + pre.length) col = .error e) →
      ∀ acc, ∃ e, cellsLoop P row stage acc k (pre ++ col :: post) = .error e by
    intro acc; exact H 0 pre (by simpa using hbad) acc
  intro k pre
  induction pre generalizing k with
  | nil =>
    intro hb acc
    obtain ⟨e, he⟩ := hb acc
    simp only [List.length_nil, Nat.add_zero] at he
    exact ⟨e, by simp [cellsLoop, he, bind, Except.bind]⟩
  | cons c cs ih =>
    intro hb acc
    simp only [List.cons_append, cellsLoop, bind, Except.bind]
    cases hc : cellStep P row stage acc k c with
    | error e => exact ⟨e, rfl⟩
    | ok a1 =>
      exact ih (k + 1) (fun a => by
        have := hb a
        simpa [List.length_cons, Nat.add_assoc, Nat.add_comm 1] using this) a1

/-- **C02, surplus.** A row (not a `!!` comment) that has a data token at a column index beyond the live spine paths makes the
    import of the row fail — it is not silently mis-aligned.  (`prev` cannot change while the row is processed.) -/
theorem C02_surplus_row_rejected (P : CellParser) (st : ImpState) (pre : List Str) (col : Str) (post : List Str) (prev : List Coord)
    (hrow : ∀ c0, (pre ++ col :: post).head? = some c0 → startsWith ['!', '!'] c0 = false)
    (hnh : startsWith ['*', '*'] col = false) (hno : isSpineOp col = false) (hnc : startsWith ['!'] col = false)
    (hp : (if st.next.isEmpty then st.prev else some st.next) = some prev) (hi : pre.length ≥ prev.length) :
    ∃ e, rowStep P st (pre ++ col :: post) = .error e := by
  have hne : pre ++ col :: post ≠ [] := by simp
  cases hrw : pre ++ col :: post with
  | nil => exact absurd hrw hne
  | cons c0 cs =>
    have hm : startsWith ['!', '!'] c0 = false := hrow c0 (by rw [hrw]; rfl)
    unfold rowStep
    simp only [hm, Bool.false_eq_true, if_false, bind, Except.bind]
    rw [← hrw]
    -- every state reached inside the row still has the same `prev`
    have key : ∀ acc : RowAcc, acc.st.prev = some prev → ∃ e, cellStep P (pre ++ col :: post) st.stages.length acc pre.length col = .error e :=
      fun acc ha => ⟨_, C02_surplus_data P _ _ acc _ col prev hnh hno hnc ha hi⟩
    -- run the loop: either an earlier cell fails, or `col` does
    have loop : ∀ (k : Nat) (p : List Str) (acc : RowAcc), acc.st.prev = some prev → k + p.length = pre.length →
        ∃ e, cellsLoop P (pre ++ col :: post) st.stages.length acc k (p ++ col :: post) = .error e := by
      intro k p
      induction p generalizing k with
      | nil =>
        intro acc ha hk
        simp only [List.length_nil, Nat.add_zero] at hk
        obtain ⟨e, he⟩ := key acc ha
        exact ⟨e, by simp [cellsLoop, hk, he, bind, Except.bind]⟩
      | cons c cs ih =>
        intro acc ha hk
        simp only [List.cons_append, cellsLoop, bind, Except.bind]
        cases hc : cellStep P (pre ++ col :: post) st.stages.length acc k c with
        | error e => exact ⟨e, rfl⟩
        | ok a1 =>
          have hf := (cellStep_frame P _ _ acc a1 k c hc).1
          exact ih (k + 1) a1 (hf.trans ha) (by simp only [List.length_cons] at hk; omega)
    obtain ⟨e, he⟩ := loop 0 pre ⟨{ st with prev := if st.next.isEmpty then st.prev else some st.next, next := [] }, false⟩ hp (by simp)
    exact ⟨e, by rw [he]⟩

/-- an error in a row makes the whole import fail -/
theorem C02_row_error_propagates (P : CellParser) (st : ImpState) (r : List Str) (rs : List (List Str)) (e : Err)
    (h : rowStep P st r = .error e) : runRows P st (r :: rs) = .error e := by
  simp [runRows, h, bind, Except.bind]

/-! ### one cell, one node, under the cell above -/

/-- **C02, a data cell.** With `prev[i]` the node above on the same spine path (carrying header node `hc`), an accepted data cell
    at column `i` appends exactly one node to the current stage; its parent is `prev[i]`, its header node is that of the parent,
    and it becomes the parent for column position `next.length` of the next row. -/
theorem C02_data_cell_node (P : CellParser) (row : List Str) (stage : Nat) (st : ImpState) (isBar : Bool) (i : Nat) (col : Str)
    (prev : List Coord) (pc hc : Coord) (p hnode : Node) (ht t : Tok)
    (hnh : startsWith ['*', '*'] col = false) (hno : isSpineOp col = false) (hnc : startsWith ['!'] col = false)
    (hprev : st.prev = some prev) (hi : prev[i]? = some pc) (hp : Doc.nodeAt st.stages pc = some p) (hh : p.hdr = some hc)
    (hhn : Doc.nodeAt st.stages hc = some hnode) (hht : hnode.tok = some ht) (hacc : P ht.enc col = some t)
    (acc' : RowAcc) (h : cellStep P row stage ⟨st, isBar⟩ i col = .ok acc') :
    ∃ n : Node, n.tok = some t ∧ n.parent = some pc ∧ n.hdr = some hc ∧ n.lastOp = lastOpOf st.stages pc ∧
      acc'.st.next = st.next ++ [(addNode st.stages stage ⟨some t, some pc, some hc, p.sigs, lastOpOf st.stages pc⟩).2] := by
  have hlt : ¬ (i ≥ prev.length) := by
    intro h'
    have := List.getElem?_eq_none_iff.mpr h'
    rw [this] at hi; cases hi
  unfold cellStep at h
  simp only [hnh, hno, hnc, Bool.false_eq_true, if_false, hprev, hi, hp, hh, hhn, hht, Option.bind, hacc, hlt, bind, Except.bind] at h
  refine ⟨⟨some t, some pc, some hc, p.sigs, lastOpOf st.stages pc⟩, rfl, rfl, rfl, rfl, ?_⟩
  split at h
  · cases h; rfl
  · split at h
    · cases h; rfl
    · split at h
      · cases h; rfl
      · cases h; rfl

/-- both branches of a split descend from the split cell; a terminated path has no continuation -/
theorem C02_split_and_end (P : CellParser) (row : List Str) (stage : Nat) (st : ImpState) (isBar : Bool) (i : Nat)
    (prev : List Coord) (pc : Coord) (p : Node)
    (hprev : st.prev = some prev) (hi : prev[i]? = some pc) (hp : Doc.nodeAt st.stages pc = some p) :
    (∀ acc', cellStep P row stage ⟨st, isBar⟩ i ['*', '^'] = .ok acc' →
      ∃ c, acc'.st.next = st.next ++ [c, c]) ∧
    (∀ acc', cellStep P row stage ⟨st, isBar⟩ i ['*', '-'] = .ok acc' → acc'.st.next = st.next) := by
  have ho1 : isSpineOp ['*', '^'] = true := by decide +kernel
  have ho2 : isSpineOp ['*', '-'] = true := by decide +kernel
  constructor
  · intro acc' h
    unfold cellStep at h
    have hs : startsWith ['*', '*'] ['*', '^'] = false := by decide
    simp only [hs, ho1, Bool.false_eq_true, if_false, if_true, hprev, hi, hp] at h
    have e1 : ((['*', '^'] : Str) == ['*', '-']) = false := by decide
    have e2 : ((['*', '^'] : Str) == ['*', '+'] || (['*', '^'] : Str) == ['*', '^']) = true := by decide
    simp only [e1, e2, Bool.false_eq_true, if_false, if_true, pure, Except.pure, Except.ok.injEq] at h
    subst h
    exact ⟨_, rfl⟩
  · intro acc' h
    unfold cellStep at h
    have hs : startsWith ['*', '*'] ['*', '-'] = false := by decide
    simp only [hs, ho2, Bool.false_eq_true, if_false, if_true, hprev, hi, hp] at h
    have e1 : ((['*', '-'] : Str) == ['*', '-']) = true := by decide
    simp only [e1, if_true, pure, Except.pure, Except.ok.injEq] at h
    subst h
    rfl

/-! non-vacuity -/
example : rowOk [['"','a',',','b','"'], ['x',' ','y']] := by
  refine ⟨by simp, ?_, by decide⟩
  intro c hc x hx
  simp at hc
  rcases hc with rfl | rfl <;> simp at hx <;> rcases hx with rfl | rfl | rfl | rfl | rfl <;> exact ⟨by decide, by decide⟩
example : readRows ['"','a','\t','b','\n','\n','c','\n'] = [[['"','a'],['b']], [], [['c']]] := by decide

end KM.C02
