/-
  C12 — Malformed tokens are isolated, reported once and preserved.   (property theorems)

  * history independence: for every raw parser and every sequence of cells fed to one `KernSpineImporter`, the outcome
    for a cell is the outcome on a fresh importer (the source resets the shared error list at the start of every
    token — `resets_errors`, regenerated from the AST);
  * isolation, one cell at a time: when the spine's importer rejects a cell, `Importer.run` still succeeds on that cell,
    creates the node exactly where the token would have gone (same parent, header, signatures, operator), with an
    `ErrorToken` carrying the verbatim text, and appends exactly one error with the current line number; a cell the
    importer accepts adds no error (`C12_rejected_cell`, `C12_accepted_cell`);
  * the error token is exported verbatim (`C12_exported_verbatim`).
  The document-level statement (all placements of several malformed cells, all other tokens identical to the undamaged
  import) is decided by correspondence on generated documents with damage (harness/props/c12.py).  "No cell is silently
  shortened" depends on the ANTLR grammar alone (no EOF in the start rule) — open finding F3.
-/
import KernModel.KernImporter
import KernModel.Export
import KernProofs.C03
namespace KM.C12
open KM KernImporter

/-- the translator found the reset at the start of `import_token` -/
theorem resets_errors : Gen.kernImporterResetsErrors = true := by decide

/-- the outcome of a token does not depend on the listener state it starts from -/
theorem C12_state_independent (R : RawParser) (l : Listener) (cell : Str) :
    (importToken R l cell).2 = fresh R cell := by
  unfold fresh importToken
  simp [resets_errors]

/-- **C12, history.** For every sequence of cells fed to one importer, each outcome is the fresh-importer outcome. -/
theorem C12_history (R : RawParser) (l : Listener) (cells : List Str) :
    run R l cells = cells.map (fresh R) := by
  induction cells generalizing l with
  | nil => rfl
  | cons c cs ih =>
    simp only [run, List.map_cons]
    rw [C12_state_independent R l c, ih]

/-- hence the order in which valid and invalid tokens are seen is irrelevant -/
theorem C12_order_irrelevant (R : RawParser) (before₁ before₂ : List Str) (c : Str) :
    (run R ⟨0⟩ (before₁ ++ [c])).getLast? = (run R ⟨0⟩ (before₂ ++ [c])).getLast? := by
  rw [C12_history, C12_history]
  simp

/-- `Importer.run` wraps a rejected cell (translator fact about the except branch) -/
theorem wraps_rejected : Gen.importerWrapsRejectedCells = true := by decide

/-- the situation of a data cell: parents known, spine header known -/
structure CellCtx (st : ImpState) (i : Nat) where
  prev : List Coord
  pc : Coord
  p : Node
  hc : Coord
  hnode : Node
  ht : Tok
  hprev : st.prev = some prev
  hi : prev[i]? = some pc
  hp : Doc.nodeAt st.stages pc = some p
  hh : p.hdr = some hc
  hhn : Doc.nodeAt st.stages hc = some hnode
  hht : hnode.tok = some ht

/-- **C12, a rejected cell.** Import goes on; the node is created at the token's place with an `ErrorToken` holding the
    verbatim text; exactly one error `(line, text)` is appended; nothing else of the state changes except the stages
    and the list of parents for the next row. -/
theorem C12_rejected_cell (P : CellParser) (row : List Str) (stage : Nat) (st : ImpState) (isBar : Bool) (i : Nat) (col : Str)
    (hnh : Importer.startsWith ['*', '*'] col = false) (hno : Importer.isSpineOp col = false)
    (hnc : Importer.startsWith ['!'] col = false) (cx : CellCtx st i) (hrej : P cx.ht.enc col = none) :
    ∃ acc', Importer.cellStep P row stage ⟨st, isBar⟩ i col = .ok acc' ∧
      acc'.st.errors = st.errors ++ [(st.rowNo, col)] ∧
      acc'.st.stages = (Importer.addNode st.stages stage
        ⟨some (.simple .ErrorToken col .ERROR false), some cx.pc, cx.p.hdr, cx.p.sigs, Importer.lastOpOf st.stages cx.pc⟩).1 ∧
      acc'.st.next = st.next ++ [(Importer.addNode st.stages stage
        ⟨some (.simple .ErrorToken col .ERROR false), some cx.pc, cx.p.hdr, cx.p.sigs, Importer.lastOpOf st.stages cx.pc⟩).2] ∧
      acc'.st.starts = st.starts ∧ acc'.st.prev = st.prev ∧ acc'.st.rowNo = st.rowNo ∧ acc'.st.cancelled = st.cancelled := by
  have hlt : ¬ (i ≥ cx.prev.length) := by
    intro h
    have := List.getElem?_eq_none_iff.mpr h
    have hi := cx.hi
    rw [this] at hi; cases hi
  have hcore : Hier.isChild hierarchy .CORE .ERROR = true := by decide +kernel
  unfold Importer.cellStep
  simp only [hnh, hno, hnc, Bool.false_eq_true, if_false, cx.hprev, cx.hi, cx.hp, cx.hh, cx.hhn, cx.hht, Option.bind, hrej, hlt,
    bind, Except.bind, Tok.cat, Tok.cls, TokClass.isSignature]
  by_cases hs : st.starts.isEmpty = true
  · simp only [hs, hcore, Bool.and_self, Bool.or_true, Bool.or_self, beq_self_eq_true, Bool.true_or, if_true, reduceCtorEq, Bool.false_or, beq_iff_eq]
    exact ⟨_, rfl, rfl, rfl, rfl, rfl, rfl, rfl, rfl⟩
  · simp only [hs, hcore, Bool.and_false, Bool.or_false, beq_iff_eq, reduceCtorEq, if_false, Bool.false_eq_true, Bool.and_self]
    exact ⟨_, rfl, rfl, rfl, rfl, rfl, rfl, rfl, rfl⟩

/-- **C12, an accepted cell adds no error.** -/
theorem C12_accepted_cell (P : CellParser) (row : List Str) (stage : Nat) (st : ImpState) (isBar : Bool) (i : Nat) (col : Str)
    (hnh : Importer.startsWith ['*', '*'] col = false) (hno : Importer.isSpineOp col = false)
    (hnc : Importer.startsWith ['!'] col = false) (cx : CellCtx st i) (t : Tok) (hacc : P cx.ht.enc col = some t)
    (acc' : Importer.RowAcc) (h : Importer.cellStep P row stage ⟨st, isBar⟩ i col = .ok acc') :
    acc'.st.errors = st.errors := by
  have hlt : ¬ (i ≥ cx.prev.length) := by
    intro h
    have := List.getElem?_eq_none_iff.mpr h
    have hi := cx.hi
    rw [this] at hi; cases hi
  unfold Importer.cellStep at h
  simp only [hnh, hno, hnc, Bool.false_eq_true, if_false, cx.hprev, cx.hi, cx.hp, cx.hh, cx.hhn, cx.hht, Option.bind, hacc, hlt,
    bind, Except.bind] at h
  split at h
  · cases h; rfl
  · split at h
    · cases h; rfl
    · split at h
      · cases h; rfl
      · cases h; rfl

/-- **C12, exported verbatim.** An error token whose category is selected is exported as its text in the extended
    encoding, and in the plain one when the text is free of the two separator characters (see finding F10). -/
theorem C12_exported_verbatim (d : Doc) (cats : List Cat) (n : Node) (col : Str) (hcol : col ≠ [])
    (ht : n.tok = some (.simple .ErrorToken col .ERROR false)) (hc : cats.contains .ERROR = true) :
    Export.cellBody d cats .ekern n = .ok (some col) ∧
    ((∀ x ∈ col, (x == Tokz.tokSep) = false ∧ (x == Tokz.decSep) = false) → Export.cellBody d cats .kern n = .ok (some col)) := by
  have he : col.isEmpty = false := by simpa using hcol
  have hm : Cat.ERROR ∈ cats := by simpa using hc
  have hbody : ∀ e, Export.cellBody d cats e n =
      (Export.exportTokenCE d cats e n).bind (fun s => .ok (some (if s.isEmpty then Export.placeholder n else s))) := by
    intro e
    unfold Export.cellBody
    simp only [ht, Tok.hidden, Tok.isComplex, Tok.cat, hc, Bool.or_true, Bool.not_true, Bool.or_self, Bool.false_eq_true, if_false]
    rfl
  constructor
  · rw [hbody]
    simp only [Export.exportTokenCE, ht, Tokz.tokenize, Tokz.exportTok, Tok.enc, Except.bind, he, Bool.false_eq_true, if_false]
  · intro hfree
    have hs : Tokz.strip col = col := C03.strip_noSep col hfree
    rw [hbody]
    simp only [Export.exportTokenCE, ht, Tokz.tokenize, Tokz.exportTok, Tok.enc, Except.map, hs, Except.bind, he, Bool.false_eq_true, if_false]

/-! non-vacuity: a valid token after an invalid one is still imported -/
example : run (fun c => if c == ['x'] then (1, none) else (0, some (Tok.mkSimple c .OTHER))) ⟨0⟩ [['x'], ['a']]
    = [none, some (Tok.mkSimple ['a'] .OTHER)] := by decide

end KM.C12
