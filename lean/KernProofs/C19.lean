/-
  C19 — Concatenation indexes address the fragments.   (property theorems)
-/
import KernModel.Concat
import KernProofs.C07
namespace KM.C19
open KM Concat

/-- consecutive pairs starting at `low`: each `from` is the previous `to` plus one -/
def Consecutive : Nat → List (Nat × Nat) → Prop
  | _, [] => True
  | low, p :: r => p.1 = low ∧ Consecutive (p.2 + 1) r

theorem pairsFrom_spec (P : CellParser) (sep raw : Str) (low : Nat) (cs : List Str) (pairs : List (Nat × Nat))
    (h : pairsFrom P sep raw low cs = .ok pairs) :
    pairs.length = cs.length ∧ Consecutive low pairs ∧
    (∀ d, cs ≠ [] → Importer.importString P (joined sep raw cs) = .ok d → (pairs.getLast?.map (·.2)) = some d.starts.length) := by
  induction cs generalizing raw low pairs with
  | nil =>
    simp only [pairsFrom, Except.ok.injEq] at h
    subst h
    exact ⟨rfl, trivial, fun d hne => absurd rfl hne⟩
  | cons c cs ih =>
    simp only [pairsFrom, bind, Except.bind] at h
    cases hd : Importer.importString P (raw ++ sep ++ c) with
    | error e => rw [hd] at h; cases h
    | ok d0 =>
      rw [hd] at h
      simp only at h
      cases hr : pairsFrom P sep (raw ++ sep ++ c) (d0.starts.length + 1) cs with
      | error e => rw [hr] at h; cases h
      | ok rest =>
        rw [hr] at h
        simp only [pure, Except.pure, Except.ok.injEq] at h
        subst h
        obtain ⟨hl, hc, hlast⟩ := ih _ _ rest hr
        refine ⟨by simp [hl], ⟨rfl, hc⟩, ?_⟩
        intro d _ himp
        cases cs with
        | nil =>
          simp only [pairsFrom, Except.ok.injEq] at hr
          subst hr
          simp only [joined, List.foldl_cons, List.foldl_nil] at himp
          rw [hd] at himp
          cases himp
          rfl
        | cons c2 cs2 =>
          have := hlast d (by simp) (by simpa [joined] using himp)
          cases rest with
          | nil => simp at hl
          | cons r0 rs => simpa [List.getLast?_cons_cons] using this

/-- **C19.** Concatenation yields the import of the joined text, one pair per fragment, the pairs are consecutive
    starting at 0, and the last `to` is the measure count of that document. -/
theorem C19_indexes (P : CellParser) (contents : List Str) (sep : Str) (d : Doc) (pairs : List (Nat × Nat))
    (h : concat P contents sep = .ok (d, pairs)) :
    Importer.importString P (joined sep [] contents) = .ok d ∧
    pairs.length = contents.length ∧ Consecutive 0 pairs ∧
    pairs.getLast?.map (·.2) = some d.starts.length := by
  unfold concat at h
  by_cases he : contents.isEmpty = true
  · simp [he] at h
  · simp only [he, Bool.false_eq_true, if_false, bind, Except.bind] at h
    cases hp : pairsFrom P sep [] 0 contents with
    | error e => rw [hp] at h; cases h
    | ok ps =>
      rw [hp] at h
      cases hd : Importer.importString P (joined sep [] contents) with
      | error e => rw [hd] at h; cases h
      | ok d0 =>
        rw [hd] at h
        simp only [pure, Except.pure, Except.ok.injEq, Prod.mk.injEq] at h
        obtain ⟨rfl, rfl⟩ := h
        obtain ⟨hl, hc, hlast⟩ := pairsFrom_spec P sep [] 0 contents ps hp
        exact ⟨rfl, hl, hc, hlast d0 (by simpa using he) hd⟩

/-- no fragments: `ValueError` -/
theorem C19_empty (P : CellParser) (sep : Str) : concat P [] sep = .error .valueError := rfl

/-- importing rows in two portions: the state after the first portion is the start of the second (so the document of
    a prefix of the lines is an initial segment of the run on all lines) -/
theorem runRows_append (P : CellParser) (st : ImpState) (r₁ r₂ : List (List Str)) :
    Importer.runRows P st (r₁ ++ r₂) = (Importer.runRows P st r₁).bind (fun st' => Importer.runRows P st' r₂) := by
  induction r₁ generalizing st with
  | nil => rfl
  | cons r rs ih =>
    simp only [List.cons_append, Importer.runRows, bind, Except.bind]
    cases Importer.rowStep P st r with
    | error e => rfl
    | ok st' => exact ih st'

/-- exporting pair `i` addresses the stages of its fragment: by `C07_body`, a pair `(a, b)` with `1 ≤ a ≤ b ≤ M` exports
    the rows of the stages from the `a`-th measure start to the closing stage of measure `b` -/
theorem C19_pair_addresses_stages (d : Doc) (o : Opts) (a b : Int) (ha : o.fromM = some a) (hb : o.toM = some b)
    (h : 1 ≤ a ∧ a ≤ b ∧ b ≤ d.starts.length) (p : Export.Parts) (hp : Export.exportParts d o = .ok p) :
    ∃ fs, d.starts[(a - 1).toNat]? = some fs ∧ Export.bodyRows d o fs (Export.toStageOf d o) = .ok p.body :=
  C07.C07_body d o a b ha hb h p hp

/-! non-vacuity -/
example : Consecutive 0 [(0, 2), (3, 5), (6, 6)] := by simp [Consecutive]

end KM.C19
