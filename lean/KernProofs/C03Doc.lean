/-
  C03 (document level) — what `dumps(loads(text))` is, for every text: the default export is the grid of the source with every cell
  replaced by the **kern text of the token its own spine's importer made of it, minus global-comment lines, minus the cells of
  spines of unsupported types, minus lines whose cells are all null.
-/
import KernModel.Export
import KernModel.Spec.TextExport
import KernProofs.C02Tree
import KernProofs.C02Tok
import KernProofs.C06
import KernProofs.C03
import KernProofs.C03Chord
namespace KM.C03D
open KM Importer Export Tokz
open KM.Spec.Track
open KM.C02T KM.C02K

theorem tokenize_kern_clef (cats : List Cat) (c1 c2 : Option Str) (t : Tok) :
    Tokz.tokenize .kern cats c1 t = Tokz.tokenize .kern cats c2 t := rfl

theorem cellBody_all (d : Doc) (n : Node) (t : Tok) (ht : n.tok = some t) :
    cellBody d Cat.all .kern n = (cellOfTok t).map some := by
  unfold cellBody cellOfTok
  rw [ht]
  simp only
  have hc : Cat.all.contains t.cat = true := C03.allF_true t.cat
  have hph : placeholder n = phOf t := by simp [placeholder, phOf, ht]
  by_cases hh : t.hidden = true
  · simp [hh, hph, Except.map]
  · have hh' : t.hidden = false := by simpa using hh
    simp only [hh', hc, Bool.or_true, Bool.not_true, Bool.or_false, Bool.false_eq_true, if_false]
    unfold exportTokenCE
    rw [ht]
    simp only
    rw [tokenize_kern_clef Cat.all (clefOf d n) none]
    rw [hph]
    show (do let s ← Tokz.tokenize Encoding.kern Cat.all none (hdrAdj t); pure (some (if s.isEmpty = true then phOf t else s))) = _
    cases Tokz.tokenize .kern Cat.all none (hdrAdj t) with
    | error e => rfl
    | ok s => rfl
/-! ### the export as a function of skeleton and tokens -/

theorem nodeAt_tok (S : List (List Node)) (c : Coord) :
    (Doc.nodeAt S c).bind (·.tok) = hdrTokAt (S.map (·.map (·.tok))) c := by
  unfold Doc.nodeAt hdrTokAt
  simp only [List.getElem?_map]
  cases h1 : S[c.1]? with
  | none => rfl
  | some st =>
    simp only [Option.map_some, Option.bind, List.getElem?_map]
    cases h2 : st[c.2]? with
    | none => rfl
    | some n =>
      simp only [Option.map_some]
      cases n.tok <;> rfl

theorem headerTok_spec (d : Doc) (n : Node) (t : Tok) (ht : n.tok = some t) :
    headerTok d n = hdrOfCell (d.stages.map (·.map (·.tok))) (skelOf n) t := by
  unfold headerTok hdrOfCell
  rw [ht]
  cases t with
  | header e i => rfl
  | simple c e k hd =>
    simp only [skelOf]
    cases hh : n.hdr with
    | none => rfl
    | some hc => simp only [Option.bind]; exact nodeAt_tok d.stages hc
  | noteRest nn =>
    simp only [skelOf]
    cases hh : n.hdr with
    | none => rfl
    | some hc => simp only [Option.bind]; exact nodeAt_tok d.stages hc
  | chord e ns =>
    simp only [skelOf]
    cases hh : n.hdr with
    | none => rfl
    | some hc => simp only [Option.bind]; exact nodeAt_tok d.stages hc

theorem spineSelected_default (d : Doc) (n : Node) : spineSelected d defaultOpts n = selectedHdr Gen.headers (headerTok d n) := by
  unfold spineSelected spineSelectedBy selectedHdr
  cases headerTok d n with
  | none => rfl
  | some h =>
    cases h with
    | header e i => simp [defaultOpts]
    | simple c e k hd => rfl
    | noteRest nn => rfl
    | chord e ns => rfl

theorem appendRow_spec (d : Doc) (n : Node) :
    appendRow d defaultOpts n = cellSpec (d.stages.map (·.map (·.tok))) (skelOf n) n.tok := by
  unfold appendRow cellSpec
  rw [spineSelected_default]
  cases ht : n.tok with
  | none =>
    simp only
    have : cellBody d defaultOpts.cats defaultOpts.enc n = .ok none := by unfold cellBody; rw [ht]
    rw [this]
    split <;> rfl
  | some t =>
    simp only
    rw [headerTok_spec d n t ht]
    have hb : cellBody d defaultOpts.cats defaultOpts.enc n = (cellOfTok t).map some := cellBody_all d n t ht
    rw [hb]
    cases selectedHdr Gen.headers (hdrOfCell (d.stages.map (·.map (·.tok))) (skelOf n) t) <;> rfl

theorem rowOfStage_spec (d : Doc) (st : List Node) :
    rowOfStage d defaultOpts st = rowSpec (d.stages.map (·.map (·.tok))) (st.map skelOf) (st.map (·.tok)) := by
  unfold rowOfStage rowSpec
  have hz : (st.map skelOf).zip (st.map (·.tok)) = st.map (fun n => (skelOf n, n.tok)) := by
    induction st with
    | nil => rfl
    | cons a r ih => simp [ih]
  rw [hz, List.mapM_map]
  have : (fun n => appendRow d defaultOpts n) = ((fun p => cellSpec (d.stages.map (·.map (·.tok))) p.1 p.2) ∘ fun n => (skelOf n, n.tok)) := by
    funext n
    exact appendRow_spec d n
  rw [← this]
  cases st.mapM (appendRow d defaultOpts) with
  | error e => rfl
  | ok cells => rfl

theorem getD_map {α β} (f : α → β) (l : List (List α)) (s : Nat) : (l.map (·.map f))[s]?.getD [] = (l[s]?.getD []).map f := by
  simp only [List.getElem?_map]
  cases l[s]? <;> rfl

theorem bodyRows_spec (d : Doc) :
    bodyRows d defaultOpts 0 (d.stages.length - 1) = specBody (d.stages.map (·.map skelOf)) (d.stages.map (·.map (·.tok))) := by
  unfold bodyRows specBody
  simp only [List.length_map]
  have : (fun s => (do
      let r ← rowOfStage d defaultOpts (d.stages[s]?.getD [])
      pure (s, r) : Except Err (Nat × List Str))) = (fun s => do
      let r ← rowSpec (d.stages.map (·.map (·.tok))) ((d.stages.map (·.map skelOf))[s]?.getD []) ((d.stages.map (·.map (·.tok)))[s]?.getD [])
      pure (s, r)) := by
    funext s
    rw [rowOfStage_spec, getD_map, getD_map]
  rw [this]

/-- **the default export depends on the tree only through its skeleton (header links) and its tokens** -/
theorem export_of_skeleton_tokens (d : Doc) :
    exportString d defaultOpts = specExport (d.stages.map (·.map skelOf)) (d.stages.map (·.map (·.tok))) := by
  rw [C06.C06_export_rows d defaultOpts rfl rfl, bodyRows_spec]
  rfl

/-- **C03, `dumps(loads(text))`.**  For every cell parser and every text without surplus cells that imports: the default export is
    determined by the text through the spine-path tracker alone — line by line and cell by cell, each cell replaced by the **kern text
    of the token its own spine's importer made of it (`cellOfTok`), cells of spines whose `**` type is not a supported one deleted,
    global-comment lines and lines left all-null dropped.  Nothing is invented, dropped or moved to another spine or line. -/
theorem C03_export_of_text (P : CellParser) (rows : List (List Str)) (d : Doc) (h : importRows P rows = .ok d) (hwf : wf rows = true) :
    exportString d defaultOpts = specExport (run rows).skel (TT.run P rows).toks := by
  rw [export_of_skeleton_tokens, C02_tree P rows d h hwf, C02_tokens P rows d h hwf]

/-- for the cells of the grammar the text of a cell is the oracle's (`Spec.cellOutKern`, written from the abstract description of the
    cell alone): with `C03_export_of_text`, when the kern importer builds `tokOf a` for the rendered cell `a`, the export prints
    duration marks, pitch letters, accidental and the sorted set of the note's own signifiers -/
theorem cellOfTok_tokOf (a : ACell)
    (h : match a with
      | .elem e => C03.ElemOk e
      | .chord es => ∀ e ∈ es, C03.ElemOk e
      | .bar b => ∀ x ∈ b.type, (x == tokSep) = false ∧ (x == decSep) = false
      | .other _ t => ∀ x ∈ t, (x == tokSep) = false ∧ (x == decSep) = false)
    (hh : (Abs.tokOf a).hidden = false) :
    cellOfTok (Abs.tokOf a) = (Spec.cellOutKern a).map (fun s => if s.isEmpty then phOf (Abs.tokOf a) else s) := by
  unfold cellOfTok
  have : hdrAdj (Abs.tokOf a) = Abs.tokOf a := by cases a <;> rfl
  rw [this, C03.C03_cell a h]
  simp [hh]

/-! non-vacuity: the parser keeps the text; a comment line, an unsupported spine type, a null line and a split -/
def toyP : CellParser := fun _ c =>
  if c == ['.'] then some (.simple .SimpleToken c .EMPTY false) else some (.simple .SimpleToken c .OTHER false)
def toyRows : List (List Str) :=
  [[['!', '!', 'c']], [['*', '*', 'k', 'e', 'r', 'n'], ['*', '*', 'z', 'z']], [['a'], ['b']], [['.'], ['q']], [['*', '^'], ['*']],
   [['c'], ['d'], ['e']], [['*', '-'], ['*', '-'], ['*', '-']]]
example : wf toyRows = true := by decide +kernel
example : (importRows toyP toyRows).toOption.isSome = true := by decide +kernel
example : specExport (run toyRows).skel (TT.run toyP toyRows).toks =
    .ok "**kern\na\n*^\nc\td\n*-\t*-\n".toList := by decide +kernel

end KM.C03D
