/-
  C13 / C05 / C06 (document level) — what `dumps(loads(text), spine selection, category selection, encoding)` is, for every text and every
  option set without a measure range in the four clef-independent encodings: the grid of the source, where a cell survives iff the
  `**` cell of its own spine is selected (by type and by column id), and is then replaced by a text that depends only on its own token,
  the category selection and the encoding.  The three options act on separate parts of this description.
-/
import KernModel.Export
import KernModel.Spec.TextExport
import KernProofs.C02Tree
import KernProofs.C02Tok
import KernProofs.C06
import KernProofs.C03Doc
namespace KM.C13D
open KM Importer Export Tokz
open KM.Spec.Track
open KM.C02T KM.C02K KM.C03D

theorem tokenize_clefFree (e : Encoding) (he : clefFree e = true) (cats : List Cat) (c1 c2 : Option Str) (t : Tok) :
    Tokz.tokenize e cats c1 t = Tokz.tokenize e cats c2 t := by
  cases e <;> first | rfl | (simp [clefFree] at he)

theorem cellBody_clefFree (d : Doc) (cats : List Cat) (enc : Encoding) (he : clefFree enc = true) (n : Node) (t : Tok) (ht : n.tok = some t) :
    cellBody d cats enc n = (cellOfTokO cats enc t).map some := by
  unfold cellBody cellOfTokO
  rw [ht]
  simp only
  have hph : placeholder n = phOf t := by simp [placeholder, phOf, ht]
  by_cases hc : (t.hidden || !(t.isComplex || cats.contains t.cat)) = true
  · simp only [hc, if_true, hph]
    rfl
  · simp only [hc, Bool.false_eq_true, if_false]
    unfold exportTokenCE
    rw [ht]
    simp only
    rw [tokenize_clefFree enc he cats (clefOf d n) none, hph]
    show (do let s ← Tokz.tokenize enc cats none (hdrAdjE enc t); pure (some (if s.isEmpty = true then phOf t else s))) = _
    cases Tokz.tokenize enc cats none (hdrAdjE enc t) with
    | error e => rfl
    | ok s => rfl

theorem spineSelected_O (d : Doc) (o : Opts) (n : Node) : spineSelected d o n = selectedHdrO o.spineTypes o.spineIds (headerTok d n) := by
  unfold spineSelected spineSelectedBy selectedHdrO
  cases headerTok d n with
  | none => rfl
  | some h => cases h <;> rfl

theorem appendRow_specO (d : Doc) (o : Opts) (he : clefFree o.enc = true) (n : Node) :
    appendRow d o n = cellSpecO o (d.stages.map (·.map (·.tok))) (skelOf n) n.tok := by
  unfold appendRow cellSpecO
  rw [spineSelected_O]
  cases ht : n.tok with
  | none =>
    simp only
    have : cellBody d o.cats o.enc n = .ok none := by unfold cellBody; rw [ht]
    rw [this]
    split <;> rfl
  | some t =>
    simp only
    rw [headerTok_spec d n t ht, cellBody_clefFree d o.cats o.enc he n t ht]
    cases selectedHdrO o.spineTypes o.spineIds (hdrOfCell (d.stages.map (·.map (·.tok))) (skelOf n) t) <;> rfl

theorem rowOfStage_specO (d : Doc) (o : Opts) (he : clefFree o.enc = true) (st : List Node) :
    rowOfStage d o st = rowSpecO o (d.stages.map (·.map (·.tok))) (st.map skelOf) (st.map (·.tok)) := by
  unfold rowOfStage rowSpecO
  have hz : (st.map skelOf).zip (st.map (·.tok)) = st.map (fun n => (skelOf n, n.tok)) := by
    induction st with
    | nil => rfl
    | cons a r ih => simp [ih]
  rw [hz, List.mapM_map]
  have : (fun n => appendRow d o n) = ((fun p => cellSpecO o (d.stages.map (·.map (·.tok))) p.1 p.2) ∘ fun n => (skelOf n, n.tok)) := by
    funext n
    exact appendRow_specO d o he n
  rw [← this]
  cases st.mapM (appendRow d o) with
  | error e => rfl
  | ok cells => rfl

theorem bodyRows_specO (d : Doc) (o : Opts) (he : clefFree o.enc = true) :
    bodyRows d o 0 (d.stages.length - 1) = specBodyO o (d.stages.map (·.map skelOf)) (d.stages.map (·.map (·.tok))) := by
  unfold bodyRows specBodyO
  simp only [List.length_map]
  have : (fun s => (do
      let r ← rowOfStage d o (d.stages[s]?.getD [])
      pure (s, r) : Except Err (Nat × List Str))) = (fun s => do
      let r ← rowSpecO o (d.stages.map (·.map (·.tok))) ((d.stages.map (·.map skelOf))[s]?.getD []) ((d.stages.map (·.map (·.tok)))[s]?.getD [])
      pure (s, r)) := by
    funext s
    rw [rowOfStage_specO d o he, getD_map, getD_map]
  rw [this]

/-- **every export without a measure range in a clef-independent encoding, as a function of the text.** -/
theorem C13_export_of_text (P : CellParser) (rows : List (List Str)) (d : Doc) (h : importRows P rows = .ok d) (hwf : wf rows = true)
    (o : Opts) (hf : o.fromM = none) (ht : o.toM = none) (he : clefFree o.enc = true) :
    exportString d o = specExportO o (run rows).skel (TT.run P rows).toks := by
  rw [C06.C06_export_rows d o hf ht, bodyRows_specO d o he, C02_tree P rows d h hwf, C02_tokens P rows d h hwf]
  rfl

/-- **C13, the options act on separate parts**: whether a cell survives depends on the spine selection alone (and on the header of
    its own spine); what it is replaced by depends on the category selection and the encoding alone (and on its own token) -/
theorem C13_cell_factorises (o : Opts) (toks : List (List (Option Tok))) (sk : Skel) (t : Tok) :
    cellSpecO o toks sk (some t) =
      if selectedHdrO o.spineTypes o.spineIds (hdrOfCell toks sk t) then (cellOfTokO o.cats o.enc t).map some else .ok none := rfl

/-- **C06, projection**: with the categories and the encoding fixed, a narrower spine selection only deletes cells -/
theorem C06_cell_projection (o o' : Opts) (hc : o.cats = o'.cats) (he : o.enc = o'.enc) (toks : List (List (Option Tok))) (sk : Skel) (ot : Option Tok)
    (c : Option Str) (h : cellSpecO o' toks sk ot = .ok c) :
    (cellSpecO o toks sk ot = .ok c) ∨ (cellSpecO o toks sk ot = .ok none) ∨ (c = none) := by
  cases ot with
  | none => left; simpa [cellSpecO] using h
  | some t =>
    simp only [cellSpecO] at h ⊢
    by_cases h1 : selectedHdrO o.spineTypes o.spineIds (hdrOfCell toks sk t) = true
    · by_cases h2 : selectedHdrO o'.spineTypes o'.spineIds (hdrOfCell toks sk t) = true
      · left; simp only [h1, h2, if_true] at h ⊢; rw [hc, he]; exact h
      · right; right
        simp only [h2, Bool.false_eq_true, if_false, Except.ok.injEq] at h
        exact h.symm
    · right; left; simp [h1]

/-- **C05, filtering is cell-wise**: with every category selected the cell is the token's full text; a selection only changes the text
    of each cell, never which cells there are -/
theorem C05_selection_keeps_grid (o o' : Opts) (ht : o.spineTypes = o'.spineTypes) (hi : o.spineIds = o'.spineIds)
    (toks : List (List (Option Tok))) (sk : Skel) (t : Tok) :
    (∃ e, cellSpecO o toks sk (some t) = .error e) ∨ (∃ e, cellSpecO o' toks sk (some t) = .error e) ∨
    ((cellSpecO o toks sk (some t) = .ok none) ↔ (cellSpecO o' toks sk (some t) = .ok none)) := by
  simp only [cellSpecO, ht, hi]
  by_cases h1 : selectedHdrO o'.spineTypes o'.spineIds (hdrOfCell toks sk t) = true
  · simp only [h1, if_true]
    cases h2 : cellOfTokO o.cats o.enc t with
    | error e => left; exact ⟨e, rfl⟩
    | ok s =>
      cases h3 : cellOfTokO o'.cats o'.enc t with
      | error e => right; left; exact ⟨e, rfl⟩
      | ok s' => right; right; simp [Except.map]
  · right; right; simp [h1]
/-! non-vacuity (the text of `C03Doc`): extended encoding, spine 0 selected by id; and a category selection that turns the data cells
    into placeholders -/
example : specExportO { spineTypes := Gen.headers, cats := Cat.all, enc := .ekern, spineIds := some [0] }
      (run C03D.toyRows).skel (TT.run C03D.toyP C03D.toyRows).toks = .ok "**ekern\na\n*^\nc\td\n*-\t*-\n".toList := by decide +kernel
example : specExportO { spineTypes := Gen.headers, cats := [.HEADER, .SPINE_OPERATION], enc := .kern }
      (run C03D.toyRows).skel (TT.run C03D.toyP C03D.toyRows).toks = .ok "**kern\n*^\n*-\t*-\n".toList := by decide +kernel

end KM.C13D
