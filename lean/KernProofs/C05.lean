/-
  C05 — Category filtering removes exactly the unselected material.   (property theorems)

  Notes and rests (always exported, whatever their own category): the filtered export is the *unfiltered* sorted
  sub-token lists with the unselected sub-tokens deleted — selected material is neither altered nor reordered.
  Every other token whose category is not selected (a chord included) becomes the placeholder.  Rows left with
  only placeholders are dropped (`bodyRows`).  The selected set itself is C11's `valid`.
-/
import KernModel.Export
import KernProofs.Lemmas.Sorting
import KernProofs.C04
import KernProofs.C03
import KernProofs.C11
namespace KM.C05
open KM Tokz Export

/-- decorations: sort ∘ filter = filter ∘ sort, for every note and every selection -/
theorem C05_decorations (n : Note) (V : List Cat) :
    (n.dec.filter (fun s => V.contains s.cat)).mergeSort decLe = (n.dec.mergeSort decLe).filter (fun s => V.contains s.cat) :=
  mergeSort_decLe_filter n.dec _

/-- pitch/duration part: the same, for the category-ordered lists the listener builds -/
theorem C05_pitch_duration (n : Note) (V : List Cat) (h : n.pd.Pairwise (fun a b => pdLe a b = true)) :
    (n.pd.filter (fun s => V.contains s.cat)).mergeSort pdLe = (n.pd.mergeSort pdLe).filter (fun s => V.contains s.cat) :=
  mergeSort_pdLe_filter n.pd _ h

/-- **C05, notes and rests.** The exported text of a note under the selection `V` is built from the unfiltered sorted
    parts with exactly the unselected ones deleted. -/
theorem C05_note_text (n : Note) (V : List Cat) (h : n.pd.Pairwise (fun a b => pdLe a b = true)) :
    C04.noteText (fun c => V.contains c) n =
      orEmpty (withDec
        (joinSep [tokSep] (((n.pd.mergeSort pdLe).filter (fun s => V.contains s.cat)).map (·.enc)))
        (joinSep [decSep] (((n.dec.mergeSort decLe).filter (fun s => V.contains s.cat)).map (·.enc)))) := by
  unfold C04.noteText C04.pdText C04.decText
  rw [C05_decorations n V, C05_pitch_duration n V h]

/-- the tokens the listener builds satisfy the ordering hypothesis -/
theorem C05_listener_tokens_ordered (dIF : Option ADur) (hd : C03.DurOk dIF) (e : AElem) :
    (C03.noteOf dIF e).pd.Pairwise (fun a b => pdLe a b = true) := C03.pdOf_sorted dIF hd e

/-- **C05, other tokens.** A token that is not a note/rest and whose category is not selected is replaced by the null
    placeholder (`*` in a signature cell, `.` otherwise) — chords included. -/
theorem C05_placeholder (d : Doc) (V : List Cat) (X : Encoding) (n : Node) (t : Tok) (ht : n.tok = some t)
    (hc : t.isComplex = false) (hv : V.contains t.cat = false) :
    cellBody d V X n = .ok (some (placeholder n)) := by
  unfold cellBody
  simp only [ht, hc, hv, Bool.or_self, Bool.not_false, Bool.or_true, if_true]

theorem C05_placeholder_text (n : Node) (t : Tok) (ht : n.tok = some t) :
    placeholder n = if Spec.isDescOrSelf .SIGNATURES t.cat then ['*'] else ['.'] := by
  unfold placeholder
  simp only [ht, C11.C11_is_child]

/-- a selected, visible non-note token is exported as by the tokenizer (unaltered) -/
theorem C05_selected (d : Doc) (V : List Cat) (X : Encoding) (n : Node) (t : Tok) (ht : n.tok = some t)
    (hh : t.hidden = false) (hv : V.contains t.cat = true) :
    cellBody d V X n = (exportTokenCE d V X n).map (fun s => some (if s.isEmpty then placeholder n else s)) := by
  unfold cellBody
  simp only [ht, hh, hv, Bool.or_true, Bool.not_true, Bool.or_self, Bool.false_eq_true, if_false]
  cases exportTokenCE d V X n <;> rfl

/-- include = everything is the identity on notes: nothing is deleted -/
theorem C05_identity (n : Note) :
    C04.noteText (fun c => Cat.all.contains c) n =
      orEmpty (withDec (joinSep [tokSep] ((n.pd.mergeSort pdLe).map (·.enc))) (joinSep [decSep] ((n.dec.mergeSort decLe).map (·.enc)))) := by
  unfold C04.noteText C04.pdText C04.decText
  have : ∀ l : List Sub, l.filter (fun s => (fun c => Cat.all.contains c) s.cat) = l :=
    fun l => List.filter_eq_self.mpr (fun s _ => by simp [Cat.mem_all])
  rw [this, this]

/-- the selected set is the include categories with their descendants minus the exclude categories with theirs -/
theorem C05_selected_set (inc exc : Hier.Arg) (hi : C11.Arg.wellTyped inc = true) (he : C11.Arg.wellTyped exc = true) :
    ∃ v, Hier.valid hierarchy inc exc = .ok v ∧ ∀ x, x ∈ v ↔ x ∈ Spec.selected (C11.Arg.cats? inc) (C11.Arg.cats? exc) :=
  C11.C11_valid inc exc hi he

/-- rows left with only placeholders are dropped -/
theorem C05_null_rows_dropped (d : Doc) (o : Opts) (f t : Nat) (rows : List (Nat × List Str))
    (h : bodyRows d o f t = .ok rows) : ∀ sr ∈ rows, sr.2 ≠ [] ∧ sr.2.all isNullish = false := by
  unfold bodyRows at h
  simp only [bind, Except.bind, pure, Except.pure] at h
  split at h
  · cases h
  · cases h
    intro sr hsr
    have := (List.mem_filter.mp hsr).2
    simp only [Bool.and_eq_true, Bool.not_eq_true', List.isEmpty_eq_false_iff] at this
    exact ⟨this.1, this.2⟩

end KM.C05
