/-
  C08 — excerpts that start later in the score (`from_measure ≥ 1`), on the core the property names: the spine paths above the first
  line of the excerpt are never split or joined, and every signature stands above the excerpt.  The recovered preamble is then exactly
  the header line followed by the lines of the signatures in force, column by column, each cell being the score's own token.
-/
import KernModel.Export
import KernModel.Spec.Excerpt
import KernProofs.C08
import KernProofs.C08Prefix
import KernProofs.C17Tree
import KernProofs.C15Doc
namespace KM.C08R
open KM Export

/-! ### the hypotheses, as executable tests on the document -/

/-! ### small list facts -/

theorem mapM_ok_of_forall {α β} (f : α → Except Err β) (g : α → β) (l : List α) (h : ∀ x ∈ l, f x = .ok (g x)) :
    l.mapM f = .ok (l.map g) := by
  induction l with
  | nil => rfl
  | cons a t ih =>
    simp only [List.mapM_cons, bind, Except.bind, pure, Except.pure, List.map_cons]
    rw [h a (by simp), ih (fun x hx => h x (by simp [hx]))]

theorem mapM_congr' {α β} (f g : α → Except Err β) (l : List α) (h : ∀ x ∈ l, f x = g x) : l.mapM f = l.mapM g := by
  induction l with
  | nil => rfl
  | cons a t ih =>
    simp only [List.mapM_cons, bind, Except.bind]
    rw [h a (by simp), ih (fun x hx => h x (by simp [hx]))]

theorem optMapM_some {α} (l : List α) : (l.map some).mapM (m := Option) id = some l := by
  induction l with
  | nil => rfl
  | cons a t ih =>
    simp only [List.map_cons, List.mapM_cons, id, bind, Option.bind, pure]
    rw [ih]

/-- the nodes a list of coordinates resolves to -/
theorem resolve_nodes (d : Doc) (coords : List Coord) (ns : List Node)
    (h : coords.map (Doc.nodeAt d.stages) = ns.map some) :
    coords.filterMap (fun c => (Doc.nodeAt d.stages c).map (fun n => (c, n))) = coords.zip ns := by
  induction coords generalizing ns with
  | nil => cases ns <;> simp_all
  | cons c t ih =>
    cases ns with
    | nil => simp at h
    | cons n ns' =>
      simp only [List.map_cons, List.cons.injEq] at h
      simp only [List.filterMap_cons, h.1, Option.map_some, List.zip_cons_cons]
      rw [ih ns' h.2]

theorem zip_map_snd {α β} (l : List α) (m : List β) (h : l.length = m.length) : (l.zip m).map (·.2) = m := by
  induction l generalizing m with
  | nil => cases m <;> simp_all
  | cons a t ih =>
    cases m with
    | nil => simp at h
    | cons b m' => simp only [List.zip_cons_cons, List.map_cons]; rw [ih m' (by simpa using h)]

/-! ### one step of the backwards walk -/

theorem preambleCell_quiet (d : Doc) (o : Opts) (fs : Nat) (cn : Coord × Node) (hq : quietNode cn.2 = true) :
    preambleCell d o fs false cn = .ok (([] : Str), false) := by
  unfold quietNode isHeaderNode at hq
  simp only [Bool.and_eq_true, Bool.not_eq_true'] at hq
  unfold preambleCell
  cases ht : cn.2.tok with
  | none => simp [pure, Except.pure]
  | some t =>
    cases t with
    | header e i => rw [ht] at hq; simp at hq
    | _ => simp [pure, Except.pure]

/-- a line without `**` cells and operators contributes nothing and hands the walk to its parents -/
theorem preambleRow_quiet (d : Doc) (o : Opts) (fs : Nat) (coords : List Coord) (ns : List Node)
    (hres : coords.map (Doc.nodeAt d.stages) = ns.map some)
    (hq : ∀ n ∈ ns, quietNode n = true) :
    preambleRow d o fs coords = .ok ([], false, ns.map (·.parent)) := by
  have hlen : coords.length = ns.length := by simpa using congrArg List.length hres
  unfold preambleRow
  rw [resolve_nodes d coords ns hres]
  have hop : ((coords.zip ns).any (fun cn => isOpNode cn.2)) = false := by
    apply List.any_eq_false.mpr
    intro cn hcn
    have : cn.2 ∈ ns := (List.of_mem_zip hcn).2
    have := hq _ this
    unfold quietNode at this
    simp only [Bool.and_eq_true, Bool.not_eq_true'] at this
    simp [this.2]
  simp only [hop, bind, Except.bind, pure, Except.pure]
  rw [mapM_ok_of_forall (preambleCell d o fs false) (fun _ => (([] : Str), false)) (coords.zip ns)
    (fun cn hcn => preambleCell_quiet d o fs cn (hq _ (List.of_mem_zip hcn).2))]
  simp only [Except.ok.injEq, Prod.mk.injEq]
  refine ⟨?_, ?_, ?_⟩
  · apply List.filter_eq_nil_iff.mpr
    intro s hs
    simp only [List.map_map, List.mem_map] at hs
    obtain ⟨_, _, rfl⟩ := hs
    simp
  · apply List.any_eq_false.mpr
    intro x hx
    simp only [List.mem_map] at hx
    obtain ⟨_, _, rfl⟩ := hx
    simp
  · have : (fun (cn : Coord × Node) => cn.2.parent) = (fun n : Node => n.parent) ∘ (·.2) := rfl
    rw [this, ← List.map_map, zip_map_snd coords ns hlen]

theorem preambleCell_header (d : Doc) (o : Opts) (fs : Nat) (op : Bool) (cn : Coord × Node) (e : Str) (i : Nat)
    (ht : cn.2.tok = some (.header e i)) (hsel : o.spineTypes.contains e = true) :
    preambleCell d o fs op cn = (exportToken d o cn.2).map (fun s => (s, true)) := by
  unfold preambleCell
  rw [ht]
  simp only [hsel, if_true, bind, Except.bind, pure, Except.pure, Except.map]

theorem mapM_map_ok {α β γ} (f : α → Except Err β) (g : β → γ) (l : List α) (r : List β) (h : l.mapM f = .ok r) :
    l.mapM (fun a => (f a).map g) = .ok (r.map g) := by
  induction l generalizing r with
  | nil => simp only [List.mapM_nil, pure, Except.pure, Except.ok.injEq] at h; subst h; rfl
  | cons a t ih =>
    simp only [List.mapM_cons, bind, Except.bind] at h ⊢
    cases ha : f a with
    | error e => rw [ha] at h; cases h
    | ok b =>
      rw [ha] at h
      simp only at h
      cases ht : t.mapM f with
      | error e => rw [ht] at h; cases h
      | ok r' =>
        rw [ht] at h
        simp only [pure, Except.pure, Except.ok.injEq] at h
        subst h
        have := ih r' ht
        simp only [Except.map] at this
        simp only [Except.map, this, pure, Except.pure, List.map_cons]

theorem mapM_length {α β} (f : α → Except Err β) (l : List α) (r : List β) (h : l.mapM f = .ok r) : r.length = l.length := by
  induction l generalizing r with
  | nil => simp only [List.mapM_nil, pure, Except.pure, Except.ok.injEq] at h; subst h; rfl
  | cons a t ih =>
    simp only [List.mapM_cons, bind, Except.bind] at h
    cases ha : f a with
    | error e => rw [ha] at h; cases h
    | ok b =>
      rw [ha] at h
      simp only at h
      cases ht : t.mapM f with
      | error e => rw [ht] at h; cases h
      | ok r' =>
        rw [ht] at h
        simp only [pure, Except.pure, Except.ok.injEq] at h
        subst h
        simp [ih r' ht]

theorem map_fst_pair (H : List Str) : (List.map (fun x : Str × Bool => x.1) (List.map (fun s => (s, true)) H)) = H := by
  induction H with
  | nil => rfl
  | cons a t ih => simp only [List.map_cons, ih]

/-- the line of the `**` cells: every cell is printed and the line is kept -/
theorem preambleRow_header (d : Doc) (o : Opts) (fs : Nat) (coords : List Coord) (ns : List Node) (H : List Str)
    (hres : coords.map (Doc.nodeAt d.stages) = ns.map some)
    (hh : ∀ n ∈ ns, isSelHeader o n = true) (hne : ns ≠ [])
    (hH : ns.mapM (exportToken d o) = .ok H) :
    preambleRow d o fs coords = .ok (H.filter (fun s => !s.isEmpty), true, ns.map (·.parent)) := by
  have hlen : coords.length = ns.length := by simpa using congrArg List.length hres
  unfold preambleRow
  rw [resolve_nodes d coords ns hres]
  simp only [bind, Except.bind, pure, Except.pure]
  have hcell : ∀ cn ∈ coords.zip ns, preambleCell d o fs ((coords.zip ns).any (fun cn => isOpNode cn.2)) cn =
      ((fun cn : Coord × Node => exportToken d o cn.2) cn).map (fun s => (s, true)) := by
    intro cn hcn
    have hn := hh _ (List.of_mem_zip hcn).2
    unfold isSelHeader at hn
    cases ht : cn.2.tok with
    | none => rw [ht] at hn; simp at hn
    | some t =>
      cases t with
      | header e i => rw [ht] at hn; exact preambleCell_header d o fs _ cn e i ht hn
      | _ => rw [ht] at hn; simp at hn
  rw [mapM_congr' _ _ _ hcell]
  have hH' : (coords.zip ns).mapM (fun cn : Coord × Node => exportToken d o cn.2) = .ok H := by
    have : (fun cn : Coord × Node => exportToken d o cn.2) = (exportToken d o) ∘ (·.2) := rfl
    rw [this, ← List.mapM_map, zip_map_snd coords ns hlen]
    exact hH
  rw [mapM_map_ok _ _ _ _ hH']
  have hfst : (List.map (fun x : Str × Bool => x.1) (List.map (fun s => (s, true)) H)) = H := map_fst_pair H
  simp only [Except.ok.injEq, Prod.mk.injEq, hfst]
  have hHlen : H.length = ns.length := mapM_length _ _ _ hH
  refine ⟨trivial, ?_, ?_⟩
  · cases H with
    | nil => cases ns with
      | nil => exact absurd rfl hne
      | cons _ _ => simp at hHlen
    | cons a t => simp
  · have : (fun (cn : Coord × Node) => cn.2.parent) = (fun n : Node => n.parent) ∘ (·.2) := rfl
    rw [this, ← List.map_map, zip_map_snd coords ns hlen]

/-! ### the walk -/

theorem mem_zip_resolve (d : Doc) : ∀ (cs : List Coord) (ns : List Node), cs.map (Doc.nodeAt d.stages) = ns.map some →
    ∀ cn ∈ cs.zip ns, cn.1 ∈ cs ∧ Doc.nodeAt d.stages cn.1 = some cn.2 := by
  intro cs
  induction cs with
  | nil => intro ns _ cn hcn; simp at hcn
  | cons c t ih =>
    intro ns h cn hcn
    cases ns with
    | nil => simp at h
    | cons n ns' =>
      simp only [List.map_cons, List.cons.injEq] at h
      simp only [List.zip_cons_cons, List.mem_cons] at hcn
      rcases hcn with rfl | hcn
      · exact ⟨by simp, h.1⟩
      · obtain ⟨h1, h2⟩ := ih ns' h.2 cn hcn
        exact ⟨by simp [h1], h2⟩

/-- the nodes of a line all of whose cells resolve -/
def nodesAt (d : Doc) (cs : List Coord) : List Node := cs.map (fun c => (Doc.nodeAt d.stages c).getD Doc.rootNode)

theorem silentRow_resolves (d : Doc) (o : Opts) (fs : Nat) (cs : List Coord) (h : silentRow d o fs cs = true) :
    cs.map (Doc.nodeAt d.stages) = (nodesAt d cs).map some ∧
    (nodesAt d cs).map (·.parent) = (parentsOf d cs).map some := by
  unfold silentRow at h
  rw [List.all_eq_true] at h
  generalize rowHasOp d cs = op at h
  unfold nodesAt parentsOf
  induction cs with
  | nil => exact ⟨rfl, rfl⟩
  | cons c t ih =>
    have hc := h c (by simp)
    obtain ⟨i1, i2⟩ := ih (fun x hx => h x (by simp [hx]))
    unfold silentCell at hc
    cases hn : Doc.nodeAt d.stages c with
    | none => rw [hn] at hc; simp at hc
    | some nd =>
      rw [hn] at hc
      simp only [Bool.and_eq_true] at hc
      cases hp : nd.parent with
      | none => rw [hp] at hc; simp at hc
      | some p =>
        constructor
        · simp only [List.map_cons, hn, Option.getD_some, List.map_map] at i1 ⊢
          rw [i1]
        · simp only [List.map_cons, hn, Option.getD_some, List.filterMap_cons, Option.bind_some, hp, List.map_map] at i2 ⊢
          rw [i2]

theorem rowHasOp_zip (d : Doc) (cs : List Coord) (ns : List Node) (h : cs.map (Doc.nodeAt d.stages) = ns.map some) :
    (cs.zip ns).any (fun cn => isOpNode cn.2) = rowHasOp d cs := by
  unfold rowHasOp
  induction cs generalizing ns with
  | nil => cases ns <;> simp_all
  | cons c t ih =>
    cases ns with
    | nil => simp at h
    | cons n ns' =>
      simp only [List.map_cons, List.cons.injEq] at h
      simp only [List.zip_cons_cons, List.any_cons, h.1]
      rw [ih ns' h.2]

/-- what a silent cell contributes -/
def silentOut (d : Doc) (o : Opts) (fs : Nat) (op : Bool) (cn : Coord × Node) : Str × Bool :=
  if op then
    if closedOp d fs cn.1 cn.2 then (['*'], false)
    else match exportToken d o cn.2 with
      | .ok s => (s, true)
      | .error _ => ([], false)
  else ([], false)

theorem preambleCell_silent (d : Doc) (o : Opts) (fs : Nat) (op : Bool) (cn : Coord × Node)
    (hn : Doc.nodeAt d.stages cn.1 = some cn.2) (hs : silentCell d o fs op cn.1 = true) :
    preambleCell d o fs op cn = .ok (silentOut d o fs op cn) ∧ emptyRow [(silentOut d o fs op cn).1] = true := by
  unfold silentCell at hs
  rw [hn] at hs
  simp only [Bool.and_eq_true, Bool.not_eq_true'] at hs
  obtain ⟨⟨hh, _⟩, hop⟩ := hs
  have hnothdr : ∀ e i, cn.2.tok ≠ some (.header e i) := by
    intro e i ht
    unfold isHeaderNode at hh
    rw [ht] at hh
    simp at hh
  unfold preambleCell silentOut
  cases op with
  | false =>
    constructor
    · cases ht : cn.2.tok with
      | none => simp [pure, Except.pure]
      | some t =>
        cases t with
        | header e i => exact absurd ht (hnothdr e i)
        | _ => simp [pure, Except.pure]
    · simp only [Bool.false_eq_true, if_false]; decide
  | true =>
    simp only [if_true] at hop ⊢
    by_cases hcl : closedOp d fs cn.1 cn.2 = true
    · constructor
      · cases ht : cn.2.tok with
        | none => simp [hcl, pure, Except.pure]
        | some t =>
          cases t with
          | header e i => exact absurd ht (hnothdr e i)
          | _ => simp [hcl, pure, Except.pure]
      · simp only [hcl, if_true]; decide
    · have hcl' : closedOp d fs cn.1 cn.2 = false := by simpa using hcl
      simp only [hcl', Bool.false_or] at hop
      cases hex : exportToken d o cn.2 with
      | error e => rw [hex] at hop; simp at hop
      | ok s0 =>
        rw [hex] at hop
        constructor
        · cases ht : cn.2.tok with
          | none => simp [hcl', hex, bind, Except.bind, pure, Except.pure]
          | some t =>
            cases t with
            | header e i => exact absurd ht (hnothdr e i)
            | _ => simp [hcl', hex, bind, Except.bind, pure, Except.pure]
        · simpa [hcl'] using hop

/-- a silent line contributes at most a line of null tokens and hands the walk to its parents -/
theorem preambleRow_silent (d : Doc) (o : Opts) (fs : Nat) (cs : List Coord) (h : silentRow d o fs cs = true) :
    ∃ row keep, preambleRow d o fs cs = .ok (row, keep, (parentsOf d cs).map some) ∧ emptyRow row = true := by
  obtain ⟨hres, hpar⟩ := silentRow_resolves d o fs cs h
  have hlen : cs.length = (nodesAt d cs).length := by simp [nodesAt]
  unfold preambleRow
  rw [resolve_nodes d cs (nodesAt d cs) hres]
  simp only [bind, Except.bind, pure, Except.pure]
  rw [rowHasOp_zip d cs (nodesAt d cs) hres]
  unfold silentRow at h
  rw [List.all_eq_true] at h
  have hcell : ∀ cn ∈ cs.zip (nodesAt d cs), preambleCell d o fs (rowHasOp d cs) cn = .ok (silentOut d o fs (rowHasOp d cs) cn) ∧
      emptyRow [(silentOut d o fs (rowHasOp d cs) cn).1] = true := by
    intro cn hcn
    obtain ⟨h1, h2⟩ := mem_zip_resolve d cs (nodesAt d cs) hres cn hcn
    exact preambleCell_silent d o fs _ cn h2 (h cn.1 h1)
  rw [mapM_ok_of_forall _ (silentOut d o fs (rowHasOp d cs)) _ (fun cn hcn => (hcell cn hcn).1)]
  have hparents : List.map (fun (cn : Coord × Node) => cn.2.parent) (cs.zip (nodesAt d cs)) = (parentsOf d cs).map some := by
    have : (fun (cn : Coord × Node) => cn.2.parent) = (fun n : Node => n.parent) ∘ (·.2) := rfl
    rw [this, ← List.map_map, zip_map_snd cs (nodesAt d cs) hlen, hpar]
  refine ⟨((cs.zip (nodesAt d cs)).map (silentOut d o fs (rowHasOp d cs))).map (·.1) |>.filter (fun s => !s.isEmpty),
    ((cs.zip (nodesAt d cs)).map (silentOut d o fs (rowHasOp d cs))).any (·.2), ?_, ?_⟩
  · simp only [hparents]
  · unfold emptyRow
    rw [List.all_eq_true]
    intro x hx
    have hx' := (List.mem_filter.mp hx).1
    simp only [List.map_map, List.mem_map] at hx'
    obtain ⟨cn, hcn, rfl⟩ := hx'
    have := (hcell cn hcn).2
    unfold emptyRow at this
    simpa using this


theorem headerLine_spec (d : Doc) (o : Opts) (n h : Nat) (c0 : Coord) (hl : headerLine d o n h c0 = true) :
    (rowCoords h n).map (Doc.nodeAt d.stages) = (nodesOf d h n).map some ∧
    (∀ nd ∈ nodesOf d h n, isSelHeader o nd = true) ∧
    (nodesOf d h n).map (·.parent) = (List.replicate n c0).map some := by
  unfold headerLine at hl
  rw [List.all_eq_true] at hl
  have hi : ∀ i ∈ List.range n, ∃ nd, Doc.nodeAt d.stages (h, i) = some nd ∧ isSelHeader o nd = true ∧ nd.parent = some c0 := by
    intro i hi
    have := hl i hi
    cases hn : Doc.nodeAt d.stages (h, i) with
    | none => rw [hn] at this; simp at this
    | some nd =>
      rw [hn] at this
      simp only [Bool.and_eq_true, beq_iff_eq] at this
      exact ⟨nd, rfl, this.1, this.2⟩
  unfold rowCoords nodesOf
  simp only [List.map_map]
  refine ⟨?_, ?_, ?_⟩
  · apply List.map_congr_left
    intro i hir
    obtain ⟨nd, h1, _, _⟩ := hi i hir
    simp [h1]
  · intro nd hnd
    simp only [List.mem_map] at hnd
    obtain ⟨i, hir, rfl⟩ := hnd
    obtain ⟨nd, h1, h2, _⟩ := hi i hir
    simp [h1, h2]
  · have : (List.replicate n c0).map some = (List.range n).map (fun _ => some c0) := by
      rw [List.map_replicate]
      apply List.ext_getElem <;> simp
    rw [this]
    apply List.map_congr_left
    intro i hir
    obtain ⟨nd, h1, _, h3⟩ := hi i hir
    simp [h1, h3]

theorem rowCoords_cons (s n : Nat) (hn : 0 < n) : ∃ rest, rowCoords s n = (s, 0) :: rest := by
  cases n with
  | zero => omega
  | succ m => exact ⟨_, by unfold rowCoords; rw [List.range_succ_eq_map]; rfl⟩

/-- one turn of the loop -/
theorem loop_step (d : Doc) (o : Opts) (fs fuel : Nat) (coords rest : List Coord) (c0 : Coord) (rows : List (List Str))
    (row : List Str) (keep : Bool) (parents : List (Option Coord)) (ps : List Coord)
    (hc : coords = c0 :: rest) (h0 : (c0 == ((0, 0) : Coord)) = false)
    (hr : preambleRow d o fs coords = .ok (row, keep, parents)) (hp : parents.mapM (m := Option) id = some ps) :
    preambleLoop d o fs (fuel + 1) coords rows = preambleLoop d o fs fuel ps (if keep then row :: rows else rows) := by
  subst hc
  rw [preambleLoop]
  simp only [h0, Bool.false_eq_true, if_false, bind, Except.bind]
  rw [hr]
  simp only [hp]

/-- below the `**` cells nothing is printed: global comments, then the root -/
theorem loop_chain (d : Doc) (o : Opts) (fs n : Nat) (hn : 0 < n) :
    ∀ (k : Nat) (c : Coord) (fuel : Nat) (rows : List (List Str)), quietChain d k c = true →
      preambleLoop d o fs fuel (List.replicate n c) rows = .ok rows := by
  intro k
  induction k with
  | zero =>
    intro c fuel rows h
    unfold quietChain at h
    cases fuel with
    | zero => rw [preambleLoop]
    | succ f =>
      obtain ⟨m, rfl⟩ : ∃ m, n = m + 1 := ⟨n - 1, by omega⟩
      rw [List.replicate_succ, preambleLoop]
      simp [h]
  | succ k ih =>
    intro c fuel rows h
    cases fuel with
    | zero => rw [preambleLoop]
    | succ f =>
      obtain ⟨m, rfl⟩ : ∃ m, n = m + 1 := ⟨n - 1, by omega⟩
      by_cases hc : (c == ((0, 0) : Coord)) = true
      · rw [List.replicate_succ, preambleLoop]
        simp [hc]
      · unfold quietChain at h
        simp only [hc, Bool.false_or] at h
        cases hnd : Doc.nodeAt d.stages c with
        | none => rw [hnd] at h; simp at h
        | some nd =>
          rw [hnd] at h
          simp only [Bool.and_eq_true] at h
          cases hp : nd.parent with
          | none => rw [hp] at h; simp at h
          | some p =>
            rw [hp] at h
            have hrow := preambleRow_quiet d o fs (List.replicate (m + 1) c) (List.replicate (m + 1) nd)
              (by simp [List.map_replicate, hnd])
              (by intro x hx; rw [List.eq_of_mem_replicate hx]; exact h.1)
            have hps : ((List.replicate (m + 1) nd).map (·.parent)).mapM (m := Option) id = some (List.replicate (m + 1) p) := by
              have : (List.replicate (m + 1) nd).map (·.parent) = (List.replicate (m + 1) p).map some := by
                simp [List.map_replicate, hp]
              rw [this, optMapM_some]
            rw [loop_step d o fs f (List.replicate (m + 1) c) (List.replicate m c) c rows [] false _ _
              (List.replicate_succ ..) (by simpa using hc) hrow hps]
            simp only [Bool.false_eq_true, if_false]
            exact ih p f rows h.2

/-! ### the signatures in force -/

theorem noSigFrom_spec (d : Doc) (k : TokClass) (s0 : Nat) (h : noSigFrom d k s0 = true) (c : Coord) (nd : Node) (t : Tok)
    (hc : s0 ≤ c.1) (hn : Doc.nodeAt d.stages c = some nd) (ht : nd.tok = some t) : (t.cls == k) = false := by
  unfold noSigFrom at h
  rw [List.all_eq_true] at h
  unfold Doc.nodeAt at hn
  cases hst : d.stages[c.1]? with
  | none => rw [hst] at hn; simp at hn
  | some st =>
    rw [hst] at hn
    simp only [Option.bind_some] at hn
    have hmem : st ∈ d.stages.drop s0 := by
      have : (d.stages.drop s0)[c.1 - s0]? = some st := by
        rw [List.getElem?_drop]
        have : s0 + (c.1 - s0) = c.1 := by omega
        rw [this, hst]
      exact List.mem_of_getElem? this
    have := h st hmem
    rw [List.all_eq_true] at this
    have := this nd (List.mem_of_getElem? hn)
    rw [ht] at this
    simpa using this

theorem parentsEarlier_spec (d : Doc) (h : parentsEarlier d = true) (c p : Coord) (nd : Node)
    (hn : Doc.nodeAt d.stages c = some nd) (hp : nd.parent = some p) : p.1 < c.1 := by
  unfold parentsEarlier at h
  rw [List.all_eq_true] at h
  unfold Doc.nodeAt at hn
  cases hst : d.stages[c.1]? with
  | none => rw [hst] at hn; simp at hn
  | some st =>
    rw [hst] at hn
    simp only [Option.bind_some] at hn
    have hmem : (st, c.1) ∈ d.stages.zipIdx := (List.mem_zipIdx_iff_getElem? (x := (st, c.1))).mpr hst
    have := h (st, c.1) hmem
    simp only at this
    rw [List.all_eq_true] at this
    have := this nd (List.mem_of_getElem? hn)
    rw [hp] at this
    simpa using this

/-- a signature that is not declared again at or below the first line of the excerpt is never "cancelled" -/
theorem sigCancelled_false (d : Doc) (k : TokClass) (s0 : Nat) (hno : noSigFrom d k s0 = true) (hpe : parentsEarlier d = true) :
    ∀ (fuel : Nat) (c : Coord) (fsx ts : Nat), s0 ≤ c.1 → sigCancelled d k fuel c fsx ts = false := by
  intro fuel
  induction fuel with
  | zero => intro c fsx ts _; rfl
  | succ f ih =>
    intro c fsx ts hc
    rw [sigCancelled]
    cases hn : Doc.nodeAt d.stages c with
    | none => rfl
    | some nd =>
      simp only
      cases ht : nd.tok with
      | none => rfl
      | some t =>
        simp only
        have := noSigFrom_spec d k s0 hno c nd t hc hn ht
        simp only [this, Bool.false_eq_true, if_false]
        split
        · rfl
        · split
          · apply List.any_eq_false.mpr
            intro ch hch
            obtain ⟨nch, hnch, hpar⟩ := (C17T.mem_children d.stages c ch).mp hch
            have := parentsEarlier_spec d hpe ch c nch hnch hpar
            rw [ih ch (fsx + 1) ts (by omega)]
            simp
          · rfl

theorem sigColumn_all (d : Doc) (o : Opts) (fs ts : Nat) (hset : sigsSettled d fs = true) (hpe : parentsEarlier d = true)
    (ni : Node × Nat) (hmem : ni.1 ∈ d.stages[fs]?.getD []) :
    sigColumn d o fs ts ni = sigColumnAll d o ni.1 := by
  unfold sigColumn sigColumnAll
  unfold sigsSettled at hset
  rw [List.all_eq_true] at hset
  have h1 := hset ni.1 hmem
  rw [List.all_eq_true] at h1
  have : ni.1.sigs.filter (fun (kc : TokClass × Coord) => !sigCancelled d kc.1 (d.stages.length + 1) (fs, ni.2) fs ts) = ni.1.sigs := by
    apply List.filter_eq_self.mpr
    intro kc hkc
    rw [sigCancelled_false d kc.1 fs (h1 kc hkc) hpe _ (fs, ni.2) fs ts (Nat.le_refl _)]
    rfl
  show (do
    let live := ni.1.sigs.filter (fun (kc : TokClass × Coord) => !sigCancelled d kc.1 (d.stages.length + 1) (fs, ni.2) fs ts)
    live.mapM (fun (kc : TokClass × Coord) => match Doc.nodeAt d.stages kc.2 with
      | some sn => exportToken d o sn
      | none => .error .other) : Except Err (List Str)) = _
  simp only [this]
  rfl

theorem signatureRows_settled (d : Doc) (o : Opts) (fs ts : Nat) (hset : sigsSettled d fs = true) (hpe : parentsEarlier d = true) :
    signatureRows d o fs ts = (do
      let cols ← (d.stages[fs]?.getD []).mapM (sigColumnAll d o)
      sigTranspose cols) := by
  unfold signatureRows
  have : (d.stages[fs]?.getD []).zipIdx.mapM (sigColumn d o fs ts) = (d.stages[fs]?.getD []).mapM (sigColumnAll d o) := by
    rw [mapM_congr' (sigColumn d o fs ts) ((sigColumnAll d o) ∘ (·.1)) _
      (fun ni hni => sigColumn_all d o fs ts hset hpe ni (by
        have := (List.mem_zipIdx_iff_getElem? (x := ni)).mp hni
        exact List.mem_of_getElem? this))]
    rw [← List.mapM_map]
    congr 1
    exact List.zipIdx_map_fst 0 _
  simp only [bind, Except.bind] at this ⊢
  rw [this]

/-! ### the walk as a whole -/

theorem parentsOf_head (d : Doc) (o : Opts) (fs : Nat) (c0 : Coord) (rest : List Coord) (h : silentRow d o fs (c0 :: rest) = true) :
    ∃ nd p, Doc.nodeAt d.stages c0 = some nd ∧ nd.parent = some p ∧ (parentsOf d (c0 :: rest)).head? = some p := by
  unfold silentRow at h
  rw [List.all_eq_true] at h
  have hc := h c0 (by simp)
  unfold silentCell at hc
  cases hn : Doc.nodeAt d.stages c0 with
  | none => rw [hn] at hc; simp at hc
  | some nd =>
    rw [hn] at hc
    simp only [Bool.and_eq_true] at hc
    cases hp : nd.parent with
    | none => rw [hp] at hc; simp at hc
    | some p => exact ⟨nd, p, rfl, hp, by simp [parentsOf, hn, hp]⟩

/-- from the first line of the excerpt up to the line of the `**` cells only lines of null tokens are collected -/
theorem loop_walk (d : Doc) (o : Opts) (fs n h : Nat) (hn : 0 < n) (hpe : parentsEarlier d = true) :
    ∀ (k : Nat) (cs : List Coord) (fuel : Nat) (rows : List (List Str)), walkUp d o fs n h k cs = true →
      (∀ c0, cs.head? = some c0 → c0.1 < fuel) →
      ∃ fuel' S, h < fuel' ∧ (∀ r ∈ S, emptyRow r = true) ∧
        preambleLoop d o fs fuel cs rows = preambleLoop d o fs fuel' (rowCoords h n) (S ++ rows) := by
  have base : ∀ (cs : List Coord) (fuel : Nat) (rows : List (List Str)), cs = rowCoords h n → (∀ c0, cs.head? = some c0 → c0.1 < fuel) →
      ∃ fuel' S, h < fuel' ∧ (∀ r ∈ S, emptyRow r = true) ∧
        preambleLoop d o fs fuel cs rows = preambleLoop d o fs fuel' (rowCoords h n) (S ++ rows) := by
    intro cs fuel rows hcs hf
    subst hcs
    obtain ⟨rest, hrest⟩ := rowCoords_cons h n hn
    exact ⟨fuel, [], hf (h, 0) (by rw [hrest]; rfl), by simp, rfl⟩
  intro k
  induction k with
  | zero =>
    intro cs fuel rows hw hf
    unfold walkUp at hw
    exact base cs fuel rows (by simpa using hw) hf
  | succ k ih =>
    intro cs fuel rows hw hf
    by_cases hcs : cs = rowCoords h n
    · exact base cs fuel rows hcs hf
    · unfold walkUp at hw
      have hb : (cs == rowCoords h n) = false := by simpa using hcs
      simp only [hb, Bool.false_or] at hw
      cases cs with
      | nil => simp at hw
      | cons c0 rest =>
        simp only [Bool.and_eq_true, decide_eq_true_eq] at hw
        obtain ⟨⟨hlt, hsil⟩, hw'⟩ := hw
        have hc0 := hf c0 rfl
        obtain ⟨f, rfl⟩ : ∃ f, fuel = f + 1 := ⟨fuel - 1, by omega⟩
        obtain ⟨row, keep, hrow, hempty⟩ := preambleRow_silent d o fs (c0 :: rest) hsil
        obtain ⟨nd, p, hnd, hp, hhead⟩ := parentsOf_head d o fs c0 rest hsil
        have hpl := parentsEarlier_spec d hpe c0 p nd hnd hp
        have h0 : (c0 == ((0, 0) : Coord)) = false := by
          have : c0.1 ≠ 0 := by omega
          cases c0 with
          | mk a b => simp at this ⊢; intro ha; exact absurd ha this
        rw [loop_step d o fs f (c0 :: rest) rest c0 rows row keep _ _ rfl h0 hrow (optMapM_some _)]
        obtain ⟨fuel', S, hf', hS, heq⟩ := ih (parentsOf d (c0 :: rest)) f (if keep then row :: rows else rows) hw'
          (by intro c1 hc1; rw [hhead] at hc1; cases hc1; omega)
        cases keep with
        | false =>
          simp only [Bool.false_eq_true, if_false] at heq ⊢
          exact ⟨fuel', S, hf', hS, heq⟩
        | true =>
          simp only [if_true] at heq ⊢
          refine ⟨fuel', S ++ [row], hf', ?_, ?_⟩
          · intro r hr
            rcases List.mem_append.mp hr with hr | hr
            · exact hS r hr
            · simp only [List.mem_singleton] at hr; subst hr; exact hempty
          · rw [heq]; simp

/-- **the backwards walk recovers the header line and, besides it, only lines of null tokens** -/
theorem preamble_flat (d : Doc) (o : Opts) (fs n h : Nat) (c0 : Coord) (k k' fuel : Nat) (H : List Str)
    (hn : 0 < n) (hh : 0 < h) (hfuel : fs < fuel) (hpe : parentsEarlier d = true)
    (hal : walkUp d o fs n h k (rowCoords fs n) = true) (hl : headerLine d o n h c0 = true) (hch : quietChain d k' c0 = true)
    (hH : (nodesOf d h n).mapM (exportToken d o) = .ok H) :
    ∃ S, (∀ r ∈ S, emptyRow r = true) ∧
      preambleLoop d o fs fuel (rowCoords fs n) [] = .ok (H.filter (fun s => !s.isEmpty) :: S) := by
  obtain ⟨fuel', S, hf', hS, heq⟩ := loop_walk d o fs n h hn hpe k (rowCoords fs n) fuel [] hal
    (by intro c1 hc1
        obtain ⟨rest, hrest⟩ := rowCoords_cons fs n hn
        rw [hrest] at hc1
        cases hc1
        exact hfuel)
  refine ⟨S, hS, ?_⟩
  rw [heq]
  obtain ⟨f, rfl⟩ : ∃ f, fuel' = f + 1 := ⟨fuel' - 1, by omega⟩
  obtain ⟨h1, h2, h3⟩ := headerLine_spec d o n h c0 hl
  obtain ⟨rest, hrest⟩ := rowCoords_cons h n hn
  have hne : nodesOf d h n ≠ [] := by
    unfold nodesOf
    intro e
    have := congrArg List.length e
    simp at this
    omega
  have hrow := preambleRow_header d o fs (rowCoords h n) (nodesOf d h n) H h1 h2 hne hH
  have hps : ((nodesOf d h n).map (·.parent)).mapM (m := Option) id = some (List.replicate n c0) := by
    rw [h3, optMapM_some]
  have h0 : ((h, 0) == ((0, 0) : Coord)) = false := by
    have : h ≠ 0 := by omega
    simp [this]
  rw [loop_step d o fs f (rowCoords h n) rest (h, 0) _ _ true _ _ hrest h0 hrow hps]
  simp only [if_true, List.append_nil]
  exact loop_chain d o fs n hn k' c0 f _ hch

/-! ### the excerpt -/

/-- **C08, the recovered preamble of a later excerpt**: on the core, the lines in front of the first line of the excerpt are the
    line of the `**` cells (each printed as the header of its own spine), lines `S` that hold nothing but null tokens (they are dropped
    when the text is written), and the signatures in force on every spine path - the entries of `last_signature_nodes` of the first
    line, which by `C10_sigs_recurrence` are the nearest signatures above it on that path -, nothing else: no open operator, no line
    of an unselected spine, no signature twice. -/
theorem C08_preamble_flat (d : Doc) (o : Opts) (fs ts n h : Nat) (c0 : Coord) (H : List Str)
    (hcore : flatCore d o fs n h c0 = true)
    (hH : (nodesOf d h n).mapM (exportToken d o) = .ok H) :
    ∃ S, (∀ r ∈ S, emptyRow r = true) ∧
      preambleOf d o fs ts = (sigRowsAll d o fs).map (fun sig => (H.filter (fun s => !s.isEmpty) :: S) ++ sig) := by
  unfold flatCore at hcore
  simp only [Bool.and_eq_true, decide_eq_true_eq, beq_iff_eq] at hcore
  obtain ⟨⟨⟨⟨⟨⟨⟨⟨hn, hh⟩, hfs⟩, hlen⟩, hal⟩, hl⟩, hch⟩, hset⟩, hpe⟩ := hcore
  obtain ⟨S, hS, hloop⟩ := preamble_flat d o fs n h c0 d.stages.length d.stages.length (d.stages.length + 1) H hn hh (by omega) hpe hal hl hch hH
  refine ⟨S, hS, ?_⟩
  unfold preambleOf
  have hcoords : (List.range ((d.stages[fs]?.getD []).length)).map (fun i => (fs, i)) = rowCoords fs n := by
    rw [hlen]; rfl
  rw [hcoords]
  simp only []
  rw [hloop, signatureRows_settled d o fs ts hset hpe]
  unfold sigRowsAll
  simp only [bind, Except.bind, pure, Except.pure, Except.map]

/-- **C08, a later excerpt as a whole** (`from_measure ≥ 1`): header line, lines of null tokens, signatures in force, the lines of the
    measures unchanged (`C08_body_is_full_score_rows`), the synthetic terminator. -/
theorem C08_excerpt_flat (d : Doc) (o : Opts) (fs n h : Nat) (c0 : Coord) (H : List Str) (sig : List (List Str))
    (hfrom : hasFrom o = true) (hv : validate d o = .ok ()) (hfs : startStageOf d o = .ok fs)
    (hcore : flatCore d o fs n h c0 = true)
    (hH : (nodesOf d h n).mapM (exportToken d o) = .ok H)
    (hsig : sigRowsAll d o fs = .ok sig) :
    ∃ S, (∀ r ∈ S, emptyRow r = true) ∧
      exportParts d o = (bodyRows d o fs (toStageOf d o)).map (fun body =>
        ⟨(H.filter (fun s => !s.isEmpty) :: S) ++ sig, body,
         terminatorFor o (((H.filter (fun s => !s.isEmpty) :: S) ++ sig) ++ body.map (·.2))⟩) := by
  obtain ⟨S, hS, hpre⟩ := C08_preamble_flat d o fs (toStageOf d o) n h c0 H hcore hH
  refine ⟨S, hS, ?_⟩
  unfold exportParts fromPart
  simp only [hv, hfrom, if_true, hfs, bind, Except.bind, pure, Except.pure]
  rw [hpre, hsig]
  simp only [Except.map]

theorem renderRows_append (a b : List (List Str)) : renderRows (a ++ b) = renderRows a ++ renderRows b := by
  unfold renderRows
  rw [List.filter_append, List.flatMap_append]

theorem renderRows_silent (S : List (List Str)) (hS : ∀ r ∈ S, emptyRow r = true) : renderRows S = [] := by
  unfold renderRows
  have : S.filter (fun r => !emptyRow r) = [] := by
    apply List.filter_eq_nil_iff.mpr
    intro r hr
    simp [hS r hr]
  rw [this]; rfl

theorem terminatorFor_last (o : Opts) (X Y B : List (List Str)) (hB : B ≠ []) : terminatorFor o (X ++ B) = terminatorFor o (Y ++ B) := by
  unfold terminatorFor
  have hl : ∀ Z : List (List Str), (Z ++ B).getLast? = B.getLast? := by
    intro Z
    rw [List.getLast?_append]
    cases hb : B.getLast? with
    | none => exact absurd (List.getLast?_eq_none_iff.mp hb) hB
    | some b => rfl
  rw [hl X, hl Y]

/-- **C08, the text of a later excerpt on the core** -/
theorem C08_excerpt_spec (d : Doc) (o : Opts) (r : Str) (h : specExcerpt d o = some r) : exportString d o = .ok r := by
  unfold specExcerpt at h
  cases hf : hasFrom o with
  | false => simp [hf] at h
  | true =>
    simp only [hf, Bool.not_true, Bool.false_eq_true, if_false] at h
    cases hv : validate d o with
    | error e => simp [hv] at h
    | ok u =>
      cases u
      cases hs : startStageOf d o with
      | error e => simp [hv, hs] at h
      | ok fs =>
        simp only [hv, hs] at h
        cases hc : flatCoreOf d o fs with
        | false => simp [hc] at h
        | true =>
          simp only [hc, Bool.not_true, Bool.false_eq_true, if_false] at h
          cases hH : (nodesOf d (coreParams d fs).2.1 (coreParams d fs).1).mapM (exportToken d o) with
          | error e => simp [hH] at h
          | ok H =>
            cases hsig : sigRowsAll d o fs with
            | error e => simp [hH, hsig] at h
            | ok sig =>
              cases hbody : bodyRows d o fs (toStageOf d o) with
              | error e => simp [hH, hsig, hbody] at h
              | ok body =>
                simp only [hH, hsig, hbody] at h
                cases hbe : body.isEmpty with
                | true => simp [hbe] at h
                | false =>
                  simp only [hbe, Bool.false_eq_true, if_false, Option.some.injEq] at h
                  subst h
                  unfold flatCoreOf at hc
                  obtain ⟨S, hS, hparts⟩ := C08_excerpt_flat d o fs _ _ _ H sig hf hv hs hc hH hsig
                  unfold exportString
                  rw [hparts, hbody]
                  simp only [Except.map, Parts.rows, Except.ok.injEq]
                  have hB : body.map (·.2) ≠ [] := by
                    intro e
                    cases body with
                    | nil => simp at hbe
                    | cons _ _ => simp at e
                  have hterm := terminatorFor_last o ((H.filter (fun s => !s.isEmpty) :: S) ++ sig)
                    ([H.filter (fun s => !s.isEmpty)] ++ sig) (body.map (·.2)) hB
                  rw [hterm]
                  generalize terminatorFor o ([H.filter (fun s => !s.isEmpty)] ++ sig ++ body.map (·.2)) = T
                  generalize body.map (·.2) = B
                  generalize H.filter (fun s => !s.isEmpty) = Hf
                  have e1 : (Hf :: S) ++ sig ++ B ++ T = [Hf] ++ (S ++ (sig ++ B ++ T)) := by simp
                  have e2 : [Hf] ++ sig ++ B ++ T = [Hf] ++ (sig ++ B ++ T) := by simp
                  rw [e1, e2, renderRows_append, renderRows_append S, renderRows_silent S hS, renderRows_append, List.nil_append, renderRows_append [Hf], renderRows_append (sig ++ B)]

/-! ### the hypotheses are satisfiable: a two-spine score with a reference record, clefs, meters, two measures -/

def toyP : CellParser := fun _ c =>
  if c.head? == some '=' then some (.simple .BarToken c .BARLINES false)
  else if c.take 5 == ['*', 'c', 'l', 'e', 'f'] then some (.simple .ClefToken c .CLEF false)
  else if c.take 2 == ['*', 'M'] then some (.simple .TimeSignatureToken c .TIME_SIGNATURE false)
  else some (.simple .SimpleToken c .EMPTY false)

def toyRows : List (List Str) :=
  [["!!!COM: x".toList], ["**kern".toList, "**kern".toList], ["*clefG2".toList, "*clefF4".toList], ["*M4/4".toList, "*M4/4".toList],
   ["=1".toList, "=1".toList], ["4c".toList, "4d".toList], ["=2".toList, "=2".toList], ["4e".toList, "4f".toList],
   ["==".toList, "==".toList], ["*-".toList, "*-".toList]]

/-- measure 2 of the toy score lies in the core, and the specification gives the excerpt one expects -/
theorem toy_in_core :
    (Importer.importRows toyP toyRows).toOption.bind
      (fun d => specExcerpt d { spineTypes := Gen.headers, cats := Cat.all, fromM := some 2, toM := some 2 })
    = some ("**kern\t**kern\n*clefG2\t*clefF4\n*M4/4\t*M4/4\n=2\t=2\n4e\t4f\n==\t==\n*-\t*-\n".toList) := by
  decide +kernel

/-- a score whose first measure splits the spine and joins it again before the barline -/
def toyRows2 : List (List Str) :=
  [["**kern".toList], ["*clefG2".toList], ["=1".toList], ["*^".toList], ["4c".toList, "4e".toList], ["*v".toList, "*v".toList],
   ["=2".toList], ["4d".toList], ["==".toList], ["*-".toList]]

/-- measure 2 lies in the core although a split was opened and closed above it: the operators leave no trace in the excerpt -/
theorem toy_closed_split_in_core :
    (Importer.importRows toyP toyRows2).toOption.bind
      (fun d => specExcerpt d { spineTypes := Gen.headers, cats := Cat.all, fromM := some 2, toM := some 2 })
    = some "**kern\n*clefG2\n=2\n4d\n==\n*-\n".toList := by
  decide +kernel

end KM.C08R
