/-
  C17 — Token queries agree with the tree and with each other.   (property theorems)

  * `dfs_iterative` (explicit stack, children pushed in reverse so that the first child is on top) visits every rose
    tree in preorder — for every tree, by induction with the stack as the induction invariant;
  * the filtered listing is the sub-sequence of the full listing whose category lies in the closure of the filter;
  * the unique listing keeps first occurrences (it is a sub-list without repeated encodings that covers every encoding);
  * frequency counts sum to the length of the listing.
  That the importer's tree is the spine-path tree of the source grid (pre-header comments, each spine depth-first,
  later comments) is C02's subject and is checked here by correspondence against the grid order.
-/
import KernModel.ReadOnly
import KernProofs.C11
namespace KM.C17
open KM ReadOnly

/-! ### the explicit-stack traversal is the preorder, for every rose tree -/

mutual
def pre {α} : RTree α → List α
  | .node a cs => a :: preL cs
def preL {α} : List (RTree α) → List α
  | [] => []
  | t :: ts => pre t ++ preL ts
end

mutual
def size {α} : RTree α → Nat
  | .node _ cs => 1 + sizeL cs
def sizeL {α} : List (RTree α) → Nat
  | [] => 0
  | t :: ts => size t + sizeL ts
end

/-- `Node.dfs_iterative`: pop the top, visit it, push its children (first child on top) -/
def dfsStack {α} : Nat → List (RTree α) → List α → List α
  | 0, _, acc => acc
  | _, [], acc => acc
  | n + 1, .node a cs :: rest, acc => dfsStack n (cs ++ rest) (acc ++ [a])

theorem preL_append {α} (a b : List (RTree α)) : preL (a ++ b) = preL a ++ preL b := by
  induction a with
  | nil => rfl
  | cons t ts ih => simp [preL, ih]

theorem sizeL_append {α} (a b : List (RTree α)) : sizeL (a ++ b) = sizeL a + sizeL b := by
  induction a with
  | nil => simp [sizeL]
  | cons t ts ih => simp [sizeL, ih]; omega

theorem dfsStack_eq {α} (n : Nat) (stack : List (RTree α)) (acc : List α) (h : sizeL stack ≤ n) :
    dfsStack n stack acc = acc ++ preL stack := by
  induction n generalizing stack acc with
  | zero =>
    cases stack with
    | nil => simp [dfsStack, preL]
    | cons t ts =>
      cases t with
      | node a cs => simp [sizeL, size] at h
  | succ n ih =>
    cases stack with
    | nil => simp [dfsStack, preL]
    | cons t ts =>
      cases t with
      | node a cs =>
        simp only [dfsStack]
        rw [ih (cs ++ ts) (acc ++ [a]) (by simp only [sizeL, size, sizeL_append] at h ⊢; omega)]
        simp [preL, pre, preL_append]

/-- **C17, traversal.** With enough fuel (the number of nodes) the stack traversal of any tree is its preorder. -/
theorem C17_dfs_is_preorder {α} (t : RTree α) : dfsStack (size t) [t] [] = pre t := by
  rw [dfsStack_eq (size t) [t] [] (by simp [sizeL])]
  simp [preL]

/-! ### filtered listing = sub-sequence by closure -/

theorem C17_filtered_is_subsequence (d : Doc) (f : List Cat) :
    listing d (some f) = (listing d none).filter (fun t => (Hier.validSets hierarchy f []).contains t.cat) := by
  unfold listing
  simp only
  rw [List.filter_filterMap]
  congr 1
  funext c
  cases Doc.nodeAt d.stages c with
  | none => rfl
  | some n =>
    cases hn : n.tok with
    | none => simp [Option.bind, hn]
    | some t =>
      have h1 : t.cat ∈ Cat.all := Cat.mem_all _
      by_cases h : t.cat ∈ Hier.validSets hierarchy f []
      · simp [Option.bind, hn, h1, h, Option.filter]
      · simp [Option.bind, hn, h1, h, Option.filter]

/-- the categories that pass a filter are exactly its closure (the filter categories with all their descendants) -/
theorem C17_filter_is_closure (f : List Cat) (x : Cat) :
    (Hier.validSets hierarchy f []).contains x = Spec.inClosure f x := by
  rw [Bool.eq_iff_iff]
  simp only [List.contains_iff_mem, C11.mem_validSets]
  constructor
  · intro h; exact h.1
  · intro h; exact ⟨h, by simp [Spec.inClosure]⟩

/-- an empty filter lists nothing -/
theorem C17_empty_filter (d : Doc) : listing d (some []) = [] := by
  rw [C17_filtered_is_subsequence]
  simp [Hier.validSets, Hier.expand]

/-! ### unique listing keeps first occurrences -/

theorem uniqueToks_sublist (l : List Tok) (seen : List Str) : (uniqueToks l seen).Sublist l := by
  induction l generalizing seen with
  | nil => exact List.Sublist.slnil
  | cons t r ih =>
    unfold uniqueToks
    split
    · exact (ih seen).cons t
    · exact (ih _).cons₂ t

theorem uniqueToks_not_seen (l : List Tok) (seen : List Str) : ∀ t ∈ uniqueToks l seen, t.enc ∉ seen := by
  induction l generalizing seen with
  | nil => intro t ht; cases ht
  | cons a r ih =>
    intro t ht
    unfold uniqueToks at ht
    split at ht
    · exact ih seen t ht
    · rename_i hns
      rcases List.mem_cons.mp ht with rfl | ht
      · simpa using hns
      · intro hin
        exact ih _ t ht (List.mem_append_left _ hin)

theorem uniqueToks_nodup (l : List Tok) (seen : List Str) : ((uniqueToks l seen).map (·.enc)).Nodup := by
  induction l generalizing seen with
  | nil => simp [uniqueToks]
  | cons a r ih =>
    unfold uniqueToks
    split
    · exact ih seen
    · simp only [List.map_cons]
      apply List.nodup_cons.mpr
      refine ⟨?_, ih _⟩
      intro hin
      obtain ⟨t, ht, he⟩ := List.mem_map.mp hin
      have := uniqueToks_not_seen r (seen ++ [a.enc]) t ht
      exact this (by simp [he])

theorem uniqueToks_covers (l : List Tok) (seen : List Str) :
    ∀ t ∈ l, t.enc ∈ seen ∨ t.enc ∈ (uniqueToks l seen).map (·.enc) := by
  induction l generalizing seen with
  | nil => intro t ht; cases ht
  | cons a r ih =>
    intro t ht
    unfold uniqueToks
    rcases List.mem_cons.mp ht with rfl | ht
    · split
      · rename_i hs; exact Or.inl (by simpa using hs)
      · exact Or.inr (by simp)
    · split
      · exact ih seen t ht
      · rcases ih (seen ++ [a.enc]) t ht with h | h
        · rcases List.mem_append.mp h with h | h
          · exact Or.inl h
          · simp only [List.mem_singleton] at h
            exact Or.inr (by simp [h])
        · exact Or.inr (by simp only [List.map_cons, List.mem_cons]; exact Or.inr h)

/-- **C17, unique.** The unique listing is a sub-list of the listing (order kept), has no repeated encoding, and every
    encoding of the listing occurs in it: it keeps exactly the first occurrences. -/
theorem C17_unique (l : List Tok) :
    (uniqueToks l []).Sublist l ∧ ((uniqueToks l []).map (·.enc)).Nodup ∧
    ∀ t ∈ l, t.enc ∈ (uniqueToks l []).map (·.enc) := by
  refine ⟨uniqueToks_sublist l [], uniqueToks_nodup l [], fun t ht => ?_⟩
  rcases uniqueToks_covers l [] t ht with h | h
  · cases h
  · exact h

/-! ### frequencies sum to the listing -/

/-- `frequencies`: one entry per encoding, incremented at every occurrence -/
def freqAdd (m : List (Str × Nat)) (e : Str) : List (Str × Nat) :=
  if m.any (fun x => x.1 == e) then m.map (fun x => if x.1 == e then (x.1, x.2 + 1) else x) else m ++ [(e, 1)]

def frequencies (l : List Tok) : List (Str × Nat) := l.foldl (fun m t => freqAdd m t.enc) []

def total (m : List (Str × Nat)) : Nat := (m.map (·.2)).sum

def keysNodup (m : List (Str × Nat)) : Prop := (m.map (·.1)).Nodup

def inc (e : Str) (x : Str × Nat) : Str × Nat := if x.1 == e then (x.1, x.2 + 1) else x

theorem freqAdd_eq (m : List (Str × Nat)) (e : Str) :
    freqAdd m e = if m.any (fun x => x.1 == e) then m.map (inc e) else m ++ [(e, 1)] := rfl

theorem map_inc_noKey (r : List (Str × Nat)) (e : Str) (h : e ∉ r.map (·.1)) : r.map (inc e) = r := by
  have : ∀ y ∈ r, inc e y = id y := by
    intro y hy
    unfold inc
    by_cases hye : (y.1 == e) = true
    · exfalso
      have : y.1 = e := by simpa using hye
      exact h (List.mem_map.mpr ⟨y, hy, this⟩)
    · simp [hye]
  rw [List.map_congr_left this, List.map_id]

theorem keys_map_inc (r : List (Str × Nat)) (e : Str) : (r.map (inc e)).map (·.1) = r.map (·.1) := by
  rw [List.map_map]
  apply List.map_congr_left
  intro y _
  unfold inc
  simp only [Function.comp]
  split <;> rfl

theorem total_map_inc (m : List (Str × Nat)) (e : Str) (hk : keysNodup m) (h : m.any (fun x => x.1 == e) = true) :
    total (m.map (inc e)) = total m + 1 := by
  induction m with
  | nil => simp at h
  | cons x r ih =>
    have hk' : keysNodup r := (List.nodup_cons.mp hk).2
    have hx : x.1 ∉ r.map (·.1) := (List.nodup_cons.mp hk).1
    by_cases hxe : (x.1 == e) = true
    · have he : x.1 = e := by simpa using hxe
      rw [List.map_cons, map_inc_noKey r e (he ▸ hx)]
      simp [total, inc, hxe]; omega
    · have hr : r.any (fun y => y.1 == e) = true := by
        simp only [List.any_cons, hxe, Bool.false_or] at h; exact h
      have ih' := ih hk' hr
      have hx' : inc e x = x := by simp [inc, hxe]
      unfold total at ih' ⊢
      simp only [List.map_cons, hx', List.sum_cons]
      omega

theorem freqAdd_spec (m : List (Str × Nat)) (e : Str) (hk : keysNodup m) :
    total (freqAdd m e) = total m + 1 ∧ keysNodup (freqAdd m e) := by
  rw [freqAdd_eq]
  by_cases h : m.any (fun x => x.1 == e) = true
  · simp only [h, if_true]
    exact ⟨total_map_inc m e hk h, by unfold keysNodup; rw [keys_map_inc]; exact hk⟩
  · simp only [h, Bool.false_eq_true, if_false]
    refine ⟨by simp [total], ?_⟩
    unfold keysNodup
    simp only [List.map_append, List.map_cons, List.map_nil]
    apply List.nodup_append.mpr
    refine ⟨hk, by simp, ?_⟩
    intro a ha b hb
    simp only [List.mem_singleton] at hb
    subst hb
    intro heq; subst heq
    obtain ⟨x, hx, rfl⟩ := List.mem_map.mp ha
    exact h (List.any_eq_true.mpr ⟨x, hx, by simp⟩)

theorem foldl_freq (l : List Tok) (m : List (Str × Nat)) (hk : keysNodup m) :
    total (l.foldl (fun m t => freqAdd m t.enc) m) = total m + l.length := by
  induction l generalizing m with
  | nil => simp
  | cons t r ih =>
    simp only [List.foldl_cons, List.length_cons]
    obtain ⟨h1, h2⟩ := freqAdd_spec m t.enc hk
    rw [ih _ h2, h1]; omega

/-- **C17, frequencies.** The occurrence counts sum to the length of the listing. -/
theorem C17_frequencies_sum (l : List Tok) : total (frequencies l) = l.length := by
  unfold frequencies
  rw [foldl_freq l [] (by simp [keysNodup])]
  simp [total]

/-- the comment query with a key returns exactly the comments with that prefix, in order -/
theorem C17_metacomments_by_key (d : Doc) (k : Str) :
    metacomments d (some k) = (metacomments d none).filter (fun e => (['!', '!', '!'] ++ k).isPrefixOf e) := by
  unfold metacomments
  simp

/-! non-vacuity -/
example : dfsStack 5 [RTree.node 1 [.node 2 [.node 3 []], .node 4 []]] [] = [1, 2, 3, 4] := by decide

end KM.C17
