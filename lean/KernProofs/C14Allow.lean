/-
  C14 — reviewed allow-list of the write sites reachable from the read-only API whose receiver may be visible outside
  the call: parameters, self, globals, and locals that may alias them (generated inventory: `Gen.readOnlyWriteSites`;
  a local counts as private only when every value assigned to it is certainly a new object; in-place operators such as
  `|=` on possibly shared names are sites too).  Every entry was reviewed: the receiver is an object created during the
  same API call (or an immutable value), never the document, a token, a module constant or an argument of the caller.
  A new site breaks `C14_write_sites`.
-/
import KernModel.Basic
namespace KM.C14
open KM

def allowList : List Str := [
  -- document.MetacommentsTraversal.__init__: self.metacomments =    [constructor / property setter of an object created inside the call]
  ['d','o','c','u','m','e','n','t','.','M','e','t','a','c','o','m','m','e','n','t','s','T','r','a','v','e','r','s','a','l','.','_','_','i','n','i','t','_','_',':',' ','s','e','l','f','.','m','e','t','a','c','o','m','m','e','n','t','s',' ','='],
  -- document.MetacommentsTraversal.visit: self.metacomments.append()    [the traversal object is created by the query that uses it]
  ['d','o','c','u','m','e','n','t','.','M','e','t','a','c','o','m','m','e','n','t','s','T','r','a','v','e','r','s','a','l','.','v','i','s','i','t',':',' ','s','e','l','f','.','m','e','t','a','c','o','m','m','e','n','t','s','.','a','p','p','e','n','d','(',')'],
  -- document.TokensTraversal.__init__: self.filter_by_categories =    [constructor / property setter of an object created inside the call]
  ['d','o','c','u','m','e','n','t','.','T','o','k','e','n','s','T','r','a','v','e','r','s','a','l','.','_','_','i','n','i','t','_','_',':',' ','s','e','l','f','.','f','i','l','t','e','r','_','b','y','_','c','a','t','e','g','o','r','i','e','s',' ','='],
  -- document.TokensTraversal.__init__: self.non_repeated =    [constructor / property setter of an object created inside the call]
  ['d','o','c','u','m','e','n','t','.','T','o','k','e','n','s','T','r','a','v','e','r','s','a','l','.','_','_','i','n','i','t','_','_',':',' ','s','e','l','f','.','n','o','n','_','r','e','p','e','a','t','e','d',' ','='],
  -- document.TokensTraversal.__init__: self.seen_encodings =    [constructor / property setter of an object created inside the call]
  ['d','o','c','u','m','e','n','t','.','T','o','k','e','n','s','T','r','a','v','e','r','s','a','l','.','_','_','i','n','i','t','_','_',':',' ','s','e','l','f','.','s','e','e','n','_','e','n','c','o','d','i','n','g','s',' ','='],
  -- document.TokensTraversal.__init__: self.tokens =    [constructor / property setter of an object created inside the call]
  ['d','o','c','u','m','e','n','t','.','T','o','k','e','n','s','T','r','a','v','e','r','s','a','l','.','_','_','i','n','i','t','_','_',':',' ','s','e','l','f','.','t','o','k','e','n','s',' ','='],
  -- document.TokensTraversal.visit: self.seen_encodings.append()    [the traversal object is created by the query that uses it]
  ['d','o','c','u','m','e','n','t','.','T','o','k','e','n','s','T','r','a','v','e','r','s','a','l','.','v','i','s','i','t',':',' ','s','e','l','f','.','s','e','e','n','_','e','n','c','o','d','i','n','g','s','.','a','p','p','e','n','d','(',')'],
  -- document.TokensTraversal.visit: self.tokens.append()    [the traversal object is created by the query that uses it]
  ['d','o','c','u','m','e','n','t','.','T','o','k','e','n','s','T','r','a','v','e','r','s','a','l','.','v','i','s','i','t',':',' ','s','e','l','f','.','t','o','k','e','n','s','.','a','p','p','e','n','d','(',')'],
  -- exporter.ExportOptions.__init__: self.from_measure =    [constructor / property setter of an object created inside the call]
  ['e','x','p','o','r','t','e','r','.','E','x','p','o','r','t','O','p','t','i','o','n','s','.','_','_','i','n','i','t','_','_',':',' ','s','e','l','f','.','f','r','o','m','_','m','e','a','s','u','r','e',' ','='],
  -- exporter.ExportOptions.__init__: self.instruments =    [constructor / property setter of an object created inside the call]
  ['e','x','p','o','r','t','e','r','.','E','x','p','o','r','t','O','p','t','i','o','n','s','.','_','_','i','n','i','t','_','_',':',' ','s','e','l','f','.','i','n','s','t','r','u','m','e','n','t','s',' ','='],
  -- exporter.ExportOptions.__init__: self.kern_type =    [constructor / property setter of an object created inside the call]
  ['e','x','p','o','r','t','e','r','.','E','x','p','o','r','t','O','p','t','i','o','n','s','.','_','_','i','n','i','t','_','_',':',' ','s','e','l','f','.','k','e','r','n','_','t','y','p','e',' ','='],
  -- exporter.ExportOptions.__init__: self.show_measure_numbers =    [constructor / property setter of an object created inside the call]
  ['e','x','p','o','r','t','e','r','.','E','x','p','o','r','t','O','p','t','i','o','n','s','.','_','_','i','n','i','t','_','_',':',' ','s','e','l','f','.','s','h','o','w','_','m','e','a','s','u','r','e','_','n','u','m','b','e','r','s',' ','='],
  -- exporter.ExportOptions.__init__: self.spine_ids =    [constructor / property setter of an object created inside the call]
  ['e','x','p','o','r','t','e','r','.','E','x','p','o','r','t','O','p','t','i','o','n','s','.','_','_','i','n','i','t','_','_',':',' ','s','e','l','f','.','s','p','i','n','e','_','i','d','s',' ','='],
  -- exporter.ExportOptions.__init__: self.spine_types =    [constructor / property setter of an object created inside the call]
  ['e','x','p','o','r','t','e','r','.','E','x','p','o','r','t','O','p','t','i','o','n','s','.','_','_','i','n','i','t','_','_',':',' ','s','e','l','f','.','s','p','i','n','e','_','t','y','p','e','s',' ','='],
  -- exporter.ExportOptions.__init__: self.to_measure =    [constructor / property setter of an object created inside the call]
  ['e','x','p','o','r','t','e','r','.','E','x','p','o','r','t','O','p','t','i','o','n','s','.','_','_','i','n','i','t','_','_',':',' ','s','e','l','f','.','t','o','_','m','e','a','s','u','r','e',' ','='],
  -- exporter.ExportOptions.__init__: self.token_categories =    [constructor / property setter of an object created inside the call]
  ['e','x','p','o','r','t','e','r','.','E','x','p','o','r','t','O','p','t','i','o','n','s','.','_','_','i','n','i','t','_','_',':',' ','s','e','l','f','.','t','o','k','e','n','_','c','a','t','e','g','o','r','i','e','s',' ','='],
  -- exporter.Exporter.append_row: row.append()    [the row list is created by export_string for each stage]
  ['e','x','p','o','r','t','e','r','.','E','x','p','o','r','t','e','r','.','a','p','p','e','n','d','_','r','o','w',':',' ','r','o','w','.','a','p','p','e','n','d','(',')'],
  -- exporter.Exporter.export_string: row.append()    [row is either the fresh list of this stage or an element of the local list of rows built in this call]
  ['e','x','p','o','r','t','e','r','.','E','x','p','o','r','t','e','r','.','e','x','p','o','r','t','_','s','t','r','i','n','g',':',' ','r','o','w','.','a','p','p','e','n','d','(',')'],
  -- gkern.Clef.__init__: self.diatonic_pitch =    [constructor / property setter of an object created inside the call]
  ['g','k','e','r','n','.','C','l','e','f','.','_','_','i','n','i','t','_','_',':',' ','s','e','l','f','.','d','i','a','t','o','n','i','c','_','p','i','t','c','h',' ','='],
  -- gkern.Clef.__init__: self.on_line =    [constructor / property setter of an object created inside the call]
  ['g','k','e','r','n','.','C','l','e','f','.','_','_','i','n','i','t','_','_',':',' ','s','e','l','f','.','o','n','_','l','i','n','e',' ','='],
  -- gkern.DiatonicPitch.__init__: self.encoding =    [constructor / property setter of an object created inside the call]
  ['g','k','e','r','n','.','D','i','a','t','o','n','i','c','P','i','t','c','h','.','_','_','i','n','i','t','_','_',':',' ','s','e','l','f','.','e','n','c','o','d','i','n','g',' ','='],
  -- gkern.GKernExporter.__init__: self.clef =    [constructor / property setter of an object created inside the call]
  ['g','k','e','r','n','.','G','K','e','r','n','E','x','p','o','r','t','e','r','.','_','_','i','n','i','t','_','_',':',' ','s','e','l','f','.','c','l','e','f',' ','='],
  -- gkern.PitchPositionReferenceSystem.__init__: self.base_pitch =    [constructor / property setter of an object created inside the call]
  ['g','k','e','r','n','.','P','i','t','c','h','P','o','s','i','t','i','o','n','R','e','f','e','r','e','n','c','e','S','y','s','t','e','m','.','_','_','i','n','i','t','_','_',':',' ','s','e','l','f','.','b','a','s','e','_','p','i','t','c','h',' ','='],
  -- gkern.PositionInStaff.__init__: self.line_space =    [constructor / property setter of an object created inside the call]
  ['g','k','e','r','n','.','P','o','s','i','t','i','o','n','I','n','S','t','a','f','f','.','_','_','i','n','i','t','_','_',':',' ','s','e','l','f','.','l','i','n','e','_','s','p','a','c','e',' ','='],
  -- pitch_models.AgnosticPitch.__init__: self.name =    [constructor / property setter of an object created inside the call]
  ['p','i','t','c','h','_','m','o','d','e','l','s','.','A','g','n','o','s','t','i','c','P','i','t','c','h','.','_','_','i','n','i','t','_','_',':',' ','s','e','l','f','.','n','a','m','e',' ','='],
  -- pitch_models.AgnosticPitch.__init__: self.octave =    [constructor / property setter of an object created inside the call]
  ['p','i','t','c','h','_','m','o','d','e','l','s','.','A','g','n','o','s','t','i','c','P','i','t','c','h','.','_','_','i','n','i','t','_','_',':',' ','s','e','l','f','.','o','c','t','a','v','e',' ','='],
  -- pitch_models.AgnosticPitch.name: self.__name =    [constructor / property setter of an object created inside the call]
  ['p','i','t','c','h','_','m','o','d','e','l','s','.','A','g','n','o','s','t','i','c','P','i','t','c','h','.','n','a','m','e',':',' ','s','e','l','f','.','_','_','n','a','m','e',' ','='],
  -- pitch_models.AgnosticPitch.octave: self.__octave =    [constructor / property setter of an object created inside the call]
  ['p','i','t','c','h','_','m','o','d','e','l','s','.','A','g','n','o','s','t','i','c','P','i','t','c','h','.','o','c','t','a','v','e',':',' ','s','e','l','f','.','_','_','o','c','t','a','v','e',' ','='],
  -- pitch_models.HumdrumPitchImporter.import_pitch: self.name =    [the pitch importer is created by the converter callback for each pitch]
  ['p','i','t','c','h','_','m','o','d','e','l','s','.','H','u','m','d','r','u','m','P','i','t','c','h','I','m','p','o','r','t','e','r','.','i','m','p','o','r','t','_','p','i','t','c','h',':',' ','s','e','l','f','.','n','a','m','e',' ','='],
  -- pitch_models.HumdrumPitchImporter.import_pitch: self.octave =    [the pitch importer is created by the converter callback for each pitch]
  ['p','i','t','c','h','_','m','o','d','e','l','s','.','H','u','m','d','r','u','m','P','i','t','c','h','I','m','p','o','r','t','e','r','.','i','m','p','o','r','t','_','p','i','t','c','h',':',' ','s','e','l','f','.','o','c','t','a','v','e',' ','='],
  -- pitch_models.PitchExporter.__init__: self.pitch =    [constructor / property setter of an object created inside the call]
  ['p','i','t','c','h','_','m','o','d','e','l','s','.','P','i','t','c','h','E','x','p','o','r','t','e','r','.','_','_','i','n','i','t','_','_',':',' ','s','e','l','f','.','p','i','t','c','h',' ','='],
  -- pitch_models.PitchImporter.__init__: self.name =    [constructor / property setter of an object created inside the call]
  ['p','i','t','c','h','_','m','o','d','e','l','s','.','P','i','t','c','h','I','m','p','o','r','t','e','r','.','_','_','i','n','i','t','_','_',':',' ','s','e','l','f','.','n','a','m','e',' ','='],
  -- pitch_models.PitchImporter.__init__: self.octave =    [constructor / property setter of an object created inside the call]
  ['p','i','t','c','h','_','m','o','d','e','l','s','.','P','i','t','c','h','I','m','p','o','r','t','e','r','.','_','_','i','n','i','t','_','_',':',' ','s','e','l','f','.','o','c','t','a','v','e',' ','='],
  -- tokenizers.AEKernTokenizer.__init__: self.last_clef =    [constructor / property setter of an object created inside the call]
  ['t','o','k','e','n','i','z','e','r','s','.','A','E','K','e','r','n','T','o','k','e','n','i','z','e','r','.','_','_','i','n','i','t','_','_',':',' ','s','e','l','f','.','l','a','s','t','_','c','l','e','f',' ','='],
  -- tokenizers.AKernTokenizer.__init__: self.last_clef =    [constructor / property setter of an object created inside the call]
  ['t','o','k','e','n','i','z','e','r','s','.','A','K','e','r','n','T','o','k','e','n','i','z','e','r','.','_','_','i','n','i','t','_','_',':',' ','s','e','l','f','.','l','a','s','t','_','c','l','e','f',' ','='],
  -- tokenizers.Tokenizer.__init__: self.token_categories =    [constructor / property setter of an object created inside the call]
  ['t','o','k','e','n','i','z','e','r','s','.','T','o','k','e','n','i','z','e','r','.','_','_','i','n','i','t','_','_',':',' ','s','e','l','f','.','t','o','k','e','n','_','c','a','t','e','g','o','r','i','e','s',' ','='],
  -- tokens.NoteRestToken.export: content Add=    [content is a str (immutable): += rebinds the local name]
  ['t','o','k','e','n','s','.','N','o','t','e','R','e','s','t','T','o','k','e','n','.','e','x','p','o','r','t',':',' ','c','o','n','t','e','n','t',' ','A','d','d','=']
]

end KM.C14
