/-
  C10 / C04 (document level, agnostic encodings) — the clef in force at a cell, read off the text: the nearest clef token at or above the
  cell on its own spine path (parent links of the tracker).  With it the agnostic exports are functions of the text too.
-/
import KernModel.Export
import KernModel.Spec.TextExport
import KernProofs.C02Tree
import KernProofs.C02Tok
import KernProofs.C10Doc
import KernProofs.C03Doc
import KernProofs.C13Doc
namespace KM.C10T
open KM Importer Export Tokz
open KM.Spec.Track
open KM.C02T KM.C02K KM.C03D KM.C13D KM.C10D

/-! ### parents lie on earlier lines (a property of the tracker) -/

/-- every live path and the comment anchor point at an earlier line; every skeleton parent of line `s` lies before `s` -/
structure TInv (t : T) : Prop where
  live : ∀ p ∈ t.live, p.1.1 < t.skel.length
  lp : t.lastPre.1 < t.skel.length
  par : ∀ (s i : Nat) (pc : Coord), ((t.skel[s]?.bind (·[i]?)).bind (·.1)) = some pc → pc.1 < s

theorem tinv_init : TInv Spec.Track.init := by
  refine ⟨by intro p hp; simp [Spec.Track.init] at hp, by simp [Spec.Track.init], ?_⟩
  intro s i pc h
  simp only [Spec.Track.init] at h
  cases s with
  | zero =>
    cases i with
    | zero => simp at h
    | succ i' => simp at h
  | succ s' => simp at h

theorem getElem?_append_last {α} (l : List (List α)) (x : List α) (s : Nat) :
    (l ++ [x])[s]? = if s < l.length then l[s]? else if s = l.length then some x else none := by
  by_cases h1 : s < l.length
  · simp [h1, List.getElem?_append_left h1]
  · by_cases h2 : s = l.length
    · subst h2; simp
    · have : l.length + 1 ≤ s := by omega
      simp [h1, h2]
      omega

theorem tinv_step (t : T) (row : List Str) (h : TInv t) : TInv (step t row) := by
  cases row with
  | nil => exact h
  | cons c0 cs =>
    simp only [step]
    by_cases hm : startsWith ['!', '!'] c0 = true
    · simp only [hm, if_true]
      refine ⟨?_, by simp, ?_⟩
      · intro p hp
        have := h.live p hp
        simp only [List.length_append, List.length_singleton]
        omega
      · intro s i pc hq
        simp only at hq
        rw [getElem?_append_last] at hq
        by_cases h1 : s < t.skel.length
        · simp only [h1, if_true] at hq; exact h.par s i pc hq
        · by_cases h2 : s = t.skel.length
          · subst h2
            simp only [Nat.lt_irrefl, if_false, if_true, Option.bind] at hq
            cases i with
            | zero =>
              simp only [List.getElem?_cons_zero, Option.some.injEq] at hq
              subst hq; exact h.lp
            | succ i' => simp at hq
          · simp [h1, h2] at hq
    · simp only [hm, Bool.false_eq_true, if_false]
      refine ⟨?_, by simp only [List.length_append, List.length_singleton]; have := h.lp; omega, ?_⟩
      · intro p hp
        simp only [List.mem_flatMap] at hp
        obtain ⟨ci, _, hp⟩ := hp
        simp only [List.length_append, List.length_singleton]
        unfold cellNext at hp
        by_cases hh : isHeaderCell ci.1 = true
        · simp only [hh, if_true, List.mem_singleton] at hp
          subst hp; simp
        · simp only [hh, Bool.false_eq_true, if_false] at hp
          cases hl : t.live[ci.2]? with
          | none => rw [hl] at hp; simp at hp
          | some q =>
            rw [hl] at hp
            have := emit_mem _ _ _ _ p hp
            subst this; simp
      · intro s i pc hq
        simp only at hq
        rw [getElem?_append_last] at hq
        by_cases h1 : s < t.skel.length
        · simp only [h1, if_true] at hq; exact h.par s i pc hq
        · by_cases h2 : s = t.skel.length
          · subst h2
            simp only [Nat.lt_irrefl, if_false, if_true, Option.bind, List.getElem?_map, List.getElem?_zipIdx] at hq
            cases hg : (c0 :: cs)[i]? with
            | none => rw [hg] at hq; simp at hq
            | some c =>
              rw [hg] at hq
              simp only [Option.map_some, Nat.zero_add] at hq
              unfold cellSkel at hq
              by_cases hh : isHeaderCell c = true
              · simp only [hh, if_true, Option.some.injEq] at hq
                subst hq; exact h.lp
              · simp only [hh, Bool.false_eq_true, if_false] at hq
                cases hl : t.live[i]? with
                | none => rw [hl] at hq; simp at hq
                | some q =>
                  rw [hl] at hq
                  simp only [Option.some.injEq] at hq
                  subst hq
                  exact h.live q (List.mem_of_getElem? hl)
          · simp [h1, h2] at hq

theorem tinv_run (rows : List (List Str)) : ∀ t, TInv t → TInv (rows.foldl step t) := by
  induction rows with
  | nil => intro t h; exact h
  | cons r rs ih => intro t h; exact ih _ (tinv_step t r h)

/-- **parents lie on earlier lines** -/
theorem parent_earlier (rows : List (List Str)) (s i : Nat) (pc : Coord)
    (h : (((run rows).skel[s]?.bind (·[i]?)).bind (·.1)) = some pc) : pc.1 < s :=
  (tinv_run rows _ tinv_init).par s i pc h
/-! ### the clef in force, from skeleton and tokens -/

theorem nodeAt_parent (S : List (List Node)) (c : Coord) :
    (Doc.nodeAt S c).bind (·.parent) = parentAt (S.map (·.map skelOf)) c := by
  unfold Doc.nodeAt parentAt
  simp only [List.getElem?_map]
  cases h1 : S[c.1]? with
  | none => rfl
  | some st =>
    simp only [Option.map_some, Option.bind, List.getElem?_map]
    cases h2 : st[c.2]? with
    | none => rfl
    | some n => rfl

/-- every parent link of an imported tree resolves (restated from the invariant of `C10Doc`) -/
theorem parent_resolves (P : CellParser) (rows : List (List Str)) (d : Doc) (h : importRows P rows = .ok d)
    (c pc : Coord) (n : Node) (hn : Doc.nodeAt d.stages c = some n) (hp : n.parent = some pc) : ∃ p, Doc.nodeAt d.stages pc = some p := by
  unfold importRows at h
  cases hr : runRows P Importer.init rows with
  | error e => rw [hr] at h; cases h
  | ok st =>
    rw [hr] at h
    simp only [Except.map, Except.ok.injEq] at h
    subst h
    exact (runRows_SI P rows _ _ SI_init hr).par c n pc hn hp

/-- every token of the tree is well classed (hypothesis of the signature-table theorem, checked on every explored document) -/
def AllWC (d : Doc) : Prop := ∀ c n tk, Doc.nodeAt d.stages c = some n → n.tok = some tk → WCtok tk

/-- **the clef entry of a node's signature table is the nearest clef token at or above it on its spine path** -/
theorem clef_is_nearest (P : CellParser) (rows : List (List Str)) (d : Doc) (h : importRows P rows = .ok d) (hwf : wf rows = true)
    (hwc : AllWC d) :
    ∀ (f : Nat) (c : Coord) (n : Node), Doc.nodeAt d.stages c = some n → c.1 < f →
      lookup TokClass.ClefToken n.sigs = clefCoord (d.stages.map (·.map skelOf)) (d.stages.map (·.map (·.tok))) f c := by
  intro f
  induction f with
  | zero => intro c n _ hf; omega
  | succ f ih =>
    intro c n hn hf
    have hrec := C10_sigs_recurrence P rows d h c n hn (fun tk htk => hwc c n tk hn htk) .ClefToken
    have htok : hdrTokAt (d.stages.map (·.map (·.tok))) c = n.tok := by
      rw [← nodeAt_tok, hn]; rfl
    have hpar : parentAt (d.stages.map (·.map skelOf)) c = n.parent := by
      rw [← nodeAt_parent, hn]; rfl
    -- the parent's entry, by induction
    have hps : parentSigs d.stages n .ClefToken =
        (n.parent).bind (clefCoord (d.stages.map (·.map skelOf)) (d.stages.map (·.map (·.tok))) f) := by
      unfold parentSigs
      cases hp : n.parent with
      | none => rfl
      | some pc =>
        obtain ⟨p, hpn⟩ := parent_resolves P rows d h c pc n hn hp
        have hearlier : pc.1 < c.1 := by
          have hsk := C02_tree P rows d h hwf
          have : parentAt (run rows).skel c = some pc := by rw [← hsk, hpar, hp]
          exact parent_earlier rows c.1 c.2 pc this
        simp only [Option.bind, hpn]
        exact ih pc p hpn (by omega)
    simp only [clefCoord, htok, hpar]
    rw [hrec, hps]
    cases ht : n.tok with
    | none => simp [ownSig, ht]
    | some t =>
      simp only [ownSig, ht]
      by_cases hc : t.cls = .ClefToken
      · simp [hc, TokClass.isSignature]
      · have : (t.cls == TokClass.ClefToken) = false := by simpa using hc
        simp [this]

theorem clefOf_spec (P : CellParser) (rows : List (List Str)) (d : Doc) (h : importRows P rows = .ok d) (hwf : wf rows = true)
    (hwc : AllWC d) (c : Coord) (n : Node) (hn : Doc.nodeAt d.stages c = some n) :
    clefOf d n = clefTextAt (d.stages.map (·.map skelOf)) (d.stages.map (·.map (·.tok))) c := by
  unfold clefOf clefTextAt
  rw [clef_is_nearest P rows d h hwf hwc (c.1 + 1) c n hn (by omega)]
  cases hcc : clefCoord (d.stages.map (·.map skelOf)) (d.stages.map (·.map (·.tok))) (c.1 + 1) c with
  | none => rfl
  | some cc =>
    simp only [Option.bind]
    rw [← nodeAt_tok]
    cases Doc.nodeAt d.stages cc <;> rfl

/-! ### every export without a measure range, agnostic encodings included, as a function of the text -/

theorem cellBody_any (d : Doc) (cats : List Cat) (enc : Encoding) (n : Node) (t : Tok) (ht : n.tok = some t) :
    cellBody d cats enc n = (cellOfTokC cats enc (clefOf d n) t).map some := by
  unfold cellBody cellOfTokC
  rw [ht]
  simp only
  have hph : placeholder n = phOf t := by simp [placeholder, phOf, ht]
  by_cases hc : (t.hidden || !(t.isComplex || cats.contains t.cat)) = true
  · simp only [hc, if_true, hph]
    rfl
  · simp only [hc, Bool.false_eq_true, if_false]
    unfold exportTokenCE
    rw [ht]
    simp only
    rw [hph]
    show (do let s ← Tokz.tokenize enc cats (clefOf d n) (hdrAdjE enc t); pure (some (if s.isEmpty = true then phOf t else s))) = _
    cases Tokz.tokenize enc cats (clefOf d n) (hdrAdjE enc t) with
    | error e => rfl
    | ok s => rfl

theorem mapM_zipIdx_congr {α β} (f : α → Except Err β) (g : α × Nat → Except Err β) (st : List α) :
    ∀ k, (∀ i n, st[i]? = some n → f n = g (n, i + k)) → st.mapM f = (st.zipIdx k).mapM g := by
  induction st with
  | nil => intro k _; rfl
  | cons a r ih =>
    intro k h
    simp only [List.zipIdx_cons, List.mapM_cons]
    have h0 := h 0 a (by simp)
    simp only [Nat.zero_add] at h0
    rw [h0, ih (k + 1) (fun i n hi => by have := h (i + 1) n (by simpa using hi); rw [this]; congr 2; omega)]

theorem appendRow_specA (P : CellParser) (rows : List (List Str)) (d : Doc) (h : importRows P rows = .ok d) (hwf : wf rows = true)
    (hwc : AllWC d) (o : Opts) (c : Coord) (n : Node) (hn : Doc.nodeAt d.stages c = some n) :
    appendRow d o n = cellSpecA o (d.stages.map (·.map skelOf)) (d.stages.map (·.map (·.tok))) c (skelOf n) n.tok := by
  unfold appendRow cellSpecA
  rw [spineSelected_O]
  cases ht : n.tok with
  | none =>
    simp only
    have : cellBody d o.cats o.enc n = .ok none := by unfold cellBody; rw [ht]
    rw [this]
    split <;> rfl
  | some t =>
    simp only
    rw [headerTok_spec d n t ht, cellBody_any d o.cats o.enc n t ht, clefOf_spec P rows d h hwf hwc c n hn]
    cases selectedHdrO o.spineTypes o.spineIds (hdrOfCell (d.stages.map (·.map (·.tok))) (skelOf n) t) <;> rfl

theorem rowOfStage_specA (P : CellParser) (rows : List (List Str)) (d : Doc) (h : importRows P rows = .ok d) (hwf : wf rows = true)
    (hwc : AllWC d) (o : Opts) (s : Nat) :
    rowOfStage d o (d.stages[s]?.getD []) = rowSpecA o (d.stages.map (·.map skelOf)) (d.stages.map (·.map (·.tok))) s := by
  unfold rowOfStage rowSpecA
  rw [getD_map, getD_map]
  have hz : ((d.stages[s]?.getD []).map skelOf).zip ((d.stages[s]?.getD []).map (·.tok)) = (d.stages[s]?.getD []).map (fun n => (skelOf n, n.tok)) := by
    generalize d.stages[s]?.getD [] = st
    induction st with
    | nil => rfl
    | cons a r ih => simp [ih]
  rw [hz]
  have hcongr := mapM_zipIdx_congr (appendRow d o)
    (fun (p : Node × Nat) => cellSpecA o (d.stages.map (·.map skelOf)) (d.stages.map (·.map (·.tok))) (s, p.2) (skelOf p.1) p.1.tok)
    (d.stages[s]?.getD []) 0 (by
      intro i n hi
      have hn : Doc.nodeAt d.stages (s, i) = some n := by
        unfold Doc.nodeAt
        cases hs : d.stages[s]? with
        | none => rw [hs] at hi; simp at hi
        | some st => rw [hs] at hi; simpa using hi
      simpa using appendRow_specA P rows d h hwf hwc o (s, i) n hn)
  rw [hcongr]
  have hzi : ((d.stages[s]?.getD []).map (fun n => (skelOf n, n.tok))).zipIdx = ((d.stages[s]?.getD []).zipIdx).map (fun p => ((skelOf p.1, p.1.tok), p.2)) := by
    rw [List.zipIdx_map]
    rfl
  rw [hzi, List.mapM_map]
  rfl

/-- **C10 / C04 / C13, every export without a measure range — the agnostic encodings included — as a function of the text.**
    Each surviving cell is the text of its own token under the category selection, the encoding and the clef in force, the clef in force
    being the nearest clef token at or above the cell on its own spine path. -/
theorem C10_export_of_text (P : CellParser) (rows : List (List Str)) (d : Doc) (h : importRows P rows = .ok d) (hwf : wf rows = true)
    (hwc : AllWC d) (o : Opts) (hf : o.fromM = none) (ht : o.toM = none) :
    exportString d o = specExportA o (run rows).skel (TT.run P rows).toks := by
  rw [C06.C06_export_rows d o hf ht]
  have : bodyRows d o 0 (d.stages.length - 1) = specBodyA o (d.stages.map (·.map skelOf)) (d.stages.map (·.map (·.tok))) := by
    unfold bodyRows specBodyA
    simp only [List.length_map]
    have : (fun s => (do
        let r ← rowOfStage d o (d.stages[s]?.getD [])
        pure (s, r) : Except Err (Nat × List Str))) = (fun s => do
        let r ← rowSpecA o (d.stages.map (·.map skelOf)) (d.stages.map (·.map (·.tok))) s
        pure (s, r)) := by
      funext s
      rw [rowOfStage_specA P rows d h hwf hwc o s]
    rw [this]
  rw [this, C02_tree P rows d h hwf, C02_tokens P rows d h hwf]
  rfl

theorem bodyRows_range_of_text (P : CellParser) (rows : List (List Str)) (d : Doc) (h : importRows P rows = .ok d) (hwf : wf rows = true)
    (hwc : AllWC d) (o : Opts) (f t : Nat) :
    bodyRows d o f t = specBodyRange o (run rows).skel (TT.run P rows).toks f t := by
  unfold bodyRows specBodyRange
  have : (fun s => (do
      let r ← rowOfStage d o (d.stages[s]?.getD [])
      pure (s, r) : Except Err (Nat × List Str))) = (fun s => do
      let r ← rowSpecA o (run rows).skel (TT.run P rows).toks s
      pure (s, r)) := by
    funext s
    rw [rowOfStage_specA P rows d h hwf hwc o s, C02_tree P rows d h hwf, C02_tokens P rows d h hwf]
  rw [this]

/-! non-vacuity: a bass clef, a split, a treble clef in the right branch only, the join continues from the left branch -/
def tP : CellParser := fun _ c =>
  if c == "*clefF4".toList then some (.simple .ClefToken c .CLEF false)
  else if c == "*clefG2".toList then some (.simple .ClefToken c .CLEF false)
  else if c == "4C".toList then some (.noteRest ⟨c, [⟨['4'], .DURATION⟩, ⟨['C'], .PITCH⟩], []⟩)
  else some (.simple .SimpleToken c .OTHER false)
def tRows : List (List Str) :=
  [["**kern".toList], ["*clefF4".toList], ["4C".toList], ["*^".toList], ["4C".toList, "*clefG2".toList], ["4C".toList, "4C".toList],
   ["*v".toList, "*v".toList], ["4C".toList], ["*-".toList]]
example : wf tRows = true := by decide +kernel
/-- the clef in force below the split: bass clef on the left, treble clef on the right, bass clef again after the join -/
example : [clefTextAt (run tRows).skel (TT.run tP tRows).toks (6, 0), clefTextAt (run tRows).skel (TT.run tP tRows).toks (6, 1),
           clefTextAt (run tRows).skel (TT.run tP tRows).toks (8, 0)]
    = [some "*clefF4".toList, some "*clefG2".toList, some "*clefF4".toList] := by decide +kernel

end KM.C10T
