/-
  C04 (document level) — in the text specification of the export (`C10T.rowSpecA`, which `C10_export_of_text` proves the export of every
  imported text to be) every line of a plain encoding (kern, bkern, akern) is, cell by cell, a view of the same line of its extended
  counterpart (ekern, bekern, aekern): the same cells are present (spine selection does not look at the encoding), a `**` cell is
  `**` + the plain prefix + the type, and every other cell is the extended cell with the two separator characters removed — replaced by the
  null token when nothing remains.
-/
import KernProofs.C04
import KernProofs.C10Text
namespace KM.C04D
open KM Importer Export Tokz
open KM.Spec.Track KM.C02K KM.C03D KM.C13D KM.C10T

def plainOf : Encoding → Encoding
  | .ekern => .kern | .bekern => .bkern | .aekern => .akern | e => e

def isExt : Encoding → Bool
  | .ekern | .bekern | .aekern => true | _ => false

def orPh (t : Tok) (s : Str) : Str := if s.isEmpty then phOf t else s

def isHdrTok : Tok → Bool | .header _ _ => true | _ => false

/-- how the cell of the plain export reads off the cell `s` of the extended export of the same token: the separators removed, the null
    token when nothing remains -/
def viewCell (t : Tok) (s : Str) : Str := orPh t (strip s)

theorem tokenize_plain (ext : Encoding) (h : isExt ext = true) (cats : List Cat) (clef : Option Str) (t : Tok) :
    tokenize (plainOf ext) cats clef t = (tokenize ext cats clef t).map strip := by
  cases ext <;> simp [isExt] at h
  · exact C04.C04_kern_is_stripped_ekern cats clef t
  · exact C04.C04_bkern_is_stripped_bekern cats clef t
  · exact C04.C04_akern_is_stripped_aekern cats clef t

theorem strip_ph (t : Tok) : strip (phOf t) = phOf t := by
  unfold phOf; split <;> decide +kernel

theorem ph_ne (t : Tok) : (phOf t).isEmpty = false := by
  unfold phOf; split <;> rfl

theorem hdrAdjE_other (e : Encoding) (t : Tok) (h : isHdrTok t = false) : hdrAdjE e t = t := by
  cases t <;> first | rfl | (simp [isHdrTok] at h)

/-- **one cell**: the plain cell is the view of the extended cell of the same token under the same clef (every token but a `**` cell, for
    which `C04.C04_header` gives the text) -/
theorem C04_cell_view (cats : List Cat) (ext : Encoding) (h : isExt ext = true) (clef : Option Str) (t : Tok) (ht : isHdrTok t = false) :
    cellOfTokC cats (plainOf ext) clef t = (cellOfTokC cats ext clef t).map (viewCell t) := by
  have hph : (if (strip (phOf t)).isEmpty = true then phOf t else strip (phOf t)) = phOf t := by
    rw [strip_ph, ph_ne]; rfl
  unfold cellOfTokC
  by_cases hs : (t.hidden || !(t.isComplex || cats.contains t.cat)) = true
  · rw [if_pos hs, if_pos hs]
    show Except.ok (phOf t) = Except.ok (viewCell t (phOf t))
    unfold viewCell orPh
    rw [hph]
  · rw [if_neg hs, if_neg hs, hdrAdjE_other _ t ht, hdrAdjE_other _ t ht, tokenize_plain ext h]
    cases tokenize ext cats clef t with
    | error e => rfl
    | ok s =>
      show Except.ok (if (strip s).isEmpty = true then phOf t else strip s) = Except.ok (viewCell t (if s.isEmpty = true then phOf t else s))
      unfold viewCell orPh
      by_cases he : s.isEmpty = true
      · have : s = [] := by simpa using he
        subst this
        have e1 : (if ([] : Str).isEmpty = true then phOf t else []) = phOf t := rfl
        have e2 : strip ([] : Str) = [] := rfl
        rw [e1, hph, e2]
        rfl
      · rw [if_neg he]

/-! ### lines -/

/-- the cells of line `s` before the unselected ones are dropped: (skeleton entry, token) with the column -/
def cellsOf (sk : List (List Skel)) (tk : List (List (Option Tok))) (s : Nat) : List ((Skel × Option Tok) × Nat) :=
  ((sk[s]?.getD []).zip (tk[s]?.getD [])).zipIdx

def rowOptA (o : Opts) (sk : List (List Skel)) (tk : List (List (Option Tok))) (s : Nat) : Except Err (List (Option Str)) :=
  (cellsOf sk tk s).mapM (fun p => cellSpecA o sk tk (s, p.2) p.1.1 p.1.2)

theorem rowSpecA_eq (o : Opts) (sk : List (List Skel)) (tk : List (List (Option Tok))) (s : Nat) :
    rowSpecA o sk tk s = (rowOptA o sk tk s).map (·.filterMap id) := rfl

def viewOpt (ot : Option Tok) (c : Option Str) : Option Str := match ot with | some t => c.map (viewCell t) | none => c

theorem mapM_view {α β ε} (l : List α) (f g : α → Except ε β) (v : α → β → β) (hfg : ∀ x ∈ l, f x = (g x).map (v x)) :
    l.mapM f = (l.mapM g).map (fun ys => List.zipWith v l ys) := by
  induction l with
  | nil => rfl
  | cons x xs ih =>
    rw [List.mapM_cons, List.mapM_cons, hfg x List.mem_cons_self, ih (fun y hy => hfg y (List.mem_cons_of_mem _ hy))]
    cases g x with
    | error e => rfl
    | ok b =>
      cases xs.mapM g with
      | error e => rfl
      | ok bs => rfl

/-- the line holds no `**` cell (decidable) -/
def noHdr (sk : List (List Skel)) (tk : List (List (Option Tok))) (s : Nat) : Bool :=
  (cellsOf sk tk s).all (fun p => match p.1.2 with | some t => !isHdrTok t | none => true)

/-- **one line**: for every line that holds no `**` cell, the cells of the plain export are — cell by cell, the same cells present — the
    views of the cells of the extended export -/
theorem C04_line_view (o : Opts) (ext : Encoding) (h : isExt ext = true) (sk : List (List Skel)) (tk : List (List (Option Tok))) (s : Nat)
    (hnh : noHdr sk tk s = true) :
    rowOptA { o with enc := plainOf ext } sk tk s =
      (rowOptA { o with enc := ext } sk tk s).map (fun cells => List.zipWith (fun p c => viewOpt p.1.2 c) (cellsOf sk tk s) cells) := by
  unfold rowOptA
  apply mapM_view
  intro p hp
  unfold cellSpecA
  cases hot : p.1.2 with
  | none => rfl
  | some t =>
    simp only [viewOpt]
    split
    · have hh : isHdrTok t = false := by
        have := List.all_eq_true.mp hnh p hp
        rw [hot] at this
        simpa using this
      rw [C04_cell_view o.cats ext h _ t hh]
      cases cellOfTokC o.cats ext (clefTextAt sk tk (s, p.2)) t <;> rfl
    · rfl

/-- the view keeps which cells are present: a cell is dropped from the plain line iff it is dropped from the extended line -/
theorem viewOpt_isSome (ot : Option Tok) (c : Option Str) : (viewOpt ot c).isSome = c.isSome := by
  cases ot <;> cases c <;> rfl

/-! non-vacuity: the data line of the toy text of `C02Tok` holds no `**` cell; its cells under kern are the views of its cells under ekern -/
example : noHdr (run C02K.toyRows).skel (TT.run C02K.toyP C02K.toyRows).toks 3 = true := by decide +kernel
example : rowOptA { defaultOpts with enc := .kern, spineTypes := [['*', '*', 'a'], ['*', '*', 'b']] } (run C02K.toyRows).skel (TT.run C02K.toyP C02K.toyRows).toks 3 =
    .ok [some ['*', '*', 'a', ':', '1'], some ['x'], some ['!', 'c']] := by decide +kernel
end KM.C04D
