/-
  C13 — Export options act independently of one another.   (property theorems, about the exporter model)

  An export without measure range is, row by row,  `filterMap id ∘ mapM (cellBody d V X) ∘ filter (selected S)`:
  the spine selection `S` is a filter on the nodes of a stage, the category set `V` and the encoding `X` are
  two independent arguments of the cell-wise function `cellBody`.  Applying the selection before or after the
  cell-wise view gives the same row (`C13_select_then_view` / `C13_view_then_select`).
-/
import KernModel.Options
import KernProofs.C06
import KernProofs.C11
namespace KM.C13
open KM Export Options

/-- T_spine on the annotated grid -/
def selectStage (d : Doc) (types : List Str) (ids : Option (List Nat)) (st : List Node) : List Node :=
  st.filter (spineSelectedBy types ids d)

/-- T_cat and T_enc: the cell-wise view under categories `V` and encoding `X` -/
def viewStage (d : Doc) (V : List Cat) (X : Encoding) (st : List Node) : Except Err (List (Option Str)) :=
  st.mapM (cellBody d V X)

/-- select first, then view: this is what the exporter computes -/
theorem C13_select_then_view (d : Doc) (o : Opts) (st : List Node) :
    rowOfStage d o st = (viewStage d o.cats o.enc (selectStage d o.spineTypes o.spineIds st)).map (·.filterMap id) :=
  rowOfStage_eq d o st

/-- view first (all spines), then select: the same row -/
theorem C13_view_then_select (d : Doc) (o : Opts) (st : List Node) (cells : List (Option Str))
    (hfull : viewStage d o.cats o.enc st = .ok cells) :
    rowOfStage d o st = .ok (((st.zip cells).filter (fun p => spineSelectedBy o.spineTypes o.spineIds d p.1)).filterMap (·.2)) :=
  C06.C06_row_projection d o st cells hfull

/-- the cell-wise view does not look at the spine selection, the selection does not look at categories or encoding -/
theorem C13_independent_arguments (d : Doc) (o o' : Opts) (n : Node)
    (hS : o.spineTypes = o'.spineTypes ∧ o.spineIds = o'.spineIds) :
    spineSelected d o n = spineSelected d o' n := by
  unfold spineSelected; rw [hS.1, hS.2]

/-! ### passing a default explicitly = omitting it -/

theorem C13_default_spine_types (raw : RawOpts) :
    resolve { raw with spineTypes := some Gen.headers } = resolve { raw with spineTypes := none } := rfl

theorem C13_default_encoding (raw : RawOpts) :
    resolve { raw with enc := some .kern } = resolve { raw with enc := none } := rfl

/-- `exclude=[]`, `exclude=()` , `exclude=set()` are `exclude=None` -/
theorem C13_default_exclude (raw : RawOpts) :
    resolve { raw with excl := .list [] } = resolve { raw with excl := .none } ∧
    resolve { raw with excl := .tuple [] } = resolve { raw with excl := .none } ∧
    resolve { raw with excl := .set [] } = resolve { raw with excl := .none } := by
  refine ⟨?_, ?_, ?_⟩ <;> rfl

/-- `include=<all categories>` selects the same set as `include=None` (membership; the exporter only asks `in`) -/
theorem C13_default_include (exc : Hier.Arg) (he : C11.Arg.wellTyped exc = true) (x : Cat) :
    ∀ v v', Hier.valid hierarchy (.list (Cat.all.map some)) exc = .ok v → Hier.valid hierarchy .none exc = .ok v' →
      (x ∈ v ↔ x ∈ v') := by
  intro v v' h1 h2
  obtain ⟨w, hw, hmem⟩ := C11.C11_valid (.list (Cat.all.map some)) exc (by simp [C11.Arg.wellTyped, Hier.Arg.elems]) he
  obtain ⟨w', hw', hmem'⟩ := C11.C11_valid .none exc rfl he
  rw [hw] at h1; rw [hw'] at h2
  cases h1; cases h2
  rw [hmem, hmem']
  have hc : C11.Arg.cats? (.list (Cat.all.map some)) = some Cat.all := by
    simp [C11.Arg.cats?, Hier.Arg.elems, List.filterMap_map]
  rw [hc]
  simp only [C11.Arg.cats?, Spec.selected, List.mem_filter, Cat.mem_all, true_and, Bool.and_eq_true]
  have : Spec.inClosure Cat.all x = true := by
    simp only [Spec.inClosure, List.any_eq_true]
    exact ⟨x, Cat.mem_all x, by simp [Spec.isDescOrSelf]⟩
  simp [this]

end KM.C13
