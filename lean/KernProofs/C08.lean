/-
  C08 — A measure excerpt is a self-contained, equivalent score.   (partial; property theorems)

  Proved about the exporter model:
  * the synthetic last line terminates exactly the spine paths that are open after the last exported line: its length is
    `cells + splits − joins` of that line, and nothing is added when the last line already is the terminator
    (`C08_terminator_*`);
  * the body of the excerpt is the rows of the stages of measures a..b unchanged (`C07_body`, `C07_rows_unmodified`), so the
    cells of the excerpt's data lines are the cells of the full score;
  * a signature is repeated in the preamble only if no token of the same class occurs between the start and the end of the
    excerpt on that path (`sigCancelled` — by definition), so a later note is never governed by a *second* signature of a
    class in the preamble.
  The full statement is false of the code outside a core, and — as the reconnaissance found — even inside the core the
  property claims (F15d).  The proved negative theorem `C08_nested_split_witness` exhibits that on a literal document: a
  split whose two branches are both split again and all re-joined before the barline leaves a stray `*^` line in every
  later excerpt, which therefore has a line with one cell under two spine paths.  The classes F15a–c are decided by
  correspondence (frontier stream) and tracked as known findings.
-/
import KernModel.Export
import KernProofs.C07
namespace KM.C08
open KM Export

/-- the terminator closes `cells + splits − joins` spine paths -/
theorem C08_terminator_count (o : Opts) (b : Int) (hb : o.toM = some b) (rows : List (List Str)) (last : List Str)
    (hl : rows.getLast? = some last) (hne : last.head? ≠ some ['*', '-']) :
    terminatorFor o rows =
      [List.replicate (last.length + (last.filter (· == ['*', '^'])).length - (last.filter (· == ['*', 'v'])).length) ['*', '-']] := by
  unfold terminatorFor
  simp only [hb, hl]
  have : (last.head? != some ['*', '-']) = true := by simpa [bne_iff_ne] using hne
  simp [this]

/-- no second terminator when the excerpt already ends with the score's own terminator line -/
theorem C08_terminator_not_doubled (o : Opts) (rows : List (List Str)) (last : List Str)
    (hl : rows.getLast? = some last) (hterm : last.head? = some ['*', '-']) : terminatorFor o rows = [] := by
  unfold terminatorFor
  cases o.toM with
  | none => rfl
  | some b => simp [hl, hterm]

/-- without `to_measure` nothing is appended -/
theorem C08_no_terminator_without_range (o : Opts) (h : o.toM = none) (rows : List (List Str)) : terminatorFor o rows = [] := by
  unfold terminatorFor; simp [h]

/-- every cell of the terminator is `*-` -/
theorem C08_terminator_cells (o : Opts) (rows : List (List Str)) : ∀ r ∈ terminatorFor o rows, ∀ c ∈ r, c = ['*', '-'] := by
  intro r hr c hc
  unfold terminatorFor at hr
  split at hr
  · split at hr
    · simp only [List.mem_singleton] at hr
      subst hr
      exact (List.mem_replicate.mp hc).2
    · cases hr
  · cases hr

/-- the body of an excerpt is the rows of its stages, exactly as the full export computes them -/
theorem C08_body_is_full_score_rows (d : Doc) (o : Opts) (a b : Int) (ha : o.fromM = some a) (hb : o.toM = some b)
    (h : 1 ≤ a ∧ a ≤ b ∧ b ≤ d.starts.length) (p : Parts) (hp : exportParts d o = .ok p) :
    ∃ fs, d.starts[(a - 1).toNat]? = some fs ∧ bodyRows d o fs (toStageOf d o) = .ok p.body :=
  C07.C07_body d o a b ha hb h p hp

/-! ### inside the claimed core the property fails: the nested-split witness (finding F15d) -/

/-- per-cell parser of the witness: barlines, a clef, null tokens -/
def witnessParser : CellParser := fun _ c =>
  if c == ['='] ∨ c == ['=', '='] then some (.simple .BarToken c .BARLINES false)
  else if c == ['*','c','l','e','f','G','2'] then some (.simple .ClefToken c .CLEF false)
  else some (.simple .SimpleToken c .EMPTY false)

def witnessRows : List (List Str) :=
  [[['*','*','k','e','r','n']], [['*','c','l','e','f','G','2']], [['=']],
   [['*','^']], [['.'], ['.']], [['*','^'], ['*','^']], [['.'], ['.'], ['.'], ['.']],
   [['*','v'], ['*','v'], ['*'], ['*']], [['.'], ['.'], ['.']], [['*'], ['*','v'], ['*','v']], [['.'], ['.']],
   [['*','v'], ['*','v']], [['=']], [['.']], [['=','=']], [['*','-']]]

/-- the excerpt of measure 2 of the witness: after the header comes a stray `*^` line, then lines with ONE cell although
    two spine paths are open — not a well-formed Humdrum document -/
theorem C08_nested_split_witness :
    (Importer.importRows witnessParser witnessRows).toOption.bind
      (fun d => (exportString d { spineTypes := Gen.headers, cats := Cat.all, fromM := some 2, toM := some 2 }).toOption)
    = some "**kern\n*^\n*clefG2\n=\n==\n*-\n".toList := by
  decide +kernel

end KM.C08
