/-
  C01 (text level, continued) — exporting the cell-wise normal form of a text gives exactly the export of the text itself: in the
  specification of `dumps(loads(text))` (`C03D.specExport`, which `C03_export_of_text` proves the export of every imported text to be)
  the normal form has the same skeleton, the same `**` tokens, and in every data cell a token with the same exported text.
-/
import KernProofs.C01Norm
import KernProofs.C04
import KernProofs.C03Doc
namespace KM.C01T
open KM Importer Export Tokz
open KM.Spec.Track
open KM.C02K KM.C03D KM.C12I KM.C01N

def isHdrTok : Tok → Bool | .header _ _ => true | _ => false

/-- two token entries the default export cannot tell apart: identical, or two non-`**` tokens with the same exported text -/
def RelTok (a b : Option Tok) : Prop :=
  a = b ∨ ∃ t t', a = some t ∧ b = some t' ∧ isHdrTok t = false ∧ isHdrTok t' = false ∧ cellOfTok t = cellOfTok t'

/-- same shape, related entries -/
def RelRows : List (List (Option Tok)) → List (List (Option Tok)) → Prop
  | [], [] => True
  | r :: rs, r' :: rs' => (r.length = r'.length ∧ ∀ (i : Nat) (a b : Option Tok), r[i]? = some a → r'[i]? = some b → RelTok a b) ∧ RelRows rs rs'
  | _, _ => False

theorem RelRows_refl : ∀ tk, RelRows tk tk
  | [] => trivial
  | r :: rs => ⟨⟨rfl, fun i a b ha hb => Or.inl (by rw [ha] at hb; cases hb; rfl)⟩, RelRows_refl rs⟩

theorem RelRows_append : ∀ (a a' b b' : List (List (Option Tok))), RelRows a a' → RelRows b b' → RelRows (a ++ b) (a' ++ b')
  | [], [], _, _, _, h => h
  | [], _ :: _, _, _, h, _ => by simp [RelRows] at h
  | _ :: _, [], _, _, h, _ => by simp [RelRows] at h
  | r :: rs, r' :: rs', b, b', h, hb => ⟨h.1, RelRows_append rs rs' b b' h.2 hb⟩

theorem RelRows_length : ∀ (a a' : List (List (Option Tok))), RelRows a a' → a.length = a'.length
  | [], [], _ => rfl
  | [], _ :: _, h => by simp [RelRows] at h
  | _ :: _, [], h => by simp [RelRows] at h
  | r :: rs, r' :: rs', h => by simp [RelRows_length rs rs' h.2]

theorem RelRows_get : ∀ (a a' : List (List (Option Tok))), RelRows a a' → ∀ (s : Nat),
    ((a[s]?.getD []).length = (a'[s]?.getD []).length ∧ ∀ (i : Nat) (x y : Option Tok), (a[s]?.getD [])[i]? = some x → (a'[s]?.getD [])[i]? = some y → RelTok x y)
  | [], [], _, s => by simp
  | [], _ :: _, h, _ => by simp [RelRows] at h
  | _ :: _, [], h, _ => by simp [RelRows] at h
  | r :: rs, r' :: rs', h, 0 => by simpa using h.1
  | r :: rs, r' :: rs', h, s + 1 => by simpa using RelRows_get rs rs' h.2 s

/-- the entry at a coordinate -/
theorem RelRows_at (a a' : List (List (Option Tok))) (h : RelRows a a') (c : Coord) :
    ((a[c.1]?).bind (·[c.2]?) = none ∧ (a'[c.1]?).bind (·[c.2]?) = none) ∨
    ∃ x y, (a[c.1]?).bind (·[c.2]?) = some x ∧ (a'[c.1]?).bind (·[c.2]?) = some y ∧ RelTok x y := by
  have hl := RelRows_length a a' h
  obtain ⟨h1, h2⟩ := RelRows_get a a' h c.1
  cases ha : a[c.1]? with
  | none =>
    have : a'[c.1]? = none := by
      rw [List.getElem?_eq_none_iff] at ha ⊢; omega
    left; simp [this]
  | some r =>
    have hlt : c.1 < a'.length := by
      rcases Nat.lt_or_ge c.1 a.length with h3 | h3
      · omega
      · rw [List.getElem?_eq_none_iff.mpr h3] at ha; cases ha
    have ha' : a'[c.1]? = some a'[c.1] := List.getElem?_eq_getElem hlt
    rw [ha, ha'] at h1 h2
    simp only [Option.getD_some] at h1 h2
    rw [ha']
    simp only [Option.bind_some]
    cases hx : r[c.2]? with
    | none =>
      have : (a'[c.1])[c.2]? = none := by
        rw [List.getElem?_eq_none_iff] at hx ⊢; omega
      left; exact ⟨rfl, this⟩
    | some x =>
      have hlt2 : c.2 < (a'[c.1]).length := by
        rcases Nat.lt_or_ge c.2 r.length with h3 | h3
        · omega
        · rw [List.getElem?_eq_none_iff.mpr h3] at hx; cases hx
      have hy : (a'[c.1])[c.2]? = some (a'[c.1])[c.2] := List.getElem?_eq_getElem hlt2
      right
      exact ⟨x, _, rfl, hy, h2 c.2 x _ hx hy⟩

theorem selectedHdr_nonhdr (L : List Str) (t : Tok) (h : isHdrTok t = false) : selectedHdr L (some t) = false := by
  cases t <;> first | rfl | (simp [isHdrTok] at h)

theorem hdrTokAt_rel (L : List Str) (tk tk' : List (List (Option Tok))) (h : RelRows tk tk') (c : Coord) :
    selectedHdr L (hdrTokAt tk c) = selectedHdr L (hdrTokAt tk' c) := by
  unfold hdrTokAt
  rcases RelRows_at tk tk' h c with ⟨h1, h2⟩ | ⟨x, y, h1, h2, hr⟩
  · rw [h1, h2]
  · rw [h1, h2]
    rcases hr with rfl | ⟨t, t', rfl, rfl, ht, ht', _⟩
    · rfl
    · show selectedHdr L (some t) = selectedHdr L (some t')
      rw [selectedHdr_nonhdr L t ht, selectedHdr_nonhdr L t' ht']

theorem hdrOfCell_nonhdr (tk : List (List (Option Tok))) (sk : Skel) (t : Tok) (h : isHdrTok t = false) :
    hdrOfCell tk sk t = sk.2.bind (hdrTokAt tk) := by
  cases t <;> first | rfl | (simp [isHdrTok] at h)

theorem hdrOfCell_sel (L : List Str) (tk tk' : List (List (Option Tok))) (h : RelRows tk tk') (sk : Skel) (t : Tok) :
    selectedHdr L (hdrOfCell tk sk t) = selectedHdr L (hdrOfCell tk' sk t) := by
  cases ht : isHdrTok t
  · rw [hdrOfCell_nonhdr tk sk t ht, hdrOfCell_nonhdr tk' sk t ht]
    cases sk.2 with
    | none => rfl
    | some c => exact hdrTokAt_rel L tk tk' h c
  · cases t <;> first | rfl | (simp [isHdrTok] at ht)

theorem cellSpec_rel (tk tk' : List (List (Option Tok))) (h : RelRows tk tk') (sk : Skel) (a b : Option Tok) (hr : RelTok a b) :
    cellSpec tk sk a = cellSpec tk' sk b := by
  rcases hr with rfl | ⟨t, t', rfl, rfl, ht, ht', he⟩
  · cases a with
    | none => rfl
    | some t => simp only [cellSpec]; rw [hdrOfCell_sel Gen.headers tk tk' h sk t]
  · simp only [cellSpec]
    rw [hdrOfCell_nonhdr tk sk t ht, hdrOfCell_nonhdr tk' sk t' ht', he]
    have : selectedHdr Gen.headers (sk.2.bind (hdrTokAt tk)) = selectedHdr Gen.headers (sk.2.bind (hdrTokAt tk')) := by
      cases sk.2 with
      | none => rfl
      | some c => exact hdrTokAt_rel Gen.headers tk tk' h c
    rw [this]

theorem rowSpec_rel (tk tk' : List (List (Option Tok))) (h : RelRows tk tk') :
    ∀ (sks : List Skel) (ots ots' : List (Option Tok)), ots.length = ots'.length →
      (∀ (i : Nat) (a b : Option Tok), ots[i]? = some a → ots'[i]? = some b → RelTok a b) → rowSpec tk sks ots = rowSpec tk' sks ots' := by
  intro sks
  unfold rowSpec
  induction sks with
  | nil => intro ots ots' _ _; simp
  | cons sk sks ih =>
    intro ots ots' hl hr
    cases ots with
    | nil =>
      cases ots' with
      | nil => rfl
      | cons o' os' => simp at hl
    | cons o os =>
      cases ots' with
      | nil => simp at hl
      | cons o' os' =>
        have h0 := cellSpec_rel tk tk' h sk o o' (hr 0 o o' rfl rfl)
        have ht := ih os os' (by simpa using hl) (fun i a b ha hb => hr (i + 1) a b (by simpa using ha) (by simpa using hb))
        simp only [List.zip_cons_cons, List.mapM_cons, h0]
        cases cellSpec tk' sk o' with
        | error e => rfl
        | ok x =>
          simp only [bind, Except.bind]
          cases h1 : List.mapM (fun p => cellSpec tk p.1 p.2) (sks.zip os) with
          | error e =>
            rw [h1] at ht
            cases h2 : List.mapM (fun p => cellSpec tk' p.1 p.2) (sks.zip os') with
            | error e' => rw [h2] at ht; simp only [Except.map] at ht; cases ht; rfl
            | ok y => rw [h2] at ht; simp [Except.map] at ht
          | ok ys =>
            rw [h1] at ht
            cases h2 : List.mapM (fun p => cellSpec tk' p.1 p.2) (sks.zip os') with
            | error e' => rw [h2] at ht; simp [Except.map] at ht
            | ok ys' =>
              rw [h2] at ht
              simp only [Except.map, Except.ok.injEq] at ht
              simp only [pure, Except.pure, Except.map, List.filterMap_cons, ht]

/-- **the default export does not distinguish related token tables** -/
theorem specExport_rel (sk : List (List Skel)) (tk tk' : List (List (Option Tok))) (h : RelRows tk tk') : specExport sk tk = specExport sk tk' := by
  unfold specExport specBody
  have : (fun s => (do let r ← rowSpec tk (sk[s]?.getD []) (tk[s]?.getD []); pure (s, r) : Except Err (Nat × List Str))) =
         (fun s => (do let r ← rowSpec tk' (sk[s]?.getD []) (tk'[s]?.getD []); pure (s, r) : Except Err (Nat × List Str))) := by
    funext s
    obtain ⟨h1, h2⟩ := RelRows_get tk tk' h s
    rw [rowSpec_rel tk tk' h _ _ _ h1 h2]
  rw [this]

/-! ### the token tables of a text and of its normal form are related -/

theorem exportTok_ok (f : Cat → Bool) (t : Tok) : ∃ s, exportTok f none t = .ok s := by
  cases t with
  | simple k e c h => exact ⟨_, rfl⟩
  | header e i => exact ⟨_, rfl⟩
  | noteRest n => exact ⟨_, C04.exportNote_none f n⟩
  | chord e ns =>
    refine ⟨joinSep [' '] (ns.map (C04.noteText f)), ?_⟩
    simp only [exportTok, exportChord, C04.mapM_exportNote, bind, Except.bind, pure, Except.pure]

/-- the default export of a single token never fails -/
theorem cellOfTok_ok (t : Tok) : cellOfTok t = .ok (outText t) := by
  have : ∃ s, cellOfTok t = .ok s := by
    unfold cellOfTok
    by_cases hh : t.hidden = true
    · exact ⟨_, by rw [if_pos hh]⟩
    · rw [if_neg hh]
      obtain ⟨s, hs⟩ := exportTok_ok (fun c => Cat.all.contains c) (hdrAdj t)
      refine ⟨(fun s => if s.isEmpty then phOf t else s) (strip s), ?_⟩
      simp only [tokenize, hs, Except.map]
  obtain ⟨s, hs⟩ := this
  unfold outText
  rw [hs]

/-- the parser never answers with a `**` token for a data cell -/
def NoHdr (P : CellParser) : Prop := ∀ h c t, P h c = some t → isHdrTok t = false

theorem cellTok_data_nonhdr (P : CellParser) (hP : NoHdr P) (h : Option Str) (i : Nat) (c : Str) (hd : dataCell c = true) :
    isHdrTok (cellTok P h i c) = false := by
  simp only [dataCell, Bool.and_eq_true, Bool.not_eq_true'] at hd
  have h1 : startsWith ['*', '*'] c = false := hd.1
  unfold cellTok
  simp only [h1, hd.2, Bool.false_eq_true, if_false]
  split
  · rfl
  · cases h with
    | none => rfl
    | some hh =>
      simp only
      cases hp : P hh c with
      | none => rfl
      | some t => exact hP hh c t hp

/-- the token of a cell and the token of its normal form are related -/
theorem cellTok_norm_rel (P : CellParser) (G) (hrt : RT P G) (hP : NoHdr P) (h : Option Str) (i : Nat) (c : Str)
    (hg : dataCell c = true → G h c) :
    RelTok (some (cellTok P h i c)) (some (cellTok P h i (normCell P h i c))) := by
  by_cases hd : dataCell c = true
  · right
    have hd' := (hrt h i c hd (hg hd)).1
    refine ⟨_, _, rfl, rfl, cellTok_data_nonhdr P hP h i c hd, cellTok_data_nonhdr P hP h i _ hd', ?_⟩
    rw [cellOfTok_ok, cellOfTok_ok]
    have hi := (hrt h i c hd (hg hd)).2.2.2
    -- normCell (normCell c) = normCell c, both sides data cells
    have e1 : normCell P h i c = outText (cellTok P h i c) := by simp [normCell, hd]
    have e2 : normCell P h i (normCell P h i c) = outText (cellTok P h i (normCell P h i c)) := by
      generalize normCell P h i c = x at hd' ⊢
      simp [normCell, hd']
    rw [e2] at hi
    rw [hi, e1]
  · left
    have : dataCell c = false := by simpa using hd
    simp [normCell, this]

/-- what one line adds to the token table -/
def rowToks (P : CellParser) (tt : TT) (r : List Str) : List (List (Option Tok)) :=
  match r with
  | [] => []
  | c0 :: _ =>
    if startsWith ['!', '!'] c0 then [[some (.simple .MetacommentToken (stripS c0) .LINE_COMMENTS false)]]
    else [r.zipIdx.map (fun ci => some (cellTok P (specHdr tt ci.2) ci.2 ci.1))]

theorem step_toks (P : CellParser) (tt : TT) (r : List Str) : (tt.step P r).toks = tt.toks ++ rowToks P tt r := by
  cases r with
  | nil => simp [TT.step, rowToks]
  | cons c0 cs =>
    simp only [TT.step, rowToks]
    split <;> rfl

theorem rowToks_rel (P : CellParser) (G) (hrt : RT P G) (hP : NoHdr P) (tt tt' : TT) (ht : tt.t = tt'.t) (hh : tt.hdrs = tt'.hdrs)
    (r : List Str) (hg : goodRow G tt r) : RelRows (rowToks P tt r) (rowToks P tt' (normRow P tt r)) := by
  by_cases hc : cellRow r = true
  · have hc' := cellRow_norm P G hrt tt r hg
    rw [hc] at hc'
    have hl := normRow_length P tt r
    cases r with
    | nil => simp [cellRow] at hc
    | cons c0 cs =>
      have h0 : startsWith ['!', '!'] c0 = false := by simpa [cellRow] using hc
      cases hn : normRow P tt (c0 :: cs) with
      | nil => rw [hn] at hl; simp at hl
      | cons d0 ds =>
        rw [hn] at hc'
        have h0' : startsWith ['!', '!'] d0 = false := by simpa [cellRow] using hc'
        simp only [rowToks, h0, h0', Bool.false_eq_true, if_false]
        refine ⟨⟨by simp [← hn, hl], ?_⟩, trivial⟩
        intro i a b ha hb
        simp only [List.getElem?_map, List.getElem?_zipIdx, Nat.zero_add] at ha hb
        cases hr : (c0 :: cs)[i]? with
        | none => rw [hr] at ha; simp at ha
        | some c =>
          cases hr' : (d0 :: ds)[i]? with
          | none => rw [hr'] at hb; simp at hb
          | some c' =>
            rw [hr] at ha; rw [hr'] at hb
            simp only [Option.map_some, Option.some.injEq] at ha hb
            subst ha; subst hb
            rw [← hn] at hr'
            rcases normRow_get P tt (c0 :: cs) i c c' hr hr' with e | ⟨_, e⟩
            · -- cannot happen for a cell row unless the cell is its own normal form; use the general statement anyway
              have : c' = normCell P (specHdr tt i) i c := by
                have := normRow_cells P tt (c0 :: cs) hc
                rw [this] at hr'
                simp only [List.getElem?_map, List.getElem?_zipIdx, Nat.zero_add, hr, Option.map_some, Option.some.injEq] at hr'
                exact hr'.symm
              rw [this, ← specHdr_congr tt tt' ht hh]
              exact cellTok_norm_rel P G hrt hP _ i c (hg i c hr)
            · rw [e, ← specHdr_congr tt tt' ht hh]
              exact cellTok_norm_rel P G hrt hP _ i c (hg i c hr)
  · have hf : cellRow r = false := by simpa using hc
    rw [normRow_other P tt r hf]
    cases r with
    | nil => exact trivial
    | cons c0 cs =>
      have h0 : startsWith ['!', '!'] c0 = true := by simpa [cellRow] using hf
      simp only [rowToks, h0, if_true]
      exact RelRows_refl _

theorem toks_rel (P : CellParser) (G) (hrt : RT P G) (hP : NoHdr P) (rows : List (List Str)) :
    ∀ (tt tt' : TT), tt.t = tt'.t → tt.hdrs = tt'.hdrs → RelRows tt.toks tt'.toks → goodRows P G tt rows →
      RelRows (rows.foldl (TT.step P) tt).toks ((normRows P tt rows).foldl (TT.step P) tt').toks := by
  induction rows with
  | nil => intro tt tt' _ _ h _; exact h
  | cons r rs ih =>
    intro tt tt' ht hh hr hg
    have hs := normRow_same P G hrt tt r hg.1
    obtain ⟨a, b⟩ := TT_step_congr P tt tt' ht hh r (normRow P tt r) hs
    simp only [normRows, List.foldl_cons]
    refine ih _ _ a b ?_ hg.2
    rw [step_toks, step_toks]
    exact RelRows_append _ _ _ _ hr (rowToks_rel P G hrt hP tt tt' ht hh r hg.1)

/-- **C01, text level.**  For every text whose data cells belong to a class with the cell round trip (`RT`), and every parser that never
    answers with a `**` token: the specification of the default export gives the same string for the text and for its cell-wise normal form
    (with `C03_export_of_text`: `dumps(loads(normal form)) = dumps(loads(text))` whenever both import). -/
theorem C01_export_of_normal_form (P : CellParser) (G) (hrt : RT P G) (hP : NoHdr P) (rows : List (List Str))
    (hg : goodRows P G TT.init rows) :
    specExport (run (normalForm P rows)).skel (TT.run P (normalForm P rows)).toks = specExport (run rows).skel (TT.run P rows).toks := by
  obtain ⟨_, hskel, _⟩ := C01_normalForm_idem P G hrt rows hg
  rw [hskel]
  exact (specExport_rel _ _ _ (toks_rel P G hrt hP rows TT.init TT.init rfl rfl (RelRows_refl _) hg)).symm

/-- **C01 on the model of the code.**  If a text without surplus cells and its cell-wise normal form both import, their default exports are
    the same string: `dumps(loads(normalForm text)) = dumps(loads(text))`. -/
theorem C01_dumps_of_normal_form (P : CellParser) (G) (hrt : RT P G) (hP : NoHdr P) (rows : List (List Str))
    (hg : goodRows P G TT.init rows) (hwf : wf rows = true) (d d' : Doc)
    (h : importRows P rows = .ok d) (h' : importRows P (normalForm P rows) = .ok d') :
    exportString d' defaultOpts = exportString d defaultOpts := by
  obtain ⟨hshape, _, _⟩ := C01_normal_form_fixed_point P G hrt rows TT.init TT.init rfl rfl hg
  have hwf' : wf (normalForm P rows) = true := by
    unfold wf at hwf ⊢
    show wfFrom Spec.Track.init (normRows P TT.init rows) = true
    rw [← C12_same_wf rows _ hshape]
    exact hwf
  rw [C03_export_of_text P rows d h hwf, C03_export_of_text P _ d' h' hwf']
  exact C01_export_of_normal_form P G hrt hP rows hg

/-! non-vacuity: the parser and class of `C01Norm` -/
theorem NoHdr_P0 : NoHdr P0 := by intro h c t ht; cases ht

example : specExport (run (normalForm P0 toyText)).skel (TT.run P0 (normalForm P0 toyText)).toks =
    specExport (run toyText).skel (TT.run P0 toyText).toks :=
  C01_export_of_normal_form P0 G0 RT_P0 NoHdr_P0 toyText (goodRows_G0 _ (by decide +kernel) _)
end KM.C01T
