/-
  C15 (document level) — transposition moves pitches and nothing else, at the level of the exported text: the transposed document has
  the skeleton of the source and, node by node, the token `transposeTok` makes of the source token (only `PITCH` sub-tokens of single
  notes change, `C15_note`); hence its default export is the specification of `C03Doc` applied to the source skeleton and those tokens.
-/
import KernModel.Transpose
import KernProofs.C15
import KernProofs.C03Doc
namespace KM.C15D
open KM Transpose Export
open KM.C02T KM.C03D

/-- element-wise relation of two lists of the same length -/
inductive All2 {α β} (R : α → β → Prop) : List α → List β → Prop
  | nil : All2 R [] []
  | cons {a b l l'} : R a b → All2 R l l' → All2 R (a :: l) (b :: l')

theorem mapM_forall₂ {α β} (f : α → Except Err β) : ∀ (l : List α) (l' : List β), l.mapM f = .ok l' → All2 (fun a b => f a = .ok b) l l' := by
  intro l
  induction l with
  | nil => intro l' h; simp only [List.mapM_nil, pure, Except.pure, Except.ok.injEq] at h; subst h; exact .nil
  | cons a r ih =>
    intro l' h
    simp only [List.mapM_cons, bind, Except.bind] at h
    cases ha : f a with
    | error e => rw [ha] at h; cases h
    | ok b =>
      rw [ha] at h
      simp only at h
      cases hr : r.mapM f with
      | error e => rw [hr] at h; cases h
      | ok r' =>
        rw [hr] at h
        simp only [pure, Except.pure, Except.ok.injEq] at h
        subst h
        exact .cons ha (ih r' hr)

theorem forall₂_map_eq {α β γ} (R : α → β → Prop) (g : α → γ) (g' : β → γ) (hg : ∀ a b, R a b → g a = g' b) :
    ∀ (l : List α) (l' : List β), All2 R l l' → l.map g = l'.map g' := by
  intro l l' h
  induction h with
  | nil => rfl
  | cons hab _ ih => simp [hg _ _ hab, ih]

/-- what `to_transposed` does to one node -/
def nodeStep (iv : Int) (dir : Str) (n : Node) : Except Err Node :=
  match n.tok with
  | some t => do pure { n with tok := some (← transposeTok iv dir t) }
  | none => pure n

theorem nodeStep_skel (iv : Int) (dir : Str) (n n' : Node) (h : nodeStep iv dir n = .ok n') : skelOf n = skelOf n' := by
  unfold nodeStep at h
  cases ht : n.tok with
  | none => rw [ht] at h; simp only [pure, Except.pure, Except.ok.injEq] at h; subst h; rfl
  | some t =>
    rw [ht] at h
    simp only [bind, Except.bind, pure, Except.pure] at h
    cases hx : transposeTok iv dir t with
    | error e => rw [hx] at h; cases h
    | ok t' => rw [hx] at h; simp only [Except.ok.injEq] at h; subst h; rfl

/-- node by node: the token of the result is `transposeTok` of the source token -/
theorem nodeStep_tok (iv : Int) (dir : Str) (n n' : Node) (h : nodeStep iv dir n = .ok n') :
    (n.tok = none ∧ n'.tok = none) ∨ ∃ t t', n.tok = some t ∧ n'.tok = some t' ∧ transposeTok iv dir t = .ok t' := by
  unfold nodeStep at h
  cases ht : n.tok with
  | none => rw [ht] at h; simp only [pure, Except.pure, Except.ok.injEq] at h; subst h; exact Or.inl ⟨rfl, ht⟩
  | some t =>
    rw [ht] at h
    simp only [bind, Except.bind, pure, Except.pure] at h
    cases hx : transposeTok iv dir t with
    | error e => rw [hx] at h; cases h
    | ok t' => rw [hx] at h; simp only [Except.ok.injEq] at h; subst h; exact Or.inr ⟨t, t', rfl, rfl, hx⟩

/-- `to_transposed` written with `nodeStep` -/
def toTransposed' (d : Doc) (ivName dir : Str) : Except Err (Doc × Doc) := do
  if !Gen.availableIntervals.contains ivName then .error .valueError
  else if !(dir == Gen.dirUp || dir == Gen.dirDown) then .error .valueError
  else match lookup ivName Gen.intervalsByName with
    | none => .error .keyError
    | some iv => do
      let stages ← d.stages.mapM (fun st => st.mapM (nodeStep iv dir))
      let r : Doc := { d with stages := stages }
      pure (r, r)

theorem toTransposed_eq (d : Doc) (ivn dir : Str) : toTransposed d ivn dir = toTransposed' d ivn dir := rfl

/-- **C15, same grid.**  The result of a successful transposition has, stage by stage and node by node, the parent and header links of the
    source, and each node's token is what `transposeTok` makes of the source node's token. -/
theorem C15_same_skeleton (d r src : Doc) (ivn dir : Str) (h : toTransposed d ivn dir = .ok (r, src)) :
    r.stages.map (·.map skelOf) = d.stages.map (·.map skelOf) ∧
    ∃ iv, lookup ivn Gen.intervalsByName = some iv ∧ All2 (All2 (fun n n' => nodeStep iv dir n = .ok n')) d.stages r.stages := by
  rw [toTransposed_eq] at h
  unfold toTransposed' at h
  simp only [bind, Except.bind, pure, Except.pure] at h
  split at h
  · cases h
  · split at h
    · cases h
    · split at h
      · cases h
      · rename_i iv hiv
        split at h
        · cases h
        · rename_i stages hst
          simp only [Except.ok.injEq, Prod.mk.injEq] at h
          obtain ⟨h1, _⟩ := h
          subst h1
          have f1 := mapM_forall₂ _ _ _ hst
          have lift : ∀ (l : List (List Node)) (l' : List (List Node)), All2 (fun st st' => st.mapM (nodeStep iv dir) = .ok st') l l' →
              All2 (All2 (fun n n' => nodeStep iv dir n = .ok n')) l l' := by
            intro l l' hh
            induction hh with
            | nil => exact .nil
            | cons hab _ ih => exact .cons (mapM_forall₂ _ _ _ hab) ih
          have f2 := lift _ _ f1
          refine ⟨?_, iv, hiv, f2⟩
          simp only
          symm
          apply forall₂_map_eq _ _ _ _ _ _ f2
          intro st st' hs
          exact forall₂_map_eq _ skelOf skelOf (fun n n' hn => nodeStep_skel iv dir n n' hn) _ _ hs

/-- **C15, the exported text.**  The default export of the transposed document is the text specification of `C03Doc` over the SOURCE
    skeleton and the transposed tokens: every line, every cell position and every cell that is not a single note is as in the source
    (`C15_non_notes_unchanged`), each single note is the source note with its `PITCH` sub-tokens transposed (`C15_note`). -/
theorem C15_export (d r src : Doc) (ivn dir : Str) (h : toTransposed d ivn dir = .ok (r, src)) :
    exportString r defaultOpts = specExport (d.stages.map (·.map skelOf)) (r.stages.map (·.map (·.tok))) := by
  rw [export_of_skeleton_tokens, (C15_same_skeleton d r src ivn dir h).1]
end KM.C15D
