/-
  C01 (text level, plain texts) — the explicit form of `dumps(loads(text))` for texts in which every spine is of a supported type and no
  line is a global comment or empty: line by line, every cell replaced by the exported text of its token (`outRows`), lines left all-null
  dropped.  With `C01Norm` / `C01Text` this gives the fixed point of C01 for plain texts at the level of strings.
-/
import KernProofs.C01Text
import KernProofs.C02
namespace KM.C01P
open KM Importer Export Tokz
open KM.Spec.Track
open KM.C02K KM.C03D KM.C12I KM.C01N KM.C01T

/-- every cell replaced by the exported text of its token -/
def outRow (P : CellParser) (tt : TT) (r : List Str) : List Str :=
  r.zipIdx.map (fun ci => outText (cellTok P (specHdr tt ci.2) ci.2 ci.1))

def outRows (P : CellParser) : TT → List (List Str) → List (List Str)
  | _, [] => []
  | tt, r :: rs => outRow P tt r :: outRows P (tt.step P r) rs

/-- no empty line, no global comment -/
def plainRows (rows : List (List Str)) : Prop := ∀ r ∈ rows, cellRow r = true

/-- every token stands in a spine whose `**` cell is of a supported type (a property of the text: `sk`, `tk` are the tracker's tables) -/
def AllSel (sk : List (List Skel)) (tk : List (List (Option Tok))) : Prop :=
  ∀ (s : Nat), ∀ p ∈ (sk[s]?.getD []).zip (tk[s]?.getD []), ∀ t, p.2 = some t → selectedHdr Gen.headers (hdrOfCell tk p.1 t) = true

/-! ### the token table as a function of the lines -/

def tokRowsL (P : CellParser) : TT → List (List Str) → List (List (Option Tok))
  | _, [] => []
  | tt, r :: rs => rowToks P tt r ++ tokRowsL P (tt.step P r) rs

theorem run_toks (P : CellParser) (rows : List (List Str)) : ∀ tt : TT, (rows.foldl (TT.step P) tt).toks = tt.toks ++ tokRowsL P tt rows := by
  induction rows with
  | nil => intro tt; simp [tokRowsL]
  | cons r rs ih =>
    intro tt
    simp only [List.foldl_cons, tokRowsL]
    rw [ih, step_toks, List.append_assoc]

def optOut (l : List (Option Tok)) : List Str := l.filterMap (Option.map outText)

theorem optOut_row (P : CellParser) (tt : TT) (r : List Str) :
    optOut (r.zipIdx.map (fun ci => some (cellTok P (specHdr tt ci.2) ci.2 ci.1))) = outRow P tt r := by
  unfold optOut outRow
  rw [List.filterMap_map]
  have : ((Option.map outText) ∘ fun (ci : Str × Nat) => some (cellTok P (specHdr tt ci.2) ci.2 ci.1)) =
      fun ci => some (outText (cellTok P (specHdr tt ci.2) ci.2 ci.1)) := rfl
  rw [this]
  induction r.zipIdx with
  | nil => rfl
  | cons a l ih => simp [ih]

theorem tokRows_out (P : CellParser) (rows : List (List Str)) (hp : plainRows rows) :
    ∀ tt : TT, (tokRowsL P tt rows).map optOut = outRows P tt rows := by
  induction rows with
  | nil => intro tt; rfl
  | cons r rs ih =>
    intro tt
    have hc : cellRow r = true := hp r List.mem_cons_self
    cases r with
    | nil => simp [cellRow] at hc
    | cons c0 cs =>
      have h0 : startsWith ['!', '!'] c0 = false := by simpa [cellRow] using hc
      simp only [tokRowsL, rowToks, h0, Bool.false_eq_true, if_false, List.singleton_append, List.map_cons, outRows]
      rw [optOut_row, ih (fun r' hr' => hp r' (List.mem_cons_of_mem _ hr'))]

/-! ### skeleton and token table have the same shape -/

def LenOK (tt : TT) : Prop := tt.t.skel.map List.length = tt.toks.map List.length

theorem lenOK_step (P : CellParser) (tt : TT) (r : List Str) (h : LenOK tt) : LenOK (tt.step P r) := by
  unfold LenOK at *
  rw [TT.step_t, step_toks]
  cases r with
  | nil => simpa [Spec.Track.step, rowToks] using h
  | cons c0 cs =>
    simp only [Spec.Track.step, rowToks]
    split <;> simp [h]

theorem lenOK_run (P : CellParser) (rows : List (List Str)) : ∀ tt, LenOK tt → LenOK (rows.foldl (TT.step P) tt) := by
  induction rows with
  | nil => intro tt h; exact h
  | cons r rs ih => intro tt h; exact ih _ (lenOK_step P tt r h)

theorem lenOK_init : LenOK TT.init := rfl

/-! ### one line of the specification when every spine is supported -/

theorem rowSpec_allsel (tk : List (List (Option Tok))) :
    ∀ (sks : List Skel) (ots : List (Option Tok)), sks.length = ots.length →
      (∀ p ∈ sks.zip ots, ∀ t, p.2 = some t → selectedHdr Gen.headers (hdrOfCell tk p.1 t) = true) →
      rowSpec tk sks ots = .ok (optOut ots) := by
  intro sks
  unfold rowSpec
  induction sks with
  | nil =>
    intro ots hl _
    cases ots with
    | nil => rfl
    | cons o os => simp at hl
  | cons sk sks ih =>
    intro ots hl hsel
    cases ots with
    | nil => simp at hl
    | cons o os =>
      have ht := ih os (by simpa using hl) (fun p hp => hsel p (by simp only [List.zip_cons_cons]; exact List.mem_cons_of_mem _ hp))
      have h0 : cellSpec tk sk o = .ok (o.map outText) := by
        cases o with
        | none => rfl
        | some t =>
          simp only [cellSpec]
          rw [hsel (sk, some t) (by simp) t rfl, if_pos rfl, cellOfTok_ok]
          rfl
      simp only [List.zip_cons_cons, List.mapM_cons, h0, bind, Except.bind]
      cases h1 : List.mapM (fun p => cellSpec tk p.1 p.2) (sks.zip os) with
      | error e => rw [h1] at ht; simp [Except.map] at ht
      | ok ys =>
        rw [h1] at ht
        simp only [Except.map, Except.ok.injEq] at ht
        simp only [pure, Except.pure, Except.map, optOut, List.filterMap_cons]
        cases o with
        | none => simp [ht, optOut]
        | some t => simp [ht, optOut]

theorem mapM_ok {α β} (f : α → β) (l : List α) : l.mapM (fun a => (Except.ok (f a) : Except Err β)) = .ok (l.map f) := by
  induction l with
  | nil => rfl
  | cons a l ih => simp only [List.mapM_cons, ih, bind, Except.bind, pure, Except.pure, List.map_cons]

theorem range_map_getD {α β} (l : List (List α)) (f : List α → β) : (List.range l.length).map (fun s => f (l[s]?.getD [])) = l.map f := by
  apply List.ext_getElem?
  intro i
  simp only [List.getElem?_map]
  by_cases hi : i < l.length
  · simp [List.getElem?_range hi, List.getElem?_eq_getElem hi]
  · have h1 : l.length ≤ i := Nat.le_of_not_lt hi
    rw [List.getElem?_eq_none_iff.mpr h1, List.getElem?_eq_none_iff.mpr (by simpa using h1)]
    rfl

/-- **the specification of the default export when every spine is supported**: every line is the list of the exported texts of its tokens -/
theorem specBody_allsel (sk : List (List Skel)) (tk : List (List (Option Tok))) (hne : sk ≠ [])
    (hlen : sk.map List.length = tk.map List.length) (hsel : AllSel sk tk) :
    specExport sk tk = .ok (renderRows ((tk.map optOut).filter (fun r => !r.isEmpty && !(r.all isNullish)))) := by
  have hl : sk.length = tk.length := by simpa using congrArg List.length hlen
  have hrow : ∀ s : Nat, rowSpec tk (sk[s]?.getD []) (tk[s]?.getD []) = .ok (optOut (tk[s]?.getD [])) := by
    intro s
    apply rowSpec_allsel tk _ _ _ (hsel s)
    have := congrArg (fun l => (l[s]?).getD 0) hlen
    simp only [List.getElem?_map] at this
    cases h1 : sk[s]? with
    | none =>
      have : tk[s]? = none := by rw [List.getElem?_eq_none_iff] at h1 ⊢; omega
      rw [this]; rfl
    | some a =>
      have hlt : s < tk.length := by
        rcases Nat.lt_or_ge s sk.length with h3 | h3
        · omega
        · rw [List.getElem?_eq_none_iff.mpr h3] at h1; cases h1
      have h2 : tk[s]? = some tk[s] := List.getElem?_eq_getElem hlt
      rw [h1, h2] at this
      rw [h2]
      simpa using this
  unfold specExport specBody
  have hf : (fun (s : Nat) => (do let r ← rowSpec tk (sk[s]?.getD []) (tk[s]?.getD []); pure (s, r) : Except Err (Nat × List Str))) =
      (fun (s : Nat) => Except.ok (s, optOut (tk[s]?.getD []))) := by
    funext s; rw [hrow s]; rfl
  have hn : sk.length - 1 + 1 - 0 = tk.length := by
    have : 0 < sk.length := List.length_pos_iff.mpr hne
    omega
  rw [hf, hn, mapM_ok]
  simp only [bind, Except.bind, pure, Except.pure, Except.map, List.map_map]
  congr 2
  rw [← range_map_getD tk optOut]
  generalize tk.length = n
  induction List.range n with
  | nil => rfl
  | cons a l ih =>
    simp only [List.map_cons, List.filter_cons, Function.comp, Nat.add_zero]
    split <;> simp_all

def nonNull (r : List Str) : Bool := !r.isEmpty && !(r.all isNullish)

/-- **explicit form of `dumps(loads(text))` for plain texts**: with `C03_export_of_text`, the default export of a text without empty lines and
    global comments in which every spine is supported is, line by line, the exported texts of the cells' tokens, all-null lines dropped -/
theorem C01_plain_export (P : CellParser) (rows : List (List Str)) (hp : plainRows rows)
    (hsel : AllSel (run rows).skel (TT.run P rows).toks) :
    specExport (run rows).skel (TT.run P rows).toks = .ok (renderRows ((outRows P TT.init rows).filter nonNull)) := by
  have hlen : LenOK (TT.run P rows) := lenOK_run P rows TT.init lenOK_init
  have ht : (TT.run P rows).t = run rows := by
    unfold TT.run run; rw [TT.run_t]; rfl
  unfold LenOK at hlen
  rw [ht] at hlen
  have htk : (TT.run P rows).toks = [none] :: tokRowsL P TT.init rows := by
    unfold TT.run; rw [run_toks]; rfl
  have hne : (run rows).skel ≠ [] := by
    intro h0
    rw [h0, htk] at hlen
    simp at hlen
  rw [specBody_allsel _ _ hne hlen hsel, htk]
  simp only [List.map_cons, tokRows_out P rows hp TT.init]
  have : optOut [none] = [] := rfl
  rw [this]
  rfl

/-! ### `**` cells and spine operators export to themselves -/

def sepFree (c : Str) : Prop := ∀ x ∈ c, (x != tokSep) = true ∧ (x != decSep) = true

theorem kern_pfx : Encoding.kern.pfx = [] := by decide +kernel

theorem outText_struct (P : CellParser) (h : Option Str) (i : Nat) (c : Str) (hd : dataCell c = false) (hs : sepFree c) :
    outText (cellTok P h i c) = c := by
  have hstrip : strip c = c := C01N.strip_good c hs
  have key : ∀ t : Tok, t.hidden = false → hdrAdj t = t ∨ (∃ e j, t = .header e j ∧ (['*', '*'] ++ Encoding.kern.pfx ++ e.drop 2) = e) →
      (match t with | .noteRest _ => False | .chord _ _ => False | _ => True) → t.enc = c → c ≠ [] → outText t = c := by
    intro t hh hadj hsimple henc hne
    have hc : cellOfTok t = .ok c := by
      unfold cellOfTok
      rw [if_neg (by simp [hh])]
      have hexp : exportTok (fun x => Cat.all.contains x) none (hdrAdj t) = .ok c := by
        rcases hadj with h1 | ⟨e, j, rfl, he⟩
        · rw [h1]
          cases t with
          | simple k e cat hid => exact congrArg Except.ok henc
          | header e j => exact congrArg Except.ok henc
          | noteRest n => exact absurd hsimple (by simp)
          | chord e ns => exact absurd hsimple (by simp)
        · simp only [hdrAdj, headerFor, exportTok, Tok.enc, he]
          exact congrArg Except.ok henc
      simp only [tokenize, hexp, Except.map, hstrip]
      have : c.isEmpty = false := by cases c with | nil => exact absurd rfl hne | cons a b => rfl
      simp [this]
    rw [cellOfTok_ok] at hc
    exact Except.ok.inj hc
  simp only [dataCell, Bool.and_eq_false_iff, Bool.not_eq_false'] at hd
  unfold cellTok
  by_cases hh : startsWith ['*', '*'] c = true
  · rw [if_pos hh]
    -- c = ** ++ rest
    have hc : ∃ rest, c = '*' :: '*' :: rest := by
      unfold startsWith at hh
      cases c with
      | nil => simp [List.isPrefixOf] at hh
      | cons a c1 =>
        cases c1 with
        | nil => simp [List.isPrefixOf] at hh
        | cons b rest =>
          simp only [List.isPrefixOf, Bool.and_eq_true, beq_iff_eq, Bool.and_true] at hh
          exact ⟨rest, by rw [← hh.1, ← hh.2]⟩
    obtain ⟨rest, rfl⟩ := hc
    refine key _ rfl (Or.inr ⟨_, i, rfl, ?_⟩) trivial rfl (by simp)
    rw [kern_pfx]; rfl
  · rw [if_neg hh]
    have ho : isSpineOp c = true := by
      rcases hd with h1 | h1
      · exact absurd h1 hh
      · exact h1
    rw [if_pos ho]
    refine key _ rfl (Or.inl rfl) trivial rfl ?_
    intro h0; subst h0
    revert ho; decide +kernel

/-- lines whose `**` cells (and operators) hold no separator character -/
def structClean (rows : List (List Str)) : Prop := ∀ r ∈ rows, ∀ c ∈ r, dataCell c = false → sepFree c

theorem outRow_norm (P : CellParser) (tt : TT) (r : List Str) (hc : cellRow r = true) (hs : ∀ c ∈ r, dataCell c = false → sepFree c) :
    outRow P tt r = normRow P tt r := by
  rw [normRow_cells P tt r hc]
  unfold outRow
  apply List.map_congr_left
  intro ci hm
  obtain ⟨c, i⟩ := ci
  have hmem : c ∈ r := by
    have := List.mem_zipIdx_iff_getElem?.mp hm
    exact List.mem_of_getElem? (by simpa using this)
  show outText (cellTok P (specHdr tt i) i c) = normCell P (specHdr tt i) i c
  unfold normCell
  by_cases hd : dataCell c = true
  · rw [if_pos hd]
  · rw [if_neg hd]
    exact outText_struct P _ i c (by simpa using hd) (hs c hmem (by simpa using hd))

theorem outRows_norm (P : CellParser) (rows : List (List Str)) (hp : plainRows rows) (hs : structClean rows) :
    ∀ tt : TT, outRows P tt rows = normRows P tt rows := by
  induction rows with
  | nil => intro tt; rfl
  | cons r rs ih =>
    intro tt
    simp only [outRows, normRows]
    rw [outRow_norm P tt r (hp r List.mem_cons_self) (hs r List.mem_cons_self),
        ih (fun r' hr' => hp r' (List.mem_cons_of_mem _ hr')) (fun r' hr' => hs r' (List.mem_cons_of_mem _ hr'))]

/-! ### the fixed point for plain texts, at the level of strings -/

theorem renderRows_grid (R : List (List Str)) (h : ∀ r ∈ R, emptyRow r = false) : renderRows R = C02.renderGrid R := by
  unfold renderRows
  rw [List.filter_eq_self.mpr (fun r hr => by simp [h r hr])]
  induction R with
  | nil => rfl
  | cons r rs ih =>
    simp only [List.flatMap_cons, C02.renderGrid, C02.renderLine]
    rw [ih (fun r' hr' => h r' (List.mem_cons_of_mem _ hr'))]
    simp

/-- **C01 for plain texts.**  Let a text have no empty line and no global comment, only spines of supported types, `**` cells free of
    separator characters, no surplus cells, data cells of a class with the cell round trip (`RT`), and let no line of its normal form be
    all-null or unreadable (cells with TAB / line ends).  If it imports, then its default export is exactly the rendering of its cell-wise
    normal form, reading that text back gives the normal form, and importing and exporting the exported text gives the same text again:
    `dumps(loads(dumps(loads(text)))) = dumps(loads(text))`, in the model of the code. -/
theorem C01_fixed_point_plain (P : CellParser) (G) (hrt : RT P G) (hP : NoHdr P) (rows : List (List Str))
    (hplain : plainRows rows) (hclean : structClean rows) (hgood : goodRows P G TT.init rows) (hwf : wf rows = true)
    (hsel : AllSel (run rows).skel (TT.run P rows).toks)
    (hkeep : ∀ r ∈ normalForm P rows, nonNull r = true ∧ emptyRow r = false ∧ C02.rowOk r)
    (d : Doc) (h : importRows P rows = .ok d) :
    ∃ text, exportString d defaultOpts = .ok text ∧ text = C02.renderGrid (normalForm P rows) ∧ readRows text = normalForm P rows ∧
      ∀ d2, importString P text = .ok d2 → exportString d2 defaultOpts = .ok text := by
  have hexp : exportString d defaultOpts = .ok (C02.renderGrid (normalForm P rows)) := by
    rw [C03_export_of_text P rows d h hwf, C01_plain_export P rows hplain hsel, outRows_norm P rows hplain hclean TT.init]
    show Except.ok (renderRows ((normalForm P rows).filter nonNull)) = _
    rw [List.filter_eq_self.mpr (fun r hr => (hkeep r hr).1), renderRows_grid _ (fun r hr => (hkeep r hr).2.1)]
  have hread : readRows (C02.renderGrid (normalForm P rows)) = normalForm P rows :=
    C02.C02_reader_literal _ (fun r hr => (hkeep r hr).2.2)
  refine ⟨_, hexp, rfl, hread, ?_⟩
  intro d2 h2
  have h2' : importRows P (normalForm P rows) = .ok d2 := by
    have : importString P (C02.renderGrid (normalForm P rows)) = importRows P (readRows (C02.renderGrid (normalForm P rows))) := rfl
    rw [this, hread] at h2
    exact h2
  rw [C01_dumps_of_normal_form P G hrt hP rows hgood hwf d d2 h h2', hexp]

/-! non-vacuity: a two-spine text of supported types with the parser and class of `C01Norm` meets every hypothesis, and it imports -/
def toy : List (List Str) :=
  [[['*', '*', 'k', 'e', 'r', 'n'], ['*', '*', 't', 'e', 'x', 't']], [['4', 'c'], ['l', 'a']], [['*', '^'], ['*']], [['4', 'd'], ['4', 'f'], []],
   [['*', 'v'], ['*', 'v'], ['*']], [['*', '-'], ['*', '-']]]

example : (importRows P0 toy).toOption.isSome = true := by decide +kernel

example (d : Doc) (h : importRows P0 toy = .ok d) :
    ∃ text, exportString d defaultOpts = .ok text ∧ text = C02.renderGrid (normalForm P0 toy) ∧ readRows text = normalForm P0 toy ∧
      ∀ d2, importString P0 text = .ok d2 → exportString d2 defaultOpts = .ok text := by
  refine C01_fixed_point_plain P0 G0 RT_P0 NoHdr_P0 toy (by unfold plainRows; decide +kernel) ?_ (goodRows_G0 _ (by decide +kernel) _) (by decide +kernel) ?_ ?_ d h
  · have : ∀ r ∈ toy, ∀ c ∈ r, ∀ x ∈ c, (x != tokSep) = true ∧ (x != decSep) = true := by decide +kernel
    intro r hr c hc _
    exact this r hr c hc
  · intro s
    match s with
    | 0 | 1 | 2 | 3 | 4 | 5 | 6 => decide +kernel
    | n + 7 =>
      intro p hp
      have : ((run toy).skel[n + 7]?.getD []) = [] := by
        have hl : (run toy).skel.length = 7 := by decide +kernel
        rw [List.getElem?_eq_none_iff.mpr (by omega)]; rfl
      rw [this] at hp
      simp at hp
  · have : ∀ r ∈ normalForm P0 toy, nonNull r = true ∧ emptyRow r = false ∧ (r ≠ [] ∧ (∀ c ∈ r, ∀ x ∈ c, (x == '\t') = false ∧ isLineBoundary x = false) ∧ C02.renderLine r ≠ []) := by
      decide +kernel
    exact this

/-- the normal form of the toy text differs from it (the empty cell becomes the null token): the statement is about a text that is not yet normal -/
example : normalForm P0 toy ≠ toy := by decide +kernel
end KM.C01P
