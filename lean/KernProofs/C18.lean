/-
  C18 — Every spine type imports every token without loss.   (property theorems)

  Parametric in the kern parser: `kern : Option Tok` is whatever a fresh `KernSpineImporter` does with the
  cell (a token, or it raised).  The per-importer decision data (`ACCEPTED_CATEGORIES`, the polarity of the
  `any(...)` test, both fallback categories) and the `createImporter` dispatch chain are regenerated from
  the source on every run; `all_records_ok` is the obligation a divergent importer breaks.
-/
import KernModel.SpineImporters
import KernModel.Spec.CatTree
import KernProofs.C11
namespace KM.C18
open KM SpineImp Cat

/-- the shared structure every spine type recognises like **kern -/
def shared : List Cat := [STRUCTURAL, SIGNATURES, EMPTY, BARLINES, IMAGE_ANNOTATIONS, COMMENTS]

def underShared (c : Cat) : Bool := shared.any (fun s => Spec.isDescOrSelf s c)

/-- category of the token classes the listener instantiates -/
def classCat (n : Str) : Option Cat :=
  lookup n [("BarToken".toList, BARLINES), ("BoundingBoxToken".toList, BOUNDING_BOXES), ("ChordToken".toList, CHORD),
    ("ClefToken".toList, CLEF), ("InstrumentToken".toList, INSTRUMENTS), ("KeySignatureToken".toList, KEY_SIGNATURE),
    ("KeyToken".toList, KEY_TOKEN), ("MeterSymbolToken".toList, METER_SYMBOL), ("NoteRestToken".toList, NOTE_REST),
    ("TimeSignatureToken".toList, TIME_SIGNATURE), ("SimpleToken".toList, none.getD STRUCTURAL)]

/-- every category a token built by the kern listener can carry: the `TokenCategory.X` literals in the
    listener's source and the fixed categories of the token classes it instantiates (both generated) -/
def listenerCats : List Cat :=
  Gen.listenerCategoryLiterals.filterMap Cat.ofName? ++ Gen.listenerTokenClasses.filterMap classCat

/-- the spine type's own category -/
def ownTable : List (Str × Cat) :=
  [("**text".toList, LYRICS), ("**dynam".toList, DYNAMICS), ("**dyn".toList, DYNAMICS),
   ("**harm".toList, HARMONY), ("**mxhm".toList, HARMONY), ("**fing".toList, FINGERING)]

def ownCat (h : Str) : Cat := (lookup h ownTable).getD OTHER

def nonKernHeaders : List Str := ownTable.map Prod.fst

/-- **the single rule**: shared structure is the kern token itself, everything else is the verbatim text
    under the spine type's own category -/
def rule (own : Cat) (cell : Str) (kern : KernOutcome) : Tok :=
  match kern with
  | some t => if underShared t.cat then t else Tok.mkSimple cell own
  | none => Tok.mkSimple cell own

def recOk (r : ImpRec) (own : Cat) : Bool :=
  match r with
  | .wrap acc neg fe fa =>
    neg && (catOf fe == own) && (catOf fa == own) &&
      listenerCats.all (fun c => acc.any (fun a => Hier.isChild hierarchy (catOf a) c) == underShared c)
  | _ => false

/-- every literal name in the generated data is a category, and all listener classes are known -/
theorem listener_names_known :
    Gen.listenerCategoryLiterals.all (fun n => (Cat.ofName? n).isSome) = true ∧
    Gen.listenerTokenClasses.all (fun n => (classCat n).isSome) = true := by decide +kernel

/-- **the obligation a divergent importer breaks**: each of the six importers and the default one equals
    the single rule on every category the kern listener can produce -/
theorem all_records_ok :
    (nonKernHeaders.all (fun h => recOk (createImporter h) (ownCat h)) && recOk Gen.dispatchDefault OTHER) = true := by
  decide +kernel

theorem importWrapped_rule (acc : List Str) (neg : Bool) (fe fa : Str) (own : Cat)
    (hr : recOk (.wrap acc neg fe fa) own = true) (cell : Str) (kern : KernOutcome) (hne : cell ≠ [])
    (hk : ∀ t, kern = some t → t.cat ∈ listenerCats) :
    importWrapped acc neg fe fa cell kern = .ok (rule own cell kern) := by
  simp only [recOk, Bool.and_eq_true, beq_iff_eq, List.all_eq_true] at hr
  obtain ⟨⟨⟨hneg, hfe⟩, hfa⟩, hall⟩ := hr
  unfold importWrapped rule
  simp only [hne, if_false]
  cases kern with
  | none => simp [hfe]
  | some t =>
    have := hall t.cat (hk t rfl)
    simp only [hneg, if_true, this, hfa]
    cases underShared t.cat <;> simp

/-- **C18, dispatch.** For the lyrics, dynamics, harmony and fingering spine types and every unknown header,
    every non-empty cell text and every kern parser outcome: import never raises and follows the single rule. -/
theorem C18_dispatch (h cell : Str) (kern : KernOutcome) (hne : cell ≠ [])
    (hh : h ∈ nonKernHeaders ∨ lookup h Gen.dispatch = none)
    (hk : ∀ t, kern = some t → t.cat ∈ listenerCats) :
    importToken h cell kern = .ok (rule (ownCat h) cell kern) := by
  have hall := all_records_ok
  simp only [Bool.and_eq_true, List.all_eq_true] at hall
  rcases hh with hh | hh
  · have hr := hall.1 h hh
    unfold importToken
    cases hc : createImporter h with
    | wrap acc neg fe fa => rw [hc] at hr; exact importWrapped_rule acc neg fe fa _ hr cell kern hne hk
    | kern => rw [hc] at hr; cases hr
    | root => rw [hc] at hr; cases hr
    | mens => rw [hc] at hr; cases hr
    | unknownClass => rw [hc] at hr; cases hr
  · have hown : ownCat h = OTHER := by
      unfold ownCat
      cases ho : lookup h ownTable with
      | none => rfl
      | some c =>
        exfalso
        have hm := lookup_mem h _ c ho
        have : (ownTable.all (fun e => (lookup e.1 Gen.dispatch).isSome)) = true := by decide +kernel
        have := List.all_eq_true.mp this _ hm
        rw [hh] at this; cases this
    have hc : createImporter h = Gen.dispatchDefault := by unfold createImporter; rw [hh]
    have hr := hall.2
    unfold importToken
    rw [hc, hown]
    cases hd : Gen.dispatchDefault with
    | wrap acc neg fe fa => rw [hd] at hr; exact importWrapped_rule acc neg fe fa _ hr cell kern hne hk
    | kern => rw [hd] at hr; cases hr
    | root => rw [hd] at hr; cases hr
    | mens => rw [hd] at hr; cases hr
    | unknownClass => rw [hd] at hr; cases hr

/-- the empty cell is rejected with `ValueError` (the only rejected text) -/
theorem C18_empty_rejected (h : Str) (kern : KernOutcome) (hh : h ∈ nonKernHeaders) :
    importToken h [] kern = .error .valueError := by
  have hall := all_records_ok
  simp only [Bool.and_eq_true, List.all_eq_true] at hall
  have hr := hall.1 h hh
  unfold importToken
  cases hc : createImporter h with
  | wrap acc neg fe fa => simp [importWrapped]
  | kern => rw [hc] at hr; cases hr
  | root => rw [hc] at hr; cases hr
  | mens => rw [hc] at hr; cases hr
  | unknownClass => rw [hc] at hr; cases hr

/-- no own category lies under the shared structure, and none is BARLINES -/
theorem own_not_shared : (OTHER :: ownTable.map Prod.snd).all (fun c => !underShared c && c != BARLINES) = true := by
  decide +kernel

theorem ownCat_mem (h : Str) : ownCat h ∈ OTHER :: ownTable.map Prod.snd := by
  unfold ownCat
  cases ho : lookup h ownTable with
  | none => exact List.mem_cons_self
  | some c =>
    have hm := lookup_mem h _ c ho
    exact List.mem_cons_of_mem _ (List.mem_map.mpr ⟨(h, c), hm, rfl⟩)

/-- **barlines are detected identically** under every such spine type: the imported token is a barline
    exactly when the kern parser reads the cell as a barline -/
theorem C18_barlines (h cell : Str) (kern : KernOutcome) :
    (rule (ownCat h) cell kern).cat = BARLINES ↔ ∃ t, kern = some t ∧ t.cat = BARLINES := by
  have hown := List.all_eq_true.mp own_not_shared _ (ownCat_mem h)
  simp only [Bool.and_eq_true, Bool.not_eq_true', bne_iff_ne, ne_eq] at hown
  unfold rule
  cases kern with
  | none =>
    have e : (Tok.mkSimple cell (ownCat h)).cat = ownCat h := rfl
    simp only [e]
    constructor
    · intro h'; exact absurd h' hown.2
    · rintro ⟨t, ht, _⟩; cases ht
  | some t =>
    by_cases hs : underShared t.cat = true
    · simp only [hs, if_true]
      constructor
      · intro hb; exact ⟨t, rfl, hb⟩
      · rintro ⟨t', ht', hb'⟩
        have : t' = t := by injection ht' with ht'; exact ht'.symm
        subst this; exact hb'
    · have hs' : underShared t.cat = false := by simpa using hs
      have hb : t.cat ≠ BARLINES := by
        intro hb; rw [hb] at hs'; revert hs'; decide +kernel
      simp only [hs', Bool.false_eq_true, if_false]
      have e : (Tok.mkSimple cell (ownCat h)).cat = ownCat h := rfl
      rw [e]
      constructor
      · intro h'; exact absurd h' hown.2
      · rintro ⟨t', ht', hb'⟩
        have : t' = t := by injection ht' with ht'; exact ht'.symm
        subst this; exact absurd hb' hb

/-- shared structure is the very token **kern would hold, whatever the spine type -/
theorem C18_shared_identical (h₁ h₂ cell : Str) (t : Tok) (hs : underShared t.cat = true) :
    rule (ownCat h₁) cell (some t) = t ∧ rule (ownCat h₂) cell (some t) = t := by
  simp [rule, hs]

/-- everything else carries the verbatim text and the spine type's own category -/
theorem C18_verbatim (h cell : Str) (kern : KernOutcome) (hn : ∀ t, kern = some t → underShared t.cat = false) :
    (rule (ownCat h) cell kern).enc = cell ∧ (rule (ownCat h) cell kern).cat = ownCat h := by
  unfold rule
  cases kern with
  | none => exact ⟨rfl, rfl⟩
  | some t => simp only [hn t rfl, Bool.false_eq_true, if_false]; exact ⟨rfl, rfl⟩

/-! non-vacuity -/
example : ("**mxhm".toList ∈ nonKernHeaders) ∧ (lookup "**foo".toList Gen.dispatch).isNone = true := by decide +kernel
example : underShared CLEF = true ∧ underShared NOTE_REST = false ∧ NOTE_REST ∈ listenerCats ∧ BARLINES ∈ listenerCats := by
  decide +kernel

end KM.C18
