/-
  C01 — Normalised export is a fixed point of import-then-export.   (cell level proved; document level by correspondence)

  Proved here, for every note and rest of the abstract grammar:
  * canonicity — the exported text depends only on duration, pitch, accidental/display and the *set* of signifiers:
    not on their order, their position (before / after the duration or the pitch) or their repetition;
  * the exported text is itself the rendering of a cell of the grammar (`canon e`), and exporting that cell again
    gives the same text: normalisation is idempotent cell by cell.
  The document-level statement `export (import (export d)) = export d` additionally needs that the ANTLR parser
  reads `render (canon e)` as `tokOf (canon e)` (the tokOf tie, checked by correspondence on every run) and the
  grid refinement of C02; it is decided by correspondence on generated documents (harness/props/c01.py), together
  with the extended-encoding chain through `get_kern_from_ekern`.
-/
import KernProofs.C03
namespace KM.C01
open KM Tokz Abs Spec C03

/-- same duration, same pitch/accidental/display (or both rests), same set of signifiers -/
def SameContent (a b : AElem) : Prop :=
  elemDur a = elemDur b ∧ bodyText a = bodyText b ∧ ∀ s, s ∈ decsOf a ↔ s ∈ decsOf b

/-- **C01, canonicity.** -/
theorem C01_canon (a b : AElem) (h : SameContent a b) : elemText (elemDur a) a = elemText (elemDur b) b := by
  unfold elemText
  rw [h.1, h.2.1, sortedSet_congr _ _ h.2.2]

/-- … hence the exported **kern cells of the two writings are equal -/
theorem C01_canon_export (a b : AElem) (ha : ElemOk a) (hb : ElemOk b) (hda : DurOk (elemDur a)) (hdb : DurOk (elemDur b))
    (h : SameContent a b) :
    tokenize .kern Cat.all none (tokOf (.elem a)) = tokenize .kern Cat.all none (tokOf (.elem b)) := by
  rw [C03_single a ha hda, C03_single b hb hdb]
  simp only [cellOutKern, cellOut, elemOut_eq]
  rw [C01_canon a b h]

/-- the normal form of an element: all signifiers after the note, as a sorted set; a rest is written `r` -/
def canon : AElem → AElem
  | .note n => .note { n with pre := [], mid := [], post1 := [], post2 := sortedSet (n.pre ++ n.mid ++ n.post1 ++ n.post2) }
  | .rest r => .rest { r with pre := [], rr := ['r'], post := sortedSet ((r.pre ++ r.post).filter (fun s => s != ['/'] && s != ['\\'])) }

theorem canon_sameContent (e : AElem) : SameContent (canon e) e := by
  cases e with
  | note n =>
    refine ⟨rfl, rfl, fun s => ?_⟩
    simp only [canon, decsOf, List.nil_append]
    exact mem_sortedSet s _
  | rest r =>
    refine ⟨rfl, rfl, fun s => ?_⟩
    simp only [canon, decsOf, List.nil_append, List.mem_filter, mem_sortedSet]
    constructor
    · intro h; exact h.1
    · intro h; exact ⟨h, h.2⟩

/-- the exported text is the rendering of the normal form: it is a cell of the grammar again -/
theorem C01_export_is_render_canon (e : AElem) : renderElem (canon e) = elemText (elemDur e) e := by
  cases e with
  | note n =>
    simp only [canon, renderElem, elemText, bodyText, flat, List.flatMap_nil, List.nil_append, elemDur, decsOf, List.append_assoc]
  | rest r =>
    simp only [canon, renderElem, elemText, bodyText, flat, List.flatMap_nil, List.nil_append, elemDur, decsOf]

/-- **C01, idempotence (cell level).** Exporting the normal form gives the same text again. -/
theorem C01_cell_fixed_point (e : AElem) : elemText (elemDur (canon e)) (canon e) = elemText (elemDur e) e :=
  C01_canon (canon e) e (canon_sameContent e)

theorem canon_idem (e : AElem) : canon (canon e) = canon e := by
  cases e with
  | note n =>
    simp only [canon, List.nil_append]
    congr 2
    exact sortedSet_idem _
  | rest r =>
    simp only [canon, List.nil_append]
    congr 2
    apply sortedSet_congr
    intro s
    simp only [List.mem_filter, mem_sortedSet]
    constructor
    · intro h; exact h.1
    · intro h; exact ⟨h, h.2⟩

/-! non-vacuity: two writings of one note -/
example : SameContent
    (.note { pre := [['L']], dur := some ⟨['4'], none, 0, []⟩, pitch := ['c'], post2 := [['('], ['L']] })
    (.note { dur := some ⟨['4'], none, 0, []⟩, mid := [['(']], pitch := ['c'], post2 := [['L']] }) := by
  refine ⟨rfl, rfl, fun s => ?_⟩
  simp [decsOf]
  intro h; exact Or.inr h

end KM.C01
