/-
  C03 — Export conserves the score content cell for cell.   (property theorems)

  Cells: for every note, rest or chord of the abstract grammar (any duration form, any signifiers in any of
  the four positions, any number of chord notes) the **kern text exported for the token the listener builds is
  exactly: the duration marks in grammar order, the pitch letters, the accidental with its display suffix, then
  the sorted set of the note's own signifiers.  Every other kind of cell is exported verbatim; a barline keeps
  its type and fermata and loses only the number.
  Grid: without a measure range the export is one row per stage and one cell per node (`C06_export_rows`).
-/
import KernModel.Abstract
import KernModel.Spec.CellOut
import KernProofs.Lemmas.Sorting
import KernProofs.Lemmas.SplitJoin
import KernProofs.Lemmas.Fin
import KernProofs.C04
import KernProofs.C06
namespace KM.C03
open KM Tokz Abs Spec

/-- text that can be a sub-token: non-empty, free of `@`, `·` and the chord space -/
def StrOk (s : Str) : Prop := s ≠ [] ∧ ∀ x ∈ s, (x == tokSep) = false ∧ (x == decSep) = false ∧ (x == ' ') = false

def DurOk : Option ADur → Prop
  | none => True
  | some d => StrOk (d.num ++ (match d.rat with | some r => '%' :: r | none => [])) ∧ (d.grace = [] ∨ StrOk d.grace)

/-- well-formed element of the abstract grammar -/
def ElemOk : AElem → Prop
  | .note n => DurOk n.dur ∧ StrOk n.pitch ∧ (n.acc = [] ∨ StrOk (n.acc ++ n.disp)) ∧ (n.acc = [] → n.disp = []) ∧
      ∀ s ∈ n.pre ++ n.mid ++ n.post1 ++ n.post2, StrOk s
  | .rest r => DurOk r.dur ∧ ∀ s ∈ r.pre ++ r.post, StrOk s

/-- the body of an element between duration and signifiers -/
def bodyText : AElem → Str
  | .note n => n.pitch ++ n.acc ++ n.disp
  | .rest _ => ['r']

/-- what the property says the exported element is -/
def elemText (dIF : Option ADur) (e : AElem) : Str := renderDur dIF ++ bodyText e ++ flat (sortedSet (decsOf e))

theorem elemOut_eq (dIF : Option ADur) (e : AElem) :
    elemOut (fun p => .ok p) dIF (keptSigs e) e = .ok (elemText dIF e) := by
  cases e with
  | note n => simp [elemOut, elemText, bodyText, keptSigs, bind, Except.bind, pure, Except.pure]
  | rest r => simp [elemOut, elemText, bodyText, keptSigs, pure, Except.pure]

/-! ### flattening joins -/

theorem strip_noSep (s : Str) (h : ∀ x ∈ s, (x == tokSep) = false ∧ (x == decSep) = false) : strip s = s := by
  unfold strip
  rw [removeC_noSep tokSep s (fun x hx => (h x hx).1), removeC_noSep decSep s (fun x hx => (h x hx).2)]

theorem strip_append (a b : Str) : strip (a ++ b) = strip a ++ strip b := by
  simp [strip, removeC]

theorem strip_joinSep_tok (xs : List Str) (h : ∀ f ∈ xs, ∀ x ∈ f, (x == tokSep) = false ∧ (x == decSep) = false) :
    strip (joinSep [tokSep] xs) = xs.flatten := by
  induction xs with
  | nil => rfl
  | cons f fs ih =>
    cases fs with
    | nil => simp only [joinSep, List.flatten_cons, List.flatten_nil, List.append_nil]; exact strip_noSep f (h f List.mem_cons_self)
    | cons g gs =>
      simp only [joinSep, strip_append, List.flatten_cons]
      rw [strip_noSep f (h f List.mem_cons_self), ih (fun f' hf' => h f' (List.mem_cons_of_mem _ hf'))]
      have : strip [tokSep] = [] := by decide
      rw [this]; simp

theorem strip_joinSep_dec (xs : List Str) (h : ∀ f ∈ xs, ∀ x ∈ f, (x == tokSep) = false ∧ (x == decSep) = false) :
    strip (joinSep [decSep] xs) = xs.flatten := by
  induction xs with
  | nil => rfl
  | cons f fs ih =>
    cases fs with
    | nil => simp only [joinSep, List.flatten_cons, List.flatten_nil, List.append_nil]; exact strip_noSep f (h f List.mem_cons_self)
    | cons g gs =>
      simp only [joinSep, strip_append, List.flatten_cons]
      rw [strip_noSep f (h f List.mem_cons_self), ih (fun f' hf' => h f' (List.mem_cons_of_mem _ hf'))]
      have : strip [decSep] = [] := by decide
      rw [this]; simp

/-! ### the decorations the listener keeps, sorted, are the sorted set of the signifiers -/

def mkDec (s : Str) : Sub := ⟨s, .DECORATION⟩

theorem mem_addDecs (acc : List Sub) (l : List Str) (x : Sub) :
    x ∈ addDecs acc l → x ∈ acc ∨ ∃ s ∈ l, x = mkDec s := by
  induction l generalizing acc with
  | nil => intro h; exact Or.inl h
  | cons s r ih =>
    unfold addDecs
    split
    · intro h
      rcases ih acc h with h | ⟨s', hs', he⟩
      · exact Or.inl h
      · exact Or.inr ⟨s', List.mem_cons_of_mem _ hs', he⟩
    · intro h
      rcases ih _ h with h | ⟨s', hs', he⟩
      · rcases List.mem_append.mp h with h | h
        · exact Or.inl h
        · simp only [List.mem_singleton] at h
          exact Or.inr ⟨s, List.mem_cons_self, h⟩
      · exact Or.inr ⟨s', List.mem_cons_of_mem _ hs', he⟩

theorem addDecs_acc_subset (acc : List Sub) (l : List Str) (x : Sub) (h : x ∈ acc) : x ∈ addDecs acc l := by
  induction l generalizing acc with
  | nil => exact h
  | cons s r ih =>
    unfold addDecs
    split
    · exact ih acc h
    · exact ih _ (List.mem_append_left _ h)

theorem mem_addDecs_of_mem (acc : List Sub) (l : List Str) (s : Str) (hs : s ∈ l)
    (hacc : ∀ d ∈ acc, d.cat = .DECORATION) : mkDec s ∈ addDecs acc l := by
  induction l generalizing acc with
  | nil => cases hs
  | cons t r ih =>
    unfold addDecs
    rcases List.mem_cons.mp hs with rfl | hs'
    · by_cases hany : acc.any (fun d => d.enc == s) = true
      · simp only [hany, if_true]
        obtain ⟨d, hd, he⟩ := List.any_eq_true.mp hany
        have : d = mkDec s := by
          have he' : d.enc = s := by simpa using he
          have hc := hacc d hd
          cases d; simp_all [mkDec]
        exact addDecs_acc_subset acc r _ (this ▸ hd)
      · simp only [hany, Bool.false_eq_true, if_false]
        exact addDecs_acc_subset _ r _ (List.mem_append_right _ (by simp [mkDec]))
    · split
      · exact ih acc hs' hacc
      · exact ih _ hs' (fun d hd => by
          rcases List.mem_append.mp hd with hd | hd
          · exact hacc d hd
          · simp only [List.mem_singleton] at hd; rw [hd])

theorem nodup_addDecs (acc : List Sub) (l : List Str) (hn : (acc.map (·.enc)).Nodup) :
    ((addDecs acc l).map (·.enc)).Nodup := by
  induction l generalizing acc with
  | nil => exact hn
  | cons s r ih =>
    unfold addDecs
    split
    · exact ih acc hn
    · rename_i hany
      apply ih
      simp only [List.map_append, List.map_cons, List.map_nil]
      apply List.nodup_append.mpr
      refine ⟨hn, by simp, ?_⟩
      intro a ha b hb
      simp only [List.mem_singleton] at hb
      subst hb
      intro heq; subst heq
      obtain ⟨d, hd, rfl⟩ := List.mem_map.mp ha
      exact hany (List.any_eq_true.mpr ⟨d, hd, by simp⟩)

/-- **sorted decorations = sorted set of signifiers** -/
theorem sorted_decs (l : List Str) :
    (addDecs [] l).mergeSort decLe = (sortedSet l).map mkDec := by
  apply List.Perm.eq_of_pairwise (le := fun a b => decLe a b = true)
  · intro a b _ _ h1 h2; exact decLe_antisymm a b h1 h2
  · exact List.pairwise_mergeSort (fun a b c => decLe_trans a b c) decLe_total _
  · have := strictSorted_sortedSet l
    unfold StrictSorted at this
    rw [List.pairwise_map]
    exact List.Pairwise.imp (fun hab => by simp [decLe, mkDec, Cat.value, hab.1]) this
  · refine (List.mergeSort_perm _ _).trans ?_
    apply (List.perm_ext_iff_of_nodup ?_ ?_).mpr
    · intro x
      constructor
      · intro hx
        rcases mem_addDecs [] l x hx with h | ⟨s, hs, rfl⟩
        · cases h
        · exact List.mem_map.mpr ⟨s, (mem_sortedSet s l).mpr hs, rfl⟩
      · intro hx
        obtain ⟨s, hs, rfl⟩ := List.mem_map.mp hx
        exact mem_addDecs_of_mem [] l s ((mem_sortedSet s l).mp hs) (by simp)
    · have := nodup_addDecs [] l (by simp)
      exact List.Pairwise.imp (fun h heq => h (congrArg _ heq)) (List.pairwise_map.mp this)
    · exact List.pairwise_map.mpr (List.Pairwise.imp (fun hne heq => hne (by simpa [mkDec] using heq)) (strictSorted_sortedSet l).nodup)

/-! ### one element -/

theorem durSubs_flat (d : Option ADur) : ((durSubs d).map (·.enc)).flatten = renderDur d := by
  cases d with
  | none => rfl
  | some d =>
    simp only [durSubs, renderDur, List.map_cons, List.map_append, List.map_replicate, List.flatten_cons, List.flatten_append]
    have : (List.replicate d.dots ['.']).flatten = List.replicate d.dots '.' := by
      induction d.dots with
      | zero => rfl
      | succ k ih => simp [List.replicate_succ, ih]
    rw [this]
    by_cases hg : d.grace.isEmpty = true
    · have : d.grace = [] := by simpa using hg
      simp [hg, this]
    · simp [hg]

theorem durSubs_ok (d : Option ADur) (h : DurOk d) : ∀ s ∈ durSubs d, C04.SubOk s ∧ s.cat = .DURATION := by
  cases d with
  | none => intro s hs; cases hs
  | some d =>
    intro s hs
    simp only [durSubs, List.mem_cons, List.mem_append, List.mem_replicate] at hs
    rcases hs with rfl | ⟨_, rfl⟩ | hs
    · exact ⟨⟨h.1.1, fun x hx => h.1.2 x hx⟩, rfl⟩
    · exact ⟨⟨by simp, fun x hx => by simp at hx; subst hx; exact ⟨by decide, by decide, by decide⟩⟩, rfl⟩
    · by_cases hg : d.grace.isEmpty = true
      · simp [hg] at hs
      · simp only [hg, Bool.false_eq_true, if_false, List.mem_singleton] at hs
        subst hs
        rcases h.2 with h0 | h0
        · simp [h0] at hg
        · exact ⟨⟨h0.1, h0.2⟩, rfl⟩

/-- the pitch/duration list the listener builds is ordered by category (durations, pitch, alteration / rest) -/
theorem pdOf_sorted (dIF : Option ADur) (h : DurOk dIF) (e : AElem) :
    (pdOf (durSubs dIF) e).Pairwise (fun a b => pdLe a b = true) := by
  have hd := durSubs_ok dIF h
  have hdd : (durSubs dIF).Pairwise (fun a b => pdLe a b = true) := by
    apply List.pairwise_of_forall_mem_list
    intro a ha b hb
    simp [pdLe, (hd a ha).2, (hd b hb).2]
  cases e with
  | note n =>
    simp only [pdOf]
    apply List.pairwise_append.mpr
    refine ⟨List.pairwise_append.mpr ⟨hdd, by simp, ?_⟩, ?_, ?_⟩
    · intro a ha b hb; simp only [List.mem_singleton] at hb; subst hb; simp [pdLe, (hd a ha).2, Cat.value]; decide
    · split <;> simp
    · intro a ha b hb
      split at hb
      · cases hb
      · simp only [List.mem_singleton] at hb; subst hb
        rcases List.mem_append.mp ha with ha | ha
        · simp [pdLe, (hd a ha).2, Cat.value]; decide
        · simp only [List.mem_singleton] at ha; subst ha; simp [pdLe, Cat.value]; decide
  | rest r =>
    simp only [pdOf]
    apply List.pairwise_append.mpr
    refine ⟨hdd, by simp, ?_⟩
    intro a ha b hb; simp only [List.mem_singleton] at hb; subst hb; simp [pdLe, (hd a ha).2, Cat.value]; decide

theorem pdOf_flat (dIF : Option ADur) (e : AElem) (he : ElemOk e) :
    ((pdOf (durSubs dIF) e).map (·.enc)).flatten = renderDur dIF ++ bodyText e := by
  cases e with
  | note n =>
    simp only [pdOf, List.map_append, List.flatten_append, durSubs_flat, bodyText, List.map_cons, List.map_nil, List.flatten_cons,
      List.flatten_nil, List.append_nil]
    by_cases ha : n.acc.isEmpty = true
    · have h0 : n.acc = [] := by simpa using ha
      have hd : n.disp = [] := he.2.2.2.1 h0
      simp [ha, h0, hd]
    · simp [ha]
  | rest r => simp [pdOf, durSubs_flat, bodyText]

/-- the `NoteRestToken` data the listener builds for an element, given the duration in force -/
def noteOf (dIF : Option ADur) (e : AElem) : Note := ⟨renderElem e, pdOf (durSubs dIF) e, addDecs [] (decsOf e)⟩

def allF : Cat → Bool := fun c => Cat.all.contains c

theorem allF_true (c : Cat) : allF c = true := by simp [allF, Cat.mem_all]

theorem filter_allF (l : List Sub) : l.filter (fun s => allF s.cat) = l :=
  List.filter_eq_self.mpr (fun s _ => allF_true s.cat)

theorem sigs_ok (e : AElem) (he : ElemOk e) : ∀ s ∈ decsOf e, StrOk s := by
  cases e with
  | note n => exact he.2.2.2.2
  | rest r =>
    intro s hs
    simp only [decsOf, List.mem_filter] at hs
    exact he.2 s hs.1

theorem pd_encs_ok (dIF : Option ADur) (e : AElem) (hd : DurOk dIF) (he : ElemOk e) :
    ∀ s ∈ pdOf (durSubs dIF) e, C04.SubOk s := by
  have hdur := durSubs_ok dIF hd
  cases e with
  | note n =>
    intro s hs
    simp only [pdOf, List.mem_append, List.mem_singleton] at hs
    rcases hs with (hs | rfl) | hs
    · exact (hdur s hs).1
    · exact ⟨he.2.1.1, he.2.1.2⟩
    · by_cases ha : n.acc.isEmpty = true
      · simp [ha] at hs
      · simp only [ha, Bool.false_eq_true, if_false, List.mem_singleton] at hs
        subst hs
        rcases he.2.2.1 with h0 | h0
        · simp [h0] at ha
        · exact ⟨h0.1, h0.2⟩
  | rest r =>
    intro s hs
    simp only [pdOf, List.mem_append, List.mem_singleton] at hs
    rcases hs with hs | rfl
    · exact (hdur s hs).1
    · exact ⟨by simp, fun x hx => by simp at hx; subst hx; exact ⟨by decide, by decide, by decide⟩⟩

theorem strip_withDec (p d : Str) : strip (withDec p d) = strip p ++ strip d := by
  unfold withDec
  by_cases h : d.isEmpty = true
  · have : d = [] := by simpa using h
    subst this; simp [strip, removeC]
  · simp only [h, Bool.false_eq_true, if_false, strip_append]
    have : strip [decSep] = [] := by decide
    rw [this]; simp

theorem pdOf_ne_nil (durs : List Sub) (e : AElem) : pdOf durs e ≠ [] := by
  cases e <;> simp [pdOf]

/-- **C03, one element.** The **kern text of the token built for an element is: the duration marks (of the duration
    in force) in grammar order, the pitch letters with accidental and display suffix (or `r`), then the sorted set of
    the element's own signifiers. -/
theorem C03_element (dIF : Option ADur) (e : AElem) (hd : DurOk dIF) (he : ElemOk e) :
    strip (C04.noteText allF (noteOf dIF e)) = elemText dIF e := by
  have hpdok := pd_encs_ok dIF e hd he
  have hsig := sigs_ok e he
  have hpd : C04.pdText allF (noteOf dIF e) = joinSep [tokSep] ((pdOf (durSubs dIF) e).map (·.enc)) := by
    unfold C04.pdText noteOf
    simp only [filter_allF, List.mergeSort_of_pairwise (pdOf_sorted dIF hd e)]
  have hdec : C04.decText allF (noteOf dIF e) = joinSep [decSep] (sortedSet (decsOf e)) := by
    unfold C04.decText noteOf
    simp only [filter_allF, sorted_decs, List.map_map]
    congr 1
    exact List.map_id'' (fun s => rfl) _
  have hne : C04.pdText allF (noteOf dIF e) ≠ [] := by
    rw [hpd]
    apply C04.joinSep_ne_nil
    · simpa using pdOf_ne_nil _ e
    · intro f hf
      obtain ⟨s, hs, rfl⟩ := List.mem_map.mp hf
      exact (hpdok s hs).1
  unfold C04.noteText
  rw [C04.orEmpty_of_ne _ (C04.withDec_ne _ _ hne), strip_withDec, hpd, hdec]
  rw [strip_joinSep_tok, strip_joinSep_dec, pdOf_flat dIF e he]
  · simp [elemText, flat, List.flatMap_id]
  · intro f hf x hx
    have := (hsig f ((mem_sortedSet f _).mp hf)).2 x hx
    exact ⟨this.1, this.2.1⟩
  · intro f hf x hx
    obtain ⟨s, hs, rfl⟩ := List.mem_map.mp hf
    have := (hpdok s hs).2 x hx
    exact ⟨this.1, this.2.1⟩

/-- a single note or rest: token level, all categories selected -/
theorem C03_single (e : AElem) (he : ElemOk e) (hd : DurOk (elemDur e)) :
    tokenize .kern Cat.all none (tokOf (.elem e)) = cellOutKern (.elem e) := by
  have h1 : cellOutKern (.elem e) = .ok (elemText (elemDur e) e) := by
    simp only [cellOutKern, cellOut]; exact elemOut_eq _ e
  have h2 : tokenize .kern Cat.all none (tokOf (.elem e)) = .ok (strip (C04.noteText allF (noteOf (elemDur e) e))) := by
    simp only [tokenize, tokOf, exportTok, C04.exportNote_none, Except.map]; rfl
  rw [h1, h2, C03_element (elemDur e) e hd he]

/-- every other kind of cell is exported verbatim (free of the two separator characters: see finding F10) -/
theorem C03_other_verbatim (k : OtherKind) (t : Str) (h : ∀ x ∈ t, (x == tokSep) = false ∧ (x == decSep) = false) :
    tokenize .kern Cat.all none (tokOf (.other k t)) = .ok t ∧ cellOutKern (.other k t) = .ok t := by
  refine ⟨?_, rfl⟩
  simp only [tokenize, tokOf, exportTok, Except.map, Tok.enc]
  rw [strip_noSep t h]

/-- a barline keeps its type and fermata and loses only the number (and trailing marks) -/
theorem C03_barline (b : ABar) (hb : ∀ x ∈ b.type, (x == tokSep) = false ∧ (x == decSep) = false) :
    tokenize .kern Cat.all none (tokOf (.bar b)) = .ok (barText b) ∧ cellOutKern (.bar b) = .ok (barText b) := by
  refine ⟨?_, rfl⟩
  simp only [tokenize, tokOf, exportTok, Except.map, Tok.enc]
  rw [strip_noSep]
  intro x hx
  unfold barText at hx
  simp only [List.mem_append] at hx
  rcases hx with (hx | hx) | hx
  · split at hx <;> simp at hx <;> (try rcases hx with rfl | rfl) <;> (try subst hx) <;> exact ⟨by decide, by decide⟩
  · exact hb x hx
  · split at hx <;> simp at hx; subst hx; exact ⟨by decide, by decide⟩

/-- **grid**: without a measure range the export is one row per stage (C06_export_rows), each row the cells of its nodes -/
theorem C03_grid (d : Doc) (hf : Export.defaultOpts.fromM = none) :
    Export.exportString d Export.defaultOpts =
      (Export.bodyRows d Export.defaultOpts 0 (d.stages.length - 1)).map (fun b => Export.renderRows (b.map (·.2))) :=
  C06.C06_export_rows d Export.defaultOpts rfl rfl

/-! non-vacuity -/
example : ElemOk (.note { pre := [['(']], dur := some ⟨['4'], none, 1, []⟩, pitch := ['c','c'], acc := ['#'], post2 := [['L'], ['(']] }) := by
  refine ⟨⟨⟨by simp, ?_⟩, Or.inl rfl⟩, ⟨by simp, ?_⟩, Or.inr ⟨by simp, ?_⟩, by simp, ?_⟩
  · intro x hx; simp at hx; rcases hx with rfl | rfl <;> exact ⟨by decide, by decide, by decide⟩
  · intro x hx; simp at hx; subst hx; exact ⟨by decide, by decide, by decide⟩
  · intro x hx; simp at hx; subst hx; exact ⟨by decide, by decide, by decide⟩
  · intro s hs; simp at hs
    rcases hs with rfl | rfl | rfl <;> exact ⟨by simp, fun x hx => by simp at hx; subst hx; exact ⟨by decide, by decide, by decide⟩⟩
example : elemText (some ⟨['4'], none, 1, []⟩) (.note { pre := [['(']], dur := some ⟨['4'], none, 1, []⟩, pitch := ['c','c'], acc := ['#'], post2 := [['L'], ['(']] })
    = ['4','.','c','c','#','(','L'] := by decide

end KM.C03
