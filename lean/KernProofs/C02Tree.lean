/-
  C02 — the imported tree has exactly the skeleton of the independent spine-path tracker (`KernModel/Spec/Tracker.lean`).
-/
import KernModel.Doc
import KernModel.Spec.Tracker
import KernProofs.Lemmas.ImporterInv
namespace KM.C02T
open Importer
open KM.Spec.Track

def addCoord (stages : List (List Node)) (stage : Nat) : Coord := (addNode stages stage Doc.rootNode).2

theorem addNode_snd (stages : List (List Node)) (stage : Nat) (n : Node) : (addNode stages stage n).2 = addCoord stages stage := by
  unfold addCoord addNode
  split
  · rfl
  · split <;> rfl

theorem addNode_set (stages : List (List Node)) (stage : Nat) (n n2 : Node) :
    (addNode stages stage n).1.set (addNode stages stage n).2.1
      ((((addNode stages stage n).1)[(addNode stages stage n).2.1]?.getD []).set (addNode stages stage n).2.2 n2)
      = (addNode stages stage n2).1 := by
  unfold addNode
  by_cases he : (stage == stages.length) = true
  · have e : stage = stages.length := by simpa using he
    subst e
    simp
  · simp only [he, Bool.false_eq_true, if_false]
    cases hs : stages[stage]? with
    | none =>
      simp only
      have : stages.length ≤ stage := List.getElem?_eq_none_iff.mp hs
      rw [List.set_eq_of_length_le (by simpa using this)]
    | some st =>
      simp only
      have hlt : stage < stages.length := by
        rcases Nat.lt_or_ge stage stages.length with h | h
        · exact h
        · rw [List.getElem?_eq_none_iff.mpr h] at hs; cases hs
      simp [List.getElem?_set_self hlt, List.set_set]

/-- what a body cell hands to the next row, as the code computes it -/
def emitM (row : List Str) (prev : List Coord) (stages : List (List Node)) (i : Nat) (col : Str) (hdr : Option Coord) (c : Coord) : List Coord :=
  if isSpineOp col then
    if col == ['*', '-'] then []
    else if col == ['*', '+'] || col == ['*', '^'] then [c, c]
    else if col == ['*', 'v'] then
      (if i == 0 || row[i - 1]? != some ['*', 'v'] || ((prev[i - 1]?).bind (fun q => (Doc.nodeAt stages q).bind (·.hdr))) != hdr then [c] else [])
    else []
  else [c]

theorem cellStep_body (P : CellParser) (row : List Str) (stage : Nat) (acc acc' : RowAcc) (i : Nat) (col : Str)
    (hnh : startsWith ['*', '*'] col = false)
    (h : cellStep P row stage acc i col = .ok acc') :
    ∃ prev pc p n, acc.st.prev = some prev ∧ prev[i]? = some pc ∧ Doc.nodeAt acc.st.stages pc = some p ∧
      n.parent = some pc ∧ n.hdr = p.hdr ∧ n.tok.isSome = true ∧
      acc'.st.stages = (addNode acc.st.stages stage n).1 ∧
      acc'.st.next = acc.st.next ++ emitM row prev acc'.st.stages i col p.hdr (addCoord acc.st.stages stage) := by
  unfold cellStep at h
  simp only [hnh, Bool.false_eq_true, if_false, bind, Except.bind, pure, Except.pure] at h
  split at h
  · split at h
    · cases h
    · split at h
      · cases h
      · split at h
        · cases h
        · rename_i hop _ prev hprev _ pc hpc _ p hp
          split at h
          · cases h
            refine ⟨prev, pc, p, ⟨some (.simple .SpineOperationToken col .SPINE_OPERATION false), some pc, p.hdr, p.sigs, lastOpOf acc.st.stages pc⟩, hprev, hpc, hp, rfl, rfl, rfl, rfl, ?_⟩
            simp [emitM, *]
          · split at h
            · cases h
              refine ⟨prev, pc, p, ⟨some (.simple .SpineOperationToken col .SPINE_OPERATION false), some pc, p.hdr, p.sigs, lastOpOf acc.st.stages pc⟩, hprev, hpc, hp, rfl, rfl, rfl, rfl, ?_⟩
              simp [emitM, addNode_snd, *]
            · split at h
              · cases h
                refine ⟨prev, pc, p, ⟨some (.simple .SpineOperationToken col .SPINE_OPERATION false), some pc, p.hdr, p.sigs, lastOpOf acc.st.stages pc⟩, hprev, hpc, hp, rfl, rfl, rfl, rfl, ?_⟩
                simp only [emitM, addNode_snd, *]
                simp only [if_true, Bool.false_eq_true, if_false]
                split <;> simp
              · cases h
  · rename_i hop
    split at h
    · cases h
    · rename_i v hv
      split at h
      · cases h
      · split at h
        · cases h
        · split at h
          · cases h
          · rename_i _ prev hprev _ pc hpc _ p hp
            split at h
            · cases h
              refine ⟨prev, pc, p, ⟨some v.1, some pc, p.hdr, p.sigs, lastOpOf acc.st.stages pc⟩, hprev, hpc, hp, rfl, rfl, rfl, rfl, ?_⟩
              simp [emitM, addNode_snd, hop]
            · split at h
              · cases h
                refine ⟨prev, pc, p, ⟨some v.1, some pc, p.hdr, p.sigs, lastOpOf acc.st.stages pc⟩, hprev, hpc, hp, rfl, rfl, rfl, rfl, ?_⟩
                simp [emitM, addNode_snd, hop]
              · split at h
                · cases h
                  refine ⟨prev, pc, p, ⟨some v.1, some pc, p.hdr, sigsUpdate p.sigs v.1.cls (addNode acc.st.stages stage ⟨some v.1, some pc, p.hdr, p.sigs, lastOpOf acc.st.stages pc⟩).2, lastOpOf acc.st.stages pc⟩, hprev, hpc, hp, rfl, rfl, rfl, ?_, ?_⟩
                  · exact addNode_set _ _ _ _
                  · simp [emitM, addNode_snd, hop]
                · cases h
                  refine ⟨prev, pc, p, ⟨some v.1, some pc, p.hdr, p.sigs, lastOpOf acc.st.stages pc⟩, hprev, hpc, hp, rfl, rfl, rfl, rfl, ?_⟩
                  simp [emitM, addNode_snd, hop]

/-- a `**` cell: a new header node hanging from the last global comment (or the root), its own header -/
theorem cellStep_header (P : CellParser) (row : List Str) (stage : Nat) (acc acc' : RowAcc) (i : Nat) (col : Str)
    (hh : startsWith ['*', '*'] col = true)
    (h : cellStep P row stage acc i col = .ok acc') :
    acc'.st.stages = (addNode acc.st.stages stage ⟨some (.header col i), some acc.st.lastPre, some (addCoord acc.st.stages stage), [], none⟩).1 ∧
    acc'.st.next = acc.st.next ++ [addCoord acc.st.stages stage] := by
  unfold cellStep at h
  simp only [hh, if_true, bind, Except.bind, pure, Except.pure, Except.ok.injEq] at h
  subst h
  refine ⟨?_, ?_⟩
  · simp only [← addNode_snd acc.st.stages stage ⟨some (.header col i), some acc.st.lastPre, none, [], none⟩]
    exact addNode_set _ _ _ _
  · simp [addNode_snd]

def cur (ns : List Node) : List (List Node) := match ns with | [] => [] | _ :: _ => [ns]

theorem addNode_cur (S0 : List (List Node)) (ns : List Node) (n : Node) :
    addNode (S0 ++ cur ns) S0.length n = (S0 ++ [ns ++ [n]], (S0.length, ns.length)) := by
  unfold addNode
  cases ns with
  | nil => simp [cur]
  | cons a l =>
    have : (S0.length == (S0 ++ cur (a :: l)).length) = false := by simp [cur]
    simp only [this, Bool.false_eq_true, if_false]
    simp [cur]

theorem addCoord_cur (S0 : List (List Node)) (ns : List Node) : addCoord (S0 ++ cur ns) S0.length = (S0.length, ns.length) := by
  unfold addCoord; rw [addNode_cur]

theorem cur_append_singleton (ns : List Node) (n : Node) : cur (ns ++ [n]) = [ns ++ [n]] := by
  cases ns <;> simp [cur]

theorem nodeAt_append_left (S X : List (List Node)) (c : Coord) (h : c.1 < S.length) :
    Doc.nodeAt (S ++ X) c = Doc.nodeAt S c := by
  unfold Doc.nodeAt
  rw [List.getElem?_append_left h]

theorem nodeAt_lt (S : List (List Node)) (c : Coord) (n : Node) (h : Doc.nodeAt S c = some n) : c.1 < S.length := by
  unfold Doc.nodeAt at h
  rcases Nat.lt_or_ge c.1 S.length with h1 | h1
  · exact h1
  · rw [List.getElem?_eq_none_iff.mpr h1] at h; cases h

def skelOf (n : Node) : Skel := (n.parent, n.hdr)

/-- every live path points at a node of the tree whose header is the path's spine -/
def LiveOk (S : List (List Node)) (live : List Path) : Prop :=
  ∀ p ∈ live, (∃ n, Doc.nodeAt S p.1 = some n ∧ n.hdr = some p.2) ∧ (∃ hn ht, Doc.nodeAt S p.2 = some hn ∧ hn.tok = some ht)

theorem LiveOk.mono {S : List (List Node)} {live : List Path} (h : LiveOk S live) (X : List (List Node)) : LiveOk (S ++ X) live := by
  intro p hp
  obtain ⟨⟨n, h1, h2⟩, ⟨hn, ht, h3, h4⟩⟩ := h p hp
  exact ⟨⟨n, by rw [nodeAt_append_left _ _ _ (nodeAt_lt _ _ _ h1)]; exact h1, h2⟩,
         ⟨hn, ht, by rw [nodeAt_append_left _ _ _ (nodeAt_lt _ _ _ h3)]; exact h3, h4⟩⟩

/-- the code's `*v` test (text of the cell to the left, header of the path to the left) is the tracker's -/
theorem emitM_eq (row : List Str) (live : List Path) (S' : List (List Node)) (i : Nat) (col : Str) (c : Coord) (p : Path)
    (hp : live[i]? = some p) (hS : LiveOk S' live) :
    emitM row (live.map (·.1)) S' i col (some p.2) c = (emit (left row live i) col p.2 c).map (·.1) := by
  unfold emitM emit
  by_cases h1 : isSpineOp col = true
  · simp only [h1, if_true]
    by_cases h2 : (col == ['*', '-']) = true
    · simp [h2]
    · simp only [h2, Bool.false_eq_true, if_false]
      by_cases h3 : (col == ['*', '+'] || col == ['*', '^']) = true
      · simp [h3]
      · simp only [h3, Bool.false_eq_true, if_false]
        by_cases h4 : (col == ['*', 'v']) = true
        · simp only [h4, if_true]
          by_cases hi : i = 0
          · subst hi; simp [left]
          · have hlt : i < live.length := by
              rcases Nat.lt_or_ge i live.length with h | h
              · exact h
              · rw [List.getElem?_eq_none_iff.mpr h] at hp; cases hp
            have hq : live[i - 1]? = some live[i - 1] := List.getElem?_eq_getElem (by omega)
            obtain ⟨n, hn1, hn2⟩ := (hS live[i - 1] (List.getElem_mem _)).1
            have hleft : ((live.map (·.1))[i - 1]?).bind (fun q => (Doc.nodeAt S' q).bind (·.hdr)) = some (live[i - 1]).2 := by
              simp [hq, hn1, hn2]
            rw [hleft]
            have hi0 : (i == 0) = false := by simpa using hi
            cases hr : row[i - 1]? with
            | none => simp [left, hi, hr, hi0]
            | some lc =>
              simp only [left, hi, if_false, hr, hq, hi0, Bool.false_or]
              by_cases ha : (lc == ['*', 'v']) = true
              · have hlc : lc = ['*', 'v'] := by simpa using ha
                by_cases hb : ((live[i - 1]).2 == p.2) = true
                · have : (live[i-1]).2 = p.2 := by simpa using hb
                  simp [hlc, this]
                · have : (live[i-1]).2 ≠ p.2 := by simpa using hb
                  simp [hlc, this]
              · have : lc ≠ ['*', 'v'] := by simpa using ha
                simp [ha, this]
        · simp [h4]
  · simp [h1]

theorem emit_mem (left : Option (Str × Coord)) (col : Str) (hdr c : Coord) : ∀ q ∈ emit left col hdr c, q = (c, hdr) := by
  intro q hq
  unfold emit at hq
  repeat' (first | (split at hq) | (simp at hq) | (cases hq) | (rcases hq with rfl | rfl) | rfl)

/-- **one cell.**  A cell at column `i = ns.length` of a line whose live paths are `t.live` appends one node with the tracker's
    (parent, header) and hands the tracker's paths to the next line. -/
theorem cellStep_track (P : CellParser) (t : T) (S0 : List (List Node)) (row : List Str) (hlive : LiveOk S0 t.live)
    (ns : List Node) (i : Nat) (acc acc1 : RowAcc) (c : Str)
    (hns : ns.length = i) (hst : acc.st.stages = S0 ++ cur ns)
    (hprev : t.live ≠ [] → acc.st.prev = some (t.live.map (·.1)))
    (hlp : acc.st.lastPre = t.lastPre)
    (hwfc : isHeaderCell c = true ∨ i < t.live.length)
    (hc : cellStep P row S0.length acc i c = .ok acc1) :
    ∃ n, acc1.st.stages = S0 ++ cur (ns ++ [n]) ∧ skelOf n = cellSkel t S0.length i c ∧ n.tok.isSome = true ∧
      acc1.st.next = acc.st.next ++ (cellNext t S0.length row i c).map (·.1) := by
  by_cases hh : startsWith ['*', '*'] c = true
  · -- a `**` cell
    obtain ⟨hs1, hn1⟩ := cellStep_header P row S0.length acc acc1 i c hh hc
    rw [hst, addNode_cur, addCoord_cur] at hs1
    rw [hst, addCoord_cur] at hn1
    refine ⟨⟨some (.header c i), some acc.st.lastPre, some (S0.length, ns.length), [], none⟩, ?_, ?_, rfl, ?_⟩
    · rw [cur_append_singleton]; exact hs1
    · simp [skelOf, cellSkel, isHeaderCell, hh, hlp, hns]
    · rw [hn1]; simp [cellNext, isHeaderCell, hh, hns]
  · -- a cell below a live path
    have hh' : startsWith ['*', '*'] c = false := by simpa using hh
    have hlt : i < t.live.length := by
      rcases hwfc with h1 | h1
      · simp [isHeaderCell, hh'] at h1
      · exact h1
    have hne : t.live ≠ [] := by intro e; rw [e] at hlt; simp at hlt
    obtain ⟨prev', pc, p', n, hprev', hpc, hp', hpar, hhdr, htok, hstages, hnext⟩ := cellStep_body P row S0.length acc acc1 i c hh' hc
    rw [hprev hne] at hprev'
    have hpe : prev' = t.live.map (·.1) := (Option.some.inj hprev').symm
    subst hpe
    have hpp : t.live[i]? = some t.live[i] := List.getElem?_eq_getElem hlt
    have hpc' : pc = (t.live[i]).1 := by
      simp only [List.getElem?_map, hpp, Option.map_some, Option.some.injEq] at hpc
      exact hpc.symm
    subst hpc'
    obtain ⟨n0, hn0, hn0h⟩ := (hlive t.live[i] (List.getElem_mem _)).1
    have hp0 : p' = n0 := by
      rw [hst, nodeAt_append_left _ _ _ (nodeAt_lt _ _ _ hn0), hn0] at hp'
      exact (Option.some.inj hp').symm
    subst hp0
    rw [hst, addNode_cur] at hstages
    rw [hst, addCoord_cur, hn0h] at hnext
    have hok1 : LiveOk acc1.st.stages t.live := by rw [hstages]; exact hlive.mono _
    rw [emitM_eq row t.live acc1.st.stages i c _ t.live[i] hpp hok1] at hnext
    refine ⟨n, ?_, ?_, htok, ?_⟩
    · rw [cur_append_singleton]; exact hstages
    · simp [skelOf, cellSkel, isHeaderCell, hh', hpp, hpar, hhdr, hn0h]
    · rw [hnext]; simp [cellNext, isHeaderCell, hh', hpp, hns]

/-- the spine operators the importer implements (`*x` is in `SPINE_OPERATIONS` but raises) -/
def okOps : List Str := [['*', '-'], ['*', '+'], ['*', '^'], ['*', 'v']]

/-- **one cell is accepted**: under the same hypotheses no branch of the cell loop raises, whatever the parser does -/
theorem cellStep_ok (P : CellParser) (t : T) (S0 : List (List Node)) (row : List Str) (hlive : LiveOk S0 t.live)
    (ns : List Node) (i : Nat) (acc : RowAcc) (c : Str)
    (hst : acc.st.stages = S0 ++ cur ns)
    (hprev : t.live ≠ [] → acc.st.prev = some (t.live.map (·.1)))
    (hwfc : isHeaderCell c = true ∨ i < t.live.length)
    (hop : isSpineOp c = true → c ∈ okOps) :
    ∃ acc1, cellStep P row S0.length acc i c = .ok acc1 := by
  by_cases hh : startsWith ['*', '*'] c = true
  · unfold cellStep
    simp only [hh, if_true, bind, Except.bind, pure, Except.pure]
    exact ⟨_, rfl⟩
  · have hh' : startsWith ['*', '*'] c = false := by simpa using hh
    have hlt : i < t.live.length := by
      rcases hwfc with h1 | h1
      · simp [isHeaderCell, hh'] at h1
      · exact h1
    have hne : t.live ≠ [] := by intro e; rw [e] at hlt; simp at hlt
    have hpp : (t.live.map (·.1))[i]? = some (t.live[i]).1 := by simp [List.getElem?_eq_getElem hlt]
    obtain ⟨⟨n0, hn0, hn0h⟩, ⟨hn, ht, hhn, hht⟩⟩ := hlive t.live[i] (List.getElem_mem _)
    have hn0' : Doc.nodeAt acc.st.stages (t.live[i]).1 = some n0 := by
      rw [hst, nodeAt_append_left _ _ _ (nodeAt_lt _ _ _ hn0)]; exact hn0
    have hhn' : Doc.nodeAt acc.st.stages (t.live[i]).2 = some hn := by
      rw [hst, nodeAt_append_left _ _ _ (nodeAt_lt _ _ _ hhn)]; exact hhn
    have hge : ¬ (i ≥ (t.live.map (·.1)).length) := by simp; exact hlt
    unfold cellStep
    simp only [hh', Bool.false_eq_true, if_false, bind, Except.bind, pure, Except.pure, hprev hne, hpp, hn0', hn0h, hhn', hht, hge,
      Option.bind]
    by_cases ho : isSpineOp c = true
    · simp only [ho, if_true]
      have := hop ho
      simp only [okOps, List.mem_cons, List.not_mem_nil, or_false] at this
      rcases this with rfl | rfl | rfl | rfl
      · exact ⟨_, rfl⟩
      · exact ⟨_, rfl⟩
      · exact ⟨_, rfl⟩
      · exact ⟨_, rfl⟩
    · simp only [ho, Bool.false_eq_true, if_false]
      by_cases hf : startsWith ['!'] c = true
      · simp only [hf, if_true]
        split <;> (try split) <;> (try split) <;> exact ⟨_, rfl⟩
      · simp only [hf, Bool.false_eq_true, if_false]
        cases hP : P ht.enc c with
        | some tk => simp only; split <;> (try split) <;> (try split) <;> exact ⟨_, rfl⟩
        | none => simp only; split <;> (try split) <;> (try split) <;> exact ⟨_, rfl⟩

/-- **the cells of one line.** -/
theorem cellsLoop_track (P : CellParser) (t : T) (S0 : List (List Node)) (row : List Str) (hlive : LiveOk S0 t.live) :
    ∀ (cells : List Str) (ns : List Node) (i : Nat) (acc acc' : RowAcc),
      ns.length = i →
      acc.st.stages = S0 ++ cur ns →
      (t.live ≠ [] → acc.st.prev = some (t.live.map (·.1))) →
      acc.st.lastPre = t.lastPre →
      (∀ ci ∈ cells.zipIdx i, isHeaderCell ci.1 = true ∨ ci.2 < t.live.length) →
      cellsLoop P row S0.length acc i cells = .ok acc' →
      ∃ ns', acc'.st.stages = S0 ++ cur (ns ++ ns') ∧
        ns'.map skelOf = (cells.zipIdx i).map (fun ci => cellSkel t S0.length ci.2 ci.1) ∧
        (∀ n ∈ ns', n.tok.isSome = true) ∧
        acc'.st.next = acc.st.next ++ ((cells.zipIdx i).flatMap (fun ci => cellNext t S0.length row ci.2 ci.1)).map (·.1) := by
  intro cells
  induction cells with
  | nil =>
    intro ns i acc acc' _ hst _ _ _ h
    simp only [cellsLoop, Except.ok.injEq] at h
    subst h
    exact ⟨[], by simpa using hst, by simp, by simp, by simp⟩
  | cons c cs ih =>
    intro ns i acc acc' hns hst hprev hlp hwf h
    simp only [cellsLoop, bind, Except.bind] at h
    cases hc : cellStep P row S0.length acc i c with
    | error e => rw [hc] at h; cases h
    | ok acc1 =>
      rw [hc] at h
      obtain ⟨f1, _, _, f4⟩ := cellStep_frame P row S0.length acc acc1 i c hc
      have hwfc := hwf (c, i) (by simp [List.zipIdx_cons])
      have hwf' : ∀ ci ∈ cs.zipIdx (i + 1), isHeaderCell ci.1 = true ∨ ci.2 < t.live.length :=
        fun ci hci => hwf ci (by simp [List.zipIdx_cons, hci])
      obtain ⟨n, k1, k2, k3, k4⟩ := cellStep_track P t S0 row hlive ns i acc acc1 c hns hst hprev hlp hwfc hc
      obtain ⟨ns2, g1, g2, g3, g4⟩ := ih (ns ++ [n]) (i + 1) acc1 acc' (by simp [hns]) k1
        (fun hne => by rw [f1]; exact hprev hne) (by rw [f4]; exact hlp) hwf' h
      refine ⟨n :: ns2, ?_, ?_, ?_, ?_⟩
      · rw [g1]; simp
      · simp only [List.map_cons, List.zipIdx_cons, g2, k2]
      · intro m hm
        rcases List.mem_cons.mp hm with rfl | hm
        · exact k3
        · exact g3 m hm
      · rw [g4, k4]; simp [List.zipIdx_cons]

/-- **the cells of one line are accepted** -/
theorem cellsLoop_ok (P : CellParser) (t : T) (S0 : List (List Node)) (row : List Str) (hlive : LiveOk S0 t.live) :
    ∀ (cells : List Str) (ns : List Node) (i : Nat) (acc : RowAcc),
      ns.length = i →
      acc.st.stages = S0 ++ cur ns →
      (t.live ≠ [] → acc.st.prev = some (t.live.map (·.1))) →
      acc.st.lastPre = t.lastPre →
      (∀ ci ∈ cells.zipIdx i, isHeaderCell ci.1 = true ∨ ci.2 < t.live.length) →
      (∀ c ∈ cells, isSpineOp c = true → c ∈ okOps) →
      ∃ acc', cellsLoop P row S0.length acc i cells = .ok acc' := by
  intro cells
  induction cells with
  | nil => intro ns i acc _ _ _ _ _ _; exact ⟨acc, rfl⟩
  | cons c cs ih =>
    intro ns i acc hns hst hprev hlp hwf hops
    have hwfc := hwf (c, i) (by simp [List.zipIdx_cons])
    have hwf' : ∀ ci ∈ cs.zipIdx (i + 1), isHeaderCell ci.1 = true ∨ ci.2 < t.live.length :=
      fun ci hci => hwf ci (by simp [List.zipIdx_cons, hci])
    obtain ⟨acc1, hc⟩ := cellStep_ok P t S0 row hlive ns i acc c hst hprev hwfc (hops c (by simp))
    obtain ⟨f1, _, _, f4⟩ := cellStep_frame P row S0.length acc acc1 i c hc
    obtain ⟨n, k1, _, _, _⟩ := cellStep_track P t S0 row hlive ns i acc acc1 c hns hst hprev hlp hwfc hc
    obtain ⟨acc', h'⟩ := ih (ns ++ [n]) (i + 1) acc1 (by simp [hns]) k1
      (fun hne => by rw [f1]; exact hprev hne) (by rw [f4]; exact hlp) hwf' (fun c' hc' => hops c' (by simp [hc']))
    exact ⟨acc', by simp only [cellsLoop, bind, Except.bind, hc]; exact h'⟩

/-- `_prev_stage_parents` as the next line will see it -/
def effPrev (st : ImpState) : Option (List Coord) := if st.next.isEmpty then st.prev else some st.next

/-- the simulation relation between the importer's state and the tracker's -/
structure Inv (st : ImpState) (t : T) : Prop where
  skel : st.stages.map (·.map skelOf) = t.skel
  prev : t.live ≠ [] → effPrev st = some (t.live.map (·.1))
  live : LiveOk st.stages t.live
  lastPre : st.lastPre = t.lastPre

theorem addNode_new (S : List (List Node)) (n : Node) : addNode S S.length n = (S ++ [[n]], (S.length, 0)) := by
  simp [addNode]

theorem nodeAt_last (S : List (List Node)) (ns : List Node) (i : Nat) : Doc.nodeAt (S ++ [ns]) (S.length, i) = ns[i]? := by
  unfold Doc.nodeAt
  simp

theorem Inv.length {st : ImpState} {t : T} (h : Inv st t) : t.skel.length = st.stages.length := by
  have := congrArg List.length h.skel
  simpa using this.symm

/-- **one line.** -/
theorem rowStep_track (P : CellParser) (st st' : ImpState) (t : T) (row : List Str) (hinv : Inv st t)
    (hwf : rowWF t row = true) (h : rowStep P st row = .ok st') : Inv st' (step t row) := by
  cases row with
  | nil =>
    simp only [rowStep, Except.ok.injEq] at h
    subst h
    exact hinv
  | cons c0 cs =>
    have hlen := hinv.length
    unfold rowStep at h
    simp only at h
    by_cases hm : startsWith ['!', '!'] c0 = true
    · -- a global comment
      simp only [hm, if_true, Except.ok.injEq, addNode_new] at h
      subst h
      simp only [step, hm, if_true]
      refine ⟨?_, ?_, ?_, ?_⟩
      · simp [skelOf, hinv.skel, hinv.lastPre]
      · intro hne
        have := hinv.prev hne
        simpa [effPrev] using this
      · exact hinv.live.mono _
      · simp [hlen]
    · -- a line of cells
      simp only [hm, Bool.false_eq_true, if_false, bind, Except.bind] at h
      split at h
      · cases h
      · rename_i acc hacc
        simp only [pure, Except.pure, Except.ok.injEq] at h
        have hwf' : ∀ ci ∈ (c0 :: cs).zipIdx 0, isHeaderCell ci.1 = true ∨ ci.2 < t.live.length := by
          intro ci hci
          simp only [rowWF, hm, Bool.false_or, List.all_eq_true] at hwf
          have := hwf ci hci
          simpa using this
        obtain ⟨ns', g1, g2, gt, g3⟩ := cellsLoop_track P t st.stages (c0 :: cs) hinv.live (c0 :: cs) [] 0 _ acc
          (by simp) (by simp [cur])
          (fun hne => by simpa [effPrev] using hinv.prev hne) (by simpa using hinv.lastPre) hwf' hacc
        have hf := cellsLoop_frame P (c0 :: cs) st.stages.length _ acc 0 (c0 :: cs) hacc
        simp only [List.nil_append] at g1 g3
        have hnl : ns'.length = (c0 :: cs).length := by
          have := congrArg List.length g2
          simpa using this
        have hcur : cur ns' = [ns'] := by
          cases ns' with
          | nil => simp at hnl
          | cons a l => rfl
        rw [hcur] at g1
        have hst' : st'.stages = st.stages ++ [ns'] ∧ st'.next = acc.st.next ∧ st'.lastPre = acc.st.lastPre ∧ st'.prev = acc.st.prev := by
          subst h
          by_cases hb : acc.isBar = true <;> simp [hb, g1]
        obtain ⟨e1, e2, e3, e4⟩ := hst'
        simp only [step, hm, Bool.false_eq_true, if_false]
        refine ⟨?_, ?_, ?_, ?_⟩
        · rw [e1]
          simp [hinv.skel, g2, hlen]
        · intro hne
          simp only at hne
          have hn : st'.next ≠ [] := by
            rw [e2, g3]
            rw [hlen] at hne
            simpa using hne
          unfold effPrev
          have : st'.next.isEmpty = false := by
            cases hx : st'.next with
            | nil => exact absurd hx hn
            | cons a l => rfl
          rw [this, e2, g3, hlen]
          simp
        · -- every path handed to the next line points at the node of its cell, whose header is the path's spine
          rw [e1]
          intro q hq
          simp only [List.mem_flatMap] at hq
          obtain ⟨ci, hci, hq⟩ := hq
          obtain ⟨c, i⟩ := ci
          have hget : (c0 :: cs)[i]? = some c := by
            have := (List.mem_zipIdx_iff_getElem? (x := (c, i)) (l := c0 :: cs)).mp hci
            simpa using this
          have hi : i < ns'.length := by
            rw [hnl]
            rcases Nat.lt_or_ge i (c0 :: cs).length with h1 | h1
            · exact h1
            · rw [List.getElem?_eq_none_iff.mpr h1] at hget; cases hget
          have hsk : skelOf ns'[i] = cellSkel t st.stages.length i c := by
            have h1 : (ns'.map skelOf)[i]? = some (skelOf ns'[i]) := by simp [List.getElem?_eq_getElem hi]
            rw [g2] at h1
            simp only [List.getElem?_map, List.getElem?_zipIdx, hget, Option.map_some, Nat.zero_add, Option.some.injEq] at h1
            exact h1.symm
          rw [hlen] at hq
          have hnode : Doc.nodeAt (st.stages ++ [ns']) (st.stages.length, i) = some ns'[i] := by
            rw [nodeAt_last]; exact List.getElem?_eq_getElem hi
          unfold cellNext at hq
          by_cases hh : isHeaderCell c = true
          · simp only [hh, if_true, List.mem_singleton] at hq
            subst hq
            have h2 : (ns'[i]).hdr = some (st.stages.length, i) := by
              have : (skelOf ns'[i]).2 = (cellSkel t st.stages.length i c).2 := by rw [hsk]
              simpa [skelOf, cellSkel, hh] using this
            obtain ⟨tk, htk⟩ := Option.isSome_iff_exists.mp (gt ns'[i] (List.getElem_mem _))
            exact ⟨⟨ns'[i], hnode, h2⟩, ⟨ns'[i], tk, hnode, htk⟩⟩
          · simp only [hh, Bool.false_eq_true, if_false] at hq
            cases hl : t.live[i]? with
            | none => rw [hl] at hq; simp at hq
            | some p =>
              rw [hl] at hq
              have := emit_mem _ _ _ _ q hq
              subst this
              have h2 : (ns'[i]).hdr = some p.2 := by
                have : (skelOf ns'[i]).2 = (cellSkel t st.stages.length i c).2 := by rw [hsk]
                simpa [skelOf, cellSkel, hh, hl] using this
              have hpm : p ∈ t.live := List.mem_of_getElem? hl
              obtain ⟨hn, ht, k1, k2⟩ := ((hinv.live.mono [ns']) p hpm).2
              exact ⟨⟨ns'[i], hnode, h2⟩, ⟨hn, ht, k1, k2⟩⟩
        · rw [e3, hf.2.2.2]
          simpa using hinv.lastPre

theorem inv_init : Inv Importer.init Spec.Track.init := by
  refine ⟨by simp [Importer.init, Spec.Track.init, skelOf, Doc.rootNode], fun h => absurd rfl h, ?_, rfl⟩
  intro p hp
  simp [Spec.Track.init] at hp

theorem runRows_track (P : CellParser) (rows : List (List Str)) :
    ∀ (st st' : ImpState) (t : T), Inv st t → wfFrom t rows = true → runRows P st rows = .ok st' → Inv st' (rows.foldl step t) := by
  induction rows with
  | nil =>
    intro st st' t hinv _ h
    simp only [runRows, Except.ok.injEq] at h
    subst h
    exact hinv
  | cons r rs ih =>
    intro st st' t hinv hwf h
    simp only [runRows, bind, Except.bind] at h
    simp only [wfFrom, Bool.and_eq_true] at hwf
    cases hr : rowStep P st r with
    | error e => rw [hr] at h; cases h
    | ok s1 =>
      rw [hr] at h
      exact ih s1 st' (step t r) (rowStep_track P st s1 t r hinv hwf.1 hr) hwf.2 h

/-- **C02, the tree mirrors the text.**  For every cell parser and every list of rows without surplus cells, a successful
    import has exactly the tracker's skeleton: one stage per non-empty line, one node per cell in order, each node's parent the
    cell directly above on the same spine path (both branches of a split from the split cell, a merged group from its first
    join cell, global comments skipped) and each node's header the `**` cell that opened its spine. -/
theorem C02_tree (P : CellParser) (rows : List (List Str)) (d : Doc) (h : importRows P rows = .ok d) (hwf : wf rows = true) :
    d.stages.map (·.map skelOf) = (run rows).skel := by
  unfold importRows at h
  cases hr : runRows P Importer.init rows with
  | error e => rw [hr] at h; cases h
  | ok st =>
    rw [hr] at h
    simp only [Except.map, Except.ok.injEq] at h
    subst h
    exact (runRows_track P rows _ _ _ inv_init hwf hr).skel

theorem C02_tree_text (P : CellParser) (text : Str) (d : Doc) (h : importString P text = .ok d) (hwf : wf (readRows text) = true) :
    d.stages.map (·.map skelOf) = (run (readRows text)).skel := C02_tree P (readRows text) d h hwf

/-- no cell of the line is an operator the importer does not implement (`*x`) -/
def rowStrict (row : List Str) : Bool :=
  match row with
  | [] => true
  | c0 :: _ => startsWith ['!', '!'] c0 || row.all (fun c => !isSpineOp c || okOps.contains c)

theorem rowStep_ok (P : CellParser) (st : ImpState) (t : T) (row : List Str) (hinv : Inv st t)
    (hwf : rowWF t row = true) (hs : rowStrict row = true) : ∃ st', rowStep P st row = .ok st' := by
  cases row with
  | nil => exact ⟨st, rfl⟩
  | cons c0 cs =>
    unfold rowStep
    simp only
    by_cases hm : startsWith ['!', '!'] c0 = true
    · simp only [hm, if_true]
      exact ⟨_, rfl⟩
    · simp only [hm, Bool.false_eq_true, if_false, bind, Except.bind]
      have hwf' : ∀ ci ∈ (c0 :: cs).zipIdx 0, isHeaderCell ci.1 = true ∨ ci.2 < t.live.length := by
        intro ci hci
        simp only [rowWF, hm, Bool.false_or, List.all_eq_true] at hwf
        have := hwf ci hci
        simpa using this
      have hops : ∀ c ∈ (c0 :: cs), isSpineOp c = true → c ∈ okOps := by
        intro c hc ho
        simp only [rowStrict, hm, Bool.false_or, List.all_eq_true] at hs
        have := hs c hc
        simpa [ho] using this
      obtain ⟨acc, hacc⟩ := cellsLoop_ok P t st.stages (c0 :: cs) hinv.live (c0 :: cs) [] 0
        ⟨{ st with prev := if st.next.isEmpty then st.prev else some st.next, next := [] }, false⟩
        (by simp) (by simp [cur])
        (fun hne => by simpa [effPrev] using hinv.prev hne) (by simpa using hinv.lastPre) hwf' hops
      rw [hacc]
      exact ⟨_, rfl⟩

theorem runRows_ok (P : CellParser) (rows : List (List Str)) :
    ∀ (st : ImpState) (t : T), Inv st t → wfFrom t rows = true → (∀ r ∈ rows, rowStrict r = true) →
      ∃ st', runRows P st rows = .ok st' := by
  induction rows with
  | nil => intro st t _ _ _; exact ⟨st, rfl⟩
  | cons r rs ih =>
    intro st t hinv hwf hs
    simp only [wfFrom, Bool.and_eq_true] at hwf
    obtain ⟨s1, hr⟩ := rowStep_ok P st t r hinv hwf.1 (hs r (by simp))
    obtain ⟨st', h'⟩ := ih s1 (step t r) (rowStep_track P st s1 t r hinv hwf.1 hr) hwf.2 (fun r' hr' => hs r' (by simp [hr']))
    exact ⟨st', by simp only [runRows, bind, Except.bind, hr]; exact h'⟩

/-- **C02, import succeeds.**  Every list of rows without surplus cells and without `*x` imports, whatever the cell parser does
    (a cell the parser rejects becomes an error token, C12). -/
theorem C02_import_succeeds (P : CellParser) (rows : List (List Str)) (hwf : wf rows = true) (hs : ∀ r ∈ rows, rowStrict r = true) :
    ∃ d, importRows P rows = .ok d := by
  obtain ⟨st, h⟩ := runRows_ok P rows Importer.init Spec.Track.init inv_init hwf hs
  exact ⟨toDoc st, by simp [importRows, h, Except.map]⟩

/-- both together: the imported tree exists and has the tracker's skeleton -/
theorem C02_tree_exists (P : CellParser) (rows : List (List Str)) (hwf : wf rows = true) (hs : ∀ r ∈ rows, rowStrict r = true) :
    ∃ d, importRows P rows = .ok d ∧ d.stages.map (·.map skelOf) = (run rows).skel := by
  obtain ⟨d, h⟩ := C02_import_succeeds P rows hwf hs
  exact ⟨d, h, C02_tree P rows d h hwf⟩

/-- the tracker's stage for a line of cells has one entry per cell -/
theorem step_cells (t : T) (c0 : Str) (cs : List Str) (hm : startsWith ['!', '!'] c0 = false) :
    ∃ l, (step t (c0 :: cs)).skel = t.skel ++ [l] ∧ l.length = (c0 :: cs).length := by
  refine ⟨(c0 :: cs).zipIdx.map (fun ci => cellSkel t t.skel.length ci.2 ci.1), ?_, by simp⟩
  simp only [step, hm, Bool.false_eq_true, if_false]

/-! non-vacuity: two spines, the first one splits, both branches and the neighbour meet `*v *v *` (only the two branches
    merge), then everything ends -/
def demoRows : List (List Str) :=
  [[['!','!','c']], [['*','*','k'], ['*','*','k']], [['*','^'], ['*']], [['a'], ['b'], ['c']], [['*','v'], ['*','v'], ['*']],
   [['d'], ['e']], [['*','-'], ['*','-']]]
example : wf demoRows = true := by decide +kernel
example : ∀ r ∈ demoRows, rowStrict r = true := by decide +kernel
example : (run demoRows).skel =
    [[(none, none)], [(some (0,0), none)], [(some (1,0), some (2,0)), (some (1,0), some (2,1))],
     [(some (2,0), some (2,0)), (some (2,1), some (2,1))],
     [(some (3,0), some (2,0)), (some (3,0), some (2,0)), (some (3,1), some (2,1))],
     [(some (4,0), some (2,0)), (some (4,1), some (2,0)), (some (4,2), some (2,1))],
     [(some (5,0), some (2,0)), (some (5,2), some (2,1))],
     [(some (6,0), some (2,0)), (some (6,1), some (2,1))]] := by decide +kernel

end KM.C02T
