/-
  C17 (document level) — the token listing enumerates every node of the tree exactly once.
-/
import KernModel.ReadOnly
import KernProofs.C02Tree
import KernProofs.C10Doc
import KernProofs.C10Text
namespace KM.C17T
open KM Importer ReadOnly
open KM.C02T
open KM.Spec.Track

/-- `ch` is listed among the children of `c` exactly when it is a node whose parent link is `c` -/
theorem mem_children (S : List (List Node)) (c ch : Coord) :
    ch ∈ Doc.children S c ↔ ∃ n, Doc.nodeAt S ch = some n ∧ n.parent = some c := by
  unfold Doc.children Doc.nodeAt
  simp only [List.mem_flatMap, List.mem_filterMap]
  constructor
  · rintro ⟨⟨st, s⟩, hst, ⟨n, i⟩, hni, hq⟩
    have h1 := (List.mem_zipIdx_iff_getElem? (x := (st, s)) (l := S)).mp hst
    have h2 := (List.mem_zipIdx_iff_getElem? (x := (n, i)) (l := st)).mp hni
    simp only at h1 h2 hq
    by_cases hp : (n.parent == some c) = true
    · simp only [hp, if_true, Option.some.injEq] at hq
      subst hq
      exact ⟨n, by simp [h1, h2], by simpa using hp⟩
    · simp [hp] at hq
  · rintro ⟨n, hn, hp⟩
    obtain ⟨s, i⟩ := ch
    simp only at hn
    cases hs : S[s]? with
    | none => rw [hs] at hn; simp at hn
    | some st =>
      rw [hs] at hn
      simp only [Option.bind] at hn
      refine ⟨(st, s), (List.mem_zipIdx_iff_getElem? (x := (st, s)) (l := S)).mpr (by simpa using hs), (n, i),
        (List.mem_zipIdx_iff_getElem? (x := (n, i)) (l := st)).mpr (by simpa using hn), ?_⟩
      simp [hp]
/-- parent links resolve and point at earlier lines -/
def TreeOk (S : List (List Node)) : Prop :=
  ∀ c n pc, Doc.nodeAt S c = some n → n.parent = some pc → pc.1 < c.1 ∧ ∃ p, Doc.nodeAt S pc = some p

/-- preorder of the subtree below `c`, to depth `k` -/
def sub (S : List (List Node)) : Nat → Coord → List Coord
  | 0, c => [c]
  | k + 1, c => c :: (Doc.children S c).flatMap (sub S k)

theorem children_later (S : List (List Node)) (hT : TreeOk S) (c ch : Coord) (h : ch ∈ Doc.children S c) :
    c.1 < ch.1 ∧ ch.1 < S.length := by
  obtain ⟨n, hn, hp⟩ := (mem_children S c ch).mp h
  exact ⟨(hT ch n c hn hp).1, nodeAt_lt S ch n hn⟩

theorem children_nil_of_last (S : List (List Node)) (hT : TreeOk S) (c : Coord) (h : S.length ≤ c.1 + 1) : Doc.children S c = [] := by
  apply List.eq_nil_iff_forall_not_mem.mpr
  intro ch hch
  have := children_later S hT c ch hch
  omega

/-- **the stack traversal lists the subtrees of the stacked nodes one after the other** -/
theorem dfs_sub (S : List (List Node)) (hT : TreeOk S) :
    ∀ (k : Nat) (l rest acc : List Coord) (fuel : Nat), (∀ c ∈ l, S.length ≤ c.1 + k + 1) →
      (l.flatMap (sub S k)).length ≤ fuel →
      dfsFuel S fuel (l ++ rest) acc = dfsFuel S (fuel - (l.flatMap (sub S k)).length) rest (acc ++ l.flatMap (sub S k)) := by
  intro k
  induction k with
  | zero =>
    intro l
    induction l with
    | nil => intro rest acc fuel _ _; simp
    | cons c l' ih =>
      intro rest acc fuel hb hf
      have hc : sub S 0 c = [c] := rfl
      rw [List.flatMap_cons, hc] at hf ⊢
      simp only [List.length_append, List.length_singleton] at hf ⊢
      cases fuel with
      | zero => omega
      | succ f =>
        simp only [List.cons_append, dfsFuel]
        rw [children_nil_of_last S hT c (by have := hb c (by simp); omega), List.nil_append]
        rw [ih rest (acc ++ [c]) f (fun c' hc' => hb c' (by simp [hc'])) (by omega)]
        congr 1
        · omega
        · simp
  | succ k ihk =>
    intro l
    induction l with
    | nil => intro rest acc fuel _ _; simp
    | cons c l' ih =>
      intro rest acc fuel hb hf
      have hc : sub S (k + 1) c = c :: (Doc.children S c).flatMap (sub S k) := rfl
      rw [List.flatMap_cons, hc] at hf ⊢
      simp only [List.length_append, List.length_cons] at hf ⊢
      cases fuel with
      | zero => omega
      | succ f =>
        simp only [List.cons_append, dfsFuel]
        have hch : ∀ ch ∈ Doc.children S c, S.length ≤ ch.1 + k + 1 := by
          intro ch hch
          have h1 := children_later S hT c ch hch
          have h2 := hb c (by simp)
          omega
        rw [ihk (Doc.children S c) (l' ++ rest) (acc ++ [c]) f hch (by omega)]
        rw [ih rest _ _ (fun c' hc' => hb c' (by simp [hc'])) (by omega)]
        congr 1
        · omega
        · simp

/-! ### no node is listed twice -/

/-- blocks that can be told apart by a label are disjoint -/
theorem nodup_flatMap_of_label {α β} [DecidableEq α] (f : α → List β) (g : β → Option α) :
    ∀ (l : List α), l.Nodup → (∀ x ∈ l, (f x).Nodup) → (∀ x ∈ l, ∀ y ∈ f x, g y = some x) → (l.flatMap f).Nodup := by
  intro l
  induction l with
  | nil => intro _ _ _; simp
  | cons a r ih =>
    intro hn hf hg
    rw [List.flatMap_cons, List.nodup_append]
    obtain ⟨ha, hr⟩ := List.nodup_cons.mp hn
    refine ⟨hf a (by simp), ih hr (fun x hx => hf x (by simp [hx])) (fun x hx y hy => hg x (by simp [hx]) y hy), ?_⟩
    intro y hy z hz hyz
    subst hyz
    obtain ⟨x, hx, hyx⟩ := List.mem_flatMap.mp hz
    have h1 := hg a (by simp) y hy
    have h2 := hg x (by simp [hx]) y hyx
    rw [h1] at h2
    cases h2
    exact ha hx

/-- the parent of a coordinate -/
def par (S : List (List Node)) (c : Coord) : Option Coord := (Doc.nodeAt S c).bind (·.parent)

/-- climbing from `x` towards the root: the node on the way whose parent is `c` -/
def climb (S : List (List Node)) (c : Coord) : Nat → Coord → Option Coord
  | 0, _ => none
  | f + 1, x =>
    match par S x with
    | none => none
    | some p => if p = c then some x else climb S c f p

theorem sub_stage (S : List (List Node)) (hT : TreeOk S) : ∀ (k : Nat) (c x : Coord), x ∈ sub S k c → c.1 ≤ x.1 := by
  intro k
  induction k with
  | zero => intro c x hx; simp [sub] at hx; subst hx; exact Nat.le_refl _
  | succ k ih =>
    intro c x hx
    simp only [sub, List.mem_cons, List.mem_flatMap] at hx
    rcases hx with rfl | ⟨ch, hch, hx⟩
    · exact Nat.le_refl _
    · have := children_later S hT c ch hch
      have := ih ch x hx
      omega

theorem climb_mono (S : List (List Node)) (_hT : TreeOk S) (c : Coord) : ∀ (f : Nat) (x a : Coord), climb S c f x = some a →
    ∀ f', f ≤ f' → climb S c f' x = some a := by
  intro f
  induction f with
  | zero => intro x a h; simp [climb] at h
  | succ f ih =>
    intro x a h f' hf'
    cases f' with
    | zero => omega
    | succ f'' =>
      simp only [climb] at h ⊢
      cases hp : par S x with
      | none => rw [hp] at h; simp at h
      | some p =>
        rw [hp] at h
        simp only at h ⊢
        by_cases hpc : p = c
        · simp only [hpc, if_true] at h ⊢; exact h
        · simp only [hpc, if_false] at h ⊢
          exact ih p a h f'' (by omega)

theorem par_earlier (S : List (List Node)) (hT : TreeOk S) (x p : Coord) (h : par S x = some p) : p.1 < x.1 := by
  unfold par at h
  cases hx : Doc.nodeAt S x with
  | none => rw [hx] at h; simp at h
  | some n =>
    rw [hx] at h
    simp only [Option.bind] at h
    exact (hT x n p hx h).1

theorem climb_le (S : List (List Node)) (hT : TreeOk S) (c : Coord) : ∀ (f : Nat) (x a : Coord), climb S c f x = some a → a.1 ≤ x.1 := by
  intro f
  induction f with
  | zero => intro x a h; simp [climb] at h
  | succ f ih =>
    intro x a h
    simp only [climb] at h
    cases hp : par S x with
    | none => rw [hp] at h; simp at h
    | some p =>
      rw [hp] at h
      simp only at h
      by_cases hpc : p = c
      · simp only [hpc, if_true, Option.some.injEq] at h; subst h; exact Nat.le_refl _
      · simp only [hpc, if_false] at h
        have := ih p a h
        have := par_earlier S hT x p hp
        omega

theorem climb_par (S : List (List Node)) (c : Coord) : ∀ (f : Nat) (x a : Coord), climb S c f x = some a → par S a = some c := by
  intro f
  induction f with
  | zero => intro x a h; simp [climb] at h
  | succ f ih =>
    intro x a h
    simp only [climb] at h
    cases hp : par S x with
    | none => rw [hp] at h; simp at h
    | some p =>
      rw [hp] at h
      simp only at h
      by_cases hpc : p = c
      · simp only [hpc, if_true, Option.some.injEq] at h; subst h; rw [hp, hpc]
      · simp only [hpc, if_false] at h
        exact ih p a h

/-- climbing to a child `g` of `a` continues to `a`, a child of `c` -/
theorem climb_compose (S : List (List Node)) (hT : TreeOk S) (c a : Coord) (ha : par S a = some c) :
    ∀ (f : Nat) (x g : Coord), climb S a f x = some g → ∀ f', f + 1 ≤ f' → climb S c f' x = some a := by
  have hac : a ≠ c := by
    intro e
    have := par_earlier S hT a c ha
    rw [e] at this
    omega
  intro f
  induction f with
  | zero => intro x g h; simp [climb] at h
  | succ f ih =>
    intro x g h f' hf'
    simp only [climb] at h
    cases hp : par S x with
    | none => rw [hp] at h; simp at h
    | some p =>
      rw [hp] at h
      simp only at h
      cases f' with
      | zero => omega
      | succ f'' =>
        simp only [climb, hp]
        by_cases hpa : p = a
        · -- x is the child of a itself: one more step reaches a
          subst hpa
          simp only [hac, if_false]
          cases f'' with
          | zero => omega
          | succ f3 => simp [climb, ha]
        · simp only [hpa, if_false] at h
          have hpc : p ≠ c := by
            intro e
            subst e
            -- g is an ancestor-or-self of c, its parent a lies before it, but c = par a lies before a
            have h1 := climb_le S hT a f p g h
            have h2 := par_earlier S hT g a (climb_par S a f p g h)
            have h3 := par_earlier S hT a p ha
            omega
          simp only [hpc, if_false]
          exact ih p g h f'' (by omega)

/-- every node of the subtree below a child `a` of `c` climbs to `a` (within the number of lines between them) -/
theorem climb_sub (S : List (List Node)) (hT : TreeOk S) :
    ∀ (k : Nat) (c a x : Coord), par S a = some c → x ∈ sub S k a → climb S c (x.1 - a.1 + 1) x = some a := by
  intro k
  induction k with
  | zero =>
    intro c a x ha hx
    simp [sub] at hx
    subst hx
    simp [climb, ha]
  | succ k ih =>
    intro c a x ha hx
    simp only [sub, List.mem_cons, List.mem_flatMap] at hx
    rcases hx with rfl | ⟨g, hg, hx⟩
    · simp [climb, ha]
    · obtain ⟨n, hn, hpg⟩ := (mem_children S a g).mp hg
      have hgpar : par S g = some a := by simp [par, hn, hpg]
      have h1 := ih a g x hgpar hx
      have hga := par_earlier S hT g a hgpar
      have hgx := sub_stage S hT k g x hx
      exact climb_compose S hT c a ha (x.1 - g.1 + 1) x g h1 (x.1 - a.1 + 1) (by omega)

/-- with any larger fuel too -/
theorem climb_sub' (S : List (List Node)) (hT : TreeOk S) (k : Nat) (c a x : Coord) (ha : par S a = some c) (hx : x ∈ sub S k a) :
    climb S c (S.length + 1) x = some a := by
  have h := climb_sub S hT k c a x ha hx
  have hx' : x.1 < S.length := by
    -- x is a node (it lies in a subtree of nodes) — only its stage matters: use the climb itself
    have := climb_le S hT c _ x a h
    cases hk : x.1 - a.1 + 1 with
    | zero => omega
    | succ f =>
      rw [hk] at h
      simp only [climb] at h
      cases hp : par S x with
      | none => rw [hp] at h; simp at h
      | some p =>
        unfold par at hp
        cases hn : Doc.nodeAt S x with
        | none => rw [hn] at hp; simp at hp
        | some n => exact nodeAt_lt S x n hn
  exact climb_mono S hT c _ x a h (S.length + 1) (by omega)

theorem block_nodup (c : Coord) (s : Nat) (st : List Node) : ∀ k,
    ((st.zipIdx k).filterMap (fun (ni : Node × Nat) => if ni.1.parent == some c then some (s, ni.2) else none)).Nodup ∧
    ∀ y ∈ (st.zipIdx k).filterMap (fun (ni : Node × Nat) => if ni.1.parent == some c then some (s, ni.2) else none), y.1 = s ∧ k ≤ y.2 := by
  induction st with
  | nil => intro k; simp
  | cons a r ih =>
    intro k
    obtain ⟨h1, h2⟩ := ih (k + 1)
    simp only [List.zipIdx_cons, List.filterMap_cons]
    by_cases hp : (a.parent == some c) = true
    · simp only [hp, if_true]
      refine ⟨List.nodup_cons.mpr ⟨?_, h1⟩, ?_⟩
      · intro hm
        have := (h2 _ hm).2
        simp only at this
        omega
      · intro y hy
        rcases List.mem_cons.mp hy with rfl | hy
        · exact ⟨rfl, Nat.le_refl _⟩
        · have := h2 y hy; exact ⟨this.1, by omega⟩
    · simp only [hp, Bool.false_eq_true, if_false]
      exact ⟨h1, fun y hy => by have := h2 y hy; exact ⟨this.1, by omega⟩⟩

theorem children_aux (c : Coord) (S : List (List Node)) : ∀ k,
    (((S.zipIdx k).flatMap (fun (sts : List Node × Nat) =>
      (sts.1.zipIdx).filterMap (fun (ni : Node × Nat) => if ni.1.parent == some c then some (sts.2, ni.2) else none)))).Nodup ∧
    ∀ y ∈ ((S.zipIdx k).flatMap (fun (sts : List Node × Nat) =>
      (sts.1.zipIdx).filterMap (fun (ni : Node × Nat) => if ni.1.parent == some c then some (sts.2, ni.2) else none))), k ≤ y.1 := by
  induction S with
  | nil => intro k; simp
  | cons st r ih =>
    intro k
    obtain ⟨h1, h2⟩ := ih (k + 1)
    obtain ⟨b1, b2⟩ := block_nodup c k st 0
    simp only [List.zipIdx_cons, List.flatMap_cons]
    refine ⟨List.nodup_append.mpr ⟨b1, h1, ?_⟩, ?_⟩
    · intro y hy z hz hyz
      subst hyz
      have := (b2 y hy).1
      have := h2 y hz
      omega
    · intro y hy
      rcases List.mem_append.mp hy with hy | hy
      · have := (b2 y hy).1; omega
      · have := h2 y hy; omega

theorem children_nodup (S : List (List Node)) (c : Coord) : (Doc.children S c).Nodup := by
  unfold Doc.children
  exact (children_aux c S 0).1

/-- **no node is listed twice** -/
theorem sub_nodup (S : List (List Node)) (hT : TreeOk S) : ∀ (k : Nat) (c : Coord), (sub S k c).Nodup := by
  intro k
  induction k with
  | zero => intro c; simp [sub]
  | succ k ih =>
    intro c
    simp only [sub]
    rw [List.nodup_cons]
    refine ⟨?_, ?_⟩
    · intro hmem
      obtain ⟨ch, hch, hx⟩ := List.mem_flatMap.mp hmem
      have := children_later S hT c ch hch
      have := sub_stage S hT k ch c hx
      omega
    · apply nodup_flatMap_of_label (sub S k) (climb S c (S.length + 1)) _ (children_nodup S c) (fun x _ => ih x)
      intro a ha y hy
      obtain ⟨n, hn, hp⟩ := (mem_children S c a).mp ha
      exact climb_sub' S hT k c a y (by simp [par, hn, hp]) hy

/-! ### every node is listed -/

theorem sub_valid (S : List (List Node)) : ∀ (k : Nat) (c x : Coord), (Doc.nodeAt S c).isSome = true → x ∈ sub S k c →
    (Doc.nodeAt S x).isSome = true := by
  intro k
  induction k with
  | zero => intro c x hc hx; simp [sub] at hx; subst hx; exact hc
  | succ k ih =>
    intro c x hc hx
    simp only [sub, List.mem_cons, List.mem_flatMap] at hx
    rcases hx with rfl | ⟨ch, hch, hx⟩
    · exact hc
    · obtain ⟨n, hn, _⟩ := (mem_children S c ch).mp hch
      exact ih ch x (by simp [hn]) hx

theorem self_mem_sub (S : List (List Node)) (k : Nat) (c : Coord) : c ∈ sub S k c := by
  cases k <;> simp [sub]

/-- a deep enough subtree listing is closed under taking children -/
theorem sub_closed (S : List (List Node)) (hT : TreeOk S) : ∀ (k : Nat) (c p : Coord), p ∈ sub S k c → S.length ≤ c.1 + k + 1 →
    ∀ ch ∈ Doc.children S p, ch ∈ sub S k c := by
  intro k
  induction k with
  | zero =>
    intro c p hp hb ch hch
    simp [sub] at hp
    subst hp
    rw [children_nil_of_last S hT p (by omega)] at hch
    simp at hch
  | succ k ih =>
    intro c p hp hb ch hch
    simp only [sub, List.mem_cons, List.mem_flatMap] at hp ⊢
    rcases hp with rfl | ⟨g, hg, hp⟩
    · exact Or.inr ⟨ch, hch, self_mem_sub S k ch⟩
    · have hg1 := children_later S hT c g hg
      exact Or.inr ⟨g, hg, ih g p hp (by omega) ch hch⟩

/-- only the root has no parent -/
def RootOnly (S : List (List Node)) : Prop := ∀ c n, Doc.nodeAt S c = some n → n.parent = none → c = (0, 0)

theorem cover (S : List (List Node)) (hT : TreeOk S) (hR : RootOnly S) (_hroot : (Doc.nodeAt S (0, 0)).isSome = true) :
    ∀ (m : Nat) (x : Coord), x.1 ≤ m → (Doc.nodeAt S x).isSome = true → x ∈ sub S S.length (0, 0) := by
  intro m
  induction m with
  | zero =>
    intro x hx hv
    obtain ⟨n, hn⟩ := Option.isSome_iff_exists.mp hv
    cases hp : n.parent with
    | none => rw [hR x n hn hp]; exact self_mem_sub S _ _
    | some pc => have := (hT x n pc hn hp).1; omega
  | succ m ih =>
    intro x hx hv
    obtain ⟨n, hn⟩ := Option.isSome_iff_exists.mp hv
    cases hp : n.parent with
    | none => rw [hR x n hn hp]; exact self_mem_sub S _ _
    | some pc =>
      obtain ⟨h1, p, hpn⟩ := hT x n pc hn hp
      have hpin := ih pc (by omega) (by simp [hpn])
      exact sub_closed S hT S.length (0, 0) pc hpin (by omega) x ((mem_children S pc x).mpr ⟨n, hn, hp⟩)

/-! ### all coordinates -/

def allCoords (S : List (List Node)) : List Coord :=
  S.zipIdx.flatMap (fun (sts : List Node × Nat) => (List.range sts.1.length).map (fun i => (sts.2, i)))

theorem mem_allCoords (S : List (List Node)) (x : Coord) : x ∈ allCoords S ↔ (Doc.nodeAt S x).isSome = true := by
  unfold allCoords Doc.nodeAt
  simp only [List.mem_flatMap, List.mem_map, List.mem_range]
  constructor
  · rintro ⟨⟨st, s⟩, hst, i, hi, rfl⟩
    have h1 := (List.mem_zipIdx_iff_getElem? (x := (st, s)) (l := S)).mp hst
    simp only at h1
    simp [h1, List.getElem?_eq_getElem hi]
  · intro h
    obtain ⟨s, i⟩ := x
    simp only at h
    cases hs : S[s]? with
    | none => rw [hs] at h; simp at h
    | some st =>
      rw [hs] at h
      simp only [Option.bind] at h
      refine ⟨(st, s), (List.mem_zipIdx_iff_getElem? (x := (st, s)) (l := S)).mpr (by simpa using hs), i, ?_, rfl⟩
      rcases Nat.lt_or_ge i st.length with h1 | h1
      · exact h1
      · rw [List.getElem?_eq_none_iff.mpr h1] at h; simp at h

theorem allCoords_nodup_aux (S : List (List Node)) : ∀ k,
    ((S.zipIdx k).flatMap (fun (sts : List Node × Nat) => (List.range sts.1.length).map (fun i => ((sts.2, i) : Coord)))).Nodup ∧
    ∀ y ∈ ((S.zipIdx k).flatMap (fun (sts : List Node × Nat) => (List.range sts.1.length).map (fun i => ((sts.2, i) : Coord)))), k ≤ y.1 := by
  induction S with
  | nil => intro k; simp
  | cons st r ih =>
    intro k
    obtain ⟨h1, h2⟩ := ih (k + 1)
    simp only [List.zipIdx_cons, List.flatMap_cons]
    have hb : ((List.range st.length).map (fun i => ((k, i) : Coord))).Nodup := by
      have hr : (List.range st.length).Nodup := List.nodup_range
      generalize List.range st.length = l at hr
      induction l with
      | nil => simp
      | cons a t iht =>
        obtain ⟨ha, ht⟩ := List.nodup_cons.mp hr
        simp only [List.map_cons]
        refine List.nodup_cons.mpr ⟨?_, iht ht⟩
        intro hm
        obtain ⟨b, hb, hbe⟩ := List.mem_map.mp hm
        simp only [Prod.mk.injEq, true_and] at hbe
        subst hbe
        exact ha hb
    refine ⟨List.nodup_append.mpr ⟨hb, h1, ?_⟩, ?_⟩
    · intro y hy z hz hyz
      subst hyz
      obtain ⟨b, _, hbe⟩ := List.mem_map.mp hy
      have := h2 y hz
      rw [← hbe] at this
      simp at this
      omega
    · intro y hy
      rcases List.mem_append.mp hy with hy | hy
      · obtain ⟨b, _, hbe⟩ := List.mem_map.mp hy
        rw [← hbe]; simp
      · have := h2 y hy; omega

theorem allCoords_nodup (S : List (List Node)) : (allCoords S).Nodup := (allCoords_nodup_aux S 0).1

theorem allCoords_length_aux (S : List (List Node)) : ∀ k,
    ((S.zipIdx k).flatMap (fun (sts : List Node × Nat) => (List.range sts.1.length).map (fun i => (sts.2, i)))).length = (S.map List.length).sum := by
  induction S with
  | nil => intro k; rfl
  | cons st r ih => intro k; simp [List.zipIdx_cons, ih (k + 1)]

theorem allCoords_length (S : List (List Node)) : (allCoords S).length = nodeCount S := allCoords_length_aux S 0

/-- **C17, every node exactly once.**  For a tree whose parent links resolve to earlier lines and whose only parentless node is the root,
    the stack traversal of `get_all_tokens` visits every node exactly once (and nothing else). -/
theorem listing_exactly_once (d : Doc) (hT : TreeOk d.stages) (hR : RootOnly d.stages) (hroot : (Doc.nodeAt d.stages (0, 0)).isSome = true) :
    (listingCoords d).Nodup ∧ ∀ x, x ∈ listingCoords d ↔ (Doc.nodeAt d.stages x).isSome = true := by
  have hnd := sub_nodup d.stages hT d.stages.length (0, 0)
  have hsubset : sub d.stages d.stages.length (0, 0) ⊆ allCoords d.stages := by
    intro x hx
    exact (mem_allCoords d.stages x).mpr (sub_valid d.stages _ _ x hroot hx)
  have hlen : (sub d.stages d.stages.length (0, 0)).length ≤ nodeCount d.stages := by
    rw [← allCoords_length]
    exact hnd.length_le_of_subset hsubset
  have hlist : listingCoords d = sub d.stages d.stages.length (0, 0) := by
    unfold listingCoords
    have := dfs_sub d.stages hT d.stages.length [(0, 0)] [] [] (nodeCount d.stages + 1) (by intro c hc; simp at hc; subst hc; omega)
      (by simp; omega)
    simp only [List.append_nil, List.flatMap_cons, List.flatMap_nil, List.nil_append] at this
    rw [this]
    cases (nodeCount d.stages + 1 - (sub d.stages d.stages.length (0, 0)).length) <;> rfl
  rw [hlist]
  refine ⟨hnd, fun x => ⟨fun hx => sub_valid d.stages _ _ x hroot hx, fun hv => cover d.stages hT hR hroot x.1 x (Nat.le_refl _) hv⟩⟩

/-! ### imported trees satisfy the hypotheses -/

/-- in the tracker's skeleton only the root has no parent, and the root is there -/
structure TInv2 (t : T) : Prop where
  none : ∀ (s i : Nat) (sk : Skel), (t.skel[s]?.bind (·[i]?)) = some sk → sk.1 = none → s = 0 ∧ i = 0
  root : t.skel[0]? = some [(Option.none, Option.none)]
  pos : 0 < t.skel.length

theorem tinv2_init : TInv2 Spec.Track.init := by
  refine ⟨?_, rfl, by simp [Spec.Track.init]⟩
  intro s i sk h _
  simp only [Spec.Track.init] at h
  cases s with
  | zero =>
    cases i with
    | zero => exact ⟨rfl, rfl⟩
    | succ i' => simp at h
  | succ s' => simp at h

theorem tinv2_step (t : T) (row : List Str) (h : TInv2 t) (hwf : rowWF t row = true) : TInv2 (Spec.Track.step t row) := by
  cases row with
  | nil => exact h
  | cons c0 cs =>
    simp only [Spec.Track.step]
    by_cases hm : startsWith ['!', '!'] c0 = true
    · simp only [hm, if_true]
      refine ⟨?_, ?_, by simp⟩
      · intro s i sk hq hn
        simp only at hq
        rw [C10T.getElem?_append_last] at hq
        by_cases h1 : s < t.skel.length
        · simp only [h1, if_true] at hq; exact h.none s i sk hq hn
        · by_cases h2 : s = t.skel.length
          · subst h2
            simp only [Nat.lt_irrefl, if_false, if_true, Option.bind] at hq
            cases i with
            | zero =>
              simp only [List.getElem?_cons_zero, Option.some.injEq] at hq
              subst hq; simp at hn
            | succ i' => simp at hq
          · simp [h1, h2] at hq
      · simp only
        rw [List.getElem?_append_left h.pos]; exact h.root
    · simp only [hm, Bool.false_eq_true, if_false]
      refine ⟨?_, ?_, by simp⟩
      · intro s i sk hq hn
        simp only at hq
        rw [C10T.getElem?_append_last] at hq
        by_cases h1 : s < t.skel.length
        · simp only [h1, if_true] at hq; exact h.none s i sk hq hn
        · by_cases h2 : s = t.skel.length
          · subst h2
            simp only [Nat.lt_irrefl, if_false, if_true, Option.bind, List.getElem?_map, List.getElem?_zipIdx] at hq
            cases hg : (c0 :: cs)[i]? with
            | none => rw [hg] at hq; simp at hq
            | some c =>
              rw [hg] at hq
              simp only [Option.map_some, Nat.zero_add, Option.some.injEq] at hq
              subst hq
              unfold cellSkel at hn
              by_cases hh : isHeaderCell c = true
              · simp [hh] at hn
              · simp only [hh, Bool.false_eq_true, if_false] at hn
                have hlt : i < t.live.length := by
                  simp only [rowWF, hm, Bool.false_or, List.all_eq_true] at hwf
                  have := hwf (c, i) ((List.mem_zipIdx_iff_getElem? (x := (c, i)) (l := c0 :: cs)).mpr (by simpa using hg))
                  simpa [hh] using this
                rw [List.getElem?_eq_getElem hlt] at hn
                simp at hn
          · simp [h1, h2] at hq
      · simp only
        rw [List.getElem?_append_left h.pos]; exact h.root

theorem tinv2_run (rows : List (List Str)) : ∀ t, TInv2 t → wfFrom t rows = true → TInv2 (rows.foldl Spec.Track.step t) := by
  induction rows with
  | nil => intro t h _; exact h
  | cons r rs ih =>
    intro t h hwf
    simp only [wfFrom, Bool.and_eq_true] at hwf
    exact ih _ (tinv2_step t r h hwf.1) hwf.2

theorem nodeAt_skel (S : List (List Node)) (c : Coord) :
    (Doc.nodeAt S c).map skelOf = ((S.map (·.map skelOf))[c.1]?).bind (·[c.2]?) := by
  unfold Doc.nodeAt
  simp only [List.getElem?_map]
  cases S[c.1]? with
  | none => rfl
  | some st =>
    simp only [Option.map_some, Option.bind, List.getElem?_map]

/-- **C17, `get_all_tokens` enumerates every cell's token exactly once.**  For every parser and every text without surplus cells that
    imports: the listing order of the model (`dfs_iterative` over the children in creation order, from the root) visits every node of the
    tree — the root, every global comment and every cell — exactly once. -/
theorem C17_listing_exactly_once (P : CellParser) (rows : List (List Str)) (d : Doc) (h : importRows P rows = .ok d) (hwf : wf rows = true) :
    (listingCoords d).Nodup ∧ ∀ x, x ∈ listingCoords d ↔ (Doc.nodeAt d.stages x).isSome = true := by
  have hsk := C02_tree P rows d h hwf
  have hI : TInv2 (run rows) := tinv2_run rows _ tinv2_init hwf
  have hT : TreeOk d.stages := by
    intro c n pc hn hp
    refine ⟨?_, C10T.parent_resolves P rows d h c pc n hn hp⟩
    have : C10T.parentAt (run rows).skel c = some pc := by
      rw [← hsk, ← C10T.nodeAt_parent, hn]; exact hp
    exact C10T.parent_earlier rows c.1 c.2 pc this
  have hR : RootOnly d.stages := by
    intro c n hn hp
    have h1 : ((run rows).skel[c.1]?).bind (·[c.2]?) = some (skelOf n) := by
      rw [← hsk, ← nodeAt_skel, hn]; rfl
    have := hI.none c.1 c.2 (skelOf n) h1 (by simpa [skelOf] using hp)
    obtain ⟨a, b⟩ := c
    simp only at this
    rw [this.1, this.2]
  have hroot : (Doc.nodeAt d.stages (0, 0)).isSome = true := by
    have h0 := hI.root
    rw [← hsk] at h0
    simp only [List.getElem?_map] at h0
    unfold Doc.nodeAt
    cases hs : d.stages[0]? with
    | none => rw [hs] at h0; simp at h0
    | some st =>
      rw [hs] at h0
      simp only [Option.map_some, Option.some.injEq] at h0
      cases st with
      | nil => simp at h0
      | cons a r => simp
  exact listing_exactly_once d hT hR hroot

/-- hence the unfiltered listing has exactly one entry per node that carries a token (every node but the root) -/
theorem C17_listing_length (P : CellParser) (rows : List (List Str)) (d : Doc) (h : importRows P rows = .ok d) (hwf : wf rows = true) :
    (listingCoords d).length = nodeCount d.stages := by
  obtain ⟨hnd, hmem⟩ := C17_listing_exactly_once P rows d h hwf
  have h1 : (listingCoords d).length ≤ (allCoords d.stages).length :=
    hnd.length_le_of_subset (fun x hx => (mem_allCoords d.stages x).mpr ((hmem x).mp hx))
  have hall : (allCoords d.stages).Nodup := allCoords_nodup d.stages
  have h2 : (allCoords d.stages).length ≤ (listingCoords d).length :=
    hall.length_le_of_subset (fun x hx => (hmem x).mpr ((mem_allCoords d.stages x).mp hx))
  rw [← allCoords_length]
  omega

/-! non-vacuity: the text of `C02Tok` (a comment-free two-spine text with a split and a join): the listing goes down the first spine,
    both branches of the split one after the other, then down the second spine -/
example : (importRows C02K.toyP C02K.toyRows).toOption.map listingCoords =
    some [(0, 0), (1, 0), (2, 0), (3, 0), (4, 0), (5, 0), (3, 1), (4, 1), (1, 1), (2, 1), (3, 2), (4, 2), (5, 1)] := by decide +kernel

end KM.C17T
