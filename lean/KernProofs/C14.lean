/-
  C14 — The read-only API is pure and history-independent.   (partial by nature; property theorems)

  The history theorem is thin: in a pure model it holds by construction.  The weight of this property
  is on `C14_write_sites` — the inventory of write sites reachable from the read-only API, regenerated
  from the source on every run, equals a reviewed allow-list — and on the snapshot histories the
  harness runs against the real code.
-/
import KernModel.ReadOnly
import KernModel.Gen.WriteSites
import KernProofs.C14Allow
namespace KM.C14
open KM ReadOnly

/-- every read-only step leaves the state (document and module constants) unchanged -/
theorem C14_step_pure (s : State) (op : Op) : (step s op).1 = s := rfl

/-- **history independence**: after any sequence of read-only calls the state is the initial one and every
    output is what the same call returns on the initial state (hence on a freshly imported copy) -/
theorem C14_pure (ops : List Op) (s : State) :
    (runOps s ops).1 = s ∧ (runOps s ops).2 = ops.map (outOf s) := by
  induction ops with
  | nil => exact ⟨rfl, rfl⟩
  | cons op r ih =>
    simp only [runOps, step, List.map_cons]
    exact ⟨ih.1, by rw [ih.2]⟩

/-- two imports of the same text are the same value: any sequence of calls gives the same outputs on both -/
theorem C14_two_imports (P : CellParser) (text : Str) (d₁ d₂ : Doc)
    (h₁ : Importer.importString P text = .ok d₁) (h₂ : Importer.importString P text = .ok d₂)
    (g : Globals) (ops₁ ops₂ : List Op) :
    (runOps (runOps ⟨g, d₁⟩ ops₁).1 ops₂).2 = ops₂.map (outOf ⟨g, d₂⟩) := by
  have : d₁ = d₂ := by rw [h₁] at h₂; exact Except.ok.inj h₂
  subst this
  rw [(C14_pure ops₁ ⟨g, d₁⟩).1]
  exact (C14_pure ops₂ ⟨g, d₁⟩).2

/-- **the code's side**: the write sites reachable from the read-only API (receiver not a local of the function)
    are exactly the reviewed ones, all of them on objects created during the call -/
theorem C14_write_sites : Gen.readOnlyWriteSites = allowList := by decide +kernel

end KM.C14
