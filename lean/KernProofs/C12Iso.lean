/-
  C12 (isolation) — replacing the text of data cells (by malformed text or anything else that is neither a `**` cell nor a spine operator)
  changes neither the spine paths nor the header table: with `C02_tokens` every other cell keeps exactly its token, and `C02_tree` gives the
  same skeleton.
-/
import KernProofs.C02Tok
namespace KM.C12I
open KM Importer
open KM.Spec.Track
open KM.C02K

/-- the two cells are the same structural cell, or both are data cells (any text) -/
def sameCell (c c' : Str) : Prop := (isHeaderCell c = true ∨ isSpineOp c = true ∨ isHeaderCell c' = true ∨ isSpineOp c' = true) → c = c'

/-- same number of cells, same kind of line (global comment or not), structural cells unchanged -/
def sameRow (r r' : List Str) : Prop :=
  r.length = r'.length ∧ (r.head?.map (startsWith ['!', '!'])) = (r'.head?.map (startsWith ['!', '!'])) ∧
  ∀ (i : Nat) (c c' : Str), r[i]? = some c → r'[i]? = some c' → sameCell c c'

theorem sameCell_hdr (c c' : Str) (h : sameCell c c') : isHeaderCell c = isHeaderCell c' := by
  by_cases h1 : isHeaderCell c = true
  · rw [← h (Or.inl h1)]
  · by_cases h2 : isHeaderCell c' = true
    · rw [h (Or.inr (Or.inr (Or.inl h2)))]
    · have a : isHeaderCell c = false := by simpa using h1
      have b : isHeaderCell c' = false := by simpa using h2
      rw [a, b]

theorem sameCell_op (c c' : Str) (h : sameCell c c') : isSpineOp c = isSpineOp c' := by
  by_cases h1 : isSpineOp c = true
  · rw [← h (Or.inr (Or.inl h1))]
  · by_cases h2 : isSpineOp c' = true
    · rw [h (Or.inr (Or.inr (Or.inr h2)))]
    · have a : isSpineOp c = false := by simpa using h1
      have b : isSpineOp c' = false := by simpa using h2
      rw [a, b]

theorem isSpineOp_join : isSpineOp ['*', 'v'] = true := by decide +kernel

theorem sameCell_isJoin (c c' : Str) (h : sameCell c c') : (c == ['*', 'v']) = (c' == ['*', 'v']) := by
  by_cases h1 : c = ['*', 'v']
  · have : c = c' := h (Or.inr (Or.inl (by rw [h1]; exact isSpineOp_join)))
    rw [← this]
  · by_cases h2 : c' = ['*', 'v']
    · have : c = c' := h (Or.inr (Or.inr (Or.inr (by rw [h2]; exact isSpineOp_join))))
      exact absurd (this.trans h2) h1
    · have a : (c == ['*', 'v']) = false := by simpa using h1
      have b : (c' == ['*', 'v']) = false := by simpa using h2
      rw [a, b]

theorem emit_congr (l l' : Option (Str × Coord)) (c c' : Str) (hdr x : Coord) (hc : sameCell c c')
    (hl : l.map (fun p => (p.1 == ['*', 'v'], p.2)) = l'.map (fun p => (p.1 == ['*', 'v'], p.2))) :
    emit l c hdr x = emit l' c' hdr x := by
  unfold emit
  rw [← sameCell_op c c' hc]
  by_cases ho : isSpineOp c = true
  · have : c = c' := hc (Or.inr (Or.inl ho))
    subst this
    simp only [ho, if_true]
    cases l with
    | none => cases l' with
      | none => rfl
      | some q => simp at hl
    | some p => cases l' with
      | none => simp at hl
      | some q =>
        simp only [Option.map_some, Option.some.injEq, Prod.mk.injEq] at hl
        obtain ⟨p1, p2⟩ := p
        obtain ⟨q1, q2⟩ := q
        simp only at hl
        simp only [hl.1, hl.2]
  · simp [ho]

theorem left_congr (row row' : List Str) (live : List Path) (i : Nat) (h : sameRow row row') :
    (left row live i).map (fun p => (p.1 == ['*', 'v'], p.2)) = (left row' live i).map (fun p => (p.1 == ['*', 'v'], p.2)) := by
  unfold left
  by_cases hi : i = 0
  · simp [hi]
  · simp only [hi, if_false]
    cases hr : row[i - 1]? with
    | none =>
      have : row'[i - 1]? = none := by
        rw [List.getElem?_eq_none_iff] at hr ⊢
        rw [← h.1]; exact hr
      rw [this]
    | some c =>
      have hlt : i - 1 < row'.length := by
        rw [← h.1]
        rcases Nat.lt_or_ge (i - 1) row.length with h1 | h1
        · exact h1
        · rw [List.getElem?_eq_none_iff.mpr h1] at hr; cases hr
      have hr' : row'[i - 1]? = some row'[i - 1] := List.getElem?_eq_getElem hlt
      rw [hr']
      cases live[i - 1]? with
      | none => rfl
      | some q =>
        simp only [Option.map_some, Option.some.injEq, Prod.mk.injEq, and_true]
        exact sameCell_isJoin c _ (h.2.2 (i - 1) c _ hr hr')

theorem cellSkel_congr (t : T) (stage i : Nat) (c c' : Str) (h : sameCell c c') : cellSkel t stage i c = cellSkel t stage i c' := by
  unfold cellSkel
  rw [sameCell_hdr c c' h]

theorem cellNext_congr (t : T) (stage : Nat) (row row' : List Str) (hrow : sameRow row row') (i : Nat) (c c' : Str) (h : sameCell c c') :
    cellNext t stage row i c = cellNext t stage row' i c' := by
  unfold cellNext
  rw [sameCell_hdr c c' h]
  by_cases hh : isHeaderCell c' = true
  · simp [hh]
  · simp only [hh, Bool.false_eq_true, if_false]
    cases t.live[i]? with
    | none => rfl
    | some p => exact emit_congr _ _ c c' p.2 (stage, i) h (left_congr row row' t.live i hrow)

theorem map_zipIdx_congr {β} (f f' : Str × Nat → β) (row row' : List Str) (hl : row.length = row'.length)
    (h : ∀ i c c', row[i]? = some c → row'[i]? = some c' → f (c, i) = f' (c', i)) :
    row.zipIdx.map f = row'.zipIdx.map f' := by
  apply List.ext_getElem?
  intro i
  simp only [List.getElem?_map, List.getElem?_zipIdx, Nat.zero_add]
  cases hr : row[i]? with
  | none =>
    have : row'[i]? = none := by
      rw [List.getElem?_eq_none_iff] at hr ⊢
      rw [← hl]; exact hr
    rw [this]; rfl
  | some c =>
    have hlt : i < row'.length := by
      rw [← hl]
      rcases Nat.lt_or_ge i row.length with h1 | h1
      · exact h1
      · rw [List.getElem?_eq_none_iff.mpr h1] at hr; cases hr
    have hr' : row'[i]? = some row'[i] := List.getElem?_eq_getElem hlt
    rw [hr']
    simp only [Option.map_some, Option.some.injEq]
    exact h i c _ hr hr'

/-- **the tracker does not read data cells** -/
theorem step_congr (t : T) (row row' : List Str) (h : sameRow row row') : step t row = step t row' := by
  cases row with
  | nil =>
    cases row' with
    | nil => rfl
    | cons c' r' => have := h.1; simp at this
  | cons c0 cs =>
    cases row' with
    | nil => have := h.1; simp at this
    | cons c0' cs' =>
      have hm : startsWith ['!', '!'] c0 = startsWith ['!', '!'] c0' := by
        have := h.2.1
        simpa using this
      simp only [step, hm]
      by_cases hc : startsWith ['!', '!'] c0' = true
      · simp [hc]
      · simp only [hc, Bool.false_eq_true, if_false]
        have h1 : (c0 :: cs).zipIdx.map (fun ci => cellSkel t t.skel.length ci.2 ci.1) = (c0' :: cs').zipIdx.map (fun ci => cellSkel t t.skel.length ci.2 ci.1) :=
          map_zipIdx_congr _ _ _ _ h.1 (fun i c c' hr hr' => cellSkel_congr t _ i c c' (h.2.2 i c c' hr hr'))
        have h2 : (c0 :: cs).zipIdx.map (fun ci => cellNext t t.skel.length (c0 :: cs) ci.2 ci.1) = (c0' :: cs').zipIdx.map (fun ci => cellNext t t.skel.length (c0' :: cs') ci.2 ci.1) :=
          map_zipIdx_congr _ _ _ _ h.1 (fun i c c' hr hr' => cellNext_congr t _ _ _ h i c c' (h.2.2 i c c' hr hr'))
        rw [List.flatMap_def, List.flatMap_def, h1, h2]

/-- texts that differ only in data cells -/
def sameShape : List (List Str) → List (List Str) → Prop
  | [], [] => True
  | r :: rs, r' :: rs' => sameRow r r' ∧ sameShape rs rs'
  | _, _ => False

/-- **C12, isolation.**  Two texts that differ only in data cells (for instance a text and the same text with some cells damaged) have
    the same spine paths, the same skeleton and the same `**` cells: by `C02_tree` their trees have the same shape, and by `C02_tokens`
    every cell gets the token its own spine's importer makes of *its own* text — a damaged cell changes no other token. -/
theorem C12_isolation (rows rows' : List (List Str)) (h : sameShape rows rows') : ∀ t, rows.foldl step t = rows'.foldl step t := by
  induction rows generalizing rows' with
  | nil =>
    cases rows' with
    | nil => intro t; rfl
    | cons r' rs' => simp [sameShape] at h
  | cons r rs ih =>
    cases rows' with
    | nil => simp [sameShape] at h
    | cons r' rs' =>
      intro t
      simp only [sameShape] at h
      simp only [List.foldl_cons]
      rw [step_congr t r r' h.1]
      exact ih rs' h.2 _

theorem C12_same_skeleton (rows rows' : List (List Str)) (h : sameShape rows rows') : (run rows).skel = (run rows').skel := by
  unfold run
  rw [C12_isolation rows rows' h]

theorem C12_same_wf (rows rows' : List (List Str)) (h : sameShape rows rows') : ∀ t, wfFrom t rows = wfFrom t rows' := by
  induction rows generalizing rows' with
  | nil =>
    cases rows' with
    | nil => intro t; rfl
    | cons r' rs' => simp [sameShape] at h
  | cons r rs ih =>
    cases rows' with
    | nil => simp [sameShape] at h
    | cons r' rs' =>
      intro t
      simp only [sameShape] at h
      simp only [wfFrom]
      rw [step_congr t r r' h.1, ih rs' h.2]
      congr 1
      -- the surplus test reads the header cells only
      cases r with
      | nil =>
        cases r' with
        | nil => rfl
        | cons c' x => have := h.1.1; simp at this
      | cons c0 cs =>
        cases r' with
        | nil => have := h.1.1; simp at this
        | cons c0' cs' =>
          have hm : startsWith ['!', '!'] c0 = startsWith ['!', '!'] c0' := by
            have := h.1.2.1
            simpa using this
          simp only [rowWF, hm]
          congr 1
          have := map_zipIdx_congr (fun ci => isHeaderCell ci.1 || decide (ci.2 < t.live.length)) (fun ci => isHeaderCell ci.1 || decide (ci.2 < t.live.length))
            (c0 :: cs) (c0' :: cs') h.1.1 (fun i c c' hr hr' => by
              show (isHeaderCell c || decide (i < t.live.length)) = (isHeaderCell c' || decide (i < t.live.length))
              rw [sameCell_hdr c c' (h.1.2.2 i c c' hr hr')])
          have e1 : ∀ (l : List (Str × Nat)) (p : Str × Nat → Bool), l.all p = (l.map p).all id := by
            intro l p; rw [List.all_map]; rfl
          rw [e1 (c0 :: cs).zipIdx, e1 (c0' :: cs').zipIdx, this]
/-- the token specification reads a data cell only for its own token: the tracker state and the table of `**` cells that
    `C02_tokens` consults (`specHdr`) are the same for both texts, line by line -/
theorem TT_step_congr (P : CellParser) (tt tt' : TT) (ht : tt.t = tt'.t) (hh : tt.hdrs = tt'.hdrs) (r r' : List Str) (h : sameRow r r') :
    (tt.step P r).t = (tt'.step P r').t ∧ (tt.step P r).hdrs = (tt'.step P r').hdrs := by
  refine ⟨by rw [TT.step_t, TT.step_t, ht, step_congr tt'.t r r' h], ?_⟩
  cases r with
  | nil =>
    cases r' with
    | nil => exact hh
    | cons c' x => have hl := h.1; simp at hl
  | cons c0 cs =>
    cases r' with
    | nil => have hl := h.1; simp at hl
    | cons c0' cs' =>
      have hm : startsWith ['!', '!'] c0 = startsWith ['!', '!'] c0' := by
        have := h.2.1
        simpa using this
      simp only [TT.step, hm]
      by_cases hc : startsWith ['!', '!'] c0' = true
      · simp [hc, hh]
      · simp only [hc, Bool.false_eq_true, if_false]
        rw [hh, ht]
        congr 1
        have := map_zipIdx_congr
          (fun ci => if isHeaderCell ci.1 then some (((tt'.t.skel.length, ci.2) : Coord), ci.1) else none)
          (fun ci => if isHeaderCell ci.1 then some (((tt'.t.skel.length, ci.2) : Coord), ci.1) else none)
          (c0 :: cs) (c0' :: cs') h.1 (fun i c c' hr hr' => by
            have hs := h.2.2 i c c' hr hr'
            show (if isHeaderCell c = true then some (((tt'.t.skel.length, i) : Coord), c) else none) = (if isHeaderCell c' = true then some (((tt'.t.skel.length, i) : Coord), c') else none)
            by_cases hd : isHeaderCell c = true
            · have : c = c' := hs (Or.inl hd)
              rw [← this]
            · have hd' : isHeaderCell c' = false := by rw [← sameCell_hdr c c' hs]; simpa using hd
              simp [hd, hd'])
        have e1 : ∀ (l : List (Str × Nat)) (f : Str × Nat → Option (Coord × Str)), l.filterMap f = (l.map f).filterMap id := by
          intro l f; rw [List.filterMap_map]; rfl
        rw [e1 (c0 :: cs).zipIdx, e1 (c0' :: cs').zipIdx, this]

theorem TT_run_congr (P : CellParser) (rows rows' : List (List Str)) (h : sameShape rows rows') :
    ∀ (tt tt' : TT), tt.t = tt'.t → tt.hdrs = tt'.hdrs →
      (rows.foldl (TT.step P) tt).t = (rows'.foldl (TT.step P) tt').t ∧ (rows.foldl (TT.step P) tt).hdrs = (rows'.foldl (TT.step P) tt').hdrs := by
  induction rows generalizing rows' with
  | nil =>
    cases rows' with
    | nil => intro tt tt' a b; exact ⟨a, b⟩
    | cons r' rs' => simp [sameShape] at h
  | cons r rs ih =>
    cases rows' with
    | nil => simp [sameShape] at h
    | cons r' rs' =>
      intro tt tt' a b
      simp only [sameShape] at h
      simp only [List.foldl_cons]
      obtain ⟨a', b'⟩ := TT_step_congr P tt tt' a b r r' h.1
      exact ih rs' h.2 _ _ a' b'

/-! non-vacuity: the text of `C02Tok` and the same text with two data cells replaced -/
example : sameShape C02K.toyRows
    [[['*', '*', 'a'], ['*', '*', 'b']], [['*', '^'], ['*']], [['x'], ['x'], ['!', 'c']], [['*', 'v'], ['*', 'v'], ['*']], [['2'], ['?', '?']]] := by
  simp only [sameShape, C02K.toyRows, and_true]
  refine ⟨?_, ?_, ?_, ?_, ?_⟩ <;> refine ⟨by simp, by decide +kernel, ?_⟩ <;> intro i c c' hr hr' <;>
    (match i with
     | 0 => simp at hr hr'; subst hr; subst hr'; intro hx; revert hx; decide +kernel
     | 1 => simp at hr hr'; (try (subst hr; subst hr'; intro hx; revert hx; decide +kernel))
     | 2 => simp at hr hr'; (try (subst hr; subst hr'; intro hx; revert hx; decide +kernel))
     | (n + 3) => simp at hr hr')

end KM.C12I
