/-
  C20 — File and command-line paths equal the in-memory API.   (partial by nature; property theorems)

  Proved: both line readers give the same rows on every text whose only line boundaries are LF / CR / CRLF
  (any other characters, final newline or not).  The file system, the locale default encoding, argparse and
  glob order live outside the model; they are exercised by real files and subprocesses in the harness.
-/
import KernModel.FileIO
import KernModel.Gen.Misc
namespace KM.C20
open KM FileIO

theorem lines_agree_aux (text : Str) (h : OnlyLfCr text) (a : Bool) (cur : Str) :
    csvLinesAux a text cur = splitLinesAux a text cur := by
  induction text generalizing a cur with
  | nil => rfl
  | cons c r ih =>
    have hr : OnlyLfCr r := fun x hx => h x (List.mem_cons_of_mem _ hx)
    have hc := h c List.mem_cons_self
    unfold csvLinesAux splitLinesAux
    by_cases h1 : (c == '\n' && a) = true
    · simp only [h1, if_true]; exact ih hr false cur
    · simp only [h1, Bool.false_eq_true, if_false]
      by_cases h2 : (c == '\n' || c == '\r') = true
      · have hb : isLineBoundary c = true := by
          simp only [Bool.or_eq_true, beq_iff_eq] at h2
          rcases h2 with rfl | rfl <;> decide
        simp only [h2, hb, if_true]
        rw [ih hr]
      · have hb : isLineBoundary c = false := by
          cases hbb : isLineBoundary c
          · rfl
          · exact absurd (hc hbb) h2
        simp only [h2, hb, Bool.false_eq_true, if_false]
        exact ih hr false (c :: cur)

/-- **C20, readers.** Loading a file equals loading its text: for every text with LF, CRLF or CR line ends,
    with or without a final newline, the rows `import_file` reads are the rows `import_string` reads. -/
theorem C20_readers (text : Str) (h : OnlyLfCr text) : csvRows text = readRows text := by
  unfold csvRows readRows splitLines
  rw [lines_agree_aux text h false []]

/-- hence both imports are the same document (for every cell parser) -/
theorem C20_same_document (P : CellParser) (text : Str) (h : OnlyLfCr text) :
    Importer.importRows P (csvRows text) = Importer.importString P text := by
  unfold Importer.importString Importer.importRows
  rw [C20_readers text h]

/-- outside that domain the two readers really differ (VT is a line boundary for `splitlines` only) -/
theorem C20_domain_is_needed : csvRows ['a', Char.ofNat 0x0b, 'b'] ≠ readRows ['a', Char.ofNat 0x0b, 'b'] := by
  decide

/-- **the converter's option set** (regenerated from the source of `kern_to_ekern` on every run): the `**kern` spines only, the bekern
    categories *with their descendants* (`TokenCategory.valid(include=BEKERN_CATEGORIES)` - the unclosed set was defect F5), the extended
    encoding; nothing else is passed, so every other option has its default -/
theorem C20_converter_options :
    Gen.kernToEkernOptions =
      [("kern_type".toList, "Encoding.eKern".toList), ("spine_types".toList, "['**kern']".toList),
       ("token_categories".toList, "TokenCategory.valid(include=BEKERN_CATEGORIES)".toList)] := by
  decide +kernel

/-! non-vacuity -/
example : OnlyLfCr ['a','\t','b','\r','\n','c','\n'] := by
  intro c hc hb
  simp at hc
  rcases hc with rfl | rfl | rfl | rfl | rfl | rfl | rfl <;> first | (exact absurd hb (by decide)) | decide
example : readRows ['a','\t','b','\r','\n','\r','\n','c'] = [[['a'],['b']], [], [['c']]] := by decide

end KM.C20
