/-
  C07 — Measure ranges partition the score.   (property theorems, about the exporter model)

  `exportParts` splits an export into the recovered preamble, the body rows (each tagged with its stage) and the
  synthetic terminator.  For `from_measure = a`, `to_measure = b` the body is exactly the rows of the stages
  `starts[a-1] .. stop(b)` where `stop(b) = starts[b]` (the barline opening measure b+1) for `b < M` and the last
  stage for `b = M`; the rows themselves are those of the full export (`rowOfStage` does not look at the range).
  The open intervals `(starts[k-1], stop(k))`, `k = 1..M`, contain every stage after the first measure start that is
  not itself a measure start exactly once (`C07_partition`).
-/
import KernModel.Export
import KernModel.ReadOnly
import KernProofs.Lemmas.ExportGrid
namespace KM.C07
open KM Export

/-! ### out-of-range pairs are rejected, not clamped -/

theorem C07_reject_negative_start (d : Doc) (o : Opts) (a : Int) (ha : o.fromM = some a) (hneg : a < 0) :
    exportString d o = .error .valueError := by
  simp [exportString, exportParts, validate, ha, hneg, bind, Except.bind, Except.map]

theorem C07_reject_end_beyond (d : Doc) (o : Opts) (b : Int) (hb : o.toM = some b) (hbig : b > d.starts.length)
    (hfrom : ∀ a, o.fromM = some a → 0 ≤ a) :
    exportString d o = .error .valueError := by
  unfold exportString exportParts validate
  cases hf : o.fromM with
  | none => simp [hb, hbig, bind, Except.bind, Except.map]
  | some a =>
    have : ¬ a < 0 := by have := hfrom a hf; omega
    simp [hb, hbig, this, bind, Except.bind, Except.map]

theorem C07_reject_end_before_start (d : Doc) (o : Opts) (a b : Int) (ha : o.fromM = some a) (hb : o.toM = some b)
    (hlt : b < a) : exportString d o = .error .valueError := by
  unfold exportString exportParts validate
  by_cases h1 : a < 0
  · simp [ha, h1, bind, Except.bind, Except.map]
  · by_cases h2 : b > d.starts.length
    · simp [ha, hb, h1, h2, bind, Except.bind, Except.map]
    · simp [ha, hb, h1, h2, hlt, bind, Except.bind, Except.map]

/-- a valid pair passes the validator -/
theorem C07_valid_pair (d : Doc) (o : Opts) (a b : Int) (ha : o.fromM = some a) (hb : o.toM = some b)
    (h : 1 ≤ a ∧ a ≤ b ∧ b ≤ d.starts.length) : validate d o = .ok () := by
  unfold validate
  have h1 : ¬ a < 0 := by omega
  have h2 : ¬ b > d.starts.length := by omega
  have h3 : ¬ b < a := by omega
  simp [ha, hb, h1, h2, h3]

/-! ### which stages a range exports -/

/-- the closing stage: the barline that opens the next measure, or the end of the score for the last measure -/
theorem C07_stop_stage (d : Doc) (o : Opts) (b : Int) (hb : o.toM = some b) (h0 : 0 ≤ b) :
    toStageOf d o = if b < d.starts.length then d.starts[b.toNat]?.getD (d.stages.length - 1) else d.stages.length - 1 := by
  simp [toStageOf, hb]

/-- the start stage of a range is the stage of the `a`-th measure start -/
theorem C07_start_stage (d : Doc) (o : Opts) (a : Int) (ha : o.fromM = some a) (h1 : 1 ≤ a) (fs : Nat) :
    startStageOf d o = .ok fs ↔ d.starts[(a - 1).toNat]? = some fs := by
  unfold startStageOf
  simp only [ha, Option.getD_some]
  have hidx : ¬ (a - 1 < 0) := by omega
  cases hs : d.starts[(a - 1).toNat]? with
  | none => simp
  | some s => simp [hidx]

/-- **C07, body.** For a valid pair the body of the export is `bodyRows` from the start stage of measure `a` to the
    closing stage of measure `b`: the rows of those stages, in order, each computed by `rowOfStage` exactly as in the
    full export (the range does not enter `rowOfStage`), all-null rows dropped. -/
theorem C07_body (d : Doc) (o : Opts) (a b : Int) (ha : o.fromM = some a) (hb : o.toM = some b)
    (h : 1 ≤ a ∧ a ≤ b ∧ b ≤ d.starts.length) (p : Parts) (hp : exportParts d o = .ok p) :
    ∃ fs, d.starts[(a - 1).toNat]? = some fs ∧ bodyRows d o fs (toStageOf d o) = .ok p.body := by
  unfold exportParts at hp
  rw [C07_valid_pair d o a b ha hb h] at hp
  have hhf : hasFrom o = true := by simp [hasFrom, ha]; omega
  simp only [bind, Except.bind, fromPart, hhf, if_true] at hp
  cases hs : startStageOf d o with
  | error e => rw [hs] at hp; cases hp
  | ok fs =>
    rw [hs] at hp
    simp only at hp
    refine ⟨fs, (C07_start_stage d o a ha h.1 fs).mp hs, ?_⟩
    cases hpre : preambleOf d o fs (toStageOf d o) with
    | error e => rw [hpre] at hp; cases hp
    | ok pre =>
      rw [hpre] at hp
      simp only [pure, Except.pure] at hp
      cases hbr : bodyRows d o fs (toStageOf d o) with
      | error e => rw [hbr] at hp; cases hp
      | ok body => rw [hbr] at hp; cases hp; rfl

/-- the rows of a stage do not depend on the measure range -/
theorem C07_rows_unmodified (d : Doc) (o o' : Opts) (st : List Node)
    (h : o.spineTypes = o'.spineTypes ∧ o.spineIds = o'.spineIds ∧ o.cats = o'.cats ∧ o.enc = o'.enc) :
    rowOfStage d o st = rowOfStage d o' st := by
  rw [rowOfStage_eq, rowOfStage_eq]
  unfold spineSelected
  rw [h.1, h.2.1, h.2.2.1, h.2.2.2]

/-! ### the partition -/

/-- measure `k` (0-based position in `starts`) spans the open stage interval `(lo, hi)` -/
def intervals : List Nat → Nat → List (Nat × Nat)
  | [], _ => []
  | [a], n => [(a, n)]
  | a :: b :: r, n => (a, b) :: intervals (b :: r) n

def inside (s : Nat) (iv : Nat × Nat) : Bool := decide (iv.1 < s) && decide (s < iv.2)

theorem intervals_lo_ge (b : Nat) (r : List Nat) (n : Nat) (h : (b :: r).Pairwise (· < ·)) :
    ∀ iv ∈ intervals (b :: r) n, b ≤ iv.1 := by
  induction r generalizing b with
  | nil => intro iv hiv; simp [intervals] at hiv; subst hiv; exact Nat.le_refl _
  | cons c r ih =>
    intro iv hiv
    simp only [intervals, List.mem_cons] at hiv
    rcases hiv with rfl | hiv
    · exact Nat.le_refl _
    · have hbc : b < c := (List.pairwise_cons.mp h).1 c List.mem_cons_self
      have := ih c (List.pairwise_cons.mp h).2 iv hiv
      omega

/-- **C07, partition.** With a strictly increasing measure index, every stage after the first measure start that is not
    itself a measure start lies in exactly one single-measure interval — so the single-measure exports together contain
    every data line of the full export exactly once. -/
theorem C07_partition (starts : List Nat) (n s : Nat) (hs : starts.Pairwise (· < ·))
    (h0 : ∃ a r, starts = a :: r ∧ a < s) (hn : s < n) (hns : s ∉ starts) :
    ((intervals starts n).filter (inside s)).length = 1 := by
  obtain ⟨a, r, rfl, ha⟩ := h0
  induction r generalizing a with
  | nil => simp [intervals, inside, ha, hn]
  | cons b r ih =>
    have hb_ne : s ≠ b := fun h => hns (by simp [h])
    have hab : a < b := (List.pairwise_cons.mp hs).1 b List.mem_cons_self
    simp only [intervals, List.filter_cons]
    by_cases hsb : s < b
    · have hin : inside s (a, b) = true := by simp [inside, ha, hsb]
      simp only [hin, if_true, List.length_cons]
      have : (intervals (b :: r) n).filter (inside s) = [] := by
        apply List.filter_eq_nil_iff.mpr
        intro iv hiv
        have := intervals_lo_ge b r n (List.pairwise_cons.mp hs).2 iv hiv
        simp [inside]; omega
      rw [this]; rfl
    · have hin : inside s (a, b) = false := by simp [inside, hsb]
      simp only [hin, Bool.false_eq_true, if_false]
      apply ih b
      all_goals first
        | exact (List.pairwise_cons.mp hs).2
        | exact fun h => hns (List.mem_cons_of_mem _ h)
        | omega

/-- iterating the document yields exactly 1..M -/
theorem C07_iterate (d : Doc) (hm : d.starts ≠ []) :
    ReadOnly.outOf ⟨ReadOnly.globals0, d⟩ .iterate = .nats (.ok ((List.range d.starts.length).map (· + 1))) := by
  have : d.starts.isEmpty = false := by simpa using hm
  simp [ReadOnly.outOf, ReadOnly.measuresCount, this, Except.map]

/-! non-vacuity -/
example : intervals [3, 7, 12] 20 = [(3, 7), (7, 12), (12, 20)] := rfl
example : ([3, 7, 12] : List Nat).Pairwise (· < ·) ∧ (∃ a r, [3, 7, 12] = a :: r ∧ a < 9) ∧ 9 < 20 ∧ 9 ∉ [3, 7, 12] :=
  ⟨by decide, ⟨3, [7, 12], rfl, by decide⟩, by decide, by decide⟩

end KM.C07
